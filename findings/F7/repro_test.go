// Copyright 2026-Present Couchbase, Inc.
//
// Use of this software is governed by the Business Source License included
// in the file licenses/BSL-Couchbase.txt.  As of the Change Date specified
// in that file, in accordance with the Business Source License, use of this
// software will be governed by the Apache License, Version 2.0, included in
// the file licenses/APL2.txt.

package auth

import (
	"errors"
	"sync/atomic"
	"testing"

	sgbucket "github.com/couchbase/sg-bucket"
	"github.com/couchbase/sync_gateway/base"
	"github.com/stretchr/testify/assert"
	"github.com/stretchr/testify/require"
)

// TestCasUpdatePrincipalSaveError ensures a non-CAS storage failure when saving the updated principal is reported to
// the caller of casUpdatePrincipal (via UpdateUserEmail and soft DeleteRole), rather than being reported as success.
func TestCasUpdatePrincipalSaveError(t *testing.T) {
	ctx := base.TestCtx(t)
	testBucket := base.GetTestBucket(t)
	defer testBucket.Close(ctx)

	leakyBucket := base.NewLeakyBucket(testBucket, base.LeakyBucketConfig{})
	leakyDataStore, ok := base.AsLeakyDataStore(leakyBucket.DefaultDataStore(ctx))
	require.True(t, ok)

	auth := NewTestAuthenticator(t, leakyDataStore, nil, DefaultAuthenticatorOptions(ctx))

	user, err := auth.NewUser("alice", "pass", nil)
	require.NoError(t, err)
	require.NoError(t, auth.Save(user))
	role, err := auth.NewRole("role1", nil)
	require.NoError(t, err)
	require.NoError(t, auth.Save(role))

	writeErr := errors.New("injected storage failure")
	var failWrites atomic.Bool
	var writeAttempts atomic.Int32
	leakyDataStore.SetWriteCasCallback(func(key string) (uint64, error) {
		if !failWrites.Load() {
			return 0, nil
		}
		writeAttempts.Add(1)
		return 0, writeErr
	})
	failWrites.Store(true)

	// UpdateUserEmail
	err = auth.UpdateUserEmail(user, "alice@example.com")
	assert.ErrorIs(t, err, writeErr, "UpdateUserEmail must report the failed principal write")
	assert.Equal(t, int32(1), writeAttempts.Load())

	// soft DeleteRole
	writeAttempts.Store(0)
	err = auth.DeleteRole(role, false, 10)
	assert.ErrorIs(t, err, writeErr, "DeleteRole must report the failed principal write")
	assert.Equal(t, int32(1), writeAttempts.Load())

	// Verify nothing was actually persisted
	failWrites.Store(false)
	storedUser, err := auth.GetUser("alice")
	require.NoError(t, err)
	require.NotNil(t, storedUser)
	assert.Equal(t, "", storedUser.Email())
	storedRole, err := auth.GetRoleIncDeleted("role1")
	require.NoError(t, err)
	require.NotNil(t, storedRole)
	assert.False(t, storedRole.IsDeleted())
}

// TestCasUpdatePrincipalCasRetriesExhausted ensures casUpdatePrincipal returns an error when every attempt to write
// the principal fails with a CAS mismatch.
func TestCasUpdatePrincipalCasRetriesExhausted(t *testing.T) {
	ctx := base.TestCtx(t)
	testBucket := base.GetTestBucket(t)
	defer testBucket.Close(ctx)

	leakyBucket := base.NewLeakyBucket(testBucket, base.LeakyBucketConfig{})
	leakyDataStore, ok := base.AsLeakyDataStore(leakyBucket.DefaultDataStore(ctx))
	require.True(t, ok)

	auth := NewTestAuthenticator(t, leakyDataStore, nil, DefaultAuthenticatorOptions(ctx))

	user, err := auth.NewUser("alice", "pass", nil)
	require.NoError(t, err)
	require.NoError(t, auth.Save(user))

	var casFailures atomic.Int32
	var failWrites atomic.Bool
	leakyDataStore.SetWriteCasCallback(func(key string) (uint64, error) {
		if !failWrites.Load() {
			return 0, nil
		}
		casFailures.Add(1)
		return 0, sgbucket.CasMismatchErr{Expected: 1, Actual: 2}
	})
	failWrites.Store(true)

	err = auth.UpdateUserEmail(user, "alice@example.com")
	assert.Error(t, err, "UpdateUserEmail must report an error when the update could not be written after all CAS retries")
	assert.Equal(t, int32(PrincipalUpdateMaxCasRetries), casFailures.Load())

	failWrites.Store(false)
	storedUser, err := auth.GetUser("alice")
	require.NoError(t, err)
	require.NotNil(t, storedUser)
	assert.Equal(t, "", storedUser.Email())
}
