// Copyright 2026-Present Couchbase, Inc.
//
// Use of this software is governed by the Business Source License included
// in the file licenses/BSL-Couchbase.txt.  As of the Change Date specified
// in that file, in accordance with the Business Source License, use of this
// software will be governed by the Apache License, Version 2.0, included in
// the file licenses/APL2.txt.

package db

import (
	"testing"

	"github.com/stretchr/testify/assert"
	"github.com/stretchr/testify/require"
)

// TestResyncRejectedDocumentGrantsNothing ensures that when resync runs a sync function that rejects a document, the
// document does not end up granting any channels, channel access or roles - including those calls the sync function
// made prior to rejecting the document.
func TestResyncRejectedDocumentGrantsNothing(t *testing.T) {
	testCases := []struct {
		name          string
		initialSyncFn string
	}{
		{
			// document makes no grants before resync; rejected resync should not add any
			name:          "no previous grants",
			initialSyncFn: `function(doc, oldDoc){ channel("public"); }`,
		},
		{
			// document makes grants before resync; rejected resync should remove them all
			name: "previous grants",
			initialSyncFn: `function(doc, oldDoc){
				channel("public");
				access(doc.owner, "ownerChannel");
				role(doc.owner, "role:admin");
			}`,
		},
	}
	for _, tc := range testCases {
		t.Run(tc.name, func(t *testing.T) {
			db, ctx := setupTestDB(t)
			defer db.Close(ctx)
			collection, ctx := GetSingleDatabaseCollectionWithUser(ctx, t, db)

			_, err := collection.UpdateSyncFun(ctx, tc.initialSyncFn)
			require.NoError(t, err)

			const docID = "doc1"
			_, _, err = collection.Put(ctx, docID, Body{"owner": "alice"})
			require.NoError(t, err)

			// New sync function makes grants and then rejects the document
			_, err = collection.UpdateSyncFun(ctx, `function(doc, oldDoc){
				channel("newChannel");
				access(doc.owner, "newOwnerChannel");
				role(doc.owner, "role:superuser");
				throw({forbidden: "documents are no longer accepted"});
			}`)
			require.NoError(t, err)

			// sanity check - the new sync function rejects a write of the same body
			_, _, err = collection.Put(ctx, "doc2", Body{"owner": "alice"})
			require.Error(t, err)

			err = collection.ResyncDocument(ctx, docID, getBucketDocument(t, collection.DatabaseCollection, docID), false)
			require.NoError(t, err)

			doc, err := collection.GetDocument(ctx, docID, DocUnmarshalAll)
			require.NoError(t, err)

			for name, ch := range doc.Channels {
				assert.NotNilf(t, ch, "rejected doc should not be in channel %q", name)
			}
			assert.Empty(t, doc.Access, "rejected doc should not grant channel access")
			assert.Empty(t, doc.RoleAccess, "rejected doc should not grant roles")
		})
	}
}
