package db

import (
	"testing"

	"github.com/couchbase/sync_gateway/testing/assert"
	"github.com/couchbase/sync_gateway/testing/require"
)

// TestAttachmentMigrationDoesNotMaskPendingExternalWrite:
// a document with pre-4.0 attachment metadata is updated directly in the bucket (SDK write), and the background
// attachment migration reaches the document before the update has been imported. The external write must still be
// imported as a new revision (child of the previous current revision) the next time the document is read through the
// gateway.
func TestAttachmentMigrationDoesNotMaskPendingExternalWrite(t *testing.T) {
	testCases := []struct {
		name         string
		runMigration bool
	}{
		{name: "control_noMigration", runMigration: false},
		{name: "migrationBeforeImport", runMigration: true},
	}
	for _, tc := range testCases {
		t.Run(tc.name, func(t *testing.T) {
			// setupTestDB: no import feed, only on-demand import
			db, ctx := setupTestDB(t)
			defer db.Close(ctx)
			collection, ctx := GetSingleDatabaseCollectionWithUser(ctx, t, db)

			key := "doc1"
			rev1, _, err := collection.Put(ctx, key, Body{
				"value":         "fromSG",
				BodyAttachments: map[string]any{"myatt": map[string]any{"content_type": "text/plain", "data": "SGVsbG8gV29ybGQh"}},
			})
			require.NoError(t, err)

			// rewrite metadata to the pre-4.0 form (attachments in _sync), as a gateway write (cas/crc32c macro expanded)
			value, _, err := collection.dataStore.GetRaw(ctx, key)
			require.NoError(t, err)
			MoveAttachmentXattrFromGlobalToSync(t, collection.dataStore, key, value, true)
			require.NotEmpty(t, GetRawSyncXattr(t, collection.dataStore, key).AttachmentsPre4dot0)
			seqBefore := GetRawSyncXattr(t, collection.dataStore, key).Sequence

			// external (SDK) write of the body, xattrs untouched
			require.NoError(t, collection.dataStore.Set(ctx, key, 0, nil, []byte(`{"value":"fromSDK"}`)))

			if tc.runMigration {
				require.NoError(t, db.AttachmentMigrationManager.Start(ctx, AttachmentMigrationOptions{}))
				RequireBackgroundManagerState(t, db.AttachmentMigrationManager, BackgroundProcessStateCompleted)
				stats := getAttachmentMigrationStats(t, db)
				t.Logf("migration stats: processed=%d changed=%d failed=%d", stats.DocsProcessed, stats.DocsChanged, stats.DocsFailed)
			}

			// read through the gateway: on-demand import must create a new revision for the external body
			doc, err := collection.GetDocument(ctx, key, DocUnmarshalAll)
			require.NoError(t, err)
			body, err := collection.Get1xBody(ctx, key)
			require.NoError(t, err)
			assert.Equal(t, "fromSDK", body["value"])

			gen, _ := ParseRevID(ctx, doc.GetRevTreeID())
			assert.Equal(t, 2, gen, "external write must be imported as a new revision; current rev is still %s", doc.GetRevTreeID())
			assert.NotEqual(t, rev1, doc.GetRevTreeID())
			if gen == 2 {
				info, err := doc.History.getInfo(doc.GetRevTreeID())
				require.NoError(t, err)
				assert.Equal(t, rev1, info.Parent)
			}
			assert.Greater(t, doc.Sequence, seqBefore, "external write must be assigned a new sequence")

			// importing the external write also moves the attachment metadata out of _sync
			assert.Empty(t, GetRawSyncXattr(t, collection.dataStore, key).AttachmentsPre4dot0)
			_, attFound := GetRawGlobalSyncAttachments(t, collection.dataStore, key)["myatt"]
			assert.True(t, attFound, "attachment metadata must be in _globalSync after import")

			// the revision the gateway itself wrote must still be the SG body, not the external one
			rev1Body, err := collection.Get1xRevBody(ctx, key, rev1, false, nil)
			if err == nil {
				assert.Equal(t, "fromSG", rev1Body["value"], "rev %s is served with the body of the un-imported external write", rev1)
			}
		})
	}
}
