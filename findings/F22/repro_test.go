// auth/rehash_stale_password_test.go -- go test -vet=off -count=1 -run 'TestRehashPassword(StalePassword|Control)|TestAuthenticateUserRehashRacesPasswordChange' ./auth/
//
// Property: a password authenticates a user only if it is the user's CURRENT password; after a
// password change the old password never authenticates again.
//
// Scenario: stored hash at cost A (=10).  "Node X" is an Authenticator configured (SetBcryptCost) with
// cost B (=11), so bcryptCostChanged is true and every successful password check triggers rehashPassword.
// "Node Y" is an Authenticator still running with cost A (=10, e.g. not yet restarted with the new
// setting).  Between node X's GetUser and node X's rehash write, the password is changed to P2 through
// node Y.  Node X's CAS write fails, casUpdatePrincipal reloads the user (hash of P2 at cost 10 != 11) and
// re-runs the rehash callback, which re-hashes the password verified against the STALE copy (P1).

package auth

import (
	"context"
	"sync/atomic"
	"testing"

	sgbucket "github.com/couchbase/sg-bucket"
	"github.com/couchbase/sync_gateway/base"
	"github.com/stretchr/testify/assert"
	"github.com/stretchr/testify/require"
	"golang.org/x/crypto/bcrypt"
)

const (
	rehashTestUser = "alice"
	rehashTestP1   = "old-password-P1"
	rehashTestP2   = "new-password-P2"
	rehashCostA    = DefaultBcryptCost     // cost of the stored hash, and of node Y
	rehashCostB    = DefaultBcryptCost + 1 // cost configured on node X
)

// newRehashTestAuthenticator returns an Authenticator with the given bcrypt cost.  When explicit is true the
// cost is applied through SetBcryptCost (the only thing that turns on rehash-on-authenticate).
func newRehashTestAuthenticator(t *testing.T, ds base.DataStore, cost int, explicit bool) *Authenticator {
	opts := DefaultAuthenticatorOptions(base.TestCtx(t))
	a := NewAuthenticator(ds, nil, opts)
	if explicit {
		require.NoError(t, a.SetBcryptCost(cost))
		require.True(t, a.bcryptCostChanged)
	} else {
		a.BcryptCost = cost
		require.False(t, a.bcryptCostChanged)
	}
	return a
}

func createRehashTestUser(t *testing.T, ds base.DataStore) {
	creator := newRehashTestAuthenticator(t, ds, rehashCostA, false)
	u, err := creator.NewUser(rehashTestUser, rehashTestP1, base.Set{})
	require.NoError(t, err)
	require.NoError(t, creator.Save(u))
	cost, err := bcrypt.Cost(u.(*userImpl).PasswordHash_)
	require.NoError(t, err)
	require.Equal(t, rehashCostA, cost)
}

// changePasswordOnOtherNode is what PUT /db/_user/alice {"password": P2} does on a node with cost A.
func changePasswordOnOtherNode(t *testing.T, ds base.DataStore) {
	nodeY := newRehashTestAuthenticator(t, ds, rehashCostA, false)
	u, err := nodeY.GetUser(rehashTestUser)
	require.NoError(t, err)
	require.NotNil(t, u)
	require.NoError(t, u.SetPassword(rehashTestP2))
	require.NoError(t, nodeY.Save(u))
}

// requireCurrentPassword checks, with a fresh authenticator that never rehashes and without the process-wide
// compareHashAndPassword cache, which password the persisted user accepts.
func requireCurrentPassword(t *testing.T, ds base.DataStore, valid, invalid string) {
	fresh := newRehashTestAuthenticator(t, ds, rehashCostA, false)
	u, err := fresh.GetUser(rehashTestUser)
	require.NoError(t, err)
	require.NotNil(t, u)
	hash := u.(*userImpl).PasswordHash_
	assert.NoError(t, bcrypt.CompareHashAndPassword(hash, []byte(valid)), "stored hash must match %q", valid)
	assert.Error(t, bcrypt.CompareHashAndPassword(hash, []byte(invalid)), "stored hash must NOT match %q", invalid)

	// and through the public path
	okUser, err := fresh.AuthenticateUser(rehashTestUser, valid)
	require.NoError(t, err)
	assert.True(t, okUser != nil, "%q must authenticate", valid)
	badUser, err := fresh.AuthenticateUser(rehashTestUser, invalid)
	require.NoError(t, err)
	assert.True(t, badUser == nil, "%q must not authenticate", invalid)
}

// Control: no concurrent change -> rehash happens, P1 still authenticates, cost is updated.
func TestRehashPasswordControl(t *testing.T) {
	ctx := base.TestCtx(t)
	bucket := base.GetTestBucket(t)
	defer bucket.Close(ctx)
	ds := bucket.GetSingleDataStore()
	createRehashTestUser(t, ds)

	nodeX := newRehashTestAuthenticator(t, ds, rehashCostB, true)
	u, err := nodeX.GetUser(rehashTestUser)
	require.NoError(t, err)
	require.NoError(t, nodeX.rehashPassword(u, rehashTestP1))

	stored, err := nodeX.GetUser(rehashTestUser)
	require.NoError(t, err)
	cost, err := bcrypt.Cost(stored.(*userImpl).PasswordHash_)
	require.NoError(t, err)
	assert.Equal(t, rehashCostB, cost)
	requireCurrentPassword(t, ds, rehashTestP1, "wrong")
}

// Direct call of rehashPassword with a stale user object.
func TestRehashPasswordStalePassword(t *testing.T) {
	ctx := base.TestCtx(t)
	bucket := base.GetTestBucket(t)
	defer bucket.Close(ctx)
	ds := bucket.GetSingleDataStore()
	createRehashTestUser(t, ds)

	nodeX := newRehashTestAuthenticator(t, ds, rehashCostB, true)

	// the authenticating request on node X loads the user and verifies P1 against it ...
	staleUser, err := nodeX.GetUser(rehashTestUser)
	require.NoError(t, err)
	require.NoError(t, bcrypt.CompareHashAndPassword(staleUser.(*userImpl).PasswordHash_, []byte(rehashTestP1)))

	// ... meanwhile the password is changed to P2 through node Y ...
	changePasswordOnOtherNode(t, ds)

	// ... and node X continues with the rehash of the password it verified.
	require.NoError(t, nodeX.rehashPassword(staleUser, rehashTestP1))

	requireCurrentPassword(t, ds, rehashTestP2, rehashTestP1)
}

// writeHookDataStore runs hook once, immediately before the first WriteCas of the given key.
type writeHookDataStore struct {
	base.DataStore
	key  string
	hook func()
	done atomic.Bool
}

func (w *writeHookDataStore) WriteCas(ctx context.Context, k string, exp uint32, cas uint64, v any, opt sgbucket.WriteOptions) (uint64, error) {
	if k == w.key && w.done.CompareAndSwap(false, true) {
		w.hook()
	}
	return w.DataStore.WriteCas(ctx, k, exp, cas, v, opt)
}

// Public path: AuthenticateUser(alice, P1) on node X, with the password change landing between node X's read of
// the user and its rehash write.
func TestAuthenticateUserRehashRacesPasswordChange(t *testing.T) {
	ctx := base.TestCtx(t)
	bucket := base.GetTestBucket(t)
	defer bucket.Close(ctx)
	ds := bucket.GetSingleDataStore()
	createRehashTestUser(t, ds)

	hooked := &writeHookDataStore{DataStore: ds}
	nodeX := newRehashTestAuthenticator(t, hooked, rehashCostB, true)
	hooked.key = nodeX.DocIDForUser(rehashTestUser)
	hooked.hook = func() { changePasswordOnOtherNode(t, ds) }

	// P1 was the current password when the request was read, so the request itself may succeed.
	_, err := nodeX.AuthenticateUser(rehashTestUser, rehashTestP1)
	require.NoError(t, err)
	require.True(t, hooked.done.Load(), "hook did not run: rehash write never happened")

	// but the password change to P2 must stick.
	requireCurrentPassword(t, ds, rehashTestP2, rehashTestP1)
}
