// rest/access_invalidation_repro_test.go -- go test -vet=off -count=1 -v -run 'TestPurgeGrantingDoc|TestPostCommitErrorExit' ./rest/
//
// Suspicion 1 (purge does not invalidate grantees): TestPurgeGrantingDocRevokesChannelAccess, TestPurgeGrantingDocRevokesRole,
// TestPurgeGrantingDocRevocationOnChangesFeed. The "delete" subtests are the controls.
// Suspicion 2 (error exits between the committed write and MarkPrincipalsChanged): TestPostCommitErrorExitSkipsInvalidation
// (needs a crafted, cyclic revision tree).
//
// Copyright 2026-Present Couchbase, Inc.
//
// Use of this software is governed by the Business Source License included
// in the file licenses/BSL-Couchbase.txt.  As of the Change Date specified
// in that file, in accordance with the Business Source License, use of this
// software will be governed by the Apache License, Version 2.0, included in
// the file licenses/APL2.txt.

package rest

import (
	"fmt"
	"net/http"
	"strings"
	"testing"

	"github.com/couchbase/sync_gateway/base"
	"github.com/couchbase/sync_gateway/testing/assert"
	"github.com/couchbase/sync_gateway/testing/require"
)

const purgeGrantSyncFn = `function(doc){ channel(doc.channels); if (doc.grant) { access(doc.grant.user, doc.grant.channel); } if (doc.rolegrant) { role(doc.rolegrant.user, doc.rolegrant.role); } }`

// TestPurgeGrantingDocRevokesChannelAccess checks that a channel that was only granted by an access() call of a
// document disappears from the user's effective channels when that document is removed, both when it is removed by
// a tombstone (DELETE, control) and when it is removed through the admin _purge endpoint.
func TestPurgeGrantingDocRevokesChannelAccess(t *testing.T) {
	for _, removal := range []string{"delete", "purge"} {
		t.Run(removal, func(t *testing.T) {
			rt := NewRestTester(t, &RestTesterConfig{SyncFn: purgeGrantSyncFn})
			defer rt.Close()

			rt.CreateUser("alice", nil)

			_ = rt.PutDoc("doc1", `{"channels":["X"]}`)

			// no access yet
			resp := rt.SendUserRequest(http.MethodGet, "/{{.keyspace}}/doc1", "", "alice")
			RequireStatus(t, resp, http.StatusForbidden)

			grantVersion := rt.PutDoc("grantDoc", `{"channels":["G"], "grant":{"user":"alice","channel":"X"}}`)

			// alice gets X from grantDoc; this request also recomputes and persists her channel set
			resp = rt.SendUserRequest(http.MethodGet, "/{{.keyspace}}/doc1", "", "alice")
			RequireStatus(t, resp, http.StatusOK)

			switch removal {
			case "delete":
				rt.DeleteDoc("grantDoc", grantVersion)
			case "purge":
				rt.PurgeDoc("grantDoc")
			}
			rt.RequireDocNotFound("grantDoc")

			// the only grant of X is gone
			resp = rt.SendUserRequest(http.MethodGet, "/{{.keyspace}}/doc1", "", "alice")
			assert.Equal(t, http.StatusForbidden, resp.Code, "alice still reads doc1 after %s of the only document granting her channel X: %s", removal, resp.BodyString())

			// what the admin API reports as her effective channels
			userResp := rt.SendAdminRequest(http.MethodGet, "/{{.db}}/_user/alice", "")
			RequireStatus(t, userResp, http.StatusOK)
			assert.NotContains(t, userResp.BodyString(), `"X"`, "admin API still lists channel X for alice after %s", removal)
		})
	}
}

// TestPurgeGrantingDocRevokesRole is the same for a role() grant: the role (and the channel the role carries) must go
// away when the only document granting the role is purged.
func TestPurgeGrantingDocRevokesRole(t *testing.T) {
	for _, removal := range []string{"delete", "purge"} {
		t.Run(removal, func(t *testing.T) {
			rt := NewRestTester(t, &RestTesterConfig{SyncFn: purgeGrantSyncFn})
			defer rt.Close()

			rt.CreateRole("readers", []string{"X"})
			rt.CreateUser("alice", nil)

			_ = rt.PutDoc("doc1", `{"channels":["X"]}`)
			resp := rt.SendUserRequest(http.MethodGet, "/{{.keyspace}}/doc1", "", "alice")
			RequireStatus(t, resp, http.StatusForbidden)

			grantVersion := rt.PutDoc("grantDoc", `{"channels":["G"], "rolegrant":{"user":"alice","role":"role:readers"}}`)
			resp = rt.SendUserRequest(http.MethodGet, "/{{.keyspace}}/doc1", "", "alice")
			RequireStatus(t, resp, http.StatusOK)

			switch removal {
			case "delete":
				rt.DeleteDoc("grantDoc", grantVersion)
			case "purge":
				rt.PurgeDoc("grantDoc")
			}
			rt.RequireDocNotFound("grantDoc")

			resp = rt.SendUserRequest(http.MethodGet, "/{{.keyspace}}/doc1", "", "alice")
			assert.Equal(t, http.StatusForbidden, resp.Code, "alice still reads doc1 after %s of the only document granting her role readers: %s", removal, resp.BodyString())
			require.NotContains(t, rt.GetUserAdminAPI("alice").RoleNames, "readers")
		})
	}
}

// TestPurgeGrantingDocRevocationOnChangesFeed checks that a client that is fully caught up when the granting document
// is removed is told about the revocation of the documents it had pulled through the granted channel.
func TestPurgeGrantingDocRevocationOnChangesFeed(t *testing.T) {
	for _, removal := range []string{"delete", "purge"} {
		t.Run(removal, func(t *testing.T) {
			rt := NewRestTester(t, &RestTesterConfig{SyncFn: purgeGrantSyncFn})
			defer rt.Close()

			rt.CreateUser("alice", nil)
			_ = rt.PutDoc("doc1", `{"channels":["X"]}`)
			grantVersion := rt.PutDoc("grantDoc", `{"channels":["G"], "grant":{"user":"alice","channel":"X"}}`)
			rt.WaitForPendingChanges()

			// the user doc and doc1
			changes := rt.WaitForChanges(2, "/{{.keyspace}}/_changes?since=0&revocations=true", "alice", false)
			changes.RequireDocIDs(t, []string{"_user/alice", "doc1"})
			assert.False(t, changes.Results[1].Revoked)

			switch removal {
			case "delete":
				rt.DeleteDoc("grantDoc", grantVersion)
			case "purge":
				rt.PurgeDoc("grantDoc")
			}
			rt.WaitForPendingChanges()

			changes = rt.WaitForChanges(1, fmt.Sprintf("/{{.keyspace}}/_changes?since=%s&revocations=true", changes.Last_Seq), "alice", false)
			changes.RequireDocIDs(t, []string{"doc1"})
			assert.True(t, changes.Results[0].Revoked, "doc1 should be revoked for alice after %s of the granting document", removal)
		})
	}
}

// TestPostCommitErrorExitSkipsInvalidation drives updateAndReturnDoc into the `getHistory` error return that sits
// between the successful bucket write and MarkPrincipalsChanged. getHistory only fails on a cycle in the revision tree,
// which no Sync Gateway write path produces, so the stored revision tree is crafted: 1-x and 2-y are made each other's
// parent underneath the (untouched) leaf 3-z. The update that removes the access() grant is then committed, the request
// fails with a 500, and the grantee is never invalidated.
func TestPostCommitErrorExitSkipsInvalidation(t *testing.T) {
	rt := NewRestTester(t, &RestTesterConfig{SyncFn: `function(doc){ channel(doc.channels); if (doc.grant) { access(doc.grant.user, doc.grant.channel); } }`})
	defer rt.Close()
	ctx := rt.Context()

	rt.CreateUser("alice", nil)
	_ = rt.PutDoc("doc1", `{"channels":["X"]}`)

	const grant = `"grant":{"user":"alice","channel":"X"}`
	v1 := rt.PutDoc("grantDoc", `{"n":1,`+grant+`}`)
	v2 := rt.UpdateDoc("grantDoc", v1, `{"n":2,`+grant+`}`)
	v3 := rt.UpdateDoc("grantDoc", v2, `{"n":3,`+grant+`}`)

	resp := rt.SendUserRequest(http.MethodGet, "/{{.keyspace}}/doc1", "", "alice")
	RequireStatus(t, resp, http.StatusOK)

	// craft a cycle 1-x <-> 2-y below the leaf 3-z
	ds := rt.GetSingleDataStore()
	xattrs, _, err := ds.GetXattrs(ctx, "grantDoc", []string{base.SyncXattrName})
	require.NoError(t, err)
	var syncData map[string]any
	require.NoError(t, base.JSONUnmarshal(xattrs[base.SyncXattrName], &syncData))
	history := syncData["history"].(map[string]any)
	revs := history["revs"].([]any)
	parents := history["parents"].([]any)
	idx1, idx2 := -1, -1
	for i, r := range revs {
		switch {
		case strings.HasPrefix(r.(string), "1-"):
			idx1 = i
		case strings.HasPrefix(r.(string), "2-"):
			idx2 = i
		}
	}
	require.NotEqual(t, -1, idx1)
	require.NotEqual(t, -1, idx2)
	parents[idx1] = idx2
	crafted, err := base.JSONMarshal(syncData)
	require.NoError(t, err)
	_, err = ds.SetXattrs(ctx, "grantDoc", map[string][]byte{base.SyncXattrName: crafted})
	require.NoError(t, err)

	// update that drops the grant
	resp = rt.SendAdminRequest(http.MethodPut, "/{{.keyspace}}/grantDoc?rev="+v3.RevTreeID, `{"n":4}`)
	t.Logf("PUT of the revision removing the grant: %d %s", resp.Code, resp.BodyString())

	// was it committed?
	raw := rt.SendAdminRequest(http.MethodGet, "/{{.keyspace}}/_raw/grantDoc", "")
	t.Logf("_raw after the PUT: %d %s", raw.Code, raw.BodyString())
	body, _, err := ds.GetRaw(ctx, "grantDoc")
	require.NoError(t, err)
	t.Logf("stored body after the PUT: %s", body)
	committed := strings.Contains(string(body), `"n":4`)

	resp = rt.SendUserRequest(http.MethodGet, "/{{.keyspace}}/doc1", "", "alice")
	if committed {
		assert.Equal(t, http.StatusForbidden, resp.Code, "the revision without the grant is the stored current revision, but alice still reads doc1: %s", resp.BodyString())
	} else {
		assert.Equal(t, http.StatusOK, resp.Code)
	}
}
