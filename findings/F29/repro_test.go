package db

import (
	"context"
	"testing"

	"github.com/couchbase/sync_gateway/base"
	"github.com/couchbase/sync_gateway/channels"
	"github.com/stretchr/testify/assert"
	"github.com/stretchr/testify/require"
)

// TestResyncRecomputesChannelsOfNonWinningLeaf: a conflicted document whose NON-winning leaf is the only revision
// affected by a sync function change must still be rewritten by resync, so that access to that revision
// (GET /db/doc?rev=<losing leaf>) is decided by the channels the new sync function assigns.
//
// Belongs at db/resync_losing_leaf_repro_test.go
func TestResyncRecomputesChannelsOfNonWinningLeaf(t *testing.T) {
	const (
		docID     = "conflicted"
		oldSyncFn = `function(doc) { channel("A"); }`
		newSyncFn = `function(doc) { if (doc.kind == "secret") { channel("B"); } else { channel("A"); } }`
	)

	// writeRevs creates:   1-a
	//                     /   \
	//                   2-a   2-b      2-b is the winner, 2-a the losing leaf whose body is {"kind":"secret"}
	// 2-a is pushed after 2-b, so it never was the winning revision and its channels are stored in the revision tree.
	writeRevs := func(t *testing.T, ctx context.Context, collection *DatabaseCollectionWithUser) {
		_, _, err := collection.PutExistingRevWithBody(ctx, docID, Body{"kind": "plain", "v": "1a"}, []string{"1-a"}, false, ExistingVersionWithUpdateToHLV)
		require.NoError(t, err)
		_, _, err = collection.PutExistingRevWithBody(ctx, docID, Body{"kind": "plain", "v": "2b"}, []string{"2-b", "1-a"}, false, ExistingVersionWithUpdateToHLV)
		require.NoError(t, err)
		_, _, err = collection.PutExistingRevWithBody(ctx, docID, Body{"kind": "secret", "v": "2a"}, []string{"2-a", "1-a"}, false, ExistingVersionWithUpdateToHLV)
		require.NoError(t, err)
		doc, err := collection.GetDocument(ctx, docID, DocUnmarshalAll)
		require.NoError(t, err)
		require.Equal(t, "2-b", doc.GetRevTreeID())
		require.ElementsMatch(t, []string{"2-a", "2-b"}, doc.History.GetLeaves())
	}

	// canRead reports whether a user with exactly the given channels gets the body of docID at revID.
	canRead := func(t *testing.T, ctx context.Context, db *Database, username string, chans string, revID string) bool {
		db.FlushRevisionCacheForTest()
		collection, ctx := GetSingleDatabaseCollectionWithUser(ctx, t, db)
		a := db.Authenticator(ctx)
		user, err := a.GetUser(username)
		require.NoError(t, err)
		if user == nil {
			user, err = a.NewUser(username, "letmein", channels.BaseSetOf(t, chans))
			require.NoError(t, err)
			require.NoError(t, a.Save(user))
		}
		collection.user = user
		body, err := collection.Get1xRevBody(ctx, docID, revID, false, nil)
		if err != nil {
			return false
		}
		_, hasBody := body["kind"]
		return hasBody
	}

	// Reference: a database that used the new sync function from the beginning.
	t.Run("reference database with the new function from the start", func(t *testing.T) {
		db, ctx := setupTestDBAllowConflicts(t)
		defer db.Close(ctx)
		collection, ctx := GetSingleDatabaseCollectionWithUser(ctx, t, db)
		_, err := collection.UpdateSyncFun(ctx, newSyncFn)
		require.NoError(t, err)
		writeRevs(t, ctx, collection)

		assert.True(t, canRead(t, ctx, db, "alice", "A", "2-b"))
		assert.False(t, canRead(t, ctx, db, "alice", "A", "2-a"))
		assert.True(t, canRead(t, ctx, db, "bob", "B", "2-a"))
		assert.False(t, canRead(t, ctx, db, "bob", "B", "2-b"))
	})

	t.Run("resynced database", func(t *testing.T) {
		db, ctx := setupTestDBAllowConflicts(t)
		defer db.Close(ctx)
		collection, ctx := GetSingleDatabaseCollectionWithUser(ctx, t, db)
		_, err := collection.UpdateSyncFun(ctx, oldSyncFn)
		require.NoError(t, err)
		writeRevs(t, ctx, collection)

		// under the old function both leaves are in channel A
		require.True(t, canRead(t, ctx, db, "alice", "A", "2-a"))
		require.True(t, canRead(t, ctx, db, "alice", "A", "2-b"))
		require.False(t, canRead(t, ctx, db, "bob", "B", "2-a"))

		changed, err := collection.UpdateSyncFun(ctx, newSyncFn)
		require.NoError(t, err)
		require.True(t, changed)

		require.NoError(t, db.ResyncManager.Start(ctx, ResyncOptions{Collections: base.NewCollectionNames()}))
		stats := waitForResyncState(t, db, BackgroundProcessStateCompleted)
		require.Equal(t, int64(0), stats.DocsErrored)

		// what is on disk for the losing leaf
		doc, err := collection.GetDocument(ctx, docID, DocUnmarshalAll)
		require.NoError(t, err)
		losingLeafChannels, ok := doc.channelsForRevTreeID("2-a")
		require.True(t, ok)
		assert.Equal(t, base.SetOf("B"), losingLeafChannels, "channels persisted for the losing leaf after resync")

		// user visible: same answers as the reference database
		assert.True(t, canRead(t, ctx, db, "alice", "A", "2-b"), "alice (A) reads winning rev")
		assert.False(t, canRead(t, ctx, db, "alice", "A", "2-a"), "alice (A) must no longer read the losing leaf, the new function puts it in B only")
		assert.True(t, canRead(t, ctx, db, "bob", "B", "2-a"), "bob (B) must be able to read the losing leaf, the new function puts it in B")
		assert.False(t, canRead(t, ctx, db, "bob", "B", "2-b"), "bob (B) has no access to winning rev")

		// idempotence: a second resync changes nothing
		require.NoError(t, db.ResyncManager.Start(ctx, ResyncOptions{Collections: base.NewCollectionNames()}))
		stats = waitForResyncState(t, db, BackgroundProcessStateCompleted)
		assert.Equal(t, int64(0), stats.DocsChanged, "second resync must not change anything")
	})
}
