package db

import (
	"context"
	"errors"
	"sync/atomic"
	"testing"
	"time"

	sgbucket "github.com/couchbase/sg-bucket"
	"github.com/couchbase/sync_gateway/base"
	"github.com/stretchr/testify/assert"
	"github.com/stretchr/testify/require"
)

var errSimulatedProcessDeath = errors.New("simulated process death")

// deadProcessStatusStore wraps the data store a BackgroundManager uses for its status and heartbeat documents. Once
// dead is set, no write issued by that manager reaches the bucket anymore, which is what the bucket observes when the
// Sync Gateway process that owns the manager has died.
type deadProcessStatusStore struct {
	base.DataStore
	dead *atomic.Bool
}

func (s *deadProcessStatusStore) Set(ctx context.Context, k string, exp uint32, opts *sgbucket.UpsertOptions, v any) error {
	if s.dead.Load() {
		return errSimulatedProcessDeath
	}
	return s.DataStore.Set(ctx, k, exp, opts, v)
}

func (s *deadProcessStatusStore) Delete(ctx context.Context, k string) error {
	if s.dead.Load() {
		return errSimulatedProcessDeath
	}
	return s.DataStore.Delete(ctx, k)
}

func (s *deadProcessStatusStore) WriteCas(ctx context.Context, k string, exp uint32, cas uint64, v any, opt sgbucket.WriteOptions) (uint64, error) {
	if s.dead.Load() {
		return 0, errSimulatedProcessDeath
	}
	return s.DataStore.WriteCas(ctx, k, exp, cas, v, opt)
}

func (s *deadProcessStatusStore) WriteSubDoc(ctx context.Context, k string, subdocKey string, cas uint64, value []byte) (uint64, error) {
	if s.dead.Load() {
		return 0, errSimulatedProcessDeath
	}
	return s.DataStore.WriteSubDoc(ctx, k, subdocKey, cas, value)
}

func (s *deadProcessStatusStore) Update(ctx context.Context, k string, exp uint32, callback sgbucket.UpdateFunc) (uint64, error) {
	if s.dead.Load() {
		return 0, errSimulatedProcessDeath
	}
	return s.DataStore.Update(ctx, k, exp, callback)
}

func (s *deadProcessStatusStore) GetAndTouchRaw(ctx context.Context, k string, exp uint32) ([]byte, uint64, error) {
	if s.dead.Load() {
		return nil, 0, errSimulatedProcessDeath
	}
	return s.DataStore.GetAndTouchRaw(ctx, k, exp)
}

// TestResyncResumeAfterCrashInvalidatesPrincipals: a resync that is reported 'completed' must leave every user with
// the access the new sync function grants, also when the process that started the resync died after rewriting
// documents but before (a) its next periodic status write and (b) the end-of-run principal invalidation, and the run
// was finished by a restarted process.
//
// Belongs at db/resync_resume_crash_repro_test.go
func TestResyncResumeAfterCrashInvalidatesPrincipals(t *testing.T) {
	const (
		// the old function lets a document grant channel access, the new one does not
		oldSyncFn = `function(doc) { channel(doc.channel); if (doc.type == "grant") { access(doc.owner, doc.grant); } }`
		newSyncFn = `function(doc) { channel(doc.channel); }`
	)

	canReadSecret := func(t *testing.T, ctx context.Context, db *Database) bool {
		collection, ctx := GetSingleDatabaseCollectionWithUser(ctx, t, db)
		user, err := db.Authenticator(ctx).GetUser("alice")
		require.NoError(t, err)
		require.NotNil(t, user)
		collection.user = user
		_, err = collection.Get1xRevBody(ctx, "secretdoc", "", false, nil)
		return err == nil
	}

	seed := func(t *testing.T, ctx context.Context, db *Database) {
		collection, ctx := GetSingleDatabaseCollectionWithUser(ctx, t, db)
		_, err := collection.UpdateSyncFun(ctx, oldSyncFn)
		require.NoError(t, err)
		a := db.Authenticator(ctx)
		alice, err := a.NewUser("alice", "letmein", nil)
		require.NoError(t, err)
		require.NoError(t, a.Save(alice))
		_, _, err = collection.Put(ctx, "secretdoc", Body{"channel": "secret"})
		require.NoError(t, err)
		_, _, err = collection.Put(ctx, "grant1", Body{"type": "grant", "owner": "alice", "grant": "secret", "channel": "public"})
		require.NoError(t, err)
		for _, id := range []string{"other1", "other2", "other3"} {
			_, _, err = collection.Put(ctx, id, Body{"channel": "public"})
			require.NoError(t, err)
		}
		// alice's computed channels (including the grant from grant1) are now computed and stored in her user document
		require.True(t, canReadSecret(t, ctx, db), "alice is granted access to secretdoc by the old sync function")

		changed, err := collection.UpdateSyncFun(ctx, newSyncFn)
		require.NoError(t, err)
		require.True(t, changed)
	}

	resyncOptions := ResyncOptions{Collections: base.NewCollectionNames()}

	t.Run("control: uninterrupted resync revokes the access", func(t *testing.T) {
		db, ctx := setupTestDB(t)
		defer db.Close(ctx)
		seed(t, ctx, db)
		require.NoError(t, db.ResyncManager.Start(ctx, resyncOptions))
		stats := waitForResyncState(t, db, BackgroundProcessStateCompleted)
		require.Equal(t, int64(1), stats.DocsChanged)
		assert.False(t, canReadSecret(t, ctx, db), "the new sync function does not grant alice access to channel secret")
	})

	for _, statusPolledBeforeRestart := range []bool{false, true} {
		name := "process dies before invalidation, restarted process finishes the resync"
		if statusPolledBeforeRestart {
			name += " (GET _resync status polled first)"
		}
		t.Run(name, func(t *testing.T) {
			ctx := base.TestCtx(t)
			bucket := base.GetTestBucket(t)
			defer bucket.Close(ctx)

			// ---------------- process 1 ----------------
			var process1Dead atomic.Bool
			var holdRewrites atomic.Bool
			gate := make(chan struct{})
			leakyBucket := base.NewLeakyBucket(bucket.NoCloseClone(), base.LeakyBucketConfig{
				// holds back resync's document rewrites until the test has looked at the persisted status
				WriteUpdateWithXattrsCallback: func(string) {
					if holdRewrites.Load() {
						<-gate
					}
				},
				// process 1 dies before it can invalidate the principals
				QueryCallback: func(_, viewName string, _ map[string]any) error {
					if process1Dead.Load() && viewName == ViewPrincipals {
						return errSimulatedProcessDeath
					}
					return nil
				},
				N1QLQueryCallback: func(_ context.Context, statement string, _ map[string]any, _ base.ConsistencyMode, _ bool) error {
					if process1Dead.Load() {
						return errSimulatedProcessDeath
					}
					return nil
				},
			})
			db1, ctx1 := SetupTestDBForBucketWithOptions(t, leakyBucket, DatabaseContextOptions{})
			if db1.useShardedDCP() {
				db1.Close(ctx1)
				t.Skip("test is written for the single node resync manager")
			}
			seed(t, ctx1, db1)
			holdRewrites.Store(true)

			statusStore := db1.ResyncManager.clusterAwareOptions.metadataStore
			statusDocID := db1.ResyncManager.clusterAwareOptions.StatusDocID()
			heartbeatDocID := db1.ResyncManager.clusterAwareOptions.HeartbeatDocID()
			db1.ResyncManager.clusterAwareOptions.metadataStore = &deadProcessStatusStore{DataStore: statusStore, dead: &process1Dead}

			// Start writes the initial status document synchronously (BackgroundManager.start), afterwards the status is
			// only persisted every BackgroundManagerStatusUpdateIntervalSecs (1s) and when Run returns.
			require.NoError(t, db1.ResyncManager.Start(ctx1, resyncOptions))

			// The process dies less than one status interval after Start: nothing it does from here on is persisted to the
			// status document, and it never gets to run the principal invalidation.
			process1Dead.Store(true)
			var persisted ResyncManagerStatusDocDCP
			rawStatusDoc, _, err := statusStore.GetRaw(ctx1, statusDocID)
			require.NoError(t, err)
			require.NoError(t, base.JSONUnmarshal(rawStatusDoc, &persisted))
			require.Equal(t, BackgroundProcessStateRunning, persisted.State)
			require.Equal(t, int64(0), persisted.DocsChanged)
			resyncID := persisted.ResyncID
			require.NotEmpty(t, resyncID)

			// in the remaining lifetime of process 1 the documents are rewritten with the new function's grants
			close(gate)
			require.Eventually(t, func() bool { // in-memory state of process 1, the persisted status does not change anymore
				return db1.ResyncManager.GetRunState() == BackgroundProcessStateError
			}, 30*time.Second, 10*time.Millisecond)
			collection1, _ := GetSingleDatabaseCollectionWithUser(ctx1, t, db1)
			grantDoc, err := collection1.GetDocument(ctx1, "grant1", DocUnmarshalAll)
			require.NoError(t, err)
			require.Empty(t, grantDoc.Access, "grant1 was rewritten by process 1 without the access grant")
			db1.Close(ctx1)

			// what process 1 left behind in the bucket
			rawStatusDoc, _, err = statusStore.GetRaw(ctx, statusDocID)
			require.NoError(t, err)
			require.NoError(t, base.JSONUnmarshal(rawStatusDoc, &persisted))
			require.Equal(t, BackgroundProcessStateRunning, persisted.State)
			require.Equal(t, int64(0), persisted.DocsChanged)
			// the heartbeat document of the dead process expires after BackgroundManagerHeartbeatExpirySecs (30s)
			require.NoError(t, statusStore.Delete(ctx, heartbeatDocID))

			// ---------------- process 2 (restart) ----------------
			db2, ctx2 := SetupTestDBForBucketWithOptions(t, bucket.NoCloseClone(), DatabaseContextOptions{})
			defer db2.Close(ctx2)
			collection2, ctx2 := GetSingleDatabaseCollectionWithUser(ctx2, t, db2)
			_, err = collection2.UpdateSyncFun(ctx2, newSyncFn)
			require.NoError(t, err)

			if statusPolledBeforeRestart {
				rawStatus, err := db2.ResyncManager.GetStatus(ctx2)
				require.NoError(t, err)
				t.Logf("status reported by the restarted process before resync is started again: %s", rawStatus)
			}

			require.NoError(t, db2.ResyncManager.Start(ctx2, resyncOptions))
			stats := waitForResyncState(t, db2, BackgroundProcessStateCompleted)
			t.Logf("final status: %+v", stats)
			if !statusPolledBeforeRestart {
				require.Equal(t, resyncID, stats.ResyncID, "the run of process 1 was resumed")
			}

			// resync is reported completed: alice must have exactly the access the new function gives her
			assert.False(t, canReadSecret(t, ctx2, db2), "resync completed, but alice still reads secretdoc through a grant the new sync function does not make")

			// and running resync again must not change anything
			require.NoError(t, db2.ResyncManager.Start(ctx2, resyncOptions))
			stats = waitForResyncState(t, db2, BackgroundProcessStateCompleted)
			assert.Equal(t, int64(0), stats.DocsChanged)
			assert.False(t, canReadSecret(t, ctx2, db2), "alice still reads secretdoc after a second completed resync")
		})
	}
}
