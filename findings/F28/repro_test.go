package importtest

import (
	"fmt"
	"net/http"
	"net/url"
	"testing"
	"time"

	"github.com/couchbase/sync_gateway/base"
	"github.com/couchbase/sync_gateway/db"
	"github.com/couchbase/sync_gateway/rest"
	"github.com/couchbase/sync_gateway/testing/assert"
	"github.com/couchbase/sync_gateway/testing/require"
)

// TestResyncOverPendingSDKUpdate:
//  1. doc is written through Sync Gateway (rev 1, version cv1)
//  2. doc is updated directly in the bucket by an SDK, the write is still pending import
//  3. resync (metadata-only rewrite of _sync, stamping _mou) processes the document
//  4. the SDK write is imported (on demand, or by the import feed when the database comes back online)
//
// The import has to produce a new revision (parent rev 1) that carries the SDK body AND a new current version, exactly once.
// A client that still holds (rev1, cv1) must not be able to use cv1 as the OCC value to replace the SDK write it has
// never seen.
func TestResyncOverPendingSDKUpdate(t *testing.T) {
	for _, autoImport := range []bool{false, true} {
		t.Run(fmt.Sprintf("autoImport=%t", autoImport), func(t *testing.T) {
			ctx := base.TestCtx(t)
			rtConfig := rest.RestTesterConfig{
				SyncFn:           `function(doc, oldDoc) { channel("A") }`,
				PersistentConfig: true, // required to change the sync function through the REST API
			}
			rt := rest.NewRestTester(t, &rtConfig)
			defer rt.Close()
			dbConfig := rt.NewDbConfig()
			dbConfig.AutoImport = autoImport
			rest.RequireStatus(t, rt.CreateDatabase("db", dbConfig), http.StatusCreated)

			const docID = "resyncOverPending"

			// 1. SG write
			version1 := rt.PutDoc(docID, `{"v":1}`)
			require.False(t, version1.CV.IsEmpty())
			rt.WaitForPendingChanges()

			// new sync function so that resync has to rewrite the document
			rest.RequireStatus(t, rt.SendAdminRequest(http.MethodPut, "/{{.keyspace}}/_config/sync", `function(doc, oldDoc) { channel("B") }`), http.StatusOK)

			// import feed (if any) is stopped while the database is offline: the SDK write stays pending
			rt.TakeDbOffline()

			// 2. SDK update
			require.NoError(t, rt.GetSingleDataStore().Set(ctx, docID, 0, nil, map[string]any{"v": 2, "writer": "sdk"}))

			// 3. resync
			rest.RequireStatus(t, rt.SendAdminRequest(http.MethodPost, "/{{.db}}/_resync", ""), http.StatusOK)
			resyncStatus := rt.WaitForResyncDCPStatus(db.BackgroundProcessStateCompleted)
			require.Equal(t, int64(1), resyncStatus.DocsProcessed)

			rt.TakeDbOnline()

			// 4. import
			if autoImport {
				// wait for the feed import without triggering an on-demand import
				dataStore := rt.GetSingleDataStore()
				require.EventuallyWithT(t, func(c *assert.CollectT) {
					xattrs, _, err := dataStore.GetXattrs(ctx, docID, []string{base.SyncXattrName})
					if !assert.NoError(c, err) {
						return
					}
					var syncData db.SyncData
					if !assert.NoError(c, base.JSONUnmarshal(xattrs[base.SyncXattrName], &syncData)) {
						return
					}
					gen, _ := db.ParseRevID(ctx, syncData.GetRevTreeID())
					assert.Equal(c, 2, gen)
				}, 20*time.Second, 50*time.Millisecond)
			}
			version2, body := rt.GetDoc(docID)
			assert.Equal(t, "sdk", body["writer"])
			gen, _ := db.ParseRevID(ctx, version2.RevTreeID)
			assert.Equal(t, 2, gen)

			// imported once: a second read does not add a revision
			version2b, _ := rt.GetDoc(docID)
			assert.Equal(t, version2.RevTreeID, version2b.RevTreeID)
			assert.Equal(t, version2.CV.String(), version2b.CV.String())

			collection, _ := rt.GetSingleTestDatabaseCollection()
			doc, err := collection.GetDocument(ctx, docID, db.DocUnmarshalAll)
			require.NoError(t, err)
			assert.Len(t, doc.History, 2)
			require.NotNil(t, doc.History[version2.RevTreeID])
			assert.Equal(t, version1.RevTreeID, doc.History[version2.RevTreeID].Parent)
			// and it is assigned to the channel of the new sync function
			removal, inB := doc.Channels["B"]
			assert.True(t, inB, "channels: %v", doc.Channels)
			assert.Nil(t, removal, "channels: %v", doc.Channels)
			assert.NotNil(t, doc.Channels["A"], "channels: %v", doc.Channels)

			// the imported SDK write is a new version of the document
			assert.NotEqual(t, version1.CV.String(), version2.CV.String(), "SDK write was imported as new revision %s without a new current version", version2.RevTreeID)

			// a client holding only version 1 must not be able to replace the SDK write
			resp := rt.SendAdminRequest(http.MethodPut, "/{{.keyspace}}/"+docID+"?rev="+url.QueryEscape(version1.CV.String()), `{"v":3,"writer":"stale client"}`)
			assert.Equal(t, http.StatusConflict, resp.Code, "update based on the pre-SDK-write version was accepted: %s", resp.Body.Bytes())
			_, body = rt.GetDoc(docID)
			assert.Equal(t, "sdk", body["writer"])
		})
	}
}
