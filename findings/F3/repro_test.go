// Copyright 2026-Present Couchbase, Inc.
//
// Use of this software is governed by the Business Source License included
// in the file licenses/BSL-Couchbase.txt.  As of the Change Date specified
// in that file, in accordance with the Business Source License, use of this
// software will be governed by the Apache License, Version 2.0, included in
// the file licenses/APL2.txt.

package db

import (
	"errors"
	"strings"
	"sync/atomic"
	"testing"
	"time"

	"github.com/couchbase/sync_gateway/base"
	"github.com/couchbase/sync_gateway/channels"
	"github.com/stretchr/testify/assert"
	"github.com/stretchr/testify/require"
)

// TestPrincipalUpdateFailureReleasesSequence ensures that the sequence allocated for a principal update is released as
// unused when writing the principal fails with a (non-timeout, non-CAS) storage error, in the same way it is when the
// write fails with a CAS mismatch.
func TestPrincipalUpdateFailureReleasesSequence(t *testing.T) {
	ctx := base.TestCtx(t)
	base.SetUpTestLogging(t, base.LevelDebug, base.KeyAuth, base.KeyCRUD)

	// ensure we don't batch sequences so that the number of released sequences is deterministic
	defer SuspendSequenceBatching()()

	tb := base.GetTestBucket(t)
	defer tb.Close(ctx)

	writeErr := errors.New("injected principal write failure")
	var failPrincipalWrites atomic.Bool
	var failedWrites atomic.Int32
	lb := base.NewLeakyBucket(tb, base.LeakyBucketConfig{
		WriteCasCallback: func(key string) (uint64, error) {
			if failPrincipalWrites.Load() && strings.Contains(key, "naomi") {
				failedWrites.Add(1)
				return 0, writeErr
			}
			return 0, nil
		},
		IgnoreClose: true,
	})

	db, ctx := setupTestDBForBucket(t, lb)
	defer db.Close(ctx)

	authenticator := db.Authenticator(ctx)
	user, err := authenticator.NewUser("naomi", "letmein", channels.BaseSetOf(t, "ABC"))
	require.NoError(t, err)
	require.NoError(t, authenticator.Save(user))

	requireReleasedCount := func(t *testing.T, before uint64, expected uint64) {
		assert.EventuallyWithT(t, func(c *assert.CollectT) {
			assert.Equal(c, expected, db.sequences.dbStats.SequenceReleasedCount.Value()-before)
		}, 5*time.Second, 100*time.Millisecond)
	}

	t.Run("UpdatePrincipal", func(t *testing.T) {
		userInfo, err := db.GetPrincipalForTest(t, "naomi", true)
		require.NoError(t, err)
		userInfo.ExplicitChannels = base.SetOf("ABC", "PBS")

		releasedBefore := db.sequences.dbStats.SequenceReleasedCount.Value()
		lastSeqBefore, err := db.sequences.lastSequence(ctx)
		require.NoError(t, err)
		failedWrites.Store(0)
		failPrincipalWrites.Store(true)
		_, _, err = db.UpdatePrincipal(ctx, userInfo, true, true)
		failPrincipalWrites.Store(false)
		require.ErrorIs(t, err, writeErr)
		require.Equal(t, int32(1), failedWrites.Load())

		// a sequence was allocated for the update...
		lastSeqAfter, err := db.sequences.lastSequence(ctx)
		require.NoError(t, err)
		require.Equal(t, lastSeqBefore+1, lastSeqAfter)
		// ... and since it was never written it has to be released
		requireReleasedCount(t, releasedBefore, 1)
	})

	t.Run("regeneratePrincipalSequences", func(t *testing.T) {
		user, err := authenticator.GetUser("naomi")
		require.NoError(t, err)

		releasedBefore := db.sequences.dbStats.SequenceReleasedCount.Value()
		lastSeqBefore, err := db.sequences.lastSequence(ctx)
		require.NoError(t, err)
		failedWrites.Store(0)
		failPrincipalWrites.Store(true)
		err = db.regeneratePrincipalSequences(ctx, authenticator, user, "resync1")
		failPrincipalWrites.Store(false)
		require.ErrorIs(t, err, writeErr)
		require.Equal(t, int32(1), failedWrites.Load())

		lastSeqAfter, err := db.sequences.lastSequence(ctx)
		require.NoError(t, err)
		require.Equal(t, lastSeqBefore+1, lastSeqAfter)
		requireReleasedCount(t, releasedBefore, 1)
	})
}
