package replicatortest

import (
	"net/url"
	"testing"
	"time"

	"github.com/couchbase/sync_gateway/base"
	"github.com/couchbase/sync_gateway/db"
	"github.com/couchbase/sync_gateway/rest"
	"github.com/couchbase/sync_gateway/testing/assert"
	"github.com/couchbase/sync_gateway/testing/require"
)

// TestProbePushFailedRevNotRetried is a probe of the UNCHANGED tree (it fails there, both protocols). A push replication sends
// two docs; the passive rejects one of them (error response to the rev message). sendRevisionWithProperties
// (db/blip_sync_context.go, response goroutine) calls sgr2PushProcessedSeqCallback for the sequence whether or not the
// response was an error, so the checkpoint moves past the failed revision. After the cause is removed and the
// replication restarted from its checkpoint the revision is never sent again: the replication is "caught up" while the
// passive is missing the document.
func TestProbePushFailedRevNotRetried(t *testing.T) {
	base.RequireNumTestBuckets(t, 2)
	const (
		rejectingSyncFn = `function(doc) { if (doc.hold) { throw({forbidden: "not accepting held documents"}); } channel(doc.channels); }`
		acceptingSyncFn = `function(doc) { channel(doc.channels); }`
	)
	sgrRunner := rest.NewSGRTestRunner(t)
	sgrRunner.Run(func(t *testing.T) {
		activeRT, passiveRT, remoteURLString := sgrRunner.SetupSGRPeersWithOptions(t, rest.TestISGRPeerOpts{
			PassiveRestTesterConfig: &rest.RestTesterConfig{
				DatabaseConfig: &rest.DatabaseConfig{DbConfig: rest.DbConfig{Name: "passivedb"}},
				SyncFn:         rejectingSyncFn,
			},
		})
		remoteURL, err := url.Parse(remoteURLString)
		require.NoError(t, err)
		activeCtx := activeRT.Context()
		t.Cleanup(reduceTestCheckpointInterval(9999 * time.Hour))
		heldVersion := activeRT.PutDoc("heldDoc", `{"hold":true,"channels":["alice"]}`)
		okVersion := activeRT.PutDoc("okDoc", `{"channels":["alice"]}`)
		activeRT.WaitForPendingChanges()
		stats := dbReplicatorStats(t)
		newReplicator := func() *db.ActiveReplicator {
			ar, err := db.NewActiveReplicator(activeCtx, &db.ActiveReplicatorConfig{
				ID:                     rest.SafeDocumentName(t, t.Name()),
				Direction:              db.ActiveReplicatorTypePush,
				RemoteDBURL:            remoteURL,
				ActiveDB:               &db.Database{DatabaseContext: activeRT.GetDatabase()},
				ChangesBatchSize:       200,
				Continuous:             true,
				ReplicationStatsMap:    stats,
				CollectionsEnabled:     !activeRT.GetDatabase().OnlyDefaultCollection(),
				SupportedBLIPProtocols: sgrRunner.SupportedSubprotocols,
			})
			require.NoError(t, err)
			return ar
		}
		ar := newReplicator()
		require.NoError(t, ar.Start(activeCtx))
		sgrRunner.WaitForVersion("okDoc", passiveRT, okVersion)
		require.EventuallyWithT(t, func(c *assert.CollectT) {
			assert.Equal(c, int64(1), ar.GetStatus(activeCtx).PushReplicationStatus.DocWriteFailures)
		}, 20*time.Second, 50*time.Millisecond)
		require.NoError(t, ar.Stop())
		passiveCollection, passiveCollectionCtx := passiveRT.GetSingleTestDatabaseCollection()
		_, err = passiveCollection.UpdateSyncFun(passiveCollectionCtx, acceptingSyncFn)
		require.NoError(t, err)
		ar = newReplicator()
		require.NoError(t, ar.Start(activeCtx))
		defer func() { assert.NoError(t, ar.Stop()) }()
		sgrRunner.WaitForVersion("heldDoc", passiveRT, heldVersion)
	})
}
