// db/hlv_update_history_c10_test.go -- run: go test -vet=off -count=1 -run 'TestC10' ./db/
//
// Triage of suspicion C10: (*HybridLogicalVector).UpdateHistory ignores the versionInMVOlder result of AddVersionToPV
// for the other vector's current version (and previous versions), so a version that is NEWER than hlv's merge-version
// entry for the same source is recorded nowhere.
//
// Property asserted (requireHLVCoversInputs): after combining two vectors, for every source the resulting vector's
// GetValue(source) is >= the max value either input had for that source, and DominatesSource / IsVersionKnown hold for
// every version (cv, mv, pv) either input had.

package db

import (
	"fmt"
	"testing"

	"github.com/couchbase/sync_gateway/base"
	"github.com/stretchr/testify/assert"
	"github.com/stretchr/testify/require"
)

// c10HLV builds a vector directly (no wire parsing involved).
func c10HLV(cvSource string, cvValue uint64, mv HLVVersions, pv HLVVersions) *HybridLogicalVector {
	hlv := NewHybridLogicalVector()
	hlv.SourceID = cvSource
	hlv.Version = cvValue
	for s, v := range mv {
		hlv.MergeVersions[s] = v
	}
	for s, v := range pv {
		hlv.PreviousVersions[s] = v
	}
	return hlv
}

// c10AllVersions returns every version recorded anywhere in hlv (cv, mv, pv).
func c10AllVersions(hlv *HybridLogicalVector) []Version {
	var out []Version
	if hlv.SourceID != "" {
		out = append(out, Version{SourceID: hlv.SourceID, Value: hlv.Version})
	}
	for s, v := range hlv.MergeVersions {
		out = append(out, Version{SourceID: s, Value: v})
	}
	for s, v := range hlv.PreviousVersions {
		out = append(out, Version{SourceID: s, Value: v})
	}
	return out
}

// c10MaxPerSource returns the highest value recorded per source over all the inputs.
func c10MaxPerSource(inputs ...*HybridLogicalVector) map[string]uint64 {
	maxes := make(map[string]uint64)
	for _, in := range inputs {
		for _, v := range c10AllVersions(in) {
			maxes[v.SourceID] = max(maxes[v.SourceID], v.Value)
		}
	}
	return maxes
}

// c10Violations returns a description of every way result fails to cover the inputs (empty if the property holds).
func c10Violations(result *HybridLogicalVector, inputs ...*HybridLogicalVector) []string {
	var violations []string
	for source, want := range c10MaxPerSource(inputs...) {
		got, found := result.GetValue(source)
		if !found {
			violations = append(violations, fmt.Sprintf("source %q missing from result %#v", source, result))
			continue
		}
		if got < want {
			violations = append(violations, fmt.Sprintf("result %#v records %d for source %q, but an input had seen %d", result, got, source, want))
		}
		if floor := result.maxValueForSource(source); floor < want {
			violations = append(violations, fmt.Sprintf("maxValueForSource(%q)=%d for result %#v, but an input had seen %d", source, floor, result, want))
		}
	}
	for _, in := range inputs {
		for _, v := range c10AllVersions(in) {
			if !result.DominatesSource(v) || !result.IsVersionKnown(v) {
				violations = append(violations, fmt.Sprintf("result %#v does not dominate/know %v which input %#v had seen", result, v, in))
			}
		}
	}
	return violations
}

// requireHLVCoversInputs asserts the property at stake (records failures, does not abort the test).
func requireHLVCoversInputs(t *testing.T, result *HybridLogicalVector, inputs ...*HybridLogicalVector) {
	t.Helper()
	for _, violation := range c10Violations(result, inputs...) {
		assert.Fail(t, "version lost", violation)
	}
}

// c10LocalWins performs exactly the HLV steps of resolveLocalWinsHLV (db/crud.go).
func c10LocalWins(local, remote *HybridLogicalVector) *HybridLogicalVector {
	localCopy := local.Copy() // UpdateWithIncomingHLV modifies its argument
	newHLV := remote.Copy()
	newHLV.UpdateWithIncomingHLV(localCopy)
	return newHLV
}

// c10Adopt performs exactly the HLV steps of resolveRemoteWinsHLV / the HLVNoConflict branch of
// PutExistingCurrentVersion (db/crud.go): doc.HLV.UpdateWithIncomingHLV(incoming).
func c10Adopt(local, incoming *HybridLogicalVector) *HybridLogicalVector {
	newHLV := local.Copy()
	newHLV.UpdateWithIncomingHLV(incoming.Copy())
	return newHLV
}

// Scenario (a): local-wins conflict resolution where the local vector has merge versions and the remote cv is a newer
// version of a source present in those merge versions.
func TestC10LocalWinsKeepsRemoteCVNewerThanLocalMV(t *testing.T) {
	local := c10HLV("a", 5, HLVVersions{"a": 3, "b": 4}, nil) // a merged 3@a and 4@b into 5@a
	remote := c10HLV("b", 6, nil, nil)                        // b meanwhile wrote 6@b on top of 4@b

	require.Equal(t, HLVConflict, IsInConflict(t.Context(), local, remote), "precondition: a genuine conflict")

	resolved := c10LocalWins(local, remote)
	t.Logf("local=%#v remote=%#v resolved=%#v", local, remote, resolved)

	// local wins: cv is unchanged
	require.Equal(t, "a", resolved.SourceID)
	require.Equal(t, uint64(5), resolved.Version)

	requireHLVCoversInputs(t, resolved, local, remote)

	// consequences: the remote revision must now be recognised as already known, not as a conflict again ...
	assert.Equal(t, HLVNoConflictRevAlreadyPresent, IsInConflict(t.Context(), resolved, remote), "pulling 6@b again must be a no-op, not a new conflict")
	// ... and the remote side must be able to accept the resolved revision when it is pushed back
	assert.Equal(t, HLVNoConflict, IsInConflict(t.Context(), remote, resolved), "remote (6@b) must accept the resolved revision, it descends from 6@b")
}

// Scenario (a'), same as (a) but the newer version of the merged source is in the remote's PV rather than its CV.
// Informational only (skips instead of failing): the existing test
// TestHLVUpdateFromIncoming/"incoming mv partially overlaps with pv" pins the opposite outcome for this shape (it
// declares the input invalid and expects the merge versions to be kept), so the proposed fix leaves it alone.
func TestC10LocalWinsRemotePVNewerThanLocalMV(t *testing.T) {
	local := c10HLV("a", 5, HLVVersions{"a": 3, "b": 4}, nil)
	remote := c10HLV("c", 7, nil, HLVVersions{"b": 6}) // c wrote 7@c on top of 6@b

	require.Equal(t, HLVConflict, IsInConflict(t.Context(), local, remote))
	resolved := c10LocalWins(local, remote)
	t.Logf("local=%#v remote=%#v resolved=%#v", local, remote, resolved)
	if violations := c10Violations(resolved, local, remote); len(violations) > 0 {
		t.Skipf("PV variant (not covered by the fix, pinned by an existing test): 6@b from remote pv is dropped: %v", violations)
	}
}

// Scenario (b): both sides resolved the same conflict (equal merge versions) so IsInConflict says HLVNoConflict and the
// incoming vector is adopted; the local cv's source is one of the merged sources.
func TestC10SameMergeAdoptionKeepsLocalCV(t *testing.T) {
	local := c10HLV("c", 4, HLVVersions{"a": 1, "c": 2}, nil)    // c merged 1@a and 2@c into 4@c
	incoming := c10HLV("a", 3, HLVVersions{"c": 2, "a": 1}, nil) // a merged the same pair into 3@a

	require.Equal(t, HLVNoConflict, IsInConflict(t.Context(), local, incoming), "precondition: adopted because merge versions are equal")

	result := c10Adopt(local, incoming)
	t.Logf("local=%#v incoming=%#v result=%#v", local, incoming, result)

	require.Equal(t, "a", result.SourceID)
	require.Equal(t, uint64(3), result.Version)

	requireHLVCoversInputs(t, result, local, incoming)

	// per-source values never decrease: c's recorded value was 4 before the update
	assert.GreaterOrEqual(t, result.maxValueForSource("c"), local.maxValueForSource("c"), "value recorded for source c went backwards")
	// the replica's own previous revision 4@c must be recognised as known when it is offered back by a peer
	assert.Equal(t, HLVNoConflictRevAlreadyPresent, IsInConflict(t.Context(), result, local), "4@c was the replica's own revision and must be known, not accepted again")
}

// Control cases: same code paths, shapes that are handled correctly by the unchanged code.
func TestC10Controls(t *testing.T) {
	testCases := []struct {
		name     string
		local    *HybridLogicalVector
		remote   *HybridLogicalVector
		combine  func(local, remote *HybridLogicalVector) *HybridLogicalVector
		expected *HybridLogicalVector
	}{
		{
			name:     "local wins, no merge versions",
			local:    c10HLV("a", 5, nil, HLVVersions{"b": 4}),
			remote:   c10HLV("b", 6, nil, nil),
			combine:  c10LocalWins,
			expected: c10HLV("a", 5, nil, HLVVersions{"b": 6}),
		},
		{
			name:     "local wins, local merge versions on sources unrelated to remote cv",
			local:    c10HLV("a", 5, HLVVersions{"a": 3, "c": 4}, nil),
			remote:   c10HLV("b", 6, nil, HLVVersions{"d": 1}),
			combine:  c10LocalWins,
			expected: c10HLV("a", 5, HLVVersions{"a": 3, "c": 4}, HLVVersions{"b": 6, "d": 1}),
		},
		{
			name:     "local wins, remote MERGE version newer than local merge version (handled: InvalidateMV)",
			local:    c10HLV("a", 5, HLVVersions{"a": 3, "b": 4}, nil),
			remote:   c10HLV("c", 9, HLVVersions{"b": 6, "c": 7}, nil),
			combine:  c10LocalWins,
			expected: c10HLV("a", 5, nil, HLVVersions{"b": 6, "c": 9}),
		},
		{
			name:     "same-merge adoption, local cv source not among merged sources",
			local:    c10HLV("x", 130, HLVVersions{"d": 123, "g": 100}, HLVVersions{"j": 50}),
			remote:   c10HLV("m", 150, HLVVersions{"d": 123, "g": 100}, HLVVersions{"j": 50}),
			combine:  c10Adopt,
			expected: c10HLV("m", 150, HLVVersions{"d": 123, "g": 100}, HLVVersions{"j": 50, "x": 130}),
		},
		{
			name:     "remote wins / adoption, local cv source in incoming merge versions with an equal or newer value",
			local:    c10HLV("c", 2, nil, HLVVersions{"a": 1}),
			remote:   c10HLV("a", 3, HLVVersions{"c": 2, "a": 1}, nil),
			combine:  c10Adopt,
			expected: c10HLV("a", 3, HLVVersions{"c": 2, "a": 1}, nil),
		},
		{
			name:     "adoption, incoming dominates, local merge versions moved to pv",
			local:    c10HLV("c", 3, HLVVersions{"b": 2, "a": 1}, nil),
			remote:   c10HLV("c", 4, nil, nil),
			combine:  c10Adopt,
			expected: c10HLV("c", 4, nil, HLVVersions{"b": 2, "a": 1}),
		},
	}
	for _, tc := range testCases {
		t.Run(tc.name, func(t *testing.T) {
			result := tc.combine(tc.local, tc.remote)
			requireHLVCoversInputs(t, result, tc.local, tc.remote)
			// compare ignoring nil-vs-empty map differences
			require.Equal(t, tc.expected.SourceID, result.SourceID)
			require.Equal(t, tc.expected.Version, result.Version)
			require.Equal(t, fmt.Sprint(map[string]uint64(tc.expected.MergeVersions)), fmt.Sprint(map[string]uint64(result.MergeVersions)), "mv of %#v", result)
			require.Equal(t, fmt.Sprint(map[string]uint64(tc.expected.PreviousVersions)), fmt.Sprint(map[string]uint64(result.PreviousVersions)), "pv of %#v", result)
		})
	}
}

// c10PutExisting writes body/hlv through PutExistingCurrentVersion the way the ISGR pull replicator does.
func c10PutExisting(t *testing.T, collection *DatabaseCollectionWithUser, docID string, body Body, hlv *HybridLogicalVector, revTreeHistory []string, resolver *ConflictResolver) (*Document, error) {
	ctx := base.TestCtx(t)
	newDoc := CreateTestDocument(docID, revTreeHistory[0], body, false, 0)
	newDoc.HLV = hlv // as blip_handler does: newDoc.HLV and NewDocHLV are the same vector
	opts := PutDocOptions{
		NewDoc:           newDoc,
		NewDocHLV:        hlv,
		RevTreeHistory:   revTreeHistory,
		ISGRWrite:        true,
		ConflictResolver: resolver,
	}
	doc, _, _, err := collection.PutExistingCurrentVersion(ctx, opts)
	return doc, err
}

// End-to-end variant of scenario (a) through PutExistingCurrentVersion + the local-wins HLV conflict resolver.
func TestC10EndToEndLocalWins(t *testing.T) {
	db, ctx := setupTestDB(t)
	defer db.Close(ctx)
	collection, ctx := GetSingleDatabaseCollectionWithUser(ctx, t, db)
	const docID = "c10_a"
	a := db.EncodedSourceID // the local replica is source "a"
	const b = "sourceB"

	// the local replica holds 5@a with merge versions {a:3, b:4}
	local := c10HLV(a, 5, HLVVersions{a: 3, b: 4}, nil)
	_, err := c10PutExisting(t, collection, docID, Body{"who": "local"}, local.Copy(), []string{"3-aaa", "2-aaa", "1-abc"}, nil)
	require.NoError(t, err)
	doc, err := collection.GetDocument(ctx, docID, DocUnmarshalSync)
	require.NoError(t, err)
	require.Equal(t, a, doc.HLV.SourceID)
	require.Equal(t, uint64(5), doc.HLV.Version)
	require.Equal(t, uint64(4), doc.HLV.MergeVersions[b])

	// pull 6@b with a local-wins resolver
	remote := c10HLV(b, 6, nil, nil)
	resolver := NewConflictResolver(LocalWinsConflictResolver, nil)
	_, err = c10PutExisting(t, collection, docID, Body{"who": "remote"}, remote.Copy(), []string{"3-bbb", "2-bbb", "1-abc"}, resolver)
	require.NoError(t, err)
	require.Equal(t, int64(1), resolver.stats.ConflictResultLocalCount.Value(), "expected one local-wins resolution")

	doc, err = collection.GetDocument(ctx, docID, DocUnmarshalAll)
	require.NoError(t, err)
	t.Logf("stored HLV after local wins: %#v", doc.HLV)
	body, err := doc.GetDeepMutableBody()
	require.NoError(t, err)
	require.Equal(t, "local", body["who"])
	require.Equal(t, a, doc.HLV.SourceID)
	require.Equal(t, uint64(5), doc.HLV.Version)

	requireHLVCoversInputs(t, doc.HLV, local, remote)

	// pulling the very same remote revision again must be recognised as known, not resolved as a conflict again
	_, err = c10PutExisting(t, collection, docID, Body{"who": "remote"}, remote.Copy(), []string{"3-bbb", "2-bbb", "1-abc"}, resolver)
	require.NoError(t, err) // ErrUpdateCancel is swallowed
	assert.Equal(t, int64(1), resolver.stats.ConflictResultLocalCount.Value(), "the same remote revision 6@b was treated as a new conflict on the second pull")
}

// End-to-end variant of scenario (b) through PutExistingCurrentVersion (HLVNoConflict branch).
func TestC10EndToEndSameMergeAdoption(t *testing.T) {
	db, ctx := setupTestDB(t)
	defer db.Close(ctx)
	collection, ctx := GetSingleDatabaseCollectionWithUser(ctx, t, db)
	const docID = "c10_b"
	c := db.EncodedSourceID // the local replica is source "c"
	const a = "sourceA"

	local := c10HLV(c, 4, HLVVersions{a: 1, c: 2}, nil)
	_, err := c10PutExisting(t, collection, docID, Body{"who": "local merge"}, local.Copy(), []string{"3-ccc", "2-ccc", "1-abc"}, nil)
	require.NoError(t, err)
	doc, err := collection.GetDocument(ctx, docID, DocUnmarshalSync)
	require.NoError(t, err)
	require.Equal(t, uint64(4), doc.HLV.maxValueForSource(c))

	incoming := c10HLV(a, 3, HLVVersions{c: 2, a: 1}, nil)
	_, err = c10PutExisting(t, collection, docID, Body{"who": "remote merge"}, incoming.Copy(), []string{"3-ddd", "2-ccc", "1-abc"}, nil)
	require.NoError(t, err, "equal merge versions: accepted without conflict")

	doc, err = collection.GetDocument(ctx, docID, DocUnmarshalSync)
	require.NoError(t, err)
	t.Logf("stored HLV after adoption: %#v", doc.HLV)
	require.Equal(t, a, doc.HLV.SourceID)
	require.Equal(t, uint64(3), doc.HLV.Version)

	requireHLVCoversInputs(t, doc.HLV, local, incoming)
	assert.GreaterOrEqual(t, doc.HLV.maxValueForSource(c), uint64(4), "floor for this replica's next version went backwards")

	// the replica's own earlier revision 4@c offered back by a peer must be a no-op
	timeSaved := doc.SyncData.TimeSaved
	_, err = c10PutExisting(t, collection, docID, Body{"who": "local merge"}, local.Copy(), []string{"3-ccc", "2-ccc", "1-abc"}, nil)
	require.NoError(t, err)
	doc, err = collection.GetDocument(ctx, docID, DocUnmarshalSync)
	require.NoError(t, err)
	assert.Equal(t, a, doc.HLV.SourceID, "the replica re-accepted its own superseded revision 4@c: %#v", doc.HLV)
	assert.Equal(t, timeSaved, doc.SyncData.TimeSaved, "document was rewritten by a revision the replica had already seen")
}
