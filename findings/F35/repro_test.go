/*
Copyright 2026-Present Couchbase, Inc.

Use of this software is governed by the Business Source License included in
the file licenses/BSL-Couchbase.txt.  As of the Change Date specified in that
file, in accordance with the Business Source License, use of this software will
be governed by the Apache License, Version 2.0, included in the file
licenses/APL2.txt.
*/

package db

import (
	"fmt"
	"net/http"
	"net/http/httptest"
	"net/url"
	"strings"
	"sync"
	"testing"
	"time"

	"github.com/couchbase/go-blip"
	"github.com/couchbase/sync_gateway/base"
	"github.com/stretchr/testify/assert"
	"github.com/stretchr/testify/require"
)

// fakePassivePeer is a minimal passive ISGR peer speaking BLIP. It:
//   - stores SGR2 checkpoints (getCheckpoint/setCheckpoint)
//   - answers 'changes' messages: documents in wantedDocs are requested ([]), everything else is reported as already known (0)
//   - records every docID it is offered in a 'changes' message and every docID it receives a 'rev' for
//   - never acknowledges a 'rev' for a document in heldDocs until the test is over (an in-flight revision at the time the
//     connection is lost)
type fakePassivePeer struct {
	t   *testing.T
	srv *httptest.Server

	lock            sync.Mutex
	checkpointBody  []byte
	checkpointRev   int
	checkpointSeqs  []string // last_sequence of every checkpoint the peer was asked to persist, in order
	offeredDocs     map[string]int
	receivedRevDocs map[string]int
	wantedDocs      map[string]bool
	heldDocs        map[string]bool

	allowChangesResponse chan struct{} // 'changes' responses are held until this is closed
	releaseHeldRevs      chan struct{} // held 'rev' handlers return when this is closed
	revReceived          chan string
}

func newFakePassivePeer(t *testing.T) *fakePassivePeer {
	p := &fakePassivePeer{
		t:                    t,
		offeredDocs:          make(map[string]int),
		receivedRevDocs:      make(map[string]int),
		wantedDocs:           make(map[string]bool),
		heldDocs:             make(map[string]bool),
		allowChangesResponse: make(chan struct{}),
		releaseHeldRevs:      make(chan struct{}),
		revReceived:          make(chan string, 100),
	}
	p.srv = httptest.NewServer(http.HandlerFunc(p.serveHTTP))
	t.Cleanup(func() {
		close(p.releaseHeldRevs)
		p.srv.Close()
	})
	return p
}

func (p *fakePassivePeer) dbURL(t *testing.T) *url.URL {
	u, err := url.Parse(p.srv.URL + "/passivedb")
	require.NoError(t, err)
	return u
}

func (p *fakePassivePeer) serveHTTP(w http.ResponseWriter, r *http.Request) {
	if !strings.HasSuffix(r.URL.Path, "/_blipsync") {
		// database endpoint reachability check made by blipSync()
		w.WriteHeader(http.StatusOK)
		return
	}
	// one blip context per connection, like Sync Gateway does
	bc, err := blip.NewContext(blip.ContextOptions{ProtocolIds: supportedSubprotocols()})
	if err != nil {
		http.Error(w, err.Error(), http.StatusInternalServerError)
		return
	}
	bc.HandlerForProfile[MessageGetCheckpoint] = p.handleGetCheckpoint
	bc.HandlerForProfile[MessageSetCheckpoint] = p.handleSetCheckpoint
	bc.HandlerForProfile[MessageChanges] = p.handleChanges
	bc.HandlerForProfile[MessageRev] = p.handleRev
	bc.WebSocketServer().ServeHTTP(w, r)
}

func (p *fakePassivePeer) handleGetCheckpoint(rq *blip.Message) {
	p.lock.Lock()
	defer p.lock.Unlock()
	if p.checkpointBody == nil {
		rq.Response().SetError("HTTP", http.StatusNotFound, "missing")
		return
	}
	rq.Response().Properties[GetCheckpointResponseRev] = fmt.Sprintf("0-%d", p.checkpointRev)
	rq.Response().SetBody(p.checkpointBody)
}

func (p *fakePassivePeer) handleSetCheckpoint(rq *blip.Message) {
	body, err := rq.Body()
	if err != nil {
		rq.Response().SetError("HTTP", http.StatusBadRequest, err.Error())
		return
	}
	var checkpoint replicationCheckpoint
	if err := base.JSONUnmarshal(body, &checkpoint); err != nil {
		rq.Response().SetError("HTTP", http.StatusBadRequest, err.Error())
		return
	}
	p.lock.Lock()
	defer p.lock.Unlock()
	p.checkpointBody = body
	p.checkpointRev++
	p.checkpointSeqs = append(p.checkpointSeqs, checkpoint.LastSeq)
	rq.Response().Properties[SetCheckpointResponseRev] = fmt.Sprintf("0-%d", p.checkpointRev)
}

func (p *fakePassivePeer) handleChanges(rq *blip.Message) {
	var changeList [][]any
	if err := rq.ReadJSONBody(&changeList); err != nil {
		rq.Response().SetError("HTTP", http.StatusBadRequest, err.Error())
		return
	}
	if len(changeList) == 0 {
		// "caught up" message, sent noreply
		return
	}
	<-p.allowChangesResponse

	p.lock.Lock()
	defer p.lock.Unlock()
	answer := make([]any, 0, len(changeList))
	for _, change := range changeList {
		docID := change[1].(string)
		p.offeredDocs[docID]++
		if p.wantedDocs[docID] {
			answer = append(answer, []any{})
		} else {
			answer = append(answer, 0)
		}
	}
	if err := rq.Response().SetJSONBody(answer); err != nil {
		rq.Response().SetError("HTTP", http.StatusInternalServerError, err.Error())
	}
}

func (p *fakePassivePeer) handleRev(rq *blip.Message) {
	docID := rq.Properties[RevMessageID]
	p.lock.Lock()
	p.receivedRevDocs[docID]++
	held := p.heldDocs[docID]
	p.lock.Unlock()
	p.revReceived <- docID
	if held {
		// the revision is in flight: it is never acknowledged on this connection
		<-p.releaseHeldRevs
	}
}

func (p *fakePassivePeer) lastCheckpointSeq() string {
	p.lock.Lock()
	defer p.lock.Unlock()
	if len(p.checkpointSeqs) == 0 {
		return ""
	}
	return p.checkpointSeqs[len(p.checkpointSeqs)-1]
}

func (p *fakePassivePeer) offeredCount(docID string) int {
	p.lock.Lock()
	defer p.lock.Unlock()
	return p.offeredDocs[docID]
}

// TestPushCheckpointNotAheadOfUnacknowledgedRev runs the real ISGR push replicator against a fake passive peer.
// A single 'changes' batch contains doc1 (known by the peer), doc2 (wanted by the peer) and doc3 (known by the peer).
// The revision of doc2 is sent but never acknowledged. A checkpoint that is taken while handleChangesResponse is
// registering the batch with the checkpointer (the checkpoint ticker, or the checkpoint on disconnect, can run at any
// point) must not be ahead of doc2's sequence. After a restart of the replication from the persisted checkpoint, doc2
// must be offered to the peer again.
func TestPushCheckpointNotAheadOfUnacknowledgedRev(t *testing.T) {
	base.SetUpTestLogging(t, base.LevelInfo, base.KeyReplicate, base.KeySync)

	activeDB, ctx := setupTestDBDefaultCollection(t)
	defer activeDB.Close(ctx)
	collection, ctx := GetSingleDatabaseCollectionWithUser(ctx, t, activeDB)

	docIDs := []string{"doc1", "doc2", "doc3"}
	seqs := make(map[string]uint64)
	for _, docID := range docIDs {
		_, doc, err := collection.Put(ctx, docID, Body{"foo": docID})
		require.NoError(t, err)
		seqs[docID] = doc.Sequence
	}
	require.Less(t, seqs["doc1"], seqs["doc2"])
	require.Less(t, seqs["doc2"], seqs["doc3"])
	activeDB.WaitForPendingChanges(t)

	peer := newFakePassivePeer(t)
	peer.wantedDocs["doc2"] = true
	peer.heldDocs["doc2"] = true

	replicationID := "pushCheckpointOrder"
	newReplicator := func(continuous bool) *ActiveReplicator {
		stats, err := activeDB.DbStats.DBReplicatorStats(replicationID)
		require.NoError(t, err)
		ar, err := NewActiveReplicator(ctx, &ActiveReplicatorConfig{
			ID:                  replicationID,
			Direction:           ActiveReplicatorTypePush,
			ActiveDB:            &Database{DatabaseContext: activeDB.DatabaseContext},
			RemoteDBURL:         peer.dbURL(t),
			Continuous:          continuous,
			ChangesBatchSize:    200,
			CheckpointInterval:  time.Hour, // checkpoints are only taken when the test (or disconnect) asks for one
			ReplicationStatsMap: stats,
			CollectionsEnabled:  false,
		})
		require.NoError(t, err)
		return ar
	}

	// ---- first run: doc2 is sent but not acknowledged, a checkpoint is taken while the batch is being registered
	ar := newReplicator(true)
	require.NoError(t, ar.Start(ctx))

	checkpointer := ar.Push.GetSingleCollection(t).Checkpointer
	collectionCtx, err := ar.Push.blipSyncContext.collections.get(nil)
	require.NoError(t, err)

	// A checkpoint runs right after the push side reported the "already known" sequences of the batch. This is the
	// position of the call inside handleChangesResponse; nothing but the checkpointer's own lock prevents the ticker
	// from running there.
	realAlreadyKnown := collectionCtx.sgr2PushAlreadyKnownSeqsCallback
	require.NotNil(t, realAlreadyKnown)
	collectionCtx.sgr2PushAlreadyKnownSeqsCallback = func(alreadyKnownSeqs ...SequenceID) {
		realAlreadyKnown(alreadyKnownSeqs...)
		checkpointer.CheckpointNow()
	}
	close(peer.allowChangesResponse)

	// wait until doc2 has been sent to the peer (and is held unacknowledged) and the whole batch has been registered
	select {
	case docID := <-peer.revReceived:
		require.Equal(t, "doc2", docID)
	case <-time.After(30 * time.Second):
		t.Fatal("peer did not receive the revision of doc2")
	}
	require.EventuallyWithT(t, func(c *assert.CollectT) {
		stats := checkpointer.Stats()
		assert.Equal(c, int64(2), stats.AlreadyKnownSequenceCount)
		assert.Equal(c, int64(1), stats.ExpectedSequenceCount)
	}, 30*time.Second, 10*time.Millisecond)
	require.Equal(t, int64(0), checkpointer.Stats().ProcessedSequenceCount, "doc2 must not have been acknowledged")

	// the connection is lost with doc2 still in flight
	require.NoError(t, ar.Stop())

	localCheckpoint, err := checkpointer.getLocalCheckpoint()
	require.NoError(t, err)
	t.Logf("doc sequences: %v persisted local checkpoint: %q remote checkpoints: %v", seqs, localCheckpoint.LastSeq, peer.checkpointSeqs)

	for name, persisted := range map[string]string{"local": localCheckpoint.LastSeq, "remote": peer.lastCheckpointSeq()} {
		if persisted == "" {
			continue
		}
		persistedSeq, err := ParsePlainSequenceID(persisted)
		require.NoError(t, err)
		assert.Lessf(t, persistedSeq.Seq, seqs["doc2"], "%s checkpoint %s is not before sequence %d of doc2, whose revision was never acknowledged by the peer", name, persisted, seqs["doc2"])
	}

	// ---- second run: restart from the persisted checkpoint, the peer now acknowledges everything
	offeredBefore := peer.offeredCount("doc2")
	peer.lock.Lock()
	peer.heldDocs = map[string]bool{}
	peer.lock.Unlock()

	ar2 := newReplicator(false)
	require.NoError(t, ar2.Start(ctx))
	require.EventuallyWithT(t, func(c *assert.CollectT) {
		assert.Equal(c, ReplicationStateStopped, ar2.GetStatus(ctx).Status)
	}, 60*time.Second, 50*time.Millisecond)

	assert.Greater(t, peer.offeredCount("doc2"), offeredBefore, "doc2 was never acknowledged by the peer, but is not offered again after restarting the replication from its checkpoint")
	peer.lock.Lock()
	assert.Equal(t, 2, peer.receivedRevDocs["doc2"], "doc2 should have been pushed again after the restart")
	peer.lock.Unlock()
}
