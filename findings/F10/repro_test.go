// Copyright 2026-Present Couchbase, Inc.
//
// Use of this software is governed by the Business Source License included
// in the file licenses/BSL-Couchbase.txt.  As of the Change Date specified
// in that file, in accordance with the Business Source License, use of this
// software will be governed by the Apache License, Version 2.0, included in
// the file licenses/APL2.txt.

package rest

import (
	"context"
	"errors"
	"net/http"
	"strings"
	"sync/atomic"
	"testing"

	"github.com/couchbase/sync_gateway/base"
	"github.com/stretchr/testify/assert"
	"github.com/stretchr/testify/require"
)

// sessionDeleteFailingDataStore wraps a DataStore, and fails the next failCount Delete operations on session documents.
type sessionDeleteFailingDataStore struct {
	base.DataStore
	sessionPrefix string
	failCount     atomic.Int32
	failures      atomic.Int32
	err           error
}

func (ds *sessionDeleteFailingDataStore) Delete(ctx context.Context, k string) error {
	if strings.HasPrefix(k, ds.sessionPrefix) && ds.failCount.Load() > 0 {
		ds.failCount.Add(-1)
		ds.failures.Add(1)
		return ds.err
	}
	return ds.DataStore.Delete(ctx, k)
}

// TestSessionDeleteStorageFailure ensures that DELETE /{db}/_session doesn't report success when the session could not
// be deleted.
func TestSessionDeleteStorageFailure(t *testing.T) {
	rt := NewRestTester(t, &RestTesterConfig{GuestEnabled: false})
	defer rt.Close()

	const username = "pupshaw"
	rt.CreateUser(username, []string{"*"})

	database := rt.GetDatabase()
	failingDataStore := &sessionDeleteFailingDataStore{
		DataStore:     database.MetadataStore,
		sessionPrefix: database.MetadataKeys.SessionKey(""),
		err:           errors.New("injected session delete failure"),
	}
	database.MetadataStore = failingDataStore

	resp := rt.SendRequest(http.MethodPost, "/{{.db}}/_session", `{"name":"`+username+`", "password":"`+RestTesterDefaultUserPassword+`"}`)
	RequireStatus(t, resp, http.StatusOK)
	cookie := resp.Header().Get("Set-Cookie")
	require.NotEmpty(t, cookie)
	headers := map[string]string{"Cookie": cookie}

	// the endpoint requires authentication, and the session cookie authenticates
	resp = rt.SendRequest(http.MethodGet, "/{{.db}}/", "")
	RequireStatus(t, resp, http.StatusUnauthorized)
	resp = rt.SendRequestWithHeaders(http.MethodGet, "/{{.db}}/", "", headers)
	RequireStatus(t, resp, http.StatusOK)

	// logout, where the delete of the session document fails
	failingDataStore.failCount.Store(1)
	resp = rt.SendRequestWithHeaders(http.MethodDelete, "/{{.db}}/_session", "", headers)
	require.Equal(t, int32(1), failingDataStore.failures.Load(), "expected the injected session delete failure to have been triggered")
	logoutStatus := resp.Code
	t.Logf("DELETE _session status=%d Set-Cookie=%q", logoutStatus, resp.Header().Get("Set-Cookie"))

	// Is the session still usable?
	resp = rt.SendRequestWithHeaders(http.MethodGet, "/{{.db}}/", "", headers)
	sessionStillValid := resp.Code == http.StatusOK
	t.Logf("GET with old cookie after logout status=%d", resp.Code)

	// Either the logout is reported as failed, or the session must be gone. Reporting success while leaving the session
	// usable is not acceptable.
	if logoutStatus == http.StatusOK {
		assert.False(t, sessionStillValid, "DELETE _session returned 200 but the session cookie still authenticates")
	} else {
		assert.GreaterOrEqual(t, logoutStatus, 500, "expected a server error when the session could not be deleted")
	}
}
