// Belongs at rest/adminapitest/resync_regen_principals_repro_test.go ; run: go test -vet=off -count=1 -run 'TestResyncRegenerateSequencesInvalidatesPrincipals' ./rest/adminapitest/
//
// Reproduction for: resync with regenerate_sequences=true over all collections does not invalidate the computed
// channels/roles of users and roles, so dynamic access()/role() grants computed under the OLD sync function survive
// the resync. The regenerate_sequences=false subtest is the control (it invalidates all principals).

package adminapitest

import (
	"fmt"
	"net/http"
	"testing"

	"github.com/couchbase/sync_gateway/channels"
	"github.com/couchbase/sync_gateway/db"
	"github.com/couchbase/sync_gateway/rest"
	"github.com/couchbase/sync_gateway/testing/assert"
	"github.com/couchbase/sync_gateway/testing/require"
)

// timedSetHas reports whether the timed set (channels or roles) contains the given name
func timedSetHas(set channels.TimedSet, name string) bool {
	_, ok := set[name]
	return ok
}

func TestResyncRegenerateSequencesInvalidatesPrincipals(t *testing.T) {
	initialSyncFn := `
	function(doc) {
		channel(doc.chan);
		if (doc.userName) {
			access(doc.userName, "channelABC");
			access("role:" + doc.roleName, "channelABC");
			role(doc.userName, "role:roleABC");
		}
	}`

	updatedSyncFn := `
	function(doc) {
		channel(doc.chan);
		if (doc.userName) {
			access(doc.userName, "channelDEF");
			access("role:" + doc.roleName, "channelDEF");
			role(doc.userName, "role:roleDEF");
		}
	}`

	for _, regenerateSequences := range []bool{false, true} {
		t.Run(fmt.Sprintf("regenerate_sequences=%t", regenerateSequences), func(t *testing.T) {
			rt := rest.NewRestTester(t, &rest.RestTesterConfig{
				PersistentConfig: true,
				SyncFn:           initialSyncFn,
			})
			defer rt.Close()

			dbConfig := rt.NewDbConfig()
			ds := rt.TestBucket.GetSingleDataStore()
			scopeName := ds.ScopeName()
			collectionName := ds.CollectionName()
			rest.RequireStatus(t, rt.CreateDatabase("db1", dbConfig), http.StatusCreated)

			const (
				username = "alice"
				rolename = "foo"
			)
			rt.CreateUser(username, nil)
			rest.RequireStatus(t, rt.SendAdminRequest(http.MethodPut, "/{{.db}}/_role/"+rolename, rest.GetRolePayload(t, rolename, rt.GetSingleDataStore(), nil)), http.StatusCreated)
			rt.CreateUser("bob", nil, rolename) // bob only gets access through role foo
			rest.RequireStatus(t, rt.SendAdminRequest(http.MethodPut, "/{{.db}}/_role/roleABC", rest.GetRolePayload(t, "roleABC", rt.GetSingleDataStore(), nil)), http.StatusCreated)
			rest.RequireStatus(t, rt.SendAdminRequest(http.MethodPut, "/{{.db}}/_role/roleDEF", rest.GetRolePayload(t, "roleDEF", rt.GetSingleDataStore(), nil)), http.StatusCreated)

			// one doc in each channel, and one doc that performs the dynamic grants
			rest.RequireStatus(t, rt.SendAdminRequest(http.MethodPut, "/{{.keyspace}}/abcDoc", `{"chan":"channelABC"}`), http.StatusCreated)
			rest.RequireStatus(t, rt.SendAdminRequest(http.MethodPut, "/{{.keyspace}}/defDoc", `{"chan":"channelDEF"}`), http.StatusCreated)
			rest.RequireStatus(t, rt.SendAdminRequest(http.MethodPut, "/{{.keyspace}}/grantDoc", `{"userName":"alice","roleName":"foo"}`), http.StatusCreated)

			// The users "log in": their computed channels/roles get computed and persisted on the principal docs.
			for _, name := range []string{username, "bob"} {
				rest.RequireStatus(t, rt.SendUserRequest(http.MethodGet, "/{{.keyspace}}/abcDoc", "", name), http.StatusOK)
				rest.RequireStatus(t, rt.SendUserRequest(http.MethodGet, "/{{.keyspace}}/defDoc", "", name), http.StatusForbidden)
			}

			ctx := rt.Context()
			user, err := rt.GetDatabase().Authenticator(ctx).GetUser(username)
			require.NoError(t, err)
			require.True(t, timedSetHas(user.CollectionChannels(scopeName, collectionName), "channelABC"))
			require.True(t, timedSetHas(user.RoleNames(), "roleABC"))
			role, err := rt.GetDatabase().Authenticator(ctx).GetRole(rolename)
			require.NoError(t, err)
			require.True(t, timedSetHas(role.CollectionChannels(scopeName, collectionName), "channelABC"))

			rt.TakeDbOffline()

			// Change the sync function: grants now go to channelDEF / roleDEF instead of channelABC / roleABC
			rt.SyncFn = updatedSyncFn
			rest.RequireStatus(t, rt.UpsertDbConfig("db1", rt.NewDbConfig()), http.StatusCreated)
			rt.TakeDbOffline()

			// Run resync to completion
			rest.RequireStatus(t, rt.SendAdminRequest(http.MethodPost, fmt.Sprintf("/{{.db}}/_resync?action=start&regenerate_sequences=%t", regenerateSequences), ""), http.StatusOK)
			status := rt.WaitForResyncDCPStatus(db.BackgroundProcessStateCompleted)
			require.GreaterOrEqual(t, status.DocsChanged, int64(1), "grantDoc must have been rewritten by the resync")

			rt.TakeDbOnline()

			// The granting doc itself was resynced under the new function
			collection, cctx := rt.GetSingleTestDatabaseCollection()
			grantDoc, err := collection.GetDocument(cctx, "grantDoc", db.DocUnmarshalSync)
			require.NoError(t, err)
			require.True(t, timedSetHas(grantDoc.Access[username], "channelDEF"))
			require.False(t, timedSetHas(grantDoc.Access[username], "channelABC"))

			// Effective access over the public API: must be what a fresh evaluation of the new sync function gives
			for _, name := range []string{username, "bob"} {
				resp := rt.SendUserRequest(http.MethodGet, "/{{.keyspace}}/abcDoc", "", name)
				assert.Equal(t, http.StatusForbidden, resp.Code, "%s must no longer be able to read abcDoc (channelABC grant is gone): %s", name, resp.Body.String())
				resp = rt.SendUserRequest(http.MethodGet, "/{{.keyspace}}/defDoc", "", name)
				assert.Equal(t, http.StatusOK, resp.Code, "%s must now be able to read defDoc (channelDEF granted by new sync fn): %s", name, resp.Body.String())
			}

			// Same thing, looking at the principals
			user, err = rt.GetDatabase().Authenticator(ctx).GetUser(username)
			require.NoError(t, err)
			userChannels := user.CollectionChannels(scopeName, collectionName)
			assert.False(t, timedSetHas(userChannels, "channelABC"), "user should not have channel channelABC")
			assert.True(t, timedSetHas(userChannels, "channelDEF"), "user should have channel channelDEF")
			roles := user.RoleNames()
			assert.False(t, timedSetHas(roles, "roleABC"), "user should not have role roleABC")
			assert.True(t, timedSetHas(roles, "roleDEF"), "user should have role roleDEF")

			role, err = rt.GetDatabase().Authenticator(ctx).GetRole(rolename)
			require.NoError(t, err)
			roleChannels := role.CollectionChannels(scopeName, collectionName)
			assert.False(t, timedSetHas(roleChannels, "channelABC"), "role should not have channel channelABC")
			assert.True(t, timedSetHas(roleChannels, "channelDEF"), "role should have channel channelDEF")
		})
	}
}
