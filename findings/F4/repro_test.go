// Copyright 2026-Present Couchbase, Inc.
//
// Use of this software is governed by the Business Source License included
// in the file licenses/BSL-Couchbase.txt.  As of the Change Date specified
// in that file, in accordance with the Business Source License, use of this
// software will be governed by the Apache License, Version 2.0, included in
// the file licenses/APL2.txt.

package db

import (
	"context"
	"errors"
	"sync/atomic"
	"testing"
	"time"

	sgbucket "github.com/couchbase/sg-bucket"
	"github.com/couchbase/sync_gateway/base"
	"github.com/stretchr/testify/assert"
	"github.com/stretchr/testify/require"
)

// requireResyncSequencesAccounted asserts that all sequences allocated since the given lastSeq/released snapshot were either
// written to a document (usedByDocs) or released.
func requireResyncSequencesAccounted(t *testing.T, db *Database, lastSeqBefore, releasedBefore, usedByDocs uint64) {
	lastSeqAfter, err := db.sequences.lastSequence(base.TestCtx(t))
	require.NoError(t, err)
	allocated := lastSeqAfter - lastSeqBefore
	require.GreaterOrEqual(t, allocated, usedByDocs)
	expectedReleased := allocated - usedByDocs
	var released uint64
	assert.Eventually(t, func() bool {
		released = db.sequences.dbStats.SequenceReleasedCount.Value() - releasedBefore
		return released == expectedReleased
	}, 2*time.Second, 50*time.Millisecond)
	assert.Equalf(t, expectedReleased, released, "allocated %d sequences of which %d were written to documents, so expected %d to be released but %d were", allocated, usedByDocs, expectedReleased, released)
}

// TestResyncDocumentRegenerateSequencesCasRetry runs ResyncDocument with regenerateSequences=true using a stale copy of
// the document (as happens when the document is updated after the resync DCP feed received it). The sequence allocated
// for the first, failed, attempt must be released.
func TestResyncDocumentRegenerateSequencesCasRetry(t *testing.T) {
	defer SuspendSequenceBatching()() // deterministic sequence allocation

	db, ctx := setupTestDB(t)
	defer db.Close(ctx)
	collection, ctx := GetSingleDatabaseCollectionWithUser(ctx, t, db)

	const docID = "doc1"
	rev1, _, err := collection.Put(ctx, docID, Body{"foo": "bar"})
	require.NoError(t, err)

	staleDoc := getBucketDocument(t, collection.DatabaseCollection, docID)

	// Document is updated after staleDoc was read
	_, _, err = collection.Put(ctx, docID, Body{"foo": "baz", BodyRev: rev1})
	require.NoError(t, err)
	docBefore, err := collection.GetDocument(ctx, docID, DocUnmarshalAll)
	require.NoError(t, err)

	lastSeqBefore, err := db.sequences.lastSequence(ctx)
	require.NoError(t, err)
	releasedBefore := db.sequences.dbStats.SequenceReleasedCount.Value()

	// First attempt uses staleDoc and fails on CAS, the second attempt succeeds
	require.NoError(t, collection.ResyncDocument(ctx, docID, staleDoc, true))

	docAfter, err := collection.GetDocument(ctx, docID, DocUnmarshalAll)
	require.NoError(t, err)
	require.Greater(t, docAfter.Sequence, docBefore.Sequence)

	lastSeqAfter, err := db.sequences.lastSequence(ctx)
	require.NoError(t, err)
	require.Equal(t, lastSeqBefore+2, lastSeqAfter, "expected one sequence to be allocated per attempt")
	require.Equal(t, lastSeqAfter, docAfter.Sequence)

	// one of the two allocated sequences was written to the doc, the other one has to be released
	requireResyncSequencesAccounted(t, db, lastSeqBefore, releasedBefore, 1)
}

// TestResyncDocumentRegenerateSequencesWriteError runs ResyncDocument with regenerateSequences=true where the write of
// the document fails. The allocated sequence must be released.
func TestResyncDocumentRegenerateSequencesWriteError(t *testing.T) {
	defer SuspendSequenceBatching()() // deterministic sequence allocation

	db, ctx := setupTestDB(t)
	defer db.Close(ctx)
	collection, ctx := GetSingleDatabaseCollectionWithUser(ctx, t, db)

	const docID = "doc1"
	_, _, err := collection.Put(ctx, docID, Body{"foo": "bar"})
	require.NoError(t, err)

	writeErr := errors.New("injected write failure")
	failingDataStore := &writeWithXattrsFailingDataStore{DataStore: collection.dataStore, err: writeErr}
	collection.dataStore = failingDataStore

	lastSeqBefore, err := db.sequences.lastSequence(ctx)
	require.NoError(t, err)
	releasedBefore := db.sequences.dbStats.SequenceReleasedCount.Value()

	failingDataStore.fail.Store(true)
	err = collection.ResyncDocument(ctx, docID, nil, true)
	failingDataStore.fail.Store(false)
	require.ErrorIs(t, err, writeErr)

	lastSeqAfter, err := db.sequences.lastSequence(ctx)
	require.NoError(t, err)
	require.Equal(t, lastSeqBefore+1, lastSeqAfter)

	requireResyncSequencesAccounted(t, db, lastSeqBefore, releasedBefore, 0)
}

// writeWithXattrsFailingDataStore fails WriteUpdateWithXattrs after the callback has been invoked, emulating a
// (non-CAS, non-timeout) failure writing the document.
type writeWithXattrsFailingDataStore struct {
	base.DataStore
	fail atomic.Bool
	err  error
}

func (ds *writeWithXattrsFailingDataStore) WriteUpdateWithXattrs(ctx context.Context, k string, xattrKeys []string, exp uint32, previous *sgbucket.BucketDocument, opts *sgbucket.MutateInOptions, callback sgbucket.WriteUpdateWithXattrsFunc) (uint64, error) {
	if !ds.fail.Load() {
		return ds.DataStore.WriteUpdateWithXattrs(ctx, k, xattrKeys, exp, previous, opts, callback)
	}
	body, xattrs, cas, err := ds.DataStore.GetWithXattrs(ctx, k, xattrKeys)
	if err != nil {
		return 0, err
	}
	if _, err := callback(body, xattrs, cas); err != nil {
		return 0, err
	}
	return 0, ds.err
}
