package db

import (
	"context"
	"errors"
	"fmt"
	"testing"
	"time"

	sgbucket "github.com/couchbase/sg-bucket"
	"github.com/couchbase/sync_gateway/base"
	"github.com/couchbase/sync_gateway/channels"
	"github.com/stretchr/testify/require"
)

// belongs at db/late_removal_repro_test.go; go test -vet=off -count=1 -run TestLateArrivingRemovalIsSentAsRemoval ./db/
func TestLateArrivingRemovalIsSentAsRemoval(t *testing.T) {
	base.SetUpTestLogging(t, base.LevelInfo, base.KeyCache, base.KeyChanges)
	db, ctx := setupTestDBWithCacheOptions(t, shortWaitCache())
	defer db.Close(ctx)

	authenticator := db.Authenticator(ctx)
	user, err := authenticator.NewUser("alice", "letmein", channels.BaseSetOf(t, "A"))
	require.NoError(t, err)
	require.NoError(t, authenticator.Save(user))
	collection := GetSingleDatabaseCollection(t, db.DatabaseContext)

	WriteDirect(t, collection, []string{"A", "B"}, 1)
	WriteDirect(t, collection, []string{"A"}, 2)
	WriteDirect(t, collection, []string{"A"}, 4)
	db.WaitForSequence(t, 4)

	dbCollection, ctx := GetSingleDatabaseCollectionWithUser(ctx, t, db)
	dbCollection.user, err = authenticator.GetUser("alice")
	require.NoError(t, err)

	changesCtx, cancel := context.WithCancelCause(base.TestCtx(t))
	defer cancel(errors.New("teardown"))
	options := ChangesOptions{Since: SequenceID{Seq: 0}, Continuous: true, Wait: true, ChangesCtx: changesCtx}
	feed, err := dbCollection.MultiChangesFeed(ctx, base.SetOf("*"), options)
	require.NoError(t, err)
	_, err = verifySequencesInFeed(feed, []uint64{1, 2, 4})
	require.NoError(t, err)

	// late seq 3: doc-1 removed from A
	const docID = "doc-1"
	syncData := &SyncData{
		RevAndVersion:   channels.RevAndVersion{RevTreeID: "2-a"},
		Sequence:        3,
		RecentSequences: []uint64{1, 3},
		Channels:        channels.ChannelMap{"A": &channels.ChannelRemoval{Seq: 3, Rev: channels.RevAndVersion{RevTreeID: "2-a"}}, "B": nil},
		TimeSaved:       time.Now(),
		History: RevTree{
			"1-a": &RevInfo{ID: "1-a", Channels: base.SetOf("A", "B")},
			"2-a": &RevInfo{ID: "2-a", Parent: "1-a", Channels: base.SetOf("B")},
		},
	}
	_, cas, err := collection.dataStore.GetRaw(ctx, docID)
	require.NoError(t, err)
	opts := &sgbucket.MutateInOptions{MacroExpansion: macroExpandSpec(base.SyncXattrName)}
	_, err = collection.dataStore.WriteWithXattrs(ctx, docID, 0, cas, []byte(fmt.Sprintf(`{"key": "%s", "update": 2}`, docID)),
		map[string][]byte{base.SyncXattrName: base.MustJSONMarshal(t, syncData)}, nil, opts)
	require.NoError(t, err)

	changes, err := verifySequencesInFeed(feed, []uint64{3})
	require.NoError(t, err)
	require.Len(t, changes, 1)
	t.Logf("CONTINUOUS got: %s", changes[0].String())
	// alice only sees channel A; revision 2-a removed doc-1 from A, so the continuous feed must announce a removal, as the one-shot feed does
	require.True(t, changes[0].Removed.Contains("A"), "late-arriving removal was sent as an ordinary change: %s", changes[0].String())
	// compare with one-shot from since=2
	oneshot := getChanges(t, dbCollection, base.SetOf("*"), getChangesOptionsWithSeq(t, SequenceID{Seq: 2}))
	for _, c := range oneshot {
		t.Logf("ONESHOT got: %s", c.String())
	}
}
