/*
Copyright 2026-Present Couchbase, Inc.

Use of this software is governed by the Business Source License included in
the file licenses/BSL-Couchbase.txt.  As of the Change Date specified in that
file, in accordance with the Business Source License, use of this software will
be governed by the Apache License, Version 2.0, included in the file
licenses/APL2.txt.
*/

package db

import (
	"context"
	"sync/atomic"
	"testing"

	"github.com/couchbase/sync_gateway/base"
	"github.com/couchbase/sync_gateway/testing/assert"
	"github.com/couchbase/sync_gateway/testing/require"
)

// pausingBackingStore wraps the revision cache's backing store so that a test can run code at the point where
// GetActive has read the document from the bucket but has not yet looked up/added the revision cache entry.
type pausingBackingStore struct {
	RevisionCacheBackingStore
	armed            atomic.Bool
	afterGetDocument func()
}

func (s *pausingBackingStore) GetDocument(ctx context.Context, docid string, unmarshalLevel DocumentUnmarshalLevel) (*Document, error) {
	doc, err := s.RevisionCacheBackingStore.GetDocument(ctx, docid, unmarshalLevel)
	if s.armed.CompareAndSwap(true, false) {
		s.afterGetDocument()
	}
	return doc, err
}

// TestGetActiveRacingWithChannelChangeOfSameRevision has a read of the current revision (GET /db/doc without rev)
// overlap with an import of a user xattr change, which moves the document to another channel without creating a new
// revision. The reader has read the document from the bucket before the change, and gets to the revision cache only
// after the import has been written and has come through the mutation feed (DocChanged has evicted the revision).
// That one read may return the document, but it must not leave the old channels in the revision cache.
func TestGetActiveRacingWithChannelChangeOfSameRevision(t *testing.T) {
	if base.TestDisableRevCache() {
		t.Skip("test requires the revision cache")
	}
	const userXattrKey = "channels"
	db, ctx := SetupTestDBWithOptions(t, DatabaseContextOptions{UserXattrKey: userXattrKey})
	defer db.Close(ctx)
	collection, ctx := GetSingleDatabaseCollectionWithUser(ctx, t, db)
	_, err := collection.UpdateSyncFun(ctx, `function (doc, oldDoc, meta){ if (meta.xattrs.channels !== undefined){ channel(meta.xattrs.channels); } }`)
	require.NoError(t, err)

	store := &pausingBackingStore{RevisionCacheBackingStore: collection.DatabaseCollection}
	db.revisionCache = NewRevisionCache(db.Options.RevisionCacheOptions, map[uint32]RevisionCacheBackingStore{collection.GetCollectionID(): store}, db.DbStats.Cache(), db.DbStats.DeltaSync(), db.DeltaSyncEnabled())

	userDEF, err := collection.Authenticator(ctx).NewUser("userDEF", "pass", base.SetOf("DEF"))
	require.NoError(t, err)
	userCollection := &DatabaseCollectionWithUser{DatabaseCollection: collection.DatabaseCollection, user: userDEF}

	docID := SafeDocumentName(t, t.Name())
	rev1, _, err := collection.Put(ctx, docID, Body{"foo": "bar"})
	require.NoError(t, err)

	// setXattrAndImport sets the user xattr through the SDK, imports the change and waits for the import to come
	// through the mutation feed.
	setXattrAndImport := func(channel string) {
		cas, err := collection.dataStore.Get(ctx, docID, nil)
		require.NoError(t, err)
		_, err = collection.dataStore.UpdateXattrs(ctx, docID, 0, cas, map[string][]byte{userXattrKey: base.MustJSONMarshal(t, channel)}, nil)
		require.NoError(t, err)
		doc, err := collection.GetDocument(ctx, docID, DocUnmarshalAll) // on-demand import
		require.NoError(t, err)
		require.Equal(t, rev1, doc.GetRevTreeID(), "user xattr change is not expected to create a revision")
		require.Equal(t, base.SetOf(channel), doc.getCurrentChannels())
		db.WaitForPendingChanges(t)
	}
	setXattrAndImport("DEF")

	// userDEF reads the current revision; between the reader's bucket read and its use of the revision cache the
	// document moves from DEF to ABC
	store.afterGetDocument = func() { setXattrAndImport("ABC") }
	store.armed.Store(true)
	_, err = userCollection.GetRev(ctx, docID, "", false, nil)
	require.NoError(t, err) // this read started before the change, it may see the document
	require.False(t, store.armed.Load(), "expected GetActive to read the document")

	// the change has been written and has come through the mutation feed: userDEF has no access to the document
	rev, err := userCollection.GetRev(ctx, docID, "", false, nil)
	assert.ErrorIs(t, err, ErrForbidden)
	assert.Empty(t, string(rev.BodyBytes))
	rev, err = userCollection.GetRev(ctx, docID, rev1, false, nil)
	require.NoError(t, err)
	assert.Equal(t, RemovedRedactedDocument, string(rev.BodyBytes))

	// and what the cache serves for the revision is what the bucket holds
	cached, err := collection.revisionCache.Get(ctx, docID, rev1, RevCacheDontLoadBackupRev)
	require.NoError(t, err)
	assert.Equal(t, base.SetOf("ABC"), cached.Channels)
}
