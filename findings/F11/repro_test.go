// Copyright 2026-Present Couchbase, Inc.
//
// Use of this software is governed by the Business Source License included
// in the file licenses/BSL-Couchbase.txt.  As of the Change Date specified
// in that file, in accordance with the Business Source License, use of this
// software will be governed by the Apache License, Version 2.0, included in
// the file licenses/APL2.txt.

package rest

import (
	"context"
	"errors"
	"sync/atomic"
	"testing"
	"time"

	"github.com/couchbase/sync_gateway/base"
	"github.com/couchbase/sync_gateway/testing/assert"
	"github.com/couchbase/sync_gateway/testing/require"
)

// failingGetBootstrapConnection wraps a BootstrapConnection and, once armed, fails GetMetadataDocument for a single key.
type failingGetBootstrapConnection struct {
	base.BootstrapConnection
	failKey string
	getErr  error
	armed   atomic.Bool
	hits    atomic.Int32
}

func (c *failingGetBootstrapConnection) GetMetadataDocument(ctx context.Context, bucket, key string, valuePtr any) (uint64, error) {
	if c.armed.Load() && key == c.failKey {
		c.hits.Add(1)
		return 0, c.getErr
	}
	return c.BootstrapConnection.GetMetadataDocument(ctx, bucket, key, valuePtr)
}

// TestGetRegistryAndDatabaseInProgressDeleteError verifies that when the registry holds an in-progress delete for a
// database and the config document cannot be read to confirm that the delete finished, getRegistryAndDatabase (and the
// config operations built on it) surface the error instead of reporting that the database does not exist.
func TestGetRegistryAndDatabaseInProgressDeleteError(t *testing.T) {
	base.TestRequiresCollections(t)
	base.SetUpTestLogging(t, base.LevelInfo, base.KeyHTTP, base.KeyConfig)

	ctx := base.TestCtx(t)
	tb := base.GetTestBucket(t)
	defer tb.Close(ctx)

	sc, closeFn := startBootstrapServerWithoutConfigPolling(t, false)
	defer closeFn()

	scopesConfig := GetCollectionsConfig(t, tb, 1)
	bucketName := tb.GetName()
	groupID := sc.Config.Bootstrap.ConfigGroupID
	bc := sc.BootstrapContext
	bc.configRetryTimeout = 1 * time.Millisecond

	const dbName = "db1"
	dbConfig := getTestDatabaseConfig(bucketName, dbName, scopesConfig, "1-a")
	_, err := bc.InsertConfig(ctx, bucketName, groupID, dbConfig)
	require.NoError(t, err)

	// Simulate a delete by another node that has marked the database as deleted in the registry (DeleteConfig step 2), but has
	// not yet removed the config document.
	registry, err := bc.getGatewayRegistry(ctx, bucketName)
	require.NoError(t, err)
	require.NoError(t, registry.deleteDatabase(groupID, dbName))
	require.NoError(t, bc.setGatewayRegistry(ctx, bucketName, registry))

	// The config document can't be read while waiting for the delete to complete
	storageErr := errors.New("simulated storage error reading config document")
	conn := &failingGetBootstrapConnection{
		BootstrapConnection: bc.Connection,
		failKey:             PersistentConfigKey(ctx, groupID, dbName),
		getErr:              storageErr,
	}
	originalConnection := bc.Connection
	bc.Connection = conn
	defer func() { bc.Connection = originalConnection }()
	conn.armed.Store(true)

	_, config, err := bc.getRegistryAndDatabase(ctx, bucketName, groupID, dbName)
	require.Greater(t, conn.hits.Load(), int32(0))
	assert.Nil(t, config)
	assert.ErrorIs(t, err, storageErr, "getRegistryAndDatabase must report that the in-progress delete could not be confirmed")

	// DeleteConfig must not report 'not found' for a database whose config document still exists
	err = bc.DeleteConfig(ctx, bucketName, groupID, dbName)
	assert.ErrorIs(t, err, storageErr)

	// UpdateConfig must not report 'not found' either
	_, err = bc.UpdateConfig(ctx, bucketName, groupID, dbName, func(bucketDbConfig *DatabaseConfig) (*DatabaseConfig, error) {
		bucketDbConfig.Version = "2-a"
		return bucketDbConfig, nil
	})
	assert.ErrorIs(t, err, storageErr)

	// InsertConfig must not go on to rewrite the registry entry when the delete couldn't be confirmed
	conn.armed.Store(false)
	registryBefore, err := bc.getGatewayRegistry(ctx, bucketName)
	require.NoError(t, err)
	conn.armed.Store(true)
	_, err = bc.InsertConfig(ctx, bucketName, groupID, getTestDatabaseConfig(bucketName, dbName, scopesConfig, "1-b"))
	assert.ErrorIs(t, err, storageErr)
	conn.armed.Store(false)
	registryAfter, err := bc.getGatewayRegistry(ctx, bucketName)
	require.NoError(t, err)
	assert.Equal(t, registryBefore.cas, registryAfter.cas, "registry must not be modified by the failed insert")
}
