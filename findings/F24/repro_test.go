package db

import (
	"context"
	"errors"
	"strings"
	"sync/atomic"
	"testing"
	"time"

	"github.com/couchbase/sync_gateway/base"
	"github.com/stretchr/testify/assert"
	"github.com/stretchr/testify/require"
)

// failUnusedSeqRangeDataStore wraps a DataStore and fails AddRaw for unused sequence range documents while armed.
// Simulates a transient KV error (temp fail/timeout) on the write of the _sync:unusedSeqs:from:to document.
type failUnusedSeqRangeDataStore struct {
	base.DataStore
	prefix    string
	armed     atomic.Bool
	failCount atomic.Int32
}

func (f *failUnusedSeqRangeDataStore) AddRaw(ctx context.Context, k string, exp uint32, v []byte) (bool, error) {
	if f.armed.Load() && strings.HasPrefix(k, f.prefix) {
		f.failCount.Add(1)
		return false, errors.New("injected transient error writing unused sequence range")
	}
	return f.DataStore.AddRaw(ctx, k, exp, v)
}

// TestUpdateAfterFailedBatchReleaseGetsHigherSequence:
//   - two nodes (A and B) share a bucket
//   - node A holds a partially used batch of sequences
//   - node B creates a document (sequence above A's batch) and then another document (moving _sync:seq further on)
//   - node A updates B's document while the write of the unused sequence range document fails
//
// The update must be given a sequence greater than the sequence of the revision it replaces, and a changes request
// since the previous sequence must return the update.
func TestUpdateAfterFailedBatchReleaseGetsHigherSequence(t *testing.T) {
	base.SetUpTestLogging(t, base.LevelDebug, base.KeyCRUD, base.KeyCache)

	ctx := base.TestCtx(t)
	bucket := base.GetTestBucket(t)
	defer bucket.Close(ctx)

	cacheOptions := DefaultCacheOptions()
	cacheOptions.CachePendingSeqMaxWait = 100 * time.Millisecond // sequences lost by the failed release are skipped quickly
	newOptions := func() DatabaseContextOptions {
		opts := cacheOptions
		return DatabaseContextOptions{CacheOptions: &opts, Scopes: GetScopesOptionsDefaultCollectionOnly(t)}
	}
	dbA, ctxA := SetupTestDBForBucketWithOptions(t, bucket, newOptions())
	defer dbA.Close(ctxA)
	dbB, ctxB := SetupTestDBForBucketWithOptions(t, bucket.NoCloseClone(), newOptions())
	defer dbB.Close(ctxB)

	collectionA, ctxA := GetSingleDatabaseCollectionWithUser(ctxA, t, dbA)
	collectionB, ctxB := GetSingleDatabaseCollectionWithUser(ctxB, t, dbB)

	// Fault injection and deterministic batching for node A's allocator: no idle release during the test.
	faultyStore := &failUnusedSeqRangeDataStore{prefix: dbA.MetadataKeys.UnusedSeqRangePrefix()}
	dbA.sequences.mutex.Lock()
	faultyStore.DataStore = dbA.sequences.datastore
	dbA.sequences.datastore = faultyStore
	dbA.sequences.releaseSequenceWait = time.Hour
	dbA.sequences.mutex.Unlock()

	// Node A writes documents in quick succession until it holds at least three reserved, unassigned sequences.
	batchHeld := false
	for i := 0; i < 50 && !batchHeld; i++ {
		_, _, err := collectionA.Put(ctxA, "a"+string(rune('A'+i)), Body{"channels": []string{"ABC"}})
		require.NoError(t, err)
		dbA.sequences.mutex.Lock()
		batchHeld = dbA.sequences.max >= dbA.sequences.last+3
		dbA.sequences.mutex.Unlock()
	}
	require.True(t, batchHeld, "node A never held a batch with three unused sequences")

	// Node B creates the shared document, and another document so that _sync:seq is beyond the shared document's sequence.
	rev1, docB, err := collectionB.Put(ctxB, "shared", Body{"channels": []string{"ABC"}, "v": 1})
	require.NoError(t, err)
	previousSequence := docB.Sequence
	_, _, err = collectionB.Put(ctxB, "other", Body{"channels": []string{"ABC"}})
	require.NoError(t, err)

	dbA.sequences.mutex.Lock()
	require.Less(t, dbA.sequences.max, previousSequence, "test setup: shared doc's sequence expected to be beyond node A's batch")
	dbA.sequences.mutex.Unlock()

	// Node A updates the shared document while unused sequence range writes fail
	faultyStore.armed.Store(true)
	rev2, docA, err := collectionA.Put(ctxA, "shared", Body{BodyRev: rev1, "channels": []string{"ABC"}, "v": 2})
	faultyStore.armed.Store(false)
	require.NoError(t, err)
	require.Greater(t, faultyStore.failCount.Load(), int32(0), "test setup: expected the release of node A's batch to have been attempted and failed")

	assert.Greater(t, docA.Sequence, previousSequence, "update was given a sequence that is not greater than the one it replaces")

	stored, err := collectionA.GetDocument(ctxA, "shared", DocUnmarshalAll)
	require.NoError(t, err)
	assert.Equal(t, rev2, stored.GetRevTreeID())
	assert.Greater(t, stored.Sequence, previousSequence, "stored document sequence went backwards")

	// A client that has seen everything up to the first revision of the shared document must be sent the update
	for name, node := range map[string]*DatabaseCollectionWithUser{"A": collectionA, "B": collectionB} {
		require.EventuallyWithT(t, func(c *assert.CollectT) {
			feed, err := node.MultiChangesFeed(ctx, base.SetOf("ABC"), ChangesOptions{Since: SequenceID{Seq: previousSequence}, ChangesCtx: ctx})
			if !assert.NoError(c, err) {
				return
			}
			found := false
			for entry := range feed {
				if entry.ID == "shared" {
					found = true
					if assert.Len(c, entry.Changes, 1) {
						assert.Equal(c, rev2, entry.Changes[0]["rev"])
					}
				}
			}
			assert.True(c, found, "node %s: changes since %d does not include the update of the shared document (stored at sequence %d)", name, previousSequence, stored.Sequence)
		}, 10*time.Second, 100*time.Millisecond)
	}
}
