// rest/attachment_nonwinning_repro_test.go ; go test -vet=off -count=1 -run 'TestNonWinningRevisionAttachments' ./rest/
//
// Reproduction for: attachments of the current (winning) revision must stay intact when a conflicting revision that
// does NOT become the winner is pushed, and an attachment body must only be removed once no leaf references it.

package rest

import (
	"fmt"
	"net/http"
	"testing"

	"github.com/couchbase/sync_gateway/base"
	"github.com/couchbase/sync_gateway/db"
	"github.com/stretchr/testify/assert"
	"github.com/stretchr/testify/require"
)

const (
	reproHelloData = "aGVsbG8gd29ybGQ="             // "hello world"
	reproByeData   = "Z29vZGJ5ZSBjcnVlbCB3b3JsZA==" // "goodbye cruel world"
)

var (
	reproHelloDigest = db.Sha1DigestKey([]byte("hello world"))
	reproByeDigest   = db.Sha1DigestKey([]byte("goodbye cruel world"))
)

type reproDocResp struct {
	ID          string           `json:"_id"`
	Rev         string           `json:"_rev"`
	Attachments db.AttachmentMap `json:"_attachments"`
	Marker      string           `json:"marker"`
}

// reproGetDoc fetches a revision (or the winning revision when rev=="") with attachment bodies inlined.
func reproGetDoc(rt *RestTester, docID, rev string) (int, reproDocResp) {
	url := "/{{.keyspace}}/" + docID + "?attachments=true"
	if rev != "" {
		url += "&rev=" + rev
	}
	resp := rt.SendAdminRequestWithHeaders(http.MethodGet, url, "", map[string]string{"Accept": "application/json"})
	var out reproDocResp
	if resp.Code == http.StatusOK {
		require.NoError(rt.TB(), base.JSONUnmarshal(resp.BodyBytes(), &out))
	} else {
		rt.TB().Logf("GET %s -> %d %s", url, resp.Code, resp.BodyString())
	}
	return resp.Code, out
}

func reproAttachmentBodyExists(rt *RestTester, docID, digest string) bool {
	_, _, err := rt.GetSingleDataStore().GetRaw(rt.Context(), db.MakeAttachmentKey(db.AttVersion2, docID, digest))
	return err == nil
}

// requireOnlyAttachment asserts the revision carries exactly the named attachment with the expected bytes.
func assertOnlyAttachment(t *testing.T, rt *RestTester, docID, rev, wantRev, name, digest, data string) {
	code, doc := reproGetDoc(rt, docID, rev)
	if !assert.Equal(t, http.StatusOK, code, "GET %s rev=%q", docID, rev) {
		return
	}
	assert.Equal(t, wantRev, doc.Rev)
	names := make([]string, 0, len(doc.Attachments))
	for n := range doc.Attachments {
		names = append(names, n)
	}
	assert.Equal(t, []string{name}, names, "attachment names of %s rev %q", docID, wantRev)
	if att, ok := doc.Attachments[name]; ok {
		assert.Equal(t, digest, att.Digest)
		assert.Equal(t, data, string(att.Data))
	}
}

func TestNonWinningRevisionAttachments(t *testing.T) {
	rt := NewRestTester(t, nil)
	defer rt.Close()
	rt.GetDatabase().EnableAllowConflicts(rt.TB())

	helloBody := `{"marker":"hello","_attachments":{"hello.txt":{"data":"` + reproHelloData + `"}}}`
	byeBody := `{"marker":"bye","_attachments":{"bye.txt":{"data":"` + reproByeData + `"}}}`

	for _, eccv := range []bool{false, true} {
		// CONTROL: the second conflicting push WINS (2-aaa first, then 2-zzz). Expected to pass on the unchanged tree.
		t.Run(fmt.Sprintf("control second push wins eccv=%t", eccv), func(t *testing.T) {
			rt.GetDatabase().CachedCCVEnabled.Store(eccv)
			docID := db.SafeDocumentName(t, t.Name())
			v1 := rt.PutNewEditsFalse(docID, NewDocVersionFromFakeRev("1-a"), nil, `{"marker":"one"}`)
			_ = rt.PutNewEditsFalse(docID, NewDocVersionFromFakeRev("2-aaa"), v1, helloBody)
			_ = rt.PutNewEditsFalse(docID, NewDocVersionFromFakeRev("2-zzz"), v1, byeBody)
			rt.GetDatabase().FlushRevisionCacheForTest()

			assertOnlyAttachment(t, rt, docID, "", "2-zzz", "bye.txt", reproByeDigest, "goodbye cruel world")
			assertOnlyAttachment(t, rt, docID, "2-aaa", "2-aaa", "hello.txt", reproHelloDigest, "hello world")
			assert.True(t, reproAttachmentBodyExists(rt, docID, reproHelloDigest), "hello.txt body is referenced by leaf 2-aaa")
			assert.True(t, reproAttachmentBodyExists(rt, docID, reproByeDigest), "bye.txt body is referenced by leaf 2-zzz")
		})

		// CASE 1: the second conflicting push LOSES (2-zzz first, then 2-aaa).
		t.Run(fmt.Sprintf("case1 second push loses eccv=%t", eccv), func(t *testing.T) {
			rt.GetDatabase().CachedCCVEnabled.Store(eccv)
			docID := db.SafeDocumentName(t, t.Name())
			v1 := rt.PutNewEditsFalse(docID, NewDocVersionFromFakeRev("1-a"), nil, `{"marker":"one"}`)
			_ = rt.PutNewEditsFalse(docID, NewDocVersionFromFakeRev("2-zzz"), v1, helloBody)
			assertOnlyAttachment(t, rt, docID, "", "2-zzz", "hello.txt", reproHelloDigest, "hello world")

			_ = rt.PutNewEditsFalse(docID, NewDocVersionFromFakeRev("2-aaa"), v1, byeBody)
			rt.GetDatabase().FlushRevisionCacheForTest()

			// the winner is unchanged, so are its body and its attachments
			code, winner := reproGetDoc(rt, docID, "")
			require.Equal(t, http.StatusOK, code)
			assert.Equal(t, "2-zzz", winner.Rev)
			assert.Equal(t, "hello", winner.Marker)
			assertOnlyAttachment(t, rt, docID, "", "2-zzz", "hello.txt", reproHelloDigest, "hello world")
			assertOnlyAttachment(t, rt, docID, "2-zzz", "2-zzz", "hello.txt", reproHelloDigest, "hello world")
			// the losing leaf keeps what it was written with
			assertOnlyAttachment(t, rt, docID, "2-aaa", "2-aaa", "bye.txt", reproByeDigest, "goodbye cruel world")
			// both leaves reference their attachment -> neither body may be removed
			assert.True(t, reproAttachmentBodyExists(rt, docID, reproHelloDigest), "hello.txt body is referenced by the winning leaf 2-zzz")
			assert.True(t, reproAttachmentBodyExists(rt, docID, reproByeDigest), "bye.txt body is referenced by leaf 2-aaa")

			// document-level attachment metadata describes the current revision
			collection, ctx := rt.GetSingleTestDatabaseCollectionWithUser()
			doc, err := collection.GetDocument(ctx, docID, db.DocUnmarshalAll)
			require.NoError(t, err)
			assert.Equal(t, "2-zzz", doc.GetRevTreeID())
			assert.Contains(t, doc.Attachments(), "hello.txt")
			assert.NotContains(t, doc.Attachments(), "bye.txt")

			// a following plain update of the winner that keeps hello.txt as a stub must be accepted and keep the bytes
			code, winner = reproGetDoc(rt, docID, "")
			require.Equal(t, http.StatusOK, code)
			resp := rt.SendAdminRequest(http.MethodPut, "/{{.keyspace}}/"+docID+"?rev=2-zzz",
				`{"marker":"three","_attachments":{"hello.txt":{"stub":true,"revpos":2,"digest":"`+reproHelloDigest+`"}}}`)
			if assert.Equal(t, http.StatusCreated, resp.Code, resp.BodyString()) {
				rt.GetDatabase().FlushRevisionCacheForTest()
				v3 := DocVersionFromPutResponse(t, resp)
				assertOnlyAttachment(t, rt, docID, "", v3.RevTreeID, "hello.txt", reproHelloDigest, "hello world")
				assert.True(t, reproAttachmentBodyExists(rt, docID, reproHelloDigest))
				assertOnlyAttachment(t, rt, docID, "2-aaa", "2-aaa", "bye.txt", reproByeDigest, "goodbye cruel world")
				assert.True(t, reproAttachmentBodyExists(rt, docID, reproByeDigest))
			}
		})

		// CASE 1b: the losing push only repeats (as a stub) an attachment of the common ancestor. When the winning branch
		// later drops that attachment, the losing leaf still references it.
		t.Run(fmt.Sprintf("case1b stub-only loser keeps shared attachment alive eccv=%t", eccv), func(t *testing.T) {
			rt.GetDatabase().CachedCCVEnabled.Store(eccv)
			docID := db.SafeDocumentName(t, t.Name())
			stubBody := `{"marker":"%s","_attachments":{"hello.txt":{"stub":true,"revpos":1,"digest":"` + reproHelloDigest + `"}}}`
			v1 := rt.PutNewEditsFalse(docID, NewDocVersionFromFakeRev("1-a"), nil, helloBody)
			_ = rt.PutNewEditsFalse(docID, NewDocVersionFromFakeRev("2-zzz"), v1, fmt.Sprintf(stubBody, "winner"))
			_ = rt.PutNewEditsFalse(docID, NewDocVersionFromFakeRev("2-aaa"), v1, fmt.Sprintf(stubBody, "loser"))
			// winning branch drops the attachment
			resp := rt.SendAdminRequest(http.MethodPut, "/{{.keyspace}}/"+docID+"?rev=2-zzz", `{"marker":"three"}`)
			RequireStatus(t, resp, http.StatusCreated)
			rt.GetDatabase().FlushRevisionCacheForTest()

			code, winner := reproGetDoc(rt, docID, "")
			require.Equal(t, http.StatusOK, code)
			assert.Equal(t, "three", winner.Marker)
			assert.Empty(t, winner.Attachments)
			assertOnlyAttachment(t, rt, docID, "2-aaa", "2-aaa", "hello.txt", reproHelloDigest, "hello world")
			assert.True(t, reproAttachmentBodyExists(rt, docID, reproHelloDigest), "hello.txt body is referenced by leaf 2-aaa")
		})

		// CASE 2a: tombstoning the winning branch promotes a leaf that lost when it was PUSHED (never was current).
		t.Run(fmt.Sprintf("case2a promote pushed loser eccv=%t", eccv), func(t *testing.T) {
			rt.GetDatabase().CachedCCVEnabled.Store(eccv)
			docID := db.SafeDocumentName(t, t.Name())
			v1 := rt.PutNewEditsFalse(docID, NewDocVersionFromFakeRev("1-a"), nil, `{"marker":"one"}`)
			_ = rt.PutNewEditsFalse(docID, NewDocVersionFromFakeRev("2-zzz"), v1, helloBody)
			_ = rt.PutNewEditsFalse(docID, NewDocVersionFromFakeRev("2-aaa"), v1, byeBody)

			resp := rt.SendAdminRequest(http.MethodDelete, "/{{.keyspace}}/"+docID+"?rev=2-zzz", "")
			RequireStatus(t, resp, http.StatusOK)
			rt.GetDatabase().FlushRevisionCacheForTest()

			assertOnlyAttachment(t, rt, docID, "", "2-aaa", "bye.txt", reproByeDigest, "goodbye cruel world")
			assert.True(t, reproAttachmentBodyExists(rt, docID, reproByeDigest), "bye.txt body is referenced by the promoted leaf 2-aaa")
		})

		// CASE 2b: tombstoning the winning branch promotes a leaf that used to be current (displaced by a winning push).
		t.Run(fmt.Sprintf("case2b promote displaced leaf eccv=%t", eccv), func(t *testing.T) {
			rt.GetDatabase().CachedCCVEnabled.Store(eccv)
			docID := db.SafeDocumentName(t, t.Name())
			v1 := rt.PutNewEditsFalse(docID, NewDocVersionFromFakeRev("1-a"), nil, `{"marker":"one"}`)
			_ = rt.PutNewEditsFalse(docID, NewDocVersionFromFakeRev("2-aaa"), v1, helloBody)
			_ = rt.PutNewEditsFalse(docID, NewDocVersionFromFakeRev("2-zzz"), v1, byeBody)

			resp := rt.SendAdminRequest(http.MethodDelete, "/{{.keyspace}}/"+docID+"?rev=2-zzz", "")
			RequireStatus(t, resp, http.StatusOK)
			rt.GetDatabase().FlushRevisionCacheForTest()

			assertOnlyAttachment(t, rt, docID, "", "2-aaa", "hello.txt", reproHelloDigest, "hello world")
			assert.True(t, reproAttachmentBodyExists(rt, docID, reproHelloDigest), "hello.txt body is referenced by the promoted leaf 2-aaa")
		})
	}
}
