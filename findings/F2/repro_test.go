// Copyright 2026-Present Couchbase, Inc.
//
// Use of this software is governed by the Business Source License included
// in the file licenses/BSL-Couchbase.txt.  As of the Change Date specified
// in that file, in accordance with the Business Source License, use of this
// software will be governed by the Apache License, Version 2.0, included in
// the file licenses/APL2.txt.

package db

import (
	"net/http"
	"testing"
	"time"

	"github.com/couchbase/sync_gateway/base"
	"github.com/stretchr/testify/assert"
	"github.com/stretchr/testify/require"
)

// sequenceAccounting snapshots the sequence allocator, to allow tests to verify that every sequence allocated was either
// written to a document or released.
type sequenceAccounting struct {
	lastSeq  uint64
	released uint64
}

func newSequenceAccounting(t *testing.T, db *Database) sequenceAccounting {
	lastSeq, err := db.sequences.lastSequence(base.TestCtx(t))
	require.NoError(t, err)
	return sequenceAccounting{lastSeq: lastSeq, released: db.sequences.dbStats.SequenceReleasedCount.Value()}
}

// requireNoLeakedSequences asserts that (allocated since snapshot) == usedByDocs + (released since snapshot)
func (s sequenceAccounting) requireNoLeakedSequences(t *testing.T, db *Database, usedByDocs uint64) {
	lastSeq, err := db.sequences.lastSequence(base.TestCtx(t))
	require.NoError(t, err)
	allocated := lastSeq - s.lastSeq
	require.GreaterOrEqual(t, allocated, usedByDocs)
	expectedReleased := allocated - usedByDocs
	var released uint64
	// releases are synchronous with the write, but give the stat the same grace that TestUpdatePrincipalCASRetry does
	assert.Eventually(t, func() bool {
		released = db.sequences.dbStats.SequenceReleasedCount.Value() - s.released
		return released == expectedReleased
	}, 2*time.Second, 50*time.Millisecond)
	assert.Equalf(t, expectedReleased, released, "allocated %d sequences of which %d were written to documents, so expected %d to be released but %d were", allocated, usedByDocs, expectedReleased, released)
}

// TestDocUpdateErrorAfterSequenceAssignedReleasesSequence covers a document update that fails inside documentUpdateFunc
// after a sequence has been assigned to the document. Here the failure is the sync function rejecting the revision that
// becomes active as a result of the update (recalculateSyncFnForActiveRev).
func TestDocUpdateErrorAfterSequenceAssignedReleasesSequence(t *testing.T) {
	defer SuspendSequenceBatching()() // deterministic sequence allocation

	db, ctx := setupTestDBAllowConflicts(t)
	defer db.Close(ctx)
	adminCollection, ctx := GetSingleDatabaseCollectionWithUser(ctx, t, db)

	_, err := adminCollection.UpdateSyncFun(ctx, `function(doc, oldDoc){
		if (doc.owner) {
			requireUser(doc.owner);
		}
		channel("c");
	}`)
	require.NoError(t, err)

	authenticator := db.Authenticator(ctx)
	alice, err := authenticator.NewUser("alice", "letmein", base.SetOf("c"))
	require.NoError(t, err)
	require.NoError(t, authenticator.Save(alice))
	aliceCollection := &DatabaseCollectionWithUser{DatabaseCollection: adminCollection.DatabaseCollection, user: alice}

	//     1-a
	//    /   \
	//  2-a   2-b     2-a can only be written by bob, 2-b is the winning revision
	const docID = "doc1"
	_, _, err = adminCollection.PutExistingRevWithBody(ctx, docID, Body{"foo": "bar"}, []string{"1-a"}, false, ExistingVersionWithUpdateToHLV)
	require.NoError(t, err)
	_, _, err = adminCollection.PutExistingRevWithBody(ctx, docID, Body{"owner": "bob"}, []string{"2-a", "1-a"}, false, ExistingVersionWithUpdateToHLV)
	require.NoError(t, err)
	_, _, err = adminCollection.PutExistingRevWithBody(ctx, docID, Body{"foo": "baz"}, []string{"2-b", "1-a"}, false, ExistingVersionWithUpdateToHLV)
	require.NoError(t, err)
	doc, err := adminCollection.GetDocument(ctx, docID, DocUnmarshalAll)
	require.NoError(t, err)
	require.Equal(t, "2-b", doc.GetRevTreeID())
	seqBefore := doc.Sequence

	// alice tombstones 2-b. That makes 2-a the active revision, and the sync function is re-run for it - as alice, so
	// it's rejected. That happens after the sequence for the update has been assigned.
	accounting := newSequenceAccounting(t, db)
	_, _, err = aliceCollection.PutExistingRevWithBody(ctx, docID, Body{BodyDeleted: true}, []string{"3-b", "2-b"}, false, ExistingVersionWithUpdateToHLV)
	require.Error(t, err)
	status, _ := base.ErrorAsHTTPStatus(err)
	require.Equal(t, http.StatusForbidden, status, "unexpected error %v", err)

	// doc wasn't updated
	doc, err = adminCollection.GetDocument(ctx, docID, DocUnmarshalAll)
	require.NoError(t, err)
	require.Equal(t, "2-b", doc.GetRevTreeID())
	require.Equal(t, seqBefore, doc.Sequence)

	accounting.requireNoLeakedSequences(t, db, 0)
}

// TestDocUpdateErrorAfterCasRetriesReleasesUnusedSequences covers a document update that goes through several CAS
// retries - accumulating an unused sequence along the way - and then exits documentUpdateFunc with an error (here
// ErrUpdateCancel, as another writer has pushed the same revision in the meantime).
func TestDocUpdateErrorAfterCasRetriesReleasesUnusedSequences(t *testing.T) {
	defer SuspendSequenceBatching()() // deterministic sequence allocation

	const docID = "doc1"
	var db *Database
	var ctx = base.TestCtx(t)
	concurrentWriteCount := 0
	concurrentWritesEnabled := false
	concurrentWrite := func(key string) {
		if !concurrentWritesEnabled || key != docID {
			return
		}
		concurrentWriteCount++
		collection, ctx := GetSingleDatabaseCollectionWithUser(ctx, t, db)
		switch concurrentWriteCount {
		case 1:
			concurrentWritesEnabled = false
			// another conflicting branch is added, consuming a sequence later than the one allocated to the write under test
			_, _, err := collection.PutExistingRevWithBody(ctx, docID, Body{"writer": "concurrent"}, []string{"2-b", "1-a"}, false, ExistingVersionWithUpdateToHLV)
			assert.NoError(t, err)
			concurrentWritesEnabled = true
		case 2:
			concurrentWritesEnabled = false
			// another writer adds the same revision as the write under test
			_, _, err := collection.PutExistingRevWithBody(ctx, docID, Body{"writer": "test"}, []string{"2-a", "1-a"}, false, ExistingVersionWithUpdateToHLV)
			assert.NoError(t, err)
		}
	}

	testBucket := base.GetTestBucket(t)
	leakyBucket := base.NewLeakyBucket(testBucket, base.LeakyBucketConfig{UpdateCallback: concurrentWrite})
	db, ctx = SetupTestDBForBucketWithOptions(t, leakyBucket, DatabaseContextOptions{
		AllowConflicts: base.Ptr(true),
		CacheOptions:   base.Ptr(DefaultCacheOptions()),
	})
	defer db.Close(ctx)
	collection, ctx := GetSingleDatabaseCollectionWithUser(ctx, t, db)

	_, _, err := collection.PutExistingRevWithBody(ctx, docID, Body{"foo": "bar"}, []string{"1-a"}, false, ExistingVersionWithUpdateToHLV)
	require.NoError(t, err)

	accounting := newSequenceAccounting(t, db)
	concurrentWritesEnabled = true
	// attempt 1: allocates seq S1, concurrent writer adds 2-b at S1+1                        -> CAS retry
	// attempt 2: S1 is now too low so is tracked as unused, allocates S2, concurrent writer adds 2-a at S2+1 -> CAS retry
	// attempt 3: 2-a already exists                                                          -> ErrUpdateCancel
	_, _, err = collection.PutExistingRevWithBody(ctx, docID, Body{"writer": "test"}, []string{"2-a", "1-a"}, false, ExistingVersionWithUpdateToHLV)
	require.NoError(t, err)
	require.Equal(t, 2, concurrentWriteCount)

	// the two concurrent writes each used a sequence, the two sequences allocated by the cancelled write have to be released
	accounting.requireNoLeakedSequences(t, db, 2)
}
