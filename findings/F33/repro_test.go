package rest

import (
	"context"
	"errors"
	"fmt"
	"net/http"
	"sync/atomic"
	"testing"

	"github.com/couchbase/sync_gateway/base"
	"github.com/stretchr/testify/require"
)

// subdocInsertFailingDataStore fails the next 'failures' SubdocInsert operations on principal documents with a
// (transient) storage error, and passes everything else through.
type subdocInsertFailingDataStore struct {
	base.DataStore
	failures atomic.Int32
	failed   atomic.Int32
}

func (ds *subdocInsertFailingDataStore) SubdocInsert(ctx context.Context, docID string, fieldPath string, cas uint64, value any) error {
	if ds.failures.Add(-1) >= 0 {
		ds.failed.Add(1)
		return errors.New("injected transient storage error")
	}
	return ds.DataStore.SubdocInsert(ctx, docID, fieldPath, cas, value)
}

// A single transient storage error on the principal invalidation that follows a committed document write must not
// leave the principal with its previous computed access: the write reported success, so the change in access it makes
// has to be effective by the user's next request.
func TestAccessChangeSurvivesTransientInvalidationError(t *testing.T) {
	const syncFn = `function(doc) {
		channel(doc.channels);
		if (doc.grant) { access(doc.grant.user, doc.grant.channels); }
		if (doc.grantRole) { role(doc.grantRole.user, doc.grantRole.roles); }
	}`

	testCases := []struct {
		name      string
		grantBody string
	}{
		{name: "channel grant to user", grantBody: `{"grant":{"user":"alice","channels":["chanA"]}}`},
		{name: "channel grant to role", grantBody: `{"grant":{"user":"role:r1","channels":["chanA"]}}`},
		{name: "role grant to user", grantBody: `{"grantRole":{"user":"alice","roles":["role:r2"]}}`},
	}
	for _, testCase := range testCases {
		for _, direction := range []string{"grant", "revoke"} {
			t.Run(testCase.name+"/"+direction, func(t *testing.T) {
				rt := NewRestTester(t, &RestTesterConfig{SyncFn: syncFn})
				defer rt.Close()

				rt.CreateRole("r1", nil)
				rt.CreateRole("r2", []string{"chanA"})
				rt.CreateUser("alice", nil, "r1")
				rt.PutDoc("docA", `{"channels":["chanA"]}`)
				RequireStatus(t, rt.SendUserRequest(http.MethodGet, "/{{.keyspace}}/docA", "", "alice"), http.StatusForbidden)

				failingStore := &subdocInsertFailingDataStore{DataStore: rt.GetDatabase().MetadataStore}
				rt.GetDatabase().MetadataStore = failingStore

				if direction == "grant" {
					// The document write succeeds, the invalidation of the principal hits one storage error
					failingStore.failures.Store(1)
					rt.PutDoc("grant", testCase.grantBody)
					require.Equal(t, int32(1), failingStore.failed.Load(), "expected one injected failure")
					RequireStatus(t, rt.SendUserRequest(http.MethodGet, "/{{.keyspace}}/docA", "", "alice"), http.StatusOK)
					return
				}

				grantVersion := rt.PutDoc("grant", testCase.grantBody)
				RequireStatus(t, rt.SendUserRequest(http.MethodGet, "/{{.keyspace}}/docA", "", "alice"), http.StatusOK)

				// The document write that removes the grant succeeds, the invalidation hits one storage error
				failingStore.failures.Store(1)
				resp := rt.SendAdminRequest(http.MethodPut, fmt.Sprintf("/{{.keyspace}}/grant?rev=%s", grantVersion.RevTreeID), `{"revoked":true}`)
				RequireStatus(t, resp, http.StatusCreated)
				require.Equal(t, int32(1), failingStore.failed.Load(), "expected one injected failure")
				RequireStatus(t, rt.SendUserRequest(http.MethodGet, "/{{.keyspace}}/docA", "", "alice"), http.StatusForbidden)
			})
		}
	}
}
