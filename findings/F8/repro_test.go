// Copyright 2026-Present Couchbase, Inc.
//
// Use of this software is governed by the Business Source License included
// in the file licenses/BSL-Couchbase.txt.  As of the Change Date specified
// in that file, in accordance with the Business Source License, use of this
// software will be governed by the Apache License, Version 2.0, included in
// the file licenses/APL2.txt.

package db

import (
	"context"
	"errors"
	"strings"
	"sync/atomic"
	"testing"

	"github.com/couchbase/sync_gateway/base"
	"github.com/stretchr/testify/assert"
	"github.com/stretchr/testify/require"
)

// addRawFailingDataStore wraps a DataStore and fails AddRaw for revision body backup keys while enabled.
type addRawFailingDataStore struct {
	base.DataStore
	fail     atomic.Bool
	failures atomic.Int32
	err      error
}

func (ds *addRawFailingDataStore) AddRaw(ctx context.Context, k string, exp uint32, v []byte) (bool, error) {
	if ds.fail.Load() && strings.HasPrefix(k, base.RevBodyPrefix) {
		ds.failures.Add(1)
		return false, ds.err
	}
	return ds.DataStore.AddRaw(ctx, k, exp, v)
}

// TestPersistModifiedRevisionBodiesError ensures that a failure to store the body of a non-winning revision
// externally is returned by the document update, rather than the update succeeding with a revision tree that references
// a revision body document that was never written.
func TestPersistModifiedRevisionBodiesError(t *testing.T) {
	db, ctx := setupTestDBAllowConflicts(t)
	defer db.Close(ctx)
	collection, ctx := GetSingleDatabaseCollectionWithUser(ctx, t, db)

	addRawErr := errors.New("injected AddRaw failure")
	failingDataStore := &addRawFailingDataStore{DataStore: collection.dataStore, err: addRawErr}
	collection.dataStore = failingDataStore

	prop1000Bytes := base.CreateProperty(1000)

	_, _, err := collection.PutExistingRevWithBody(ctx, "doc1", Body{"key1": "value1", "version": "1a"}, []string{"1-a"}, false, ExistingVersionWithUpdateToHLV)
	require.NoError(t, err, "add 1-a")

	// 2-a has a body larger than MaximumInlineBodySize
	_, _, err = collection.PutExistingRevWithBody(ctx, "doc1", Body{"key1": prop1000Bytes, "version": "2a"}, []string{"2-a", "1-a"}, false, ExistingVersionWithUpdateToHLV)
	require.NoError(t, err, "add 2-a")

	// Adding conflicting 2-b makes 2-a a non-winning leaf, whose body has to be moved to an external document via AddRaw.
	failingDataStore.fail.Store(true)
	_, _, err = collection.PutExistingRevWithBody(ctx, "doc1", Body{"key1": prop1000Bytes, "version": "2b"}, []string{"2-b", "1-a"}, false, ExistingVersionWithUpdateToHLV)
	failingDataStore.fail.Store(false)
	require.Equal(t, int32(1), failingDataStore.failures.Load(), "expected exactly one failed AddRaw of a revision body")
	assert.ErrorIs(t, err, addRawErr, "failure to persist the non-winning revision body must fail the write")

	// Whatever the outcome of the write, the body of leaf revision 2-a must not have been lost.
	db.FlushRevisionCacheForTest()
	rev2a, err := collection.Get1xRevBody(ctx, "doc1", "2-a", false, nil)
	require.NoError(t, err, "Couldn't get rev 2-a")
	assert.Equal(t, "2a", rev2a["version"])
}

// TestDocumentPersistModifiedRevisionBodiesError is a unit test of Document.persistModifiedRevisionBodies.
func TestDocumentPersistModifiedRevisionBodiesError(t *testing.T) {
	db, ctx := setupTestDB(t)
	defer db.Close(ctx)
	collection, ctx := GetSingleDatabaseCollectionWithUser(ctx, t, db)

	addRawErr := errors.New("injected AddRaw failure")
	failingDataStore := &addRawFailingDataStore{DataStore: collection.dataStore, err: addRawErr}
	failingDataStore.fail.Store(true)

	doc := NewDocument("doc1")
	require.NoError(t, doc.History.addRevision(ctx, "doc1", RevInfo{ID: "1-a"}))
	require.NoError(t, doc.History.addRevision(ctx, "doc1", RevInfo{ID: "1-b"}))
	doc.setNonWinningRevisionBody("1-a", []byte(`{"key1":"`+base.CreateProperty(1000)+`"}`), false)
	require.Equal(t, []string{"1-a"}, doc.addedRevisionBodies)

	err := doc.persistModifiedRevisionBodies(ctx, failingDataStore)
	assert.ErrorIs(t, err, addRawErr)
	// revision body must remain flagged as requiring persistence
	assert.Equal(t, []string{"1-a"}, doc.addedRevisionBodies)
}
