// Copyright 2026-Present Couchbase, Inc.
//
// Use of this software is governed by the Business Source License included
// in the file licenses/BSL-Couchbase.txt.  As of the Change Date specified
// in that file, in accordance with the Business Source License, use of this
// software will be governed by the Apache License, Version 2.0, included in
// the file licenses/APL2.txt.

package auth

import (
	"context"
	"net/http"
	"net/http/httptest"
	"testing"
	"time"

	"github.com/couchbase/sync_gateway/base"
	"github.com/stretchr/testify/assert"
	"github.com/stretchr/testify/require"
)

func assertUnauthorized(t *testing.T, err error) {
	t.Helper()
	if assert.Error(t, err) {
		status, _ := base.ErrorAsHTTPStatus(err)
		assert.Equal(t, http.StatusUnauthorized, status, "unexpected error: %v", err)
	}
}

// TestSessionAuthenticationDisabledUser ensures that existing sessions of a user can't be used to authenticate once the
// user has been disabled, the same as password authentication.
func TestSessionAuthenticationDisabledUser(t *testing.T) {
	ctx := base.TestCtx(t)
	testBucket := base.GetTestBucket(t)
	defer testBucket.Close(ctx)
	dataStore := testBucket.GetSingleDataStore()
	a := NewTestAuthenticator(t, dataStore, nil, DefaultAuthenticatorOptions(ctx))

	const (
		username = "Alice"
		password = "password"
	)
	user, err := a.NewUser(username, password, base.Set{})
	require.NoError(t, err)
	require.NoError(t, a.Save(user))

	session, err := a.CreateSession(ctx, user, 2*time.Hour, false)
	require.NoError(t, err)
	oneTimeSession, err := a.CreateSession(ctx, user, 2*time.Hour, true)
	require.NoError(t, err)

	req, err := http.NewRequest(http.MethodGet, "", nil)
	require.NoError(t, err)
	req.AddCookie(a.MakeSessionCookie(session, false, false, http.SameSiteDefaultMode))

	// password and cookie both work while user is enabled
	authedUser, err := a.AuthenticateUser(username, password)
	require.NoError(t, err)
	require.NotNil(t, authedUser)
	authedUser, err = a.AuthenticateCookie(req, httptest.NewRecorder())
	require.NoError(t, err)
	require.NotNil(t, authedUser)

	// disable the user
	user, err = a.GetUser(username)
	require.NoError(t, err)
	user.SetDisabled(true)
	require.NoError(t, a.Save(user))

	// password authentication is refused
	authedUser, err = a.AuthenticateUser(username, password)
	require.NoError(t, err)
	require.Nil(t, authedUser)

	// existing session cookie must be refused as well
	authedUser, err = a.AuthenticateCookie(req, httptest.NewRecorder())
	assert.True(t, authedUser == nil, "disabled user was authenticated by session cookie")
	assertUnauthorized(t, err)

	// and so must an existing one-time session (used for BLIP websocket tokens)
	authedUser, err = a.AuthenticateOneTimeSession(ctx, oneTimeSession.ID)
	assert.True(t, authedUser == nil, "disabled user was authenticated by one-time session")
	assertUnauthorized(t, err)
}

// deleteAfterGetDataStore invokes afterGet after each successful Get, to allow a test to interleave an operation between
// a read and a subsequent write by the code under test.
type deleteAfterGetDataStore struct {
	base.DataStore
	afterGet func(key string)
}

func (ds *deleteAfterGetDataStore) Get(ctx context.Context, k string, rv any) (uint64, error) {
	cas, err := ds.DataStore.Get(ctx, k, rv)
	if err == nil && ds.afterGet != nil {
		ds.afterGet(k)
	}
	return cas, err
}

// TestSessionRefreshDoesNotResurrectDeletedSession ensures that the TTL refresh performed by AuthenticateCookie can't
// recreate a session that was deleted (logout / admin session delete) after the session was read.
func TestSessionRefreshDoesNotResurrectDeletedSession(t *testing.T) {
	ctx := base.TestCtx(t)
	testBucket := base.GetTestBucket(t)
	defer testBucket.Close(ctx)
	dataStore := &deleteAfterGetDataStore{DataStore: testBucket.GetSingleDataStore()}
	a := NewTestAuthenticator(t, dataStore, nil, DefaultAuthenticatorOptions(ctx))

	const username = "Alice"
	user, err := a.NewUser(username, "password", base.Set{})
	require.NoError(t, err)
	require.NoError(t, a.Save(user))

	// Expiration=now+2h with Ttl=24h means more than 10% of the TTL has elapsed, so AuthenticateCookie will refresh the session
	sessionID, err := base.GenerateRandomSecret()
	require.NoError(t, err)
	session := &LoginSession{
		ID:          sessionID,
		Username:    username,
		Expiration:  time.Now().Add(2 * time.Hour),
		Ttl:         24 * time.Hour,
		SessionUUID: user.GetSessionUUID(),
	}
	sessionDocID := a.DocIDForSession(sessionID)
	require.NoError(t, dataStore.Set(ctx, sessionDocID, base.DurationToCbsExpiry(24*time.Hour), nil, session))

	req, err := http.NewRequest(http.MethodGet, "", nil)
	require.NoError(t, err)
	req.AddCookie(&http.Cookie{Name: a.SessionCookieName, Value: sessionID})

	// Delete the session (as DELETE /db/_session would) immediately after AuthenticateCookie has read it
	deleted := false
	dataStore.afterGet = func(key string) {
		if key == sessionDocID && !deleted {
			deleted = true
			require.NoError(t, a.DeleteSession(ctx, sessionID, username))
		}
	}
	_, _ = a.AuthenticateCookie(req, httptest.NewRecorder())
	require.True(t, deleted)
	dataStore.afterGet = nil

	// The session was deleted, it must not exist any more and the cookie can't be used
	exists, err := dataStore.Exists(ctx, sessionDocID)
	require.NoError(t, err)
	assert.False(t, exists, "deleted session was recreated by TTL refresh")

	authedUser, err := a.AuthenticateCookie(req, httptest.NewRecorder())
	assert.True(t, authedUser == nil, "deleted session was still usable")
	assertUnauthorized(t, err)
}
