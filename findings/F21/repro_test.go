// db/c04_prune_flags_repro_test.go -- go test -vet=off -count=1 -run 'TestC04DocFlagsAgreeWithLeavesAfterPrune' ./db/

package db

import (
	"context"
	"fmt"
	"testing"

	"github.com/couchbase/sync_gateway/channels"
	"github.com/stretchr/testify/assert"
	"github.com/stretchr/testify/require"
)

// c04AssertFlagsAgreeWithLeaves re-reads the stored document and checks that the leaf-derived flags
// (Deleted, Conflict, Branched) agree with the rev tree that was stored alongside them.
func c04AssertFlagsAgreeWithLeaves(ctx context.Context, t *testing.T, collection *DatabaseCollectionWithUser, docID, step string) (ok bool) {
	doc, err := collection.GetDocument(ctx, docID, DocUnmarshalAll)
	require.NoError(t, err, "%s: GetDocument", step)

	leaves := 0
	activeLeaves := 0
	doc.History.forEachLeaf(func(info *RevInfo) {
		leaves++
		if !info.Deleted {
			activeLeaves++
		}
	})
	winner, _, _ := doc.History.winningRevision(ctx)
	require.Contains(t, doc.History, winner, "%s: winner in tree", step)
	winnerDeleted := doc.History[winner].Deleted

	t.Logf("%-28s leaves=%d active=%d winner=%s current=%s flags=%05b (Deleted=%v Conflict=%v Branched=%v) revs=%v",
		step, leaves, activeLeaves, winner, doc.GetRevTreeID(), doc.Flags,
		doc.hasFlag(channels.Deleted), doc.hasFlag(channels.Conflict), doc.hasFlag(channels.Branched), c04SortedRevs(doc.History))

	ok = true
	ok = assert.Equal(t, winner, doc.GetRevTreeID(), "%s: stored current rev is the winning leaf", step) && ok
	ok = assert.Equal(t, leaves > 1, doc.hasFlag(channels.Branched), "%s: Branched flag vs %d leaves", step, leaves) && ok
	ok = assert.Equal(t, activeLeaves > 1, doc.hasFlag(channels.Conflict), "%s: Conflict flag vs %d non-deleted leaves", step, activeLeaves) && ok
	ok = assert.Equal(t, winnerDeleted, doc.hasFlag(channels.Deleted), "%s: Deleted flag vs winner %s deleted=%v", step, winner, winnerDeleted) && ok
	if winnerDeleted {
		ok = assert.NotZero(t, doc.TombstonedAt, "%s: TombstonedAt set for tombstone", step) && ok
	} else {
		ok = assert.Zero(t, doc.TombstonedAt, "%s: TombstonedAt clear for live doc", step) && ok
	}
	return ok
}

func c04SortedRevs(tree RevTree) []string {
	revs := make([]string, 0, len(tree))
	for id := range tree {
		revs = append(revs, id)
	}
	// simple insertion sort, tiny inputs
	for i := 1; i < len(revs); i++ {
		for j := i; j > 0 && revs[j] < revs[j-1]; j-- {
			revs[j], revs[j-1] = revs[j-1], revs[j]
		}
	}
	return revs
}

// TestC04DocFlagsAgreeWithLeavesAfterPrune: revs_limit=5, 1-a -> 2-a -> ... -> N-a plus a tombstoned
// conflicting branch 1-a -> 2-b(deleted). Once the tombstoned branch is old enough, the write that extends the -a
// branch removes it in pruneRevisions. After every write the stored flags must agree with the stored leaves.
func TestC04DocFlagsAgreeWithLeavesAfterPrune(t *testing.T) {
	db, ctx := setupTestDBAllowConflicts(t)
	defer db.Close(ctx)
	db.RevsLimit = 5
	collection, ctx := GetSingleDatabaseCollectionWithUser(ctx, t, db)

	const docID = "doc1"
	put := func(body Body, history ...string) {
		_, _, err := collection.PutExistingRevWithBody(ctx, docID, body, history, false, ExistingVersionWithUpdateToHLV)
		require.NoError(t, err, "add %s", history[0])
	}

	put(Body{"v": "1a"}, "1-a")
	c04AssertFlagsAgreeWithLeaves(ctx, t, collection, docID, "after 1-a")
	put(Body{"v": "2a"}, "2-a", "1-a")
	c04AssertFlagsAgreeWithLeaves(ctx, t, collection, docID, "after 2-a")
	put(Body{BodyDeleted: true}, "2-b", "1-a")
	c04AssertFlagsAgreeWithLeaves(ctx, t, collection, docID, "after 2-b (tombstone)")

	allOK := true
	for gen := 3; gen <= 10; gen++ {
		rev := fmt.Sprintf("%d-a", gen)
		parent := fmt.Sprintf("%d-a", gen-1)
		put(Body{"v": rev}, rev, parent)
		allOK = c04AssertFlagsAgreeWithLeaves(ctx, t, collection, docID, "after "+rev) && allOK
	}

	// The tombstoned branch must really be gone by now (otherwise the test did not exercise the prune).
	doc, err := collection.GetDocument(ctx, docID, DocUnmarshalAll)
	require.NoError(t, err)
	assert.NotContains(t, doc.History, "2-b", "tombstoned branch should have been pruned")
	assert.Len(t, doc.History.GetLeaves(), 1)
}

// TestC04DocFlagsAgreeWithLeavesMixedHistory walks a longer history (two live branches, tombstoning one of them,
// resurrection of a fully tombstoned document, pruning) and checks the same agreement after every write.
func TestC04DocFlagsAgreeWithLeavesMixedHistory(t *testing.T) {
	db, ctx := setupTestDBAllowConflicts(t)
	defer db.Close(ctx)
	db.RevsLimit = 4
	collection, ctx := GetSingleDatabaseCollectionWithUser(ctx, t, db)

	const docID = "doc1"
	step := func(body Body, history ...string) {
		_, _, err := collection.PutExistingRevWithBody(ctx, docID, body, history, false, ExistingVersionWithUpdateToHLV)
		require.NoError(t, err, "add %s", history[0])
		c04AssertFlagsAgreeWithLeaves(ctx, t, collection, docID, "after "+history[0])
	}

	step(Body{"v": 1}, "1-a")
	step(Body{"v": 2}, "2-a", "1-a")
	step(Body{"v": 2}, "2-b", "1-a")            // live conflict
	step(Body{"v": 3}, "3-b", "2-b")            // b wins
	step(Body{BodyDeleted: true}, "4-b", "3-b") // b tombstoned, a wins again, branched but not in conflict
	step(Body{BodyDeleted: true}, "3-a", "2-a") // all leaves tombstoned -> doc deleted
	step(Body{"v": 4}, "4-a", "3-a")            // resurrection on branch a
	for gen := 5; gen <= 12; gen++ {
		step(Body{"v": gen}, fmt.Sprintf("%d-a", gen), fmt.Sprintf("%d-a", gen-1))
	}
	doc, err := collection.GetDocument(ctx, docID, DocUnmarshalAll)
	require.NoError(t, err)
	assert.NotContains(t, doc.History, "4-b", "tombstoned branch should have been pruned")
}
