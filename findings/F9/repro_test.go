// Copyright 2026-Present Couchbase, Inc.
//
// Use of this software is governed by the Business Source License included
// in the file licenses/BSL-Couchbase.txt.  As of the Change Date specified
// in that file, in accordance with the Business Source License, use of this
// software will be governed by the Apache License, Version 2.0, included in
// the file licenses/APL2.txt.

package db

import (
	"sync/atomic"
	"testing"
	"time"

	sgbucket "github.com/couchbase/sg-bucket"
	"github.com/couchbase/sync_gateway/base"
	"github.com/stretchr/testify/assert"
	"github.com/stretchr/testify/require"
)

// TestDeleteRoleDoesNotLeakSequence ensures that any sequence allocated by DatabaseContext.DeleteRole is either written
// to the role document or released as unused.
func TestDeleteRoleDoesNotLeakSequence(t *testing.T) {
	ctx := base.TestCtx(t)
	base.SetUpTestLogging(t, base.LevelDebug, base.KeyAuth, base.KeyCRUD)

	// ensure we don't batch sequences so that the number of allocated/released sequences is deterministic
	defer SuspendSequenceBatching()()

	tb := base.GetTestBucket(t)
	defer tb.Close(ctx)

	// When enabled, simulates another node removing the role between this node's read and its CAS write of the role
	var raceRoleDelete atomic.Bool
	var roleDocID string
	lb := base.NewLeakyBucket(tb, base.LeakyBucketConfig{
		WriteCasCallback: func(key string) (uint64, error) {
			if key == roleDocID && raceRoleDelete.CompareAndSwap(true, false) {
				require.NoError(t, tb.GetMetadataStore().Delete(ctx, key))
				return 0, sgbucket.CasMismatchErr{Expected: 1, Actual: 0}
			}
			return 0, nil
		},
		IgnoreClose: true,
	})

	db, ctx := setupTestDBForBucket(t, lb)
	defer db.Close(ctx)
	authenticator := db.Authenticator(ctx)

	createRole := func(t *testing.T, name string) {
		role, err := authenticator.NewRole(name, base.SetOf("ABC"))
		require.NoError(t, err)
		require.NoError(t, authenticator.Save(role))
		roleDocID = role.DocID()
	}

	// leakedSequences runs fn and returns the number of sequences that were allocated while it ran but were neither
	// stored on the role nor released
	leakedSequences := func(t *testing.T, roleName string, fn func()) int64 {
		releasedBefore := db.sequences.dbStats.SequenceReleasedCount.Value()
		lastSeqBefore, err := db.sequences.lastSequence(ctx)
		require.NoError(t, err)

		fn()

		lastSeqAfter, err := db.sequences.lastSequence(ctx)
		require.NoError(t, err)
		allocated := int64(lastSeqAfter - lastSeqBefore)

		var used int64
		role, err := authenticator.GetRoleIncDeleted(roleName)
		require.NoError(t, err)
		if role != nil && role.Sequence() > lastSeqBefore {
			used = 1
		}
		// releases are synchronous, but allow for stat propagation like TestUpdatePrincipalCASRetry does
		time.Sleep(100 * time.Millisecond)
		released := int64(db.sequences.dbStats.SequenceReleasedCount.Value() - releasedBefore)
		t.Logf("allocated=%d used=%d released=%d", allocated, used, released)
		return allocated - used - released
	}

	t.Run("soft delete success uses the sequence", func(t *testing.T) {
		createRole(t, "role1")
		leaked := leakedSequences(t, "role1", func() {
			require.NoError(t, db.DeleteRole(ctx, "role1", false))
		})
		assert.Equal(t, int64(0), leaked)
	})

	t.Run("soft delete failure", func(t *testing.T) {
		createRole(t, "role2")
		leaked := leakedSequences(t, "role2", func() {
			raceRoleDelete.Store(true)
			err := db.DeleteRole(ctx, "role2", false)
			require.ErrorIs(t, err, base.ErrNotFound)
			require.False(t, raceRoleDelete.Load(), "expected injected CAS failure to have been triggered")
		})
		assert.Equal(t, int64(0), leaked, "sequence allocated for a failed role delete must be released")
	})

	t.Run("purge", func(t *testing.T) {
		createRole(t, "role3")
		leaked := leakedSequences(t, "role3", func() {
			require.NoError(t, db.DeleteRole(ctx, "role3", true))
		})
		assert.Equal(t, int64(0), leaked, "purging a role does not write a sequence, so must not leave one allocated and unreleased")
	})
}
