package rest

import (
	"context"
	"errors"
	"sync/atomic"
	"testing"
	"time"

	"github.com/couchbase/sync_gateway/base"
	"github.com/stretchr/testify/assert"
	"github.com/stretchr/testify/require"
)

// interruptingBootstrapConnection wraps a BootstrapConnection to simulate node failure / concurrent activity part way
// through a config operation:
//   - once a write or delete of watchKey has been applied, all subsequent registry writes fail when failRegistryWrites is
//     set (the node "dies" before it can finalize the registry)
//   - afterDelete, when set, is invoked once immediately after the delete of watchKey has been applied (another node acts
//     between the config delete and the registry finalization)
type interruptingBootstrapConnection struct {
	base.BootstrapConnection
	watchKey           string
	failRegistryWrites bool
	afterDelete        func()
	watchKeyChanged    atomic.Bool
	registryFailures   atomic.Int32
}

var errSimulatedNodeFailure = errors.New("simulated node failure")

func (c *interruptingBootstrapConnection) WriteMetadataDocument(ctx context.Context, bucket, key string, cas uint64, value any) (uint64, error) {
	if key == base.SGRegistryKey && c.failRegistryWrites && c.watchKeyChanged.Load() {
		c.registryFailures.Add(1)
		return 0, errSimulatedNodeFailure
	}
	casOut, err := c.BootstrapConnection.WriteMetadataDocument(ctx, bucket, key, cas, value)
	if err == nil && key == c.watchKey {
		c.watchKeyChanged.Store(true)
	}
	return casOut, err
}

func (c *interruptingBootstrapConnection) DeleteMetadataDocument(ctx context.Context, bucket, key string, cas uint64) error {
	err := c.BootstrapConnection.DeleteMetadataDocument(ctx, bucket, key, cas)
	if err == nil && key == c.watchKey {
		if !c.watchKeyChanged.Swap(true) && c.afterDelete != nil {
			c.afterDelete()
		}
	}
	return err
}

type interruptedChangeTestEnv struct {
	bc         *bootstrapContext
	bucketName string
	groupID    string
	scopeName  string
	collection []string
}

func (e *interruptedChangeTestEnv) scopes(collectionIdx int) ScopesConfig {
	return ScopesConfig{e.scopeName: ScopeConfig{map[string]*CollectionConfig{e.collection[collectionIdx]: {}}}}
}

// interrupt installs an interruptingBootstrapConnection for the duration of fn
func (e *interruptedChangeTestEnv) interrupt(conn *interruptingBootstrapConnection, fn func()) {
	original := e.bc.Connection
	conn.BootstrapConnection = original
	e.bc.Connection = conn
	defer func() { e.bc.Connection = original }()
	fn()
}

func setupInterruptedChangeTest(t *testing.T) *interruptedChangeTestEnv {
	base.TestRequiresCollections(t)
	base.SetUpTestLogging(t, base.LevelInfo, base.KeyHTTP, base.KeyConfig)
	ctx := base.TestCtx(t)
	tb := base.GetTestBucket(t)
	t.Cleanup(func() { tb.Close(ctx) })

	sc, closeFn := startBootstrapServerWithoutConfigPolling(t, false)
	t.Cleanup(closeFn)

	dataStoreNames := GetDataStoreNamesFromScopesConfig(GetCollectionsConfig(t, tb, 3))
	env := &interruptedChangeTestEnv{
		bc:         sc.BootstrapContext,
		bucketName: tb.GetName(),
		groupID:    sc.Config.Bootstrap.ConfigGroupID,
		scopeName:  dataStoreNames[0].ScopeName(),
	}
	for _, name := range dataStoreNames {
		env.collection = append(env.collection, name.CollectionName())
	}
	env.bc.configRetryTimeout = 1 * time.Millisecond
	return env
}

// requireLoadedVersions loads the database configs the way every node does (GetDatabaseConfigs) and checks name->version
func (e *interruptedChangeTestEnv) requireLoadedVersions(t *testing.T, expected map[string]string) {
	configs, err := e.bc.GetDatabaseConfigs(base.TestCtx(t), e.bucketName, e.groupID)
	require.NoError(t, err)
	actual := make(map[string]string)
	for _, config := range configs {
		actual[config.Name] = config.Version
	}
	require.Equal(t, expected, actual)
}

// TestUpdateInterruptedBeforeFinalizeReleasesPreviousCollections:
//   - db1 is updated from collection 1 to collection 2; the updating node fails after the registry and the config
//     document have been written, before removing the previous version from the registry
//   - every node loads db1 with the new version (the update is complete)
//   - another database must then be able to use collection 1
func TestUpdateInterruptedBeforeFinalizeReleasesPreviousCollections(t *testing.T) {
	env := setupInterruptedChangeTest(t)
	ctx := base.TestCtx(t)
	bc := env.bc

	_, err := bc.InsertConfig(ctx, env.bucketName, env.groupID, getTestDatabaseConfig(env.bucketName, "db1", env.scopes(0), "1-a"))
	require.NoError(t, err)

	conn := &interruptingBootstrapConnection{watchKey: PersistentConfigKey(ctx, env.groupID, "db1"), failRegistryWrites: true}
	env.interrupt(conn, func() {
		_, err = bc.UpdateConfig(ctx, env.bucketName, env.groupID, "db1", func(bucketDbConfig *DatabaseConfig) (*DatabaseConfig, error) {
			bucketDbConfig.Scopes = env.scopes(1)
			bucketDbConfig.Version = "2-a"
			return bucketDbConfig, nil
		})
		require.ErrorIs(t, err, errSimulatedNodeFailure)
	})
	require.Equal(t, int32(1), conn.registryFailures.Load())

	// The update has been applied: nodes load version 2-a, which only uses collection 2
	env.requireLoadedVersions(t, map[string]string{"db1": "2-a"})
	var db1Config DatabaseConfig
	_, err = bc.GetConfig(ctx, env.bucketName, env.groupID, "db1", &db1Config)
	require.NoError(t, err)
	require.Equal(t, env.scopes(1), db1Config.Scopes)

	// Collection 1 is not used by any database, and can be used by a new database
	_, err = bc.InsertConfig(ctx, env.bucketName, env.groupID, getTestDatabaseConfig(env.bucketName, "db2", env.scopes(0), "1-a"))
	assert.NoError(t, err, "db2 could not be created on the collection released by db1's completed update")

	registry, err := bc.getGatewayRegistry(ctx, env.bucketName)
	require.NoError(t, err)
	registryDb, ok := registry.getRegistryDatabase(env.groupID, "db1")
	require.True(t, ok)
	assert.Equal(t, "2-a", registryDb.Version)
	assert.Nil(t, registryDb.PreviousVersion, "previous version of db1 is still recorded as an in-flight update")
}

// TestDeleteInterruptedBeforeFinalizeDoesNotBlockDefaultCollection:
//   - db1 (named collection) is deleted; the deleting node fails after the config document has been deleted, before
//     removing the database from the registry
//   - no node loads db1 any more (the delete is complete)
//   - an unrelated database using only the default collection can be created and updated
func TestDeleteInterruptedBeforeFinalizeDoesNotBlockDefaultCollection(t *testing.T) {
	env := setupInterruptedChangeTest(t)
	ctx := base.TestCtx(t)
	bc := env.bc

	_, err := bc.InsertConfig(ctx, env.bucketName, env.groupID, getTestDatabaseConfig(env.bucketName, "db1", env.scopes(0), "1-a"))
	require.NoError(t, err)
	_, err = bc.InsertConfig(ctx, env.bucketName, env.groupID, getTestDatabaseConfig(env.bucketName, "dbdefault", nil, "1-a"))
	require.NoError(t, err)

	conn := &interruptingBootstrapConnection{watchKey: PersistentConfigKey(ctx, env.groupID, "db1"), failRegistryWrites: true}
	env.interrupt(conn, func() {
		err = bc.DeleteConfig(ctx, env.bucketName, env.groupID, "db1")
		require.ErrorIs(t, err, errSimulatedNodeFailure)
	})
	require.Equal(t, int32(1), conn.registryFailures.Load())

	env.requireLoadedVersions(t, map[string]string{"dbdefault": "1-a"})

	// dbdefault never shared a collection with db1 and can still be updated
	_, err = bc.UpdateConfig(ctx, env.bucketName, env.groupID, "dbdefault", func(bucketDbConfig *DatabaseConfig) (*DatabaseConfig, error) {
		bucketDbConfig.Version = "2-a"
		return bucketDbConfig, nil
	})
	assert.NoError(t, err, "database on the default collection could not be updated after the interrupted delete of db1")

	// ... and deleted and created
	require.NoError(t, bc.DeleteConfig(ctx, env.bucketName, env.groupID, "dbdefault"))
	_, err = bc.InsertConfig(ctx, env.bucketName, env.groupID, getTestDatabaseConfig(env.bucketName, "dbdefault2", nil, "1-a"))
	assert.NoError(t, err, "database on the default collection could not be created after the interrupted delete of db1")
}

// TestDatabaseRecreatedDuringDeleteLeavesNoPreviousVersion:
//   - db1 (named collection) is deleted by one node; between the delete of the config document and the finalization
//     of the registry another node creates db1 again (no failure involved)
//   - both operations succeed
//   - an unrelated database using only the default collection can then be created
func TestDatabaseRecreatedDuringDeleteLeavesNoPreviousVersion(t *testing.T) {
	env := setupInterruptedChangeTest(t)
	ctx := base.TestCtx(t)
	bc := env.bc

	_, err := bc.InsertConfig(ctx, env.bucketName, env.groupID, getTestDatabaseConfig(env.bucketName, "db1", env.scopes(0), "1-a"))
	require.NoError(t, err)

	conn := &interruptingBootstrapConnection{watchKey: PersistentConfigKey(ctx, env.groupID, "db1")}
	var recreateErr error
	conn.afterDelete = func() {
		_, recreateErr = bc.InsertConfig(ctx, env.bucketName, env.groupID, getTestDatabaseConfig(env.bucketName, "db1", env.scopes(0), "1-b"))
	}
	env.interrupt(conn, func() {
		require.NoError(t, bc.DeleteConfig(ctx, env.bucketName, env.groupID, "db1"))
	})
	require.NoError(t, recreateErr)

	env.requireLoadedVersions(t, map[string]string{"db1": "1-b"})

	_, err = bc.InsertConfig(ctx, env.bucketName, env.groupID, getTestDatabaseConfig(env.bucketName, "dbdefault", nil, "1-a"))
	assert.NoError(t, err, "database on the default collection could not be created after db1 was deleted and recreated")

	registry, err := bc.getGatewayRegistry(ctx, env.bucketName)
	require.NoError(t, err)
	registryDb, ok := registry.getRegistryDatabase(env.groupID, "db1")
	require.True(t, ok)
	assert.Equal(t, "1-b", registryDb.Version)
	assert.Nil(t, registryDb.PreviousVersion, "recreated db1 is recorded as having an in-flight update")
}
