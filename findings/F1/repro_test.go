// Copyright 2026-Present Couchbase, Inc.
//
// Use of this software is governed by the Business Source License included
// in the file licenses/BSL-Couchbase.txt.  As of the Change Date specified
// in that file, in accordance with the Business Source License, use of this
// software will be governed by the Apache License, Version 2.0, included in
// the file licenses/APL2.txt.

package rest

import (
	"net/http"
	"net/url"
	"testing"

	"github.com/couchbase/sync_gateway/base"
	"github.com/couchbase/sync_gateway/db"
	"github.com/stretchr/testify/assert"
	"github.com/stretchr/testify/require"
)

var f1MalformedSinceValues = []string{
	"a",       // 1 component
	"a:1",     // 2 components, bad TriggeredBy
	"1:a",     // 2 components, bad Seq
	":1",      // 2 components, empty TriggeredBy
	"a:1:2",   // 3 components, bad LowSeq
	"1:b:2",   // 3 components, bad TriggeredBy
	"1:2:c",   // 3 components, bad Seq
	"1::",     // 3 components, empty Seq
	"-1:2",    // negative
	"1:2:3:4", // 4 components
}

// TestParsePlainSequenceIDMalformedIsBadRequest ensures all malformed sequence strings produce an HTTP 400 error.
func TestParsePlainSequenceIDMalformedIsBadRequest(t *testing.T) {
	for _, since := range f1MalformedSinceValues {
		t.Run(since, func(t *testing.T) {
			_, err := db.ParsePlainSequenceID(since)
			require.Error(t, err)
			status, _ := base.ErrorAsHTTPStatus(err)
			assert.Equal(t, http.StatusBadRequest, status, "error: %v", err)
		})
	}
}

// TestChangesMalformedSinceIsBadRequest ensures a malformed since value on a _changes request is reported as a client
// error and not as an internal server error.
func TestChangesMalformedSinceIsBadRequest(t *testing.T) {
	rt := NewRestTester(t, nil)
	defer rt.Close()

	for _, since := range f1MalformedSinceValues {
		t.Run(since, func(t *testing.T) {
			resp := rt.SendAdminRequest(http.MethodGet, "/{{.keyspace}}/_changes?since="+url.QueryEscape(since), "")
			assert.Equal(t, http.StatusBadRequest, resp.Code, "body: %s", resp.Body.String())
		})
	}
}
