//  Copyright 2026-Present Couchbase, Inc.
//
//  Use of this software is governed by the Business Source License included
//  in the file licenses/BSL-Couchbase.txt.  As of the Change Date specified
//  in that file, in accordance with the Business Source License, use of this
//  software will be governed by the Apache License, Version 2.0, included in
//  the file licenses/APL2.txt.

package replicatortest

import (
	"net/url"
	"sync/atomic"
	"testing"
	"time"

	"github.com/couchbase/sync_gateway/base"
	"github.com/couchbase/sync_gateway/channels"
	"github.com/couchbase/sync_gateway/db"
	"github.com/couchbase/sync_gateway/rest"
	"github.com/couchbase/sync_gateway/testing/assert"
	"github.com/couchbase/sync_gateway/testing/require"
)

// TestProbeRevTreeRetry is a probe of the UNCHANGED tree (it fails there). Rev-tree (v3) protocol, default resolver:
// local 1-b97c.. ("activeC") conflicts with remote 1-a9f1.. ("passive"). The pull replicator resolves it as local-wins, which
// rewrites the incoming newDoc/docHistory (captured by the updateAndReturnDoc callback in PutExistingRevWithConflictResolution)
// into the local-wins copy 2-d7d8.. carrying the local body. A local edit ("active-concurrent", 2-9904..) lands before the
// write, so the CAS check fails and the callback runs again - with the mutated newDoc/docHistory. The resolver now compares the new
// local edit against the stale local-wins copy, picks the copy by digest, tombstones the new local edit and both peers
// converge on the stale body "activeC": the winner is neither what the policy picks for (2-9904 vs 1-a9f1) nor the newest edit.
func TestProbeRevTreeRetry(t *testing.T) {
	base.LongRunningTest(t)
	base.RequireNumTestBuckets(t, 2)

	sgrRunner := rest.NewSGRTestRunner(t)
	sgrRunner.RunSubprotocolV3(func(t *testing.T) {
		const docID = "doc1"

		// updateCallbackEnabled arms the leaky bucket callback, concurrentUpdate is the local edit that is made
		// in the middle of the replicator's write.
		var updateCallbackEnabled atomic.Bool
		var concurrentUpdate func()

		// the active RestTester owns (and closes) the leaky clone of the test bucket
		leakyActiveBucket := base.GetTestBucket(t).LeakyBucketClone(base.LeakyBucketConfig{
			UpdateCallback: func(key string) {
				if key != docID {
					return
				}
				// only fire once, for the first write of the document made after the callback is armed
				if !updateCallbackEnabled.CompareAndSwap(true, false) {
					return
				}
				concurrentUpdate()
			},
		})

		activeRT, passiveRT, remoteURLString := sgrRunner.SetupSGRPeersWithOptions(t, rest.TestISGRPeerOpts{
			ActiveRestTesterConfig: &rest.RestTesterConfig{
				CustomTestBucket: leakyActiveBucket,
				DatabaseConfig: &rest.DatabaseConfig{DbConfig: rest.DbConfig{
					Name: "activedb",
				}},
				SgReplicateEnabled: true,
				SyncFn:             channels.DocChannelsSyncFunction,
			},
		})
		remoteURL, err := url.Parse(remoteURLString)
		require.NoError(t, err)
		activeCtx := activeRT.Context()

		// conflicting creates of the same document - the local (active) one is written last, so it is the
		// winner of the default last-write-wins resolver
		passiveVersion := passiveRT.PutDoc(docID, `{"source":"passive","channels":["alice"]}`)
		passiveRT.WaitForPendingChanges()
		activeVersion := activeRT.PutDoc(docID, `{"source":"activeC","channels":["alice"]}`)
		activeRT.WaitForPendingChanges()

		// the edit made locally while the pull replicator is part way through writing the resolved revision
		activeCollection, activeCollectionCtx := activeRT.GetSingleTestDatabaseCollectionWithUser()
		var concurrentUpdateErr error
		var concurrentUpdateDone atomic.Bool
		concurrentUpdate = func() {
			_, _, concurrentUpdateErr = activeCollection.Put(activeCollectionCtx, docID, db.Body{
				db.BodyRev: activeVersion.RevTreeID,
				"source":   "active-concurrent",
				"channels": []string{"alice"},
			})
			concurrentUpdateDone.Store(true)
		}

		t.Logf("active %v passive %v", activeVersion, passiveVersion)
		require.NoError(t, err)
		stats := dbReplicatorStats(t)
		ar, err := db.NewActiveReplicator(activeCtx, &db.ActiveReplicatorConfig{
			ID:          rest.SafeDocumentName(t, t.Name()),
			Direction:   db.ActiveReplicatorTypePushAndPull,
			RemoteDBURL: remoteURL,
			ActiveDB: &db.Database{
				DatabaseContext: activeRT.GetDatabase(),
			},
			ChangesBatchSize:           200,
			Continuous:                 true,
			ReplicationStatsMap:        stats,
			ConflictResolverFunc: db.DefaultConflictResolver,
			CollectionsEnabled:         !activeRT.GetDatabase().OnlyDefaultCollection(),
			SupportedBLIPProtocols:     sgrRunner.SupportedSubprotocols,
		})
		require.NoError(t, err)

		updateCallbackEnabled.Store(true)
		require.NoError(t, ar.Start(activeCtx))
		defer func() { assert.NoError(t, ar.Stop()) }()

		// the concurrent local edit was made inside the replicator's write
		require.EventuallyWithT(t, func(c *assert.CollectT) {
			assert.True(c, concurrentUpdateDone.Load())
		}, 20*time.Second, 50*time.Millisecond)
		require.NoError(t, concurrentUpdateErr)

		// Once caught up, both peers hold the same current version, body and tombstone state, and the latest local
		// edit has not been lost.
		passiveCollection, passiveCollectionCtx := passiveRT.GetSingleTestDatabaseCollectionWithUser()
		require.EventuallyWithT(t, func(c *assert.CollectT) {
			activeDoc, err := activeCollection.GetDocument(activeCollectionCtx, docID, db.DocUnmarshalAll)
			if !assert.NoError(c, err) {
				return
			}
			passiveDoc, err := passiveCollection.GetDocument(passiveCollectionCtx, docID, db.DocUnmarshalAll)
			if !assert.NoError(c, err) {
				return
			}
			t.Logf("active rev %s body %v; passive rev %s body %v", activeDoc.GetRevTreeID(), activeDoc.Body(activeCollectionCtx), passiveDoc.GetRevTreeID(), passiveDoc.Body(passiveCollectionCtx))
			assert.Equal(c, activeDoc.GetRevTreeID(), passiveDoc.GetRevTreeID(), "peers have different current revtree IDs")
			assert.Equal(c, activeDoc.IsDeleted(), passiveDoc.IsDeleted())
			assert.Equal(c, "active-concurrent", activeDoc.Body(activeCollectionCtx)["source"])
			assert.Equal(c, activeDoc.Body(activeCollectionCtx)["source"], passiveDoc.Body(passiveCollectionCtx)["source"], "peers have different bodies")
		}, 20*time.Second, 100*time.Millisecond)
	})
}
