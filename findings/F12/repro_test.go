// Copyright 2026-Present Couchbase, Inc.
//
// Use of this software is governed by the Business Source License included
// in the file licenses/BSL-Couchbase.txt.  As of the Change Date specified
// in that file, in accordance with the Business Source License, use of this
// software will be governed by the Apache License, Version 2.0, included in
// the file licenses/APL2.txt.

package rest

import (
	"context"
	"sync/atomic"
	"testing"
	"time"

	"github.com/couchbase/sync_gateway/base"
	"github.com/couchbase/sync_gateway/testing/assert"
	"github.com/couchbase/sync_gateway/testing/require"
)

// postDeleteHookBootstrapConnection wraps a BootstrapConnection and invokes a callback (once) immediately after a
// successful DeleteMetadataDocument of the specified key.
type postDeleteHookBootstrapConnection struct {
	base.BootstrapConnection
	key        string
	postDelete func()
	fired      atomic.Bool
}

func (c *postDeleteHookBootstrapConnection) DeleteMetadataDocument(ctx context.Context, bucket, key string, cas uint64) error {
	err := c.BootstrapConnection.DeleteMetadataDocument(ctx, bucket, key, cas)
	if err == nil && key == c.key && c.fired.CompareAndSwap(false, true) {
		c.postDelete()
	}
	return err
}

// TestDeleteConfigFinalizeConcurrentRecreate has another node re-create a database after DeleteConfig has removed the
// config document but before DeleteConfig finalizes the registry.  The re-created database must remain in the registry.
func TestDeleteConfigFinalizeConcurrentRecreate(t *testing.T) {
	base.TestRequiresCollections(t)
	base.SetUpTestLogging(t, base.LevelInfo, base.KeyHTTP, base.KeyConfig)

	ctx := base.TestCtx(t)
	tb := base.GetTestBucket(t)
	defer tb.Close(ctx)

	sc, closeFn := startBootstrapServerWithoutConfigPolling(t, false)
	defer closeFn()

	scopesConfig := GetCollectionsConfig(t, tb, 1)
	bucketName := tb.GetName()
	groupID := sc.Config.Bootstrap.ConfigGroupID
	bc := sc.BootstrapContext
	bc.configRetryTimeout = 1 * time.Millisecond

	const dbName = "db1"
	_, err := bc.InsertConfig(ctx, bucketName, groupID, getTestDatabaseConfig(bucketName, dbName, scopesConfig, "1-a"))
	require.NoError(t, err)

	// otherNode is a second bootstrap context (representing another Sync Gateway node) using the same bucket
	otherNode := &bootstrapContext{
		Connection:           bc.Connection,
		configRetryTimeout:   bc.configRetryTimeout,
		sgVersion:            bc.sgVersion,
		clusterCompatVersion: bc.clusterCompatVersion,
	}

	// The node performing the delete gets a connection that triggers the other node's create between DeleteConfig's
	// removal of the config document and the registry finalization.
	recreatedConfig := getTestDatabaseConfig(bucketName, dbName, scopesConfig, "1-b")
	var recreateErr error
	deletingNode := &bootstrapContext{
		Connection: &postDeleteHookBootstrapConnection{
			BootstrapConnection: bc.Connection,
			key:                 PersistentConfigKey(ctx, groupID, dbName),
			postDelete: func() {
				_, recreateErr = otherNode.InsertConfig(ctx, bucketName, groupID, recreatedConfig)
			},
		},
		configRetryTimeout:   bc.configRetryTimeout,
		sgVersion:            bc.sgVersion,
		clusterCompatVersion: bc.clusterCompatVersion,
	}

	require.NoError(t, deletingNode.DeleteConfig(ctx, bucketName, groupID, dbName))
	require.NoError(t, recreateErr, "create of the database by the other node was acknowledged")

	// The acknowledged create must still be present in the registry
	registry, err := bc.getGatewayRegistry(ctx, bucketName)
	require.NoError(t, err)
	registryDb, found := registry.getRegistryDatabase(groupID, dbName)
	if assert.True(t, found, "re-created database was removed from the registry by DeleteConfig finalization") {
		assert.Equal(t, "1-b", registryDb.Version)
	}

	// ...and must be visible to nodes loading configs from the bucket
	configs, err := bc.GetDatabaseConfigs(ctx, bucketName, groupID)
	require.NoError(t, err)
	if assert.Len(t, configs, 1, "re-created database is not returned by GetDatabaseConfigs") {
		assert.Equal(t, "1-b", configs[0].Version)
	}

	// ...and getRegistryAndDatabase must find it, rather than treating its config document as an orphan and removing it
	_, config, err := bc.getRegistryAndDatabase(ctx, bucketName, groupID, dbName)
	require.NoError(t, err)
	assert.NotNil(t, config, "re-created database not found by getRegistryAndDatabase")
	var persistedConfig DatabaseConfig
	_, err = bc.GetConfig(ctx, bucketName, groupID, dbName, &persistedConfig)
	assert.NoError(t, err, "config document of re-created database was removed")
}
