// Copyright 2026-Present Couchbase, Inc.
//
// Use of this software is governed by the Business Source License included
// in the file licenses/BSL-Couchbase.txt.  As of the Change Date specified
// in that file, in accordance with the Business Source License, use of this
// software will be governed by the Apache License, Version 2.0, included in
// the file licenses/APL2.txt.

package db

import (
	"context"
	"errors"
	"testing"
	"time"

	"github.com/couchbase/sync_gateway/base"
	"github.com/couchbase/sync_gateway/testing/assert"
	"github.com/couchbase/sync_gateway/testing/require"
)

// blockingFailBackingStore blocks in GetDocument until released, and then fails the load.
type blockingFailBackingStore struct {
	noopBackingStore
	entered chan struct{}
	release chan struct{}
	err     error
}

func (b *blockingFailBackingStore) GetDocument(ctx context.Context, docid string, unmarshalLevel DocumentUnmarshalLevel) (*Document, error) {
	close(b.entered)
	<-b.release
	return nil, b.err
}

// TestPutDuringFailedLoadMemoryStat verifies that when a Put for a key lands while a Get for the same key is loading from
// the bucket, and that load subsequently fails, the bytes accounted by the Put are released when the failed load's value is
// removed from the cache.
func TestPutDuringFailedLoadMemoryStat(t *testing.T) {
	ctx := base.TestCtx(t)

	backingStore := &blockingFailBackingStore{
		entered: make(chan struct{}),
		release: make(chan struct{}),
		err:     errors.New("simulated load failure"),
	}
	revStats := newTestRevCacheStats()
	opts := &RevisionCacheOptions{MaxItemCount: 1000, MaxBytes: 0}
	orchestrator := NewRevisionCacheOrchestrator(
		opts, CreateTestSingleBackingStoreMap(backingStore, testCollectionID),
		revStats, &base.DeltaSyncStats{}, false,
	)

	const docID = "doc1"
	cv := Version{Value: 123, SourceID: "test"}

	// Start a Get that will block in the backing store while holding the cache value's load lock
	getErrCh := make(chan error, 1)
	go func() {
		_, _, err := orchestrator.Get(ctx, docID, cv.String(), testCollectionID, false)
		getErrCh <- err
	}()
	<-backingStore.entered

	// Put the same revision while the load is in progress. Put accounts for the bytes then blocks storing the body until the load
	// releases the value lock.
	putRev := makeTestRevision(docID, cv, `{"some":"body"}`)
	putRev.CalculateBytes()
	putErrCh := make(chan error, 1)
	go func() {
		putErrCh <- orchestrator.Put(ctx, putRev, testCollectionID)
	}()
	require.EventuallyWithT(t, func(c *assert.CollectT) {
		assert.Equal(c, putRev.MemoryBytes, revStats.cacheMemoryStat.Value())
	}, 10*time.Second, time.Millisecond)

	// Fail the load
	close(backingStore.release)
	require.ErrorIs(t, <-getErrCh, backingStore.err)
	require.NoError(t, <-putErrCh)

	// The failed load removed the value from the cache...
	_, found := orchestrator.Peek(ctx, docID, cv.String(), testCollectionID)
	require.False(t, found)
	assert.Equal(t, int64(0), revStats.cacheNumItemsStat.Value())
	// ...so no bytes should remain accounted for it
	assert.Equal(t, int64(0), revStats.cacheMemoryStat.Value(), "bytes for a value no longer in the cache are still counted")

	// and nothing that's left in the cache can release them
	orchestrator.Remove(ctx, docID, cv.String(), testCollectionID)
	assert.Equal(t, int64(0), revStats.cacheMemoryStat.Value(), "bytes for a value no longer in the cache are still counted after Remove")
}
