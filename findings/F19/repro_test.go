// db/restamp_crc32c_repro_test.go -- go test -vet=off -count=1 -run 'TestRestampVersionCASKeepsBodyCrc32c' -v ./db/
//
// Reproduction for: restampVersionCAS (the CAS re-stamp performed by correctVersionAheadOfCAS when the generated
// version is ahead of the CAS the bucket assigned) re-writes _sync from the in-memory document without macro
// expanding _sync.value_crc32c, leaving a stale body hash behind. Any later mutation that moves the document CAS
// without re-stamping _sync.cas (resync, SDK touch) then makes IsSGWrite fail the crc32c comparison, and Sync
// Gateway's own write is imported as if it were an external (SDK) write.

package db

import (
	"context"
	"testing"
	"time"

	sgbucket "github.com/couchbase/sg-bucket"
	"github.com/couchbase/sync_gateway/base"
	"github.com/stretchr/testify/assert"
	"github.com/stretchr/testify/require"
)

func TestRestampVersionCASKeepsBodyCrc32c(t *testing.T) {
	const (
		syncFnABC = `function sync(doc, oldDoc){ channel("ABC"); }`
		syncFnDEF = `function sync(doc, oldDoc){ channel("DEF"); }`
	)

	type mutation struct {
		name string
		// moves the document CAS without touching the body and without re-stamping _sync.cas
		apply func(t *testing.T, ctx context.Context, collection *DatabaseCollectionWithUser, docID string)
	}
	mutations := []mutation{
		{
			name: "resync",
			apply: func(t *testing.T, ctx context.Context, collection *DatabaseCollectionWithUser, docID string) {
				_, err := collection.UpdateSyncFun(ctx, syncFnDEF)
				require.NoError(t, err)
				require.NoError(t, collection.ResyncDocument(ctx, docID, getBucketDocument(t, collection.DatabaseCollection, docID), false))
			},
		},
		{
			name: "touch",
			apply: func(t *testing.T, ctx context.Context, collection *DatabaseCollectionWithUser, docID string) {
				// an SDK touch that changes the expiry (an unchanged expiry does not move the CAS)
				_, err := collection.dataStore.Touch(ctx, docID, 3600)
				require.NoError(t, err)
			},
		},
	}

	type write struct {
		name string
		// writes the document through Sync Gateway; the LAST write is the one made under the (possibly skewed) clock
		apply func(t *testing.T, ctx context.Context, db *Database, collection *DatabaseCollectionWithUser, docID string, skew func())
	}
	writes := []write{
		{
			name: "create",
			apply: func(t *testing.T, ctx context.Context, db *Database, collection *DatabaseCollectionWithUser, docID string, skew func()) {
				skew()
				_, _, err := collection.Put(ctx, docID, Body{"foo": "bar"})
				require.NoError(t, err)
			},
		},
		{
			name: "update",
			apply: func(t *testing.T, ctx context.Context, db *Database, collection *DatabaseCollectionWithUser, docID string, skew func()) {
				rev1, _, err := collection.Put(ctx, docID, Body{"foo": "bar"})
				require.NoError(t, err)
				skew()
				_, _, err = collection.Put(ctx, docID, Body{BodyRev: rev1, "foo": "a different body"})
				require.NoError(t, err)
			},
		},
	}

	// A re-stamped tombstone must keep the "deleted by SG" hash (IsSGWriteXattrOnly treats a deletion whose
	// _sync.value_crc32c is not DeleteCrc32c as an SDK delete once the CAS no longer matches).
	for _, clockAhead := range []bool{false, true} {
		name := "control_clock_in_sync/delete"
		if clockAhead {
			name = "restamp_clock_ahead/delete"
		}
		t.Run(name, func(t *testing.T) {
			db, ctx := setupTestDB(t)
			defer db.Close(ctx)
			collection, ctx := GetSingleDatabaseCollectionWithUser(ctx, t, db)
			const docID = "doc1"
			rev1, _, err := collection.Put(ctx, docID, Body{"foo": "bar"})
			require.NoError(t, err)
			retryCount := db.DbStats.Database().HLVVersionCASRetryCount
			retriesBefore := retryCount.Value()
			if clockAhead {
				offset := uint64(100 * time.Millisecond)
				db.hlc.SetClockForTest(func() uint64 { return sgbucket.HLCWallClock() + offset })
			}
			_, _, err = collection.DeleteDoc(ctx, docID, DocVersion{RevTreeID: rev1})
			require.NoError(t, err)
			if clockAhead {
				require.Equal(t, retriesBefore+1, retryCount.Value(), "expected the delete to be re-stamped")
			}
			_, xattrs, cas, err := collection.dataStore.GetWithXattrs(ctx, docID, []string{base.SyncXattrName})
			require.NoError(t, err)
			var written SyncData
			require.NoError(t, base.JSONUnmarshal(xattrs[base.SyncXattrName], &written))
			require.Equal(t, cas, written.GetSyncCas())
			assert.Equal(t, base.DeleteCrc32c, written.Crc32c, "tombstone written by SG must carry DeleteCrc32c")
		})
	}

	for _, clockAhead := range []bool{false, true} {
		for _, w := range writes {
			for _, m := range mutations {
				name := "control_clock_in_sync/"
				if clockAhead {
					name = "restamp_clock_ahead/"
				}
				t.Run(name+w.name+"/"+m.name, func(t *testing.T) {
					db, ctx := setupTestDB(t) // xattrs, no auto-import: only the on-demand import of the read path is in play
					defer db.Close(ctx)
					collection, ctx := GetSingleDatabaseCollectionWithUser(ctx, t, db)
					_, err := collection.UpdateSyncFun(ctx, syncFnABC)
					require.NoError(t, err)

					retryCount := db.DbStats.Database().HLVVersionCASRetryCount
					importCount := db.DbStats.SharedBucketImport().ImportCount
					const docID = "doc1"

					retriesBefore := retryCount.Value()
					w.apply(t, ctx, db, collection, docID, func() {
						if clockAhead {
							// Sync Gateway's clock 100ms ahead of the bucket's => version > CAS => re-stamp
							offset := uint64(100 * time.Millisecond)
							db.hlc.SetClockForTest(func() uint64 { return sgbucket.HLCWallClock() + offset })
						}
					})
					if clockAhead {
						require.Equal(t, retriesBefore+1, retryCount.Value(), "expected the write to be re-stamped")
					} else {
						require.Equal(t, retriesBefore, retryCount.Value(), "control: no re-stamp expected")
					}

					// State right after Sync Gateway's own write.
					body, xattrs, cas, err := collection.dataStore.GetWithXattrs(ctx, docID, []string{base.SyncXattrName})
					require.NoError(t, err)
					var written SyncData
					require.NoError(t, base.JSONUnmarshal(xattrs[base.SyncXattrName], &written))
					require.Equal(t, cas, written.GetSyncCas(), "_sync.cas must equal the doc CAS after an SG write")
					t.Logf("after SG write: rev=%s seq=%d cas=%d _sync.value_crc32c=%q crc32c(body)=%q",
						written.GetRevTreeID(), written.Sequence, cas, written.Crc32c, base.Crc32cHashString(body))
					// The direct statement of the defect:
					assert.Equal(t, base.Crc32cHashString(body), written.Crc32c, "_sync.value_crc32c must be the hash of the stored body")

					importsBefore := importCount.Value()
					lastSeqBefore, err := db.sequences.lastSequence(ctx)
					require.NoError(t, err)

					// Metadata-only mutation: CAS moves, body untouched, _sync.cas not re-stamped.
					m.apply(t, ctx, collection, docID)
					_, xattrs, casAfter, err := collection.dataStore.GetWithXattrs(ctx, docID, []string{base.SyncXattrName})
					require.NoError(t, err)
					var afterMutation SyncData
					require.NoError(t, base.JSONUnmarshal(xattrs[base.SyncXattrName], &afterMutation))
					require.NotEqual(t, cas, casAfter, "mutation was expected to move the CAS")
					require.NotEqual(t, casAfter, afterMutation.GetSyncCas(), "mutation was expected to leave _sync.cas behind")

					// Normal read path (may perform an on-demand import).
					doc, err := collection.GetDocument(ctx, docID, DocUnmarshalAll)
					require.NoError(t, err)
					body1x, err := collection.Get1xRevBody(ctx, docID, "", false, nil)
					require.NoError(t, err)

					lastSeqAfter, err := db.sequences.lastSequence(ctx)
					require.NoError(t, err)
					t.Logf("after read:     rev=%s seq=%d imports=%d (was %d) lastSeq=%d (was %d)",
						doc.GetRevTreeID(), doc.Sequence, importCount.Value(), importsBefore, lastSeqAfter, lastSeqBefore)

					assert.Equal(t, written.GetRevTreeID(), doc.GetRevTreeID(), "SG's own write must not get a new revision")
					assert.Equal(t, written.GetRevTreeID(), body1x[BodyRev], "SG's own write must not get a new revision (1.x body)")
					assert.Equal(t, written.Sequence, doc.Sequence, "SG's own write must not consume a sequence")
					assert.Equal(t, lastSeqBefore, lastSeqAfter, "no sequence may be allocated")
					assert.Equal(t, importsBefore, importCount.Value(), "SG's own write must not bump import_count")
				})
			}
		}
	}
}
