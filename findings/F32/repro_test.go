package rest

import (
	"net/http"
	"sync/atomic"
	"testing"

	"github.com/couchbase/sync_gateway/base"
	"github.com/couchbase/sync_gateway/db"
	"github.com/stretchr/testify/require"
)

// A document granting access to a principal that is being created concurrently (admin API PUT _user / _role) must
// not be lost: the write lands after the access query run on behalf of the new principal but before the principal
// document exists, so the write's invalidation is a no-op and the new principal must not be persisted with the
// (already stale) query result marked as valid.
func TestAccessGrantWrittenDuringPrincipalCreation(t *testing.T) {
	if !base.TestsDisableGSI() {
		t.Skip("uses the view post-query callback to interleave a write with the access query")
	}
	const syncFn = `function(doc) {
		channel(doc.channels);
		if (doc.grant) { access(doc.grant.to, doc.grant.channels); }
		if (doc.grantRole) { role(doc.grantRole.user, doc.grantRole.roles); }
	}`

	hookQuery := func(t *testing.T, rt *RestTester, viewName, key string, fn func()) *atomic.Bool {
		leakyDataStore, ok := base.AsLeakyDataStore(rt.TestBucket.GetSingleDataStore())
		require.True(t, ok)
		fired := &atomic.Bool{}
		leakyDataStore.SetPostQueryCallback(func(ddoc, name string, params map[string]any) {
			if name != viewName || params["key"] != key {
				return
			}
			if !fired.CompareAndSwap(false, true) {
				return
			}
			fn()
		})
		t.Cleanup(func() { leakyDataStore.SetPostQueryCallback(nil) })
		return fired
	}

	t.Run("user channel grant", func(t *testing.T) {
		rt := NewRestTester(t, &RestTesterConfig{SyncFn: syncFn, LeakyBucketConfig: &base.LeakyBucketConfig{}})
		defer rt.Close()
		rt.PutDoc("docA", `{"channels":["chanA"]}`)

		fired := hookQuery(t, rt, db.ViewAccess, "alice", func() {
			rt.PutDoc("grant", `{"grant":{"to":"alice","channels":["chanA"]}}`)
		})
		resp := rt.SendAdminRequest(http.MethodPut, "/{{.db}}/_user/alice", `{"password":"`+RestTesterDefaultUserPassword+`"}`)
		RequireStatus(t, resp, http.StatusCreated)
		require.True(t, fired.Load(), "access query hook did not fire")

		// Both the grant and the user were committed before this request
		RequireStatus(t, rt.SendUserRequest(http.MethodGet, "/{{.keyspace}}/docA", "", "alice"), http.StatusOK)
	})

	t.Run("user role grant", func(t *testing.T) {
		rt := NewRestTester(t, &RestTesterConfig{SyncFn: syncFn, LeakyBucketConfig: &base.LeakyBucketConfig{}})
		defer rt.Close()
		rt.CreateRole("r1", []string{"chanA"})
		rt.PutDoc("docA", `{"channels":["chanA"]}`)

		fired := hookQuery(t, rt, db.ViewRoleAccess, "alice", func() {
			rt.PutDoc("grant", `{"grantRole":{"user":"alice","roles":["role:r1"]}}`)
		})
		resp := rt.SendAdminRequest(http.MethodPut, "/{{.db}}/_user/alice", `{"password":"`+RestTesterDefaultUserPassword+`"}`)
		RequireStatus(t, resp, http.StatusCreated)
		require.True(t, fired.Load(), "role access query hook did not fire")

		RequireStatus(t, rt.SendUserRequest(http.MethodGet, "/{{.keyspace}}/docA", "", "alice"), http.StatusOK)
	})

	t.Run("role channel grant", func(t *testing.T) {
		rt := NewRestTester(t, &RestTesterConfig{SyncFn: syncFn, LeakyBucketConfig: &base.LeakyBucketConfig{}})
		defer rt.Close()
		rt.PutDoc("docA", `{"channels":["chanA"]}`)
		rt.CreateUser("alice", nil, "r1")

		fired := hookQuery(t, rt, db.ViewAccess, "role:r1", func() {
			rt.PutDoc("grant", `{"grant":{"to":"role:r1","channels":["chanA"]}}`)
		})
		resp := rt.SendAdminRequest(http.MethodPut, "/{{.db}}/_role/r1", `{}`)
		RequireStatus(t, resp, http.StatusCreated)
		require.True(t, fired.Load(), "access query hook did not fire")

		RequireStatus(t, rt.SendUserRequest(http.MethodGet, "/{{.keyspace}}/docA", "", "alice"), http.StatusOK)
	})
}
