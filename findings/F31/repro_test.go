package rest

import (
	"fmt"
	"net/http"
	"sync/atomic"
	"testing"

	"github.com/couchbase/sync_gateway/base"
	"github.com/couchbase/sync_gateway/db"
	"github.com/stretchr/testify/require"
)

const invalDuringRebuildSyncFn = `function(doc) {
	channel(doc.channels);
	if (doc.grant) {
		access(doc.grant.user, doc.grant.channels);
	}
	if (doc.grantRole) {
		role(doc.grantRole.user, doc.grantRole.roles);
	}
}`

// A document write that changes a user's access while that user's (already invalidated) principal is being rebuilt
// must not be lost: the write lands after the rebuild's access query, so the rebuild must not be allowed to persist
// its (now stale) result as the valid computed access.
func TestAccessInvalidationDuringPrincipalRebuild(t *testing.T) {
	if !base.TestsDisableGSI() {
		t.Skip("uses the view post-query callback to interleave a write with the access query")
	}

	// hookAccessQuery arranges for fn to run exactly once, immediately after the next access-view query for the given
	// key has been evaluated (and before its caller saves the principal).
	hookAccessQuery := func(t *testing.T, rt *RestTester, viewName, key string, fn func()) *atomic.Bool {
		leakyDataStore, ok := base.AsLeakyDataStore(rt.TestBucket.GetSingleDataStore())
		require.True(t, ok)
		fired := &atomic.Bool{}
		leakyDataStore.SetPostQueryCallback(func(ddoc, name string, params map[string]any) {
			if name != viewName || params["key"] != key {
				return
			}
			if !fired.CompareAndSwap(false, true) {
				return
			}
			fn()
		})
		t.Cleanup(func() { leakyDataStore.SetPostQueryCallback(nil) })
		return fired
	}

	t.Run("grant written during rebuild", func(t *testing.T) {
		rt := NewRestTester(t, &RestTesterConfig{SyncFn: invalDuringRebuildSyncFn, LeakyBucketConfig: &base.LeakyBucketConfig{}})
		defer rt.Close()

		rt.CreateUser("alice", nil)
		rt.PutDoc("docA", `{"channels":["chanA"]}`)
		rt.PutDoc("docB", `{"channels":["chanB"]}`)

		// First grant: invalidates alice's channels (sets the 'invalidated at' marker).
		rt.PutDoc("grant1", `{"grant":{"user":"alice","channels":["chanA"]}}`)

		// While alice's channels are being rebuilt (after the access query has run), a second grant is written.
		fired := hookAccessQuery(t, rt, db.ViewAccess, "alice", func() {
			rt.PutDoc("grant2", `{"grant":{"user":"alice","channels":["chanB"]}}`)
		})
		RequireStatus(t, rt.SendUserRequest(http.MethodGet, "/{{.keyspace}}/docA", "", "alice"), http.StatusOK)
		require.True(t, fired.Load(), "access query hook did not fire")

		// grant2 was committed before this request started: alice must see chanB now.
		resp := rt.SendUserRequest(http.MethodGet, "/{{.keyspace}}/docB", "", "alice")
		RequireStatus(t, resp, http.StatusOK)
		userResp := rt.SendAdminRequest(http.MethodGet, "/{{.db}}/_user/alice", "")
		RequireStatus(t, userResp, http.StatusOK)
		require.Contains(t, userResp.Body.String(), "chanB")
	})

	t.Run("revocation written during rebuild", func(t *testing.T) {
		rt := NewRestTester(t, &RestTesterConfig{SyncFn: invalDuringRebuildSyncFn, LeakyBucketConfig: &base.LeakyBucketConfig{}})
		defer rt.Close()

		rt.CreateUser("alice", nil)
		rt.PutDoc("docA", `{"channels":["chanA"]}`)
		rt.PutDoc("docB", `{"channels":["chanB"]}`)
		grantA := rt.PutDoc("grantA", `{"grant":{"user":"alice","channels":["chanA"]}}`)
		RequireStatus(t, rt.SendUserRequest(http.MethodGet, "/{{.keyspace}}/docA", "", "alice"), http.StatusOK)

		// Invalidate alice again with an unrelated grant ...
		rt.PutDoc("grantB", `{"grant":{"user":"alice","channels":["chanB"]}}`)

		// ... and revoke chanA while the resulting rebuild is in flight.
		fired := hookAccessQuery(t, rt, db.ViewAccess, "alice", func() {
			resp := rt.SendAdminRequest(http.MethodPut, fmt.Sprintf("/{{.keyspace}}/grantA?rev=%s", grantA.RevTreeID), `{"revoked":true}`)
			RequireStatus(t, resp, http.StatusCreated)
		})
		RequireStatus(t, rt.SendUserRequest(http.MethodGet, "/{{.keyspace}}/docB", "", "alice"), http.StatusOK)
		require.True(t, fired.Load(), "access query hook did not fire")

		// The revocation was committed before this request started: alice must no longer be able to read chanA.
		resp := rt.SendUserRequest(http.MethodGet, "/{{.keyspace}}/docA", "", "alice")
		RequireStatus(t, resp, http.StatusForbidden)
	})

	t.Run("role grant written during rebuild", func(t *testing.T) {
		rt := NewRestTester(t, &RestTesterConfig{SyncFn: invalDuringRebuildSyncFn, LeakyBucketConfig: &base.LeakyBucketConfig{}})
		defer rt.Close()

		rt.CreateRole("r1", []string{"chanA"})
		rt.CreateRole("r2", []string{"chanB"})
		rt.CreateUser("alice", nil)
		rt.PutDoc("docA", `{"channels":["chanA"]}`)
		rt.PutDoc("docB", `{"channels":["chanB"]}`)

		rt.PutDoc("roleGrant1", `{"grantRole":{"user":"alice","roles":["role:r1"]}}`)
		fired := hookAccessQuery(t, rt, db.ViewRoleAccess, "alice", func() {
			rt.PutDoc("roleGrant2", `{"grantRole":{"user":"alice","roles":["role:r2"]}}`)
		})
		RequireStatus(t, rt.SendUserRequest(http.MethodGet, "/{{.keyspace}}/docA", "", "alice"), http.StatusOK)
		require.True(t, fired.Load(), "role access query hook did not fire")

		resp := rt.SendUserRequest(http.MethodGet, "/{{.keyspace}}/docB", "", "alice")
		RequireStatus(t, resp, http.StatusOK)
	})
}
