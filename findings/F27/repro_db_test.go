package db

import (
	"testing"

	"github.com/couchbase/sync_gateway/base"
	"github.com/couchbase/sync_gateway/testing/assert"
	"github.com/couchbase/sync_gateway/testing/require"
)

// TestTombstonePushOverUnimportedSDKUpdate pushes a tombstone (as a replication client would) for the revision the
// client knows, while a later SDK update of the document has not been imported yet. The SDK write must be imported as a
// live revision on top of the known revision, and the tombstone of the stale revision must be rejected as a conflict.
func TestTombstonePushOverUnimportedSDKUpdate(t *testing.T) {
	base.SetUpTestLogging(t, base.LevelDebug, base.KeyImport, base.KeyCRUD)

	// SetupTestDBWithOptions sets autoImport=false - SDK write stays pending until on-demand import
	db, ctx := SetupTestDBWithOptions(t, DatabaseContextOptions{})
	defer db.Close(ctx)
	collection, ctx := GetSingleDatabaseCollectionWithUser(ctx, t, db)

	for _, funcName := range []string{"PutExistingRev", "PutExistingCurrentVersion"} {
		t.Run(funcName, func(t *testing.T) {
			docID := t.Name()
			rev1, doc1, err := collection.Put(ctx, docID, Body{"v": 1})
			require.NoError(t, err)

			// SDK update, not imported
			require.NoError(t, collection.dataStore.Set(ctx, docID, 0, nil, map[string]any{"v": 2, "writer": "sdk"}))

			switch funcName {
			case "PutExistingRev":
				_, _, err = collection.PutExistingRevWithBody(ctx, docID, Body{BodyDeleted: true}, []string{"2-abc", rev1}, true, ExistingVersionWithUpdateToHLV)
			case "PutExistingCurrentVersion":
				newDoc := &Document{ID: docID, Deleted: true}
				newDoc.UpdateBodyBytes([]byte(`{}`))
				incomingHLV := NewHybridLogicalVector()
				require.NoError(t, incomingHLV.AddVersion(Version{SourceID: "cbl1", Value: doc1.HLV.Version + 1000}))
				incomingHLV.PreviousVersions = HLVVersions{doc1.HLV.SourceID: doc1.HLV.Version}
				_, _, _, err = collection.PutExistingCurrentVersion(ctx, PutDocOptions{
					NewDoc:    newDoc,
					NewDocHLV: incomingHLV,
				})
			}
			assertHTTPError(t, err, 409)

			// SDK body still in the bucket
			var bucketBody map[string]any
			_, err = collection.dataStore.Get(ctx, docID, &bucketBody)
			require.NoError(t, err, "SDK write was removed from the bucket although the tombstone was rejected")
			assert.Equal(t, "sdk", bucketBody["writer"])

			// imported as a live revision 2 with parent rev1
			doc, err := collection.GetDocument(ctx, docID, DocUnmarshalAll)
			require.NoError(t, err)
			assert.False(t, doc.IsDeleted(), "external write was recorded as a tombstone")
			gen, _ := ParseRevID(ctx, doc.GetRevTreeID())
			assert.Equal(t, 2, gen)
			require.NotNil(t, doc.History[doc.GetRevTreeID()])
			assert.Equal(t, rev1, doc.History[doc.GetRevTreeID()].Parent)
			assert.False(t, doc.History[doc.GetRevTreeID()].Deleted)
			assert.Len(t, doc.History, 2)

			body, err := collection.Get1xBody(ctx, docID)
			require.NoError(t, err)
			assert.Equal(t, "sdk", body["writer"])
		})
	}
}
