package importtest

import (
	"fmt"
	"net/http"
	"testing"

	"github.com/couchbase/sync_gateway/base"
	"github.com/couchbase/sync_gateway/db"
	"github.com/couchbase/sync_gateway/rest"
	"github.com/couchbase/sync_gateway/testing/assert"
	"github.com/couchbase/sync_gateway/testing/require"
)

// TestDeleteOverUnimportedSDKUpdate:
//  1. doc is written through Sync Gateway (rev 1)
//  2. doc is updated directly in the bucket by an SDK (external write, not yet imported)
//  3. a client sends DELETE ?rev=<rev 1> before the external write has been imported
//
// The external write has to be imported as a new (live) revision 2 whose parent is rev 1, carrying the SDK body, and
// the delete of the now stale rev 1 has to be rejected with 409. The document has to remain readable through the gateway
// with the SDK body, and the body must still be present in the bucket.
func TestDeleteOverUnimportedSDKUpdate(t *testing.T) {
	ctx := base.TestCtx(t)
	rtConfig := rest.RestTesterConfig{
		SyncFn: `function(doc, oldDoc) { channel(doc.channels) }`,
		DatabaseConfig: &rest.DatabaseConfig{DbConfig: rest.DbConfig{
			AutoImport: false, // keep the external write pending until the on-demand import for write sees it
		}},
	}
	rt := rest.NewRestTester(t, &rtConfig)
	defer rt.Close()
	dataStore := rt.GetSingleDataStore()

	const docID = "deleteOverUnimported"

	// 1. Create via SG
	response := rt.SendAdminRequest(http.MethodPut, "/{{.keyspace}}/"+docID, `{"channels":"ABC","v":1}`)
	rest.RequireStatus(t, response, http.StatusCreated)
	var putBody db.Body
	require.NoError(t, base.JSONUnmarshal(response.Body.Bytes(), &putBody))
	rev1, ok := putBody["rev"].(string)
	require.True(t, ok)

	// 2. External update via SDK - not imported
	require.NoError(t, dataStore.Set(ctx, docID, 0, nil, map[string]any{"channels": "ABC", "v": 2, "writer": "sdk"}))

	// 3. DELETE of the revision the client knows
	response = rt.SendAdminRequest(http.MethodDelete, fmt.Sprintf("/{{.keyspace}}/%s?rev=%s", docID, rev1), "")
	assert.Equal(t, http.StatusConflict, response.Code, "delete of the stale revision should conflict with the imported SDK write: %s", response.Body.Bytes())

	// The SDK body must still be in the bucket
	var bucketBody map[string]any
	_, getErr := dataStore.Get(ctx, docID, &bucketBody)
	require.NoError(t, getErr, "SDK write was removed from the bucket although the delete was rejected")
	assert.Equal(t, "sdk", bucketBody["writer"])

	// The document must be readable through SG with the SDK body as live revision 2 whose parent is rev1
	response = rt.SendAdminRequest(http.MethodGet, "/{{.keyspace}}/"+docID+"?revs=true", "")
	require.Equal(t, http.StatusOK, response.Code, "doc not readable through SG after rejected delete: %s", response.Body.Bytes())
	var getBody db.Body
	require.NoError(t, base.JSONUnmarshal(response.Body.Bytes(), &getBody))
	assert.Equal(t, "sdk", getBody["writer"])
	assert.Nil(t, getBody[db.BodyDeleted])
	rev2, _ := getBody[db.BodyRev].(string)
	gen, _ := db.ParseRevID(ctx, rev2)
	assert.Equal(t, 2, gen)

	// The revision tree must contain a live generation-2 revision (the import), not a tombstone
	collection, _ := rt.GetSingleTestDatabaseCollection()
	doc, err := collection.GetDocument(ctx, docID, db.DocUnmarshalAll)
	require.NoError(t, err)
	assert.False(t, doc.IsDeleted(), "external write was recorded as a tombstone")
	require.NotNil(t, doc.History[doc.GetRevTreeID()])
	assert.Equal(t, rev1, doc.History[doc.GetRevTreeID()].Parent)
	assert.False(t, doc.History[doc.GetRevTreeID()].Deleted, "external write was recorded as a tombstone revision")

	// and the client can then delete the revision it has now seen
	response = rt.SendAdminRequest(http.MethodDelete, fmt.Sprintf("/{{.keyspace}}/%s?rev=%s", docID, rev2), "")
	assert.Equal(t, http.StatusOK, response.Code, "%s", response.Body.Bytes())
}
