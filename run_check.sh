#!/bin/bash
# usage: run_check.sh <property> <quick|thorough> [--replay <file>]
# Rebuilds the checker if needed, then analyses /repo's current working tree.
set -uo pipefail
cd "$(dirname "$0")"
export PATH=/opt/veriftools/go1.26.8/bin:$PATH GOPROXY=off GOSUMDB=off GOTOOLCHAIN=local
unset GOWORK || true
prop="$1"; tier="${2:-${VERIF_TIER:-quick}}"; shift; shift || true
if [ ! -x bin/sgcheck ] || [ -n "$(find sgcheck -name '*.go' -newer bin/sgcheck -not -path 'sgcheck/vendor/*' 2>/dev/null | head -1)" ]; then
  GOFLAGS=-mod=vendor ./setup.sh >/dev/null || { echo "VIOLATION property=$prop replay=/verif/out/build-failed"; exit 1; }
fi
export GOFLAGS=-mod=mod
exec bin/sgcheck -repo "${VERIF_REPO:-/repo}" -property "$prop" -tier "$tier" "$@"
