#!/bin/bash
# usage: run_check.sh <property> <quick|thorough> [--replay <file>]
# Rebuilds the checker if needed, then analyses /repo's current working tree.
#   quick:    all rules of the property on the default build configuration.
#   thorough: the same rules on the default and on the cb_sg_devmode build configuration, the larger enumerations where a
#             rule has them (C20), and afterwards the property's one-instance-broken variants (mutants/<Cnn>/*.diff, applied as
#             in-memory overlays of /repo's current files) are analysed to record, in the evidence file, whether the rules still
#             detect each of them on this tree. The variants never change the exit status: only the analysis of /repo does.
set -uo pipefail
cd "$(dirname "$0")"
export PATH=/opt/veriftools/go1.26.8/bin:$PATH GOPROXY=off GOSUMDB=off GOTOOLCHAIN=local
unset GOWORK || true
prop="$1"; tier="${2:-${VERIF_TIER:-quick}}"; shift; shift || true
if [ ! -x bin/sgcheck ] || [ -n "$(find sgcheck -name '*.go' -newer bin/sgcheck -not -path 'sgcheck/vendor/*' 2>/dev/null | head -1)" ]; then
  GOFLAGS=-mod=vendor ./setup.sh >/dev/null || { echo "VIOLATION property=$prop replay=/verif/out/build-failed"; exit 1; }
fi
export GOFLAGS=-mod=mod
if [ "$tier" != thorough ] || [ $# -gt 0 ]; then
  exec bin/sgcheck -repo "${VERIF_REPO:-/repo}" -property "$prop" -tier "$tier" "$@"
fi
bin/sgcheck -repo "${VERIF_REPO:-/repo}" -property "$prop" -tier thorough; rc=$?
if [ -d "mutants/$prop" ] && command -v python3 >/dev/null; then
  mkdir -p out
  VERIF_REPO="${VERIF_REPO:-/repo}" python3 tools/selftest.py "$prop" -j 8 --summary "out/sensitivity-$prop.json" > "out/sensitivity-$prop.log" 2>&1
  python3 - "$prop" <<'PY'
import json,sys
p=sys.argv[1]
try:
    ev=json.load(open(f'evidence/{p}.json')); s=json.load(open(f'out/sensitivity-{p}.json'))
    ev['coverage']['rule_sensitivity']={"what":"one-instance-broken variants of /repo's current files (in-memory overlays), each analysed with this property's rules; informational, does not affect the verdict","variants":s['mutants'],"detected":s['detected'],"patch_no_longer_applies":s['stale_patch'],"not_detected":s['not_detected']}
    json.dump(ev,open(f'evidence/{p}.json','w'),indent=1)
    print(f"rule sensitivity: {s['detected']}/{s['mutants']} one-instance-broken variants detected ({s['stale_patch']} no longer apply)")
except Exception as e:
    print("rule sensitivity: not recorded:",e)
PY
fi
exit $rc
