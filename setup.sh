#!/bin/bash
# Builds the checker from vendored sources on disk only (offline).
set -euo pipefail
cd "$(dirname "$0")"
export PATH=/opt/veriftools/go1.26.8/bin:$PATH GOFLAGS=-mod=vendor GOPROXY=off GOSUMDB=off GOTOOLCHAIN=local
unset GOWORK || true
mkdir -p bin evidence out
(cd sgcheck && go build -o ../bin/sgcheck .)
echo "built /verif/bin/sgcheck"
