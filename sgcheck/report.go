package main

import (
	"crypto/sha1"
	"encoding/json"
	"fmt"
	"os"
	"path/filepath"
	"sort"
	"strings"
	"time"
)

// Obligation is one instance of a rule: a named construct in the repository that must satisfy it.
type Obligation struct {
	Rule      string `json:"rule"`      // e.g. "C08-R2"
	Construct string `json:"construct"` // stable key: function + role + callee/field (never a line number)
	Pos       string `json:"pos"`       // file:line (diagnostic only)
	OK        bool   `json:"ok"`
	Detail    string `json:"detail,omitempty"`
	Known     bool   `json:"known,omitempty"`
}

type RuleInfo struct {
	ID       string `json:"id"`
	Engine   string `json:"engine"`
	Text     string `json:"text"`
	MinInst  int    `json:"expected_min_instances"`
	Found    int    `json:"instances"`
	Failed   int    `json:"failed"`
	Examined int    `json:"sites_examined"`
}

type Report struct {
	Property string
	Tier     string
	Seed     int64
	Level    string
	Explain  string
	Assume   []string
	Trusted  []string
	Rules    []*RuleInfo
	ruleIdx  map[string]*RuleInfo
	Obls     []Obligation
	Extra    map[string]any
	start    time.Time
	vacuityDone bool
}

func NewReport(prop, tier string, seed int64) *Report {
	return &Report{Property: prop, Tier: tier, Seed: seed, Level: "other", ruleIdx: map[string]*RuleInfo{}, Extra: map[string]any{}, start: time.Now()}
}

// Rule declares a rule; min is the number of instances confirmed by reading today's tree.
func (r *Report) Rule(id, engine, text string, min int) *RuleInfo {
	if ri, ok := r.ruleIdx[id]; ok {
		return ri
	}
	ri := &RuleInfo{ID: id, Engine: engine, Text: text, MinInst: min}
	r.Rules = append(r.Rules, ri)
	r.ruleIdx[id] = ri
	return ri
}

func (r *Report) add(rule, construct, pos string, ok bool, detail string) {
	ri := r.ruleIdx[rule]
	if ri == nil {
		panic("undeclared rule " + rule)
	}
	ri.Found++
	if !ok {
		ri.Failed++
	}
	r.Obls = append(r.Obls, Obligation{Rule: rule, Construct: construct, Pos: pos, OK: ok, Detail: detail})
}

func (r *Report) Pass(rule, construct, pos, detail string) { r.add(rule, construct, pos, true, detail) }
func (r *Report) Fail(rule, construct, pos, detail string) { r.add(rule, construct, pos, false, detail) }
func (r *Report) Check(rule, construct, pos string, ok bool, okDetail, failDetail string) {
	if ok {
		r.Pass(rule, construct, pos, okDetail)
	} else {
		r.Fail(rule, construct, pos, failDetail)
	}
}
func (r *Report) Examined(rule string, n int) { r.ruleIdx[rule].Examined += n }

// ---- known findings ----

type KnownFinding struct {
	Property  string `json:"property"`
	Rule      string `json:"rule"`
	Construct string `json:"construct"`
	Status    string `json:"status"` // "known" | "fixed"
	Commit    string `json:"commit,omitempty"`
	WhatFails string `json:"what_fails"`
	Repro     string `json:"reproduction,omitempty"`
}

func loadKnown(path string) ([]KnownFinding, error) {
	b, err := os.ReadFile(path)
	if err != nil {
		if os.IsNotExist(err) {
			return nil, nil
		}
		return nil, err
	}
	var f struct {
		Findings []KnownFinding `json:"findings"`
	}
	if err := json.Unmarshal(b, &f); err != nil {
		return nil, err
	}
	return f.Findings, nil
}

// Finish applies min-instance assertions and known findings, prints the verdict, writes evidence; returns exit code.
// vacuity: a rule that matched fewer instances than confirmed by reading fails.
func (r *Report) vacuity() {
	if r.vacuityDone {
		return
	}
	r.vacuityDone = true
	for _, ri := range r.Rules {
		if ri.Found < ri.MinInst {
			r.Obls = append(r.Obls, Obligation{Rule: ri.ID, Construct: "rule-instances", Pos: "-", OK: false,
				Detail: fmt.Sprintf("rule matched %d instance(s), fewer than the %d confirmed by reading; an anchor of this rule no longer resolves (vacuous pass refused)", ri.Found, ri.MinInst)})
			ri.Failed++
		}
	}
}

// Merge adds the obligations of a run over another build configuration that are not identical (rule, construct, verdict) to
// one of this report's; their constructs are prefixed. Returns the number added.
func (r *Report) Merge(o *Report, prefix string) int {
	have := map[string]bool{}
	for _, x := range r.Obls {
		have[fmt.Sprintf("%s|%s|%v", x.Rule, x.Construct, x.OK)] = true
	}
	n := 0
	for _, x := range o.Obls {
		if have[fmt.Sprintf("%s|%s|%v", x.Rule, x.Construct, x.OK)] {
			continue
		}
		x.Construct = prefix + x.Construct
		r.Obls = append(r.Obls, x)
		if ri := r.ruleIdx[x.Rule]; ri != nil && !x.OK {
			ri.Failed++
		}
		n++
	}
	return n
}

func (r *Report) Finish(verifDir string, ctx *Ctx, only string) int {
	r.vacuity()
	known, err := loadKnown(filepath.Join(verifDir, "known_findings.json"))
	if err != nil {
		fmt.Printf("cannot read known_findings.json: %v\n", err)
		r.Obls = append(r.Obls, Obligation{Rule: "plumbing", Construct: "known_findings.json", OK: false, Detail: err.Error()})
	}
	kidx := map[string]KnownFinding{}
	for _, k := range known {
		if k.Property == r.Property && k.Status == "known" {
			kidx[k.Rule+"|"+k.Construct] = k
		}
	}
	nviol, nknown, nok := 0, 0, 0
	sort.SliceStable(r.Obls, func(i, j int) bool {
		if r.Obls[i].Rule != r.Obls[j].Rule {
			return r.Obls[i].Rule < r.Obls[j].Rule
		}
		return r.Obls[i].Construct < r.Obls[j].Construct
	})
	os.MkdirAll(filepath.Join(verifDir, "out", "violations"), 0o755)
	for i := range r.Obls {
		o := &r.Obls[i]
		if only != "" && !(o.Rule == only || strings.HasPrefix(o.Rule+"|"+o.Construct, only)) {
			continue
		}
		if o.OK {
			nok++
			if os.Getenv("SGVERBOSE") != "" {
				fmt.Printf("  ok %s %s @%s\n", o.Rule, o.Construct, o.Pos)
			}
			continue
		}
		if k, ok := kidx[o.Rule+"|"+o.Construct]; ok {
			o.Known = true
			nknown++
			fmt.Printf("KNOWN-FINDING: property=%s rule=%s %s at %s — %s\n", r.Property, o.Rule, o.Construct, o.Pos, k.WhatFails)
			continue
		}
		nviol++
		h := sha1.Sum([]byte(o.Rule + "|" + o.Construct))
		path := filepath.Join(verifDir, "out", "violations", fmt.Sprintf("%s-%s-%x.json", r.Property, o.Rule, h[:4]))
		b, _ := json.MarshalIndent(map[string]any{"property": r.Property, "rule": o.Rule, "construct": o.Construct, "pos": o.Pos, "detail": o.Detail, "rule_text": r.ruleText(o.Rule)}, "", " ")
		os.WriteFile(path, b, 0o644)
		fmt.Printf("  rule %s violated at %s: %s\n    %s\n", o.Rule, o.Pos, o.Construct, o.Detail)
		fmt.Printf("VIOLATION property=%s replay=%s\n", r.Property, path)
	}
	for _, ri := range r.Rules {
		fmt.Printf("rule %-8s [%s] instances=%d (min %d) failed=%d\n", ri.ID, ri.Engine, ri.Found, ri.MinInst, ri.Failed)
	}
	fmt.Printf("property %s tier=%s: obligations=%d discharged=%d known-findings=%d violations=%d (%.1fs)\n",
		r.Property, r.Tier, len(r.Obls), nok, nknown, nviol, time.Since(r.start).Seconds())
	r.writeEvidence(verifDir, ctx, nok, nknown, nviol)
	if nviol > 0 {
		return 1
	}
	return 0
}

func (r *Report) ruleText(id string) string {
	if ri := r.ruleIdx[id]; ri != nil {
		return ri.Text
	}
	return ""
}

func (r *Report) writeEvidence(verifDir string, ctx *Ctx, nok, nknown, nviol int) {
	samples := []any{}
	perRule := map[string]int{}
	for _, o := range r.Obls {
		if perRule[o.Rule] < 3 || !o.OK {
			perRule[o.Rule]++
			v := "discharged"
			if !o.OK {
				v = "VIOLATED"
				if o.Known {
					v = "known-finding"
				}
			}
			samples = append(samples, map[string]any{"rule": o.Rule, "construct": o.Construct, "pos": o.Pos, "verdict": v, "detail": o.Detail})
		}
	}
	cov := map[string]any{
		"explanation":  r.Explain,
		"obligations":  len(r.Obls),
		"discharged":   nok,
		"known_findings_matched": nknown,
		"rules":        r.Rules,
		"samples":      samples,
		"checker_cmd":  fmt.Sprintf("/verif/run_check.sh %s %s", r.Property, r.Tier),
		"trusted_base": append([]string{"Go type checker (go/types, go1.26.8)", "golang.org/x/tools v0.50.0 go/packages + go/ssa construction", "the rule tables in /verif/sgcheck (anchors confirmed by reading)"}, r.Trusted...),
	}
	if ctx != nil {
		cov["packages_loaded"] = len(ctx.AllPkgs)
		cov["root_packages"] = rootPatterns
		cov["files_analysed"] = ctx.NumFiles
		cov["functions_analysed"] = len(ctx.SrcFuncs)
	}
	for k, v := range r.Extra {
		cov[k] = v
	}
	ev := map[string]any{
		"property_id": r.Property,
		"tier":        r.Tier,
		"seed":        r.Seed,
		"level":       r.Level,
		"coverage":    cov,
		"assumptions": append([]string{
			"default (community edition) build configuration of /repo's working tree; *_ee.go files need a private module and are not analysed",
			"test files and test-helper files are loaded but outside rule scope",
			"no pointer analysis: heap-mediated flows are followed per function / through receiver-rooted access paths only",
		}, r.Assume...),
		"wall_s":     time.Since(r.start).Seconds(),
		"violations": nviol,
	}
	b, _ := json.MarshalIndent(ev, "", " ")
	os.MkdirAll(filepath.Join(verifDir, "evidence"), 0o755)
	if err := os.WriteFile(filepath.Join(verifDir, "evidence", r.Property+".json"), b, 0o644); err != nil {
		fmt.Printf("cannot write evidence: %v\n", err)
	}
}
