package main

import (
	"fmt"
	"go/token"
	"go/types"
	"sort"
	"strings"

	"golang.org/x/tools/go/ssa"
)

func init() { registry["C19"] = checkC19 }

// looseDest: decoding JSON into this type with the plain decoder turns large integers into float64.
func looseDest(t types.Type) bool {
	p, ok := t.Underlying().(*types.Pointer)
	if !ok {
		return false
	}
	e := p.Elem()
	if n := namedOf(e); n == "Body" {
		return true
	}
	switch u := e.Underlying().(type) {
	case *types.Map:
		_, isIface := u.Elem().Underlying().(*types.Interface)
		return isIface
	case *types.Interface:
		return u.NumMethods() == 0
	case *types.Slice:
		_, isIface := u.Elem().Underlying().(*types.Interface)
		return isIface
	}
	return false
}

// c19LooseOK: the functions that decode non-document JSON into untyped containers, one reason each.
var c19LooseOK = map[string]string{
	"base.mandatoryFieldsPresent":                "audit event field check (not a document body)",
	"base.ExplainQuery":                          "N1QL EXPLAIN output",
	"(*base.gocbRawIterator).Next":               "N1QL/view result rows decoded for the caller's row type",
	"(*base.ConfigDuration).UnmarshalJSON":       "configuration value",
	"(*db.blipHandler).parseJsonBody":            "connected-client function/query arguments",
	"(*db.Document).GetMetaMap":                  "user xattr handed to the sync function as metadata (not part of the document body)",
	"db.attachmentCompactSweepPhase":             "attachment compaction marker xattr",
	"(*db.BlipSyncContext).handleChangesResponse": "peer's answer to a changes message (array of arrays of revision ids)",
	"(*rest.handler).handleView":                 "view query parameters",
	"(*rest.StartupConfig).SetupAndValidateLogging": "logging configuration",
	"(*rest.handler).getFunctionArgs":            "user function arguments",
	"(*rest.handler).validateAndWriteHeaders":    "audit fields of the request",
}

func checkC19(c *Ctx, r *Report) {
	r.Explain = "Decides structural necessary conditions of body fidelity: (R1) number-preserving decoding — no function of base, db, rest or channels decodes JSON into an untyped container (Body, map[string]any, []any, any) with the plain decoder except the listed non-document sites; document bodies go through the number-preserving Body.Unmarshal / decoder with UseNumber; (R2) every write path validates before it commits — validateNewBody inside prepareSyncFn precedes the sync function and sequence assignment for every write, the REST, replication and import entry points run their own validators before entering the CAS loop, each validator still rejects its full list of reserved names, and the cheap byte pre-filter in front of the replication validator searches for the bare quoted key (JSON allows whitespace before the colon); (R3) reserved properties are added to a body only through the JSON splicer.; (R4) externally stored bodies of non-winning revisions are deleted only after the commit that no longer needs them. Not decided: fidelity for arbitrary JSON (a statement about bytes produced at run time), the splicer's behaviour on odd inputs."
	c19R1(c, r)
	c19R2(c, r)
	c19R3(c, r)
	c19R4(c, r)
}

func c19R1(c *Ctx, r *Report) { c19R1For(c, r, "C19-R1") }

func c19R1For(c *Ctx, r *Report, rule string) {
	r.Rule(rule, "typed forbidden-call", "no plain JSON decode into Body / map[string]any / []any / any outside the listed non-document sites", 10)
	used := map[string]bool{}
	n := 0
	for _, fn := range c.ScopeFuncs() {
		for _, call := range c.Calls(fn, false, nameIs("base.JSONUnmarshal", "encoding/json.Unmarshal", "github.com/json-iterator/go.Unmarshal")) {
			a := call.Common().Args
			if len(a) < 2 {
				continue
			}
			dst := a[1]
			if mi, ok := dst.(*ssa.MakeInterface); ok {
				dst = mi.X
			}
			if !looseDest(dst.Type()) {
				continue
			}
			n++
			top := c.FuncName(TopLevel(fn))
			reason, ok := c19LooseOK[top]
			used[top] = true
			dt := strings.ReplaceAll(dst.Type().String(), modPath+"/", "")
			r.Check(rule, fmt.Sprintf("fn=%s plain-decode-into=%s", top, dt), c.Pos(call.Pos()), ok, "listed non-document decode: "+reason,
				"JSON is decoded into an untyped container with the plain decoder: integers above 2^53 in a document body would be rounded to float64 (use Body.Unmarshal / a decoder with UseNumber)")
		}
		// decoders: Decode into loose dest requires UseNumber on the same decoder
		for _, call := range c.Calls(fn, false, func(nm string) bool { return strings.HasSuffix(nm, ".Decode") && (strings.Contains(nm, "json.Decoder") || strings.Contains(nm, "JSONDecoderI")) }) {
			a := call.Common().Args
			var dst ssa.Value
			if call.Common().IsInvoke() {
				if len(a) < 1 {
					continue
				}
				dst = a[0]
			} else {
				if len(a) < 2 {
					continue
				}
				dst = a[1]
			}
			if mi, ok := dst.(*ssa.MakeInterface); ok {
				dst = mi.X
			}
			if namedOf(derefType(dst.Type())) != "Body" {
				continue
			}
			n++
			un := c.Calls(fn, false, func(nm string) bool { return strings.HasSuffix(nm, ".UseNumber") })
			var ui []ssa.Instruction
			for _, u := range un {
				ui = append(ui, u)
			}
			ok := len(ui) > 0 && DominatedBy(fn, call, NewAvoid().AddInstr(ui...))
			r.Check(rule, fmt.Sprintf("fn=%s decoder-into-Body uses=UseNumber", c.FuncName(fn)), c.Pos(call.Pos()), ok, "UseNumber() precedes Decode", "a document body is decoded without UseNumber: large integers would be rounded")
		}
	}
	r.Examined(rule, n)
	// Body.Unmarshal itself must be number preserving
	if fn := c.Func("(*db.Body).Unmarshal"); fn == nil {
		r.Fail(rule, "anchor (*db.Body).Unmarshal", "-", "function not found")
	} else {
		un := len(c.Calls(fn, true, func(nm string) bool { return strings.HasSuffix(nm, ".UseNumber") }))
		plain := len(c.Calls(fn, true, nameIs("base.JSONUnmarshal", "encoding/json.Unmarshal")))
		r.Check(rule, "fn=(*db.Body).Unmarshal number-preserving", c.Pos(fn.Pos()), un > 0 && plain == 0, "decodes with UseNumber", "the body decoder no longer preserves numbers")
	}
}

func derefType(t types.Type) types.Type {
	if p, ok := t.Underlying().(*types.Pointer); ok {
		return p.Elem()
	}
	return t
}

// constStringsIn collects the string constants a function mentions (as operands).
func constStringsIn(fn *ssa.Function) map[string]bool {
	out := map[string]bool{}
	EachInstr(fn, true, func(in ssa.Instruction) {
		for _, op := range in.Operands(nil) {
			if *op == nil {
				continue
			}
			if s, ok := constString(*op); ok {
				out[s] = true
			}
		}
	})
	return out
}

func c19R2(c *Ctx, r *Report) {
	r.Rule("C19-R2", "E2 pathrules + E7 tables", "validators run before the commit on every write path, keep their reserved-name lists, and the replication pre-filter matches the bare quoted key", 9)
	// (a) prepareSyncFn: validateNewBody gates the success return
	if fn := c.Func("(*db.DatabaseCollectionWithUser).prepareSyncFn"); fn == nil {
		r.Fail("C19-R2", "anchor prepareSyncFn", "-", "function not found")
	} else {
		var okE []Edge
		for _, call := range c.Calls(fn, false, nameIs("db.validateNewBody")) {
			ev := valueOfCall(call)
			_, neg := EdgesOnValue(fn, func(v ssa.Value) bool { return unwrapLoadFree(v) == ev })
			okE = append(okE, neg...)
		}
		// the statements that stamp _id/_rev (MapUpdate on the mutable body) come after validation
		ok := len(okE) > 0
		k := 0
		EachInstr(fn, false, func(in ssa.Instruction) {
			if mu, isMU := in.(*ssa.MapUpdate); isMU {
				k++
				if !DominatedBy(fn, mu, NewAvoid().AddEdge(okE...)) {
					ok = false
				}
			}
		})
		r.Check("C19-R2", "fn=prepareSyncFn body-accepted-by=validateNewBody before-use", c.Pos(fn.Pos()), ok && k > 0, "the body handed to the sync function passed validateNewBody", "a new body can reach the sync function / be stored without passing validateNewBody (reserved _removed/_purged/_sync_* properties would be stored)")
	}
	// (b) entry-point validators dominate the CAS entry
	for _, s := range []struct{ fn, validator, commit string }{
		{"(*db.DatabaseCollectionWithUser).Put", "db.validateAPIDocUpdate", "(*db.DatabaseCollectionWithUser).updateAndReturnDoc"},
		{"(*db.DatabaseCollectionWithUser).PutExistingRevWithBody", "db.validateAPIDocUpdate", ""},
		{"(*db.DatabaseCollectionWithUser).ImportDocRaw", "db.validateImportBody", "(*db.DatabaseCollectionWithUser).importDoc"},
		{"(*db.blipHandler).processRev", "db.validateBlipBody", ""},
	} {
		fn := c.Func(s.fn)
		if fn == nil {
			r.Fail("C19-R2", "anchor "+s.fn, "-", "function not found")
			continue
		}
		var okE []Edge
		for _, call := range c.Calls(fn, false, nameIs(s.validator)) {
			ev := valueOfCall(call)
			_, neg := EdgesOnValue(fn, func(v ssa.Value) bool { return unwrapLoadFree(v) == ev })
			okE = append(okE, neg...)
		}
		// commits: the named call, or any Put*/updateAndReturnDoc call in the function
		commits := c.Calls(fn, false, func(nm string) bool {
			if s.commit != "" {
				return nm == s.commit
			}
			id := CalleeIdentOf(nm)
			return strings.HasPrefix(id, "PutExisting") || id == "updateAndReturnDoc" || id == "Put"
		})
		ok := len(okE) > 0 && len(commits) > 0
		for _, cm := range commits {
			// import deletes have no body to validate: allow the isDelete edge
			av := NewAvoid().AddEdge(okE...)
			if s.validator == "db.validateImportBody" {
				av.AddEdge(EdgesWhere(fn, func(cond ssa.Value) (bool, bool) {
					v, pos := BoolTest(cond)
					if f, _ := fieldRead(v); f != nil && f.Name() == "isDelete" {
						return true, pos
					}
					return false, false
				})...)
			}
			if !DominatedBy(fn, cm, av) {
				ok = false
			}
		}
		r.Check("C19-R2", "fn="+s.fn+" commit after="+CalleeIdentOf(s.validator), c.Pos(fn.Pos()), ok, fmt.Sprintf("%d commit call(s) dominated by a successful validation", len(commits)), "this write entry point can reach the commit without its reserved-property validation")
	}
	// (c) reserved-name lists
	for _, s := range []struct {
		fn   string
		want []string
	}{
		{"db.validateNewBody", []string{"_removed", "_purged", "_sync_"}},
		{"db.validateAPIDocUpdate", []string{"_sync"}},
		{"db.validateImportBody", []string{"_purged", "_id", "_rev", "_exp", "_revisions"}},
		{"db.validateBlipBody", []string{"_sync", "_id", "_rev", "_deleted", "_revisions"}},
	} {
		fn := c.Func(s.fn)
		if fn == nil {
			r.Fail("C19-R2", "anchor "+s.fn, "-", "function not found")
			continue
		}
		have := constStringsIn(fn)
		var missing []string
		for _, w := range s.want {
			if !have[w] {
				missing = append(missing, w)
			}
		}
		sort.Strings(missing)
		r.Check("C19-R2", "fn="+s.fn+" rejects="+strings.Join(s.want, ","), c.Pos(fn.Pos()), len(missing) == 0, "full reserved-name list present", "reserved names no longer rejected: "+strings.Join(missing, ","))
	}
	// (d) pre-filter pattern
	if fn := c.Func("db.validateBlipBody"); fn != nil {
		n := 0
		for _, call := range c.Calls(fn, false, nameIs("bytes.Contains")) {
			n++
			pat := call.Common().Args[1]
			var parts []string
			var walk func(v ssa.Value)
			walk = func(v ssa.Value) {
				switch x := v.(type) {
				case *ssa.Convert:
					walk(x.X)
				case *ssa.BinOp:
					if x.Op == token.ADD {
						walk(x.X)
						walk(x.Y)
						return
					}
					parts = append(parts, "?")
				case *ssa.Const:
					if s, ok := constString(x); ok {
						parts = append(parts, "lit:"+s)
					} else {
						parts = append(parts, "?")
					}
				default:
					parts = append(parts, "var")
				}
			}
			walk(pat)
			got := strings.Join(parts, " ")
			r.Check("C19-R2", fmt.Sprintf("fn=db.validateBlipBody pre-filter #%d pattern=quoted-key-only", n), c.Pos(call.Pos()), got == `lit:" var lit:"`, got,
				"the byte pre-filter in front of the reserved-property check looks for more than the bare quoted key ("+got+"): a body that puts whitespace between key and colon skips the check and the reserved property is stored")
		}
		if n == 0 {
			r.Pass("C19-R2", "fn=db.validateBlipBody no-pre-filter", c.Pos(fn.Pos()), "validation is unconditional")
		}
	}
}

func c19R3(c *Ctx, r *Report) {
	r.Rule("C19-R3", "E3 whomay", "the JSON splicer is the only place that concatenates onto raw body bytes: functions returning revision bodies with reserved properties call base.InjectJSONProperties*", 2)
	// structural: the two body-with-special-properties builders go through the splicer
	for _, name := range []string{"(*db.Document).BodyWithSpecialProperties", "(*db.DocumentRevision).Inject1xBodyProperties"} {
		fn := c.Func(name)
		if fn == nil {
			continue
		}
		n := len(c.Calls(fn, true, func(nm string) bool { return strings.HasPrefix(nm, "base.InjectJSONProperties") }))
		r.Check("C19-R3", "fn="+name+" uses=InjectJSONProperties", c.Pos(fn.Pos()), n > 0, "reserved properties spliced with the JSON splicer", "reserved properties are added to body bytes without the JSON splicer")
	}
}
