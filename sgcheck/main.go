package main

import (
	_ "golang.org/x/tools/go/callgraph/cha"
	_ "golang.org/x/tools/go/callgraph/vta"
	_ "golang.org/x/tools/go/cfg"
	_ "golang.org/x/tools/go/packages"
	_ "golang.org/x/tools/go/ssa"
	_ "golang.org/x/tools/go/ssa/ssautil"
	_ "golang.org/x/tools/go/types/typeutil"
)

func main() {}
