// sgcheck: repository-specific static analyser for couchbase/sync_gateway.
// Decides structural necessary conditions of the properties in /verif/properties.jsonl
// from the type-checked source of the working tree (see /verif/DESIGN.md).
package main

import (
	"flag"
	"fmt"
	"os"
	"path/filepath"
	"runtime/debug"
	"sort"
	"strconv"
	"strings"
	"time"
)

type propertyCheck struct {
	run func(c *Ctx, r *Report)
}

var registry = map[string]func(c *Ctx, r *Report){}

func main() {
	repo := flag.String("repo", "/repo", "repository working tree")
	prop := flag.String("property", "", "property id (Cnn)")
	tier := flag.String("tier", "quick", "quick|thorough")
	replay := flag.String("replay", "", "violation file: re-run only that rule instance")
	verif := flag.String("verif", "", "verif dir (default: parent of the binary's dir)")
	overlays := flag.String("overlay", "", "comma-separated real=replacement file pairs (self-test variants)")
	only := flag.String("only", "", "report only this rule id")
	noEvidence := flag.Bool("no-evidence", false, "do not write evidence (self-test runs)")
	list := flag.Bool("list", false, "list properties with checks")
	flag.Parse()

	if *list {
		var ids []string
		for k := range registry {
			ids = append(ids, k)
		}
		sort.Strings(ids)
		fmt.Println(strings.Join(ids, " "))
		return
	}
	vdir := *verif
	if vdir == "" {
		exe, _ := os.Executable()
		vdir = filepath.Dir(filepath.Dir(exe))
	}
	seed := int64(0)
	if s := os.Getenv("VERIF_SEED"); s != "" {
		seed, _ = strconv.ParseInt(s, 10, 64)
	}
	run, ok := registry[*prop]
	if !ok {
		fmt.Printf("no check registered for property %q\n", *prop)
		fmt.Printf("VIOLATION property=%s replay=%s\n", *prop, "/verif/out/unknown-property")
		os.Exit(1)
	}
	if *noEvidence {
		vdirTmp, _ := os.MkdirTemp("", "sgcheck-selftest")
		// known findings still come from the real verif dir
		if b, err := os.ReadFile(filepath.Join(vdir, "known_findings.json")); err == nil {
			os.WriteFile(filepath.Join(vdirTmp, "known_findings.json"), b, 0o644)
		}
		vdir = vdirTmp
		defer os.RemoveAll(vdirTmp)
	}
	if *replay != "" {
		if o := readReplay(*replay); o != "" {
			*only = o
		}
	}
	rep := NewReport(*prop, *tier, seed)
	overlay := map[string][]byte{}
	if *overlays != "" {
		for _, pair := range strings.Split(*overlays, ",") {
			kv := strings.SplitN(pair, "=", 2)
			if len(kv) != 2 {
				continue
			}
			b, err := os.ReadFile(kv[1])
			if err != nil {
				fatal(rep, vdir, "overlay: "+err.Error())
			}
			overlay[kv[0]] = b
		}
	}
	code := func() (code int) {
		var ctx *Ctx
		defer func() {
			if p := recover(); p != nil {
				fmt.Printf("checker panic: %v\n%s\n", p, debug.Stack())
				rep.Rule("plumbing", "core", "the checker must complete", 0)
				rep.Fail("plumbing", "checker-panic", "-", fmt.Sprint(p))
				code = rep.Finish(vdir, ctx, "")
			}
		}()
		var err error
		ctx, err = loadProgram(*repo, *tier, overlay, "")
		if err != nil {
			rep.Rule("plumbing", "core", "the working tree must load and type-check", 0)
			rep.Fail("plumbing", "load", "-", err.Error())
			return rep.Finish(vdir, nil, "")
		}
		fmt.Printf("[%.1fs] loaded %d packages (%d root), %d files in root packages, %d source functions\n", time.Since(rep.start).Seconds(), len(ctx.AllPkgs), len(ctx.Pkgs), ctx.NumFiles, len(ctx.SrcFuncs))
		run(ctx, rep)
		if *tier == "thorough" {
			// second build configuration: the developer-mode build (cb_sg_devmode) swaps three files of base and db
			configs := []string{"default"}
			for _, tags := range []string{"cb_sg_devmode"} {
				ctx2, err := loadProgram(*repo, *tier, overlay, tags)
				if err != nil {
					rep.Rule("plumbing", "core", "the working tree must load and type-check", 0)
					rep.Fail("plumbing", "load tags="+tags, "-", err.Error())
					continue
				}
				rep2 := NewReport(*prop, *tier, seed)
				run(ctx2, rep2)
				rep2.vacuity()
				added := rep.Merge(rep2, "[tags="+tags+"] ")
				configs = append(configs, tags)
				fmt.Printf("[%.1fs] build configuration tags=%s: %d files, %d functions, %d obligations (%d differ from the default configuration)\n", time.Since(rep.start).Seconds(), tags, ctx2.NumFiles, len(ctx2.SrcFuncs), len(rep2.Obls), added)
				rep.Extra["config_"+tags] = map[string]any{"files_analysed": ctx2.NumFiles, "functions_analysed": len(ctx2.SrcFuncs), "obligations": len(rep2.Obls), "obligations_differing_from_default": added}
			}
			rep.Extra["build_configurations"] = configs
		}
		return rep.Finish(vdir, ctx, *only)
	}()
	os.Exit(code)
}

func fatal(rep *Report, vdir, msg string) {
	rep.Rule("plumbing", "core", "the checker must complete", 0)
	rep.Fail("plumbing", "fatal", "-", msg)
	os.Exit(rep.Finish(vdir, nil, ""))
}

func readReplay(path string) string {
	b, err := os.ReadFile(path)
	if err != nil {
		return ""
	}
	s := string(b)
	// crude extraction to avoid a struct: "rule": "X", "construct": "Y"
	get := func(k string) string {
		i := strings.Index(s, `"`+k+`": "`)
		if i < 0 {
			return ""
		}
		rest := s[i+len(k)+5:]
		j := strings.Index(rest, `"`)
		if j < 0 {
			return ""
		}
		return rest[:j]
	}
	return get("rule")
}
