package main

import (
	"go/token"
	"fmt"
	"go/types"
	"sort"
	"strings"

	"golang.org/x/tools/go/ssa"
)

func init() { registry["C06"] = checkC06 }

// retryCallbacks: function literals handed to the compare-and-swap retry loop of the document write path (they may run several
// times for one logical write), mapped to the function that creates them.
func retryCallbacks(c *Ctx) map[*ssa.Function]*ssa.Function {
	out := map[*ssa.Function]*ssa.Function{}
	for _, fn := range c.ScopeFuncs() {
		for _, call := range c.Calls(fn, false, nameIs("(*db.DatabaseCollectionWithUser).updateAndReturnDoc")) {
			for _, a := range call.Common().Args {
				if mc, ok := unwrap(a).(*ssa.MakeClosure); ok {
					if lit, ok := mc.Fn.(*ssa.Function); ok {
						out[lit] = fn
					}
				}
			}
		}
	}
	return out
}

// carriedCells: captured variables of lit (or single fields of a captured struct variable) that are stored inside lit and loaded
// inside lit on a path from its entry on which no store to the same variable/field precedes the load: the value written by one
// invocation is read by the next.
func carriedCells(lit *ssa.Function) map[string]ssa.Instruction {
	out := map[string]ssa.Instruction{}
	for _, fv := range lit.FreeVars {
		stores := map[string][]ssa.Instruction{}
		loads := map[string][]*ssa.UnOp{}
		keyOf := func(addr ssa.Value) (string, bool) {
			if addr == ssa.Value(fv) {
				return fv.Name(), true
			}
			// Field-level carry-over (opts.RevTreeHistory = … on the version-vector path) is deliberately not armed: it was
			// examined by hand and no failing history exists for it (the resolver there compares version vectors, which are
			// rebuilt on a copy), so reporting it would demand more than the property states.
			return "", false
		}
		EachInstr(lit, false, func(in ssa.Instruction) {
			switch x := in.(type) {
			case *ssa.Store:
				if k, ok := keyOf(x.Addr); ok {
					stores[k] = append(stores[k], x)
				}
			case *ssa.UnOp:
				if ad, ok := loadOf(x); ok {
					if k, ok := keyOf(ad); ok {
						loads[k] = append(loads[k], x)
					}
				}
			}
		})
		for k, sts := range stores {
			// a whole-variable store also (re)defines every field
			avoid := NewAvoid().AddInstr(sts...)
			if k != fv.Name() {
				avoid.AddInstr(stores[fv.Name()]...)
			}
			cands := loads[k]
			if k == fv.Name() {
				// whole-variable loads and field loads both read it
				for fk, ls := range loads {
					if fk != k {
						cands = append(cands, ls...)
					}
				}
			}
			for _, ld := range cands {
				if ld.Referrers() == nil || len(*ld.Referrers()) == 0 {
					continue
				}
				if ReachEntry(lit, ld, avoid) {
					if _, have := out[k]; !have {
						out[k] = ld
					}
				}
			}
		}
	}
	return out
}

// carriedCellsDetailed is carriedCells keyed by the captured variable itself.
func carriedCellsDetailed(lit *ssa.Function) map[*ssa.FreeVar]ssa.Instruction {
	out := map[*ssa.FreeVar]ssa.Instruction{}
	names := carriedCells(lit)
	for _, fv := range lit.FreeVars {
		if ld, ok := names[fv.Name()]; ok {
			out[fv] = ld
		}
	}
	return out
}

func checkC06(c *Ctx, r *Report) {
	r.Explain = "Decides structural necessary conditions of replication convergence (the property as a whole — two databases, a wire protocol and every interleaving — is not decidable from the shape of the code): (R1) conflict resolution is idempotent across compare-and-swap retries: in the write callbacks that run a conflict resolver, no captured variable carries a value written by one attempt into the next attempt (written in the callback and read before it is written), and the incoming revision's version vector — an object captured from outside the callback — never has its current version overwritten in place (resolution builds the merged vector on a Copy); otherwise a retry resolves the conflict against the product of the previous attempt and the peers keep different winners; (R2) on the pulling side a revision's sequence is reported to the checkpointer as processed only on the success edge of the local write, so a revision whose write failed is fetched again after a restart; (R3) on the pushing side a sequence is reported as processed only after the peer's answer to that revision has been received; (R4) after a local-wins resolution (current version kept, history rewritten) both the resolving node and, through the mutation feed, every other node drop the revision-cache entry keyed by that version.; (R5, shared with C17-R2) the position a replicator persists and resumes from is the full printed form of the safe sequence (a compound low::seq token keeps its low part, so a late arrival below it is still pulled after a restart); (R6, shared with C19-R1) no body on the replication paths is decoded with the plain JSON decoder, so the body sent for a revision equals the body stored for it. Not decided: that both sides pick the same winner, that the resolved revision reaches the other side, push revisions the peer rejects (they are counted and, by design, not retried), tombstone/edit and equal-generation ties, that a caught-up replication transfers nothing, heap-mediated aliasing beyond parameters and captured variables."
	c06R1(c, r)
	c06R2R3(c, r)
	c06R4(c, r)
	c17R2For(c, r, "C06-R5")
	c19R1For(c, r, "C06-R6")
}

func c06R1(c *Ctx, r *Report) { c06R1For(c, r, "C06-R1") }

// c06R1For: shared with C10 (the vector-level clause: an incoming vector overwritten in place loses the incoming version on a retry).
func c06R1For(c *Ctx, r *Report, rule string) {
	r.Rule(rule, "E2 reaching stores on captured cells + parameter taint", "conflict-resolving write callbacks carry no state from one CAS attempt to the next; the incoming version vector's current version is never overwritten in place", 4)
	cbs := retryCallbacks(c)
	resolverF := c.Field("db.PutDocOptions", "ConflictResolver")
	if resolverF == nil {
		r.Fail(rule, "anchor db.PutDocOptions.ConflictResolver", "-", "field not found")
		return
	}
	var lits []*ssa.Function
	for l := range cbs {
		lits = append(lits, l)
	}
	sort.Slice(lits, func(i, j int) bool { return c.FuncName(lits[i]) < c.FuncName(lits[j]) })
	resolving := 0
	for _, lit := range lits {
		// does this callback run a conflict resolver?
		uses := false
		EachInstr(lit, true, func(in ssa.Instruction) {
			if fa, ok := in.(*ssa.FieldAddr); ok && structField(fa.X.Type(), fa.Field) == resolverF {
				uses = true
			}
			if f, ok := in.(*ssa.Field); ok && structField(f.X.Type(), f.Field) == resolverF {
				uses = true
			}
		})
		if !uses {
			continue
		}
		resolving++
		name := c.FuncName(lit)
		carried := carriedCells(lit)
		if len(carried) == 0 {
			r.Pass(rule, "callback="+name+" carries-no-state-across-attempts", c.Pos(lit.Pos()), "every captured variable the callback writes is written before it is read")
		}
		var ks []string
		for k := range carried {
			ks = append(ks, k)
		}
		sort.Strings(ks)
		for _, k := range ks {
			r.Fail(rule, fmt.Sprintf("callback=%s carried-variable=%s", name, k), c.Pos(carried[k].Pos()), "the callback assigns this captured variable and a later invocation (CAS retry) reads the value the previous attempt left in it: after a conflict was resolved once, the retry works on the rewritten history/revision instead of the incoming one")
		}
	}
	if resolving < 2 {
		r.Fail(rule, "conflict-resolving callbacks", "-", fmt.Sprintf("found %d write callbacks that consult PutDocOptions.ConflictResolver (expected the revision-tree and the version-vector path)", resolving))
	}
	// --- incoming vector not overwritten in place
	hlvT := c.NamedType("db.HybridLogicalVector")
	if hlvT == nil {
		r.Fail(rule, "anchor db.HybridLogicalVector", "-", "type not found")
		return
	}
	cvFields := map[string]bool{"SourceID": true, "Version": true, "CurrentVersionCAS": true}
	// destructive methods: overwrite the receiver's current version (directly, by whole-value store, or via another destructive method on the same receiver)
	destructive := map[*ssa.Function]bool{}
	var methods []*ssa.Function
	for _, fn := range c.ScopeFuncs() {
		if fn.Signature.Recv() != nil && namedOf(fn.Signature.Recv().Type()) == "HybridLogicalVector" && len(fn.Params) > 0 {
			methods = append(methods, fn)
		}
	}
	for changed := true; changed; {
		changed = false
		for _, m := range methods {
			if destructive[m] {
				continue
			}
			recv := m.Params[0]
			d := false
			EachInstr(m, false, func(in ssa.Instruction) {
				switch x := in.(type) {
				case *ssa.Store:
					if x.Addr == ssa.Value(recv) {
						d = true // *hlv = …
					}
					if fa, ok := x.Addr.(*ssa.FieldAddr); ok && fa.X == ssa.Value(recv) {
						if f := structField(fa.X.Type(), fa.Field); f != nil && cvFields[f.Name()] {
							d = true
						}
					}
				case ssa.CallInstruction:
					if cal := x.Common().StaticCallee(); cal != nil && destructive[cal] && len(x.Common().Args) > 0 && x.Common().Args[0] == ssa.Value(recv) {
						d = true
					}
				}
			})
			if d {
				destructive[m] = true
				changed = true
			}
		}
	}
	if len(destructive) < 3 {
		r.Fail(rule, "destructive vector methods", "-", fmt.Sprintf("only %d methods of HybridLogicalVector found that overwrite the current version (expected AddVersion, UpdateWithIncomingHLV, …)", len(destructive)))
		return
	}
	// taint: values that alias objects captured from outside a retry callback
	tainted := map[ssa.Value]bool{}
	taintedParams := map[*ssa.Parameter]bool{}
	var work []*ssa.Function
	inWork := map[*ssa.Function]bool{}
	push := func(f *ssa.Function) {
		if f != nil && len(f.Blocks) > 0 && !inWork[f] {
			inWork[f] = true
			work = append(work, f)
		}
	}
	for _, lit := range lits {
		push(lit)
	}
	isTainted := func(v ssa.Value) bool { return tainted[v] }
	examined := 0
	for len(work) > 0 {
		fn := work[0]
		work = work[1:]
		inWork[fn] = false
		// local propagation to fixpoint
		for changed := true; changed; {
			changed = false
			mark := func(v ssa.Value) {
				if !tainted[v] {
					tainted[v] = true
					changed = true
				}
			}
			if _, isCB := cbs[fn]; isCB {
				for _, fv := range fn.FreeVars {
					mark(fv)
				}
			}
			for _, p := range fn.Params {
				if taintedParams[p] {
					mark(p)
				}
			}
			EachInstr(fn, false, func(in ssa.Instruction) {
				v, ok := in.(ssa.Value)
				if !ok || tainted[v] {
					return
				}
				switch x := in.(type) {
				case *ssa.UnOp:
					if _, isLoad := loadOf(x); isLoad && isTainted(x.X) {
						mark(x)
					}
				case *ssa.FieldAddr:
					if isTainted(x.X) {
						mark(x)
					}
				case *ssa.Field:
					if isTainted(x.X) {
						mark(x)
					}
				case *ssa.Phi:
					for _, e := range x.Edges {
						if isTainted(e) {
							mark(x)
						}
					}
				case *ssa.ChangeType:
					if isTainted(x.X) {
						mark(x)
					}
				case *ssa.MakeInterface:
					if isTainted(x.X) {
						mark(x)
					}
				}
			})
			// local cells holding a tainted pointer
			EachInstr(fn, false, func(in ssa.Instruction) {
				if st, ok := in.(*ssa.Store); ok && isTainted(st.Val) {
					if al, ok := st.Addr.(*ssa.Alloc); ok && !tainted[al] {
						if _, isPtr := st.Val.Type().Underlying().(*types.Pointer); isPtr {
							mark(al)
						}
					}
				}
			})
		}
		// calls: violations and propagation
		EachInstr(fn, false, func(in ssa.Instruction) {
			ci, ok := in.(ssa.CallInstruction)
			if !ok {
				return
			}
			cal := ci.Common().StaticCallee()
			if cal == nil {
				return
			}
			args := ci.Common().Args
			if destructive[cal] && len(args) > 0 {
				examined++
				if isTainted(args[0]) {
					r.Fail(rule, fmt.Sprintf("fn=%s overwrites-in-place=incoming-vector via=%s", c.FuncName(TopLevel(fn)), CalleeIdent(ci)), c.Pos(ci.Pos()), "inside the CAS-retried write callback the version vector that was captured from outside (the incoming revision's vector) has its current version overwritten in place; if the write is retried the callback runs again with the overwritten vector, the update is cancelled as already present and the resolution is never propagated: build the merged vector on a Copy()")
				}
			}
			if cal.Pkg == nil || cal.Pkg.Pkg.Name() != "db" || len(cal.Blocks) == 0 {
				return
			}
			for i, a := range args {
				if i < len(cal.Params) && isTainted(a) && !taintedParams[cal.Params[i]] {
					if _, isPtr := a.Type().Underlying().(*types.Pointer); isPtr || strings.Contains(a.Type().String(), "PutDocOptions") {
						taintedParams[cal.Params[i]] = true
						push(cal)
					}
				}
			}
		})
		// direct field stores through a tainted vector
		EachInstr(fn, false, func(in ssa.Instruction) {
			if st, ok := in.(*ssa.Store); ok {
				if fa, ok := st.Addr.(*ssa.FieldAddr); ok && isTainted(fa.X) && namedOf(fa.X.Type()) == "HybridLogicalVector" {
					if f := structField(fa.X.Type(), fa.Field); f != nil && cvFields[f.Name()] {
						r.Fail(rule, fmt.Sprintf("fn=%s overwrites-in-place=incoming-vector field=%s", c.FuncName(TopLevel(fn)), f.Name()), c.Pos(st.Pos()), "the incoming revision's version vector (captured from outside the CAS-retried callback) is assigned in place")
					}
				}
			}
		})
	}
	r.Examined(rule, examined)
	r.Check(rule, "incoming-vector current-version never-overwritten-in-place (sites examined)", "-", examined >= 5, fmt.Sprintf("%d calls of current-version-overwriting vector methods examined in functions reachable from the write callbacks with captured arguments", examined), fmt.Sprintf("only %d such calls found; the taint walk no longer reaches the resolution code", examined))
	// the resolution on the vector path builds on a copy (positive anchor)
	if fn := c.Func("(*db.DatabaseCollectionWithUser).resolveLocalWinsHLV"); fn == nil {
		r.Fail(rule, "anchor resolveLocalWinsHLV", "-", "function not found")
	} else {
		ok := false
		for _, call := range c.Calls(fn, false, func(n string) bool { return strings.HasSuffix(n, ".UpdateWithIncomingHLV") || strings.HasSuffix(n, ".MergeWithIncomingHLV") }) {
			recv := call.Common().Args[0]
			if cc, isCall := unwrapLoadFree(recv).(*ssa.Call); isCall && strings.HasSuffix(c.CalleeName(cc), ".Copy") {
				ok = true
			}
		}
		r.Check(rule, "fn=resolveLocalWinsHLV merged-vector built-on=Copy()", c.Pos(fn.Pos()), ok, "local-wins resolution updates a copy of the incoming vector", "local-wins resolution no longer builds the merged vector on a copy of the incoming vector")
	}
}

func c06R2R3(c *Ctx, r *Report) {
	pullProcessedOnlyAfterWrite(c, r, "C06-R2")
	c06R3(c, r)
}

// pullProcessedOnlyAfterWrite (shared by C06 and C17)
func pullProcessedOnlyAfterWrite(c *Ctx, r *Report, rule string) {
	r.Rule(rule, "E2 pathrules", "pull: a revision's sequence is reported processed only on the success edge of the local write", 4)
	pr := c.Func("(*db.blipHandler).processRev")
	if pr == nil {
		r.Fail(rule, "anchor processRev", "-", "function not found")
	} else {
		var writes []*ssa.Call
		for _, call := range c.Calls(pr, false, func(n string) bool {
			return strings.HasPrefix(n, "(*db.DatabaseCollectionWithUser).PutExisting") || n == "(*db.DatabaseCollectionWithUser).Purge"
		}) {
			if cv, ok := call.(*ssa.Call); ok {
				writes = append(writes, cv)
			}
		}
		var cbs []ssa.Instruction
		EachInstr(pr, false, func(in ssa.Instruction) {
			if ci, ok := in.(ssa.CallInstruction); ok && c.invokesFieldCallback(ci, "sgr2PullProcessedSeqCallback", 0) {
				cbs = append(cbs, in)
			}
		})
		if len(writes) < 3 || len(cbs) == 0 {
			r.Fail(rule, "fn=processRev writes/callback", c.Pos(pr.Pos()), fmt.Sprintf("expected the local write calls (two PutExisting…, Purge) and the processed callback, found %d/%d", len(writes), len(cbs)))
		} else {
			isCB := map[ssa.Instruction]bool{}
			for _, cb := range cbs {
				isCB[cb] = true
			}
			for _, w := range writes {
				ev := errValueOf(w)
				// cells the error is stored into
				cells := map[ssa.Value]bool{}
				if refs := ev.Referrers(); refs != nil {
					for _, rf := range *refs {
						if st, ok := rf.(*ssa.Store); ok && st.Val == ev {
							cells[rootAddr(st.Addr)] = true
						}
					}
				}
				isErr := func(v ssa.Value) bool {
					if v == ev {
						return true
					}
					if phi, ok := v.(*ssa.Phi); ok {
						for _, e := range phi.Edges {
							if e == ev {
								return true
							}
						}
					}
					if ad, ok := loadOf(v); ok && cells[rootAddr(ad)] {
						return true
					}
					return false
				}
				_, okE := EdgesOnValue(pr, isErr)
				// from the write, the callback must not be reachable without crossing a nil-error edge of this write's error
				hit := ReachAfter(w, func(in ssa.Instruction) bool { return isCB[in] }, NewAvoid().AddEdge(okE...))
				reach := ReachAfter(w, func(in ssa.Instruction) bool { return isCB[in] }, nil)
				if reach == nil {
					r.Pass(rule, fmt.Sprintf("fn=processRev write=%s no-processed-report-follows", CalleeIdent(w)), c.Pos(w.Pos()), "no processed callback after this write")
					continue
				}
				r.Check(rule, fmt.Sprintf("fn=processRev write=%s processed-report only-after=write-succeeded", CalleeIdent(w)), c.Pos(w.Pos()), len(okE) > 0 && hit == nil, "the processed callback is reached only across the nil-error edge of this write", "a pulled revision whose local write failed is still reported to the checkpointer as processed: after a restart from the checkpoint it is never fetched again and the two databases stay different")
			}
			// and every processed report follows a write
			for i, cb := range cbs {
				ok := !ReachEntry(pr, cb, NewAvoid().AddInstr(func() []ssa.Instruction {
					var o []ssa.Instruction
					for _, w := range writes {
						o = append(o, w)
					}
					return o
				}()...))
				r.Check(rule, fmt.Sprintf("fn=processRev processed-report #%d follows=a-local-write", i+1), c.Pos(cb.Pos()), ok, "every path to the report passes a local write (or purge)", "a revision can be reported processed without any local write having been attempted")
			}
		}
	}
}

func c06R3(c *Ctx, r *Report) { c06R3For(c, r, "C06-R3") }

func c06R3For(c *Ctx, r *Report, rule string) {
	r.Rule(rule, "E2 pathrules", "push: a sequence is reported processed only after the peer's response to the revision was received", 1)
	sr := c.Func("(*db.BlipSyncContext).sendRevisionWithProperties")
	if sr == nil {
		r.Fail(rule, "anchor sendRevisionWithProperties", "-", "function not found")
		return
	}
	n := 0
	for _, fn := range append([]*ssa.Function{sr}, c15Lits(sr)...) {
		EachInstr(fn, false, func(in ssa.Instruction) {
			ci, ok := in.(ssa.CallInstruction)
			if !ok || !c.invokesFieldCallback(ci, "sgr2PushProcessedSeqCallback", 0) {
				return
			}
			n++
			resp := c.Calls(fn, false, nameHasSuffix(".Response"))
			ok = len(resp) > 0 && !ReachEntry(fn, in, NewAvoid().AddInstr(instrs(resp)...))
			r.Check(rule, fmt.Sprintf("fn=%s processed-callback #%d only-after=peer-response", c.FuncName(fn), n), c.Pos(in.Pos()), ok, "every path to the callback passes the blocking Response() of the rev message", "a pushed sequence can be reported processed before the peer answered the revision: a checkpoint can pass a revision the peer never stored")
		})
	}
	if n == 0 {
		r.Fail(rule, "fn=sendRevisionWithProperties processed-callback", c.Pos(sr.Pos()), "push processed callback not found")
	}
}

// C06-R4: a local-wins conflict resolution keeps the document's current version but rewrites its version-vector history. The node
// that resolves removes its own revision-cache entry for that version; every other node learns of it from the mutation feed
// (flag UnchangedCV) and must drop the entry keyed by the current version too — otherwise it keeps serving (and pushing) the
// pre-resolution revision, the peer answers with a conflict and the two databases stay different.
func c06R4(c *Ctx, r *Report) {
	r.Rule("C06-R4", "E2 pathrules + def-use (sibling agreement)", "both the resolving node (resolveLocalWinsHLV) and the mutation feed (DocChanged, on the UnchangedCV edge) remove the revision-cache entry keyed by the document's current version", 2)
	isCVKey := func(v ssa.Value) bool {
		return DependsOn(v, func(x ssa.Value) bool {
			cc, ok := x.(*ssa.Call)
			if !ok {
				return false
			}
			n := c.CalleeName(cc)
			return n == "(db.Version).String" || n == "(*db.Version).String" || strings.HasSuffix(n, ".GetCurrentVersionString") || strings.HasSuffix(n, ").CV")
		})
	}
	removes := func(fn *ssa.Function) []ssa.CallInstruction {
		var out []ssa.CallInstruction
		for _, call := range c.Calls(fn, false, func(n string) bool { return strings.HasSuffix(n, "evisionCache).Remove") || strings.HasSuffix(n, "RevisionCache).Remove") || strings.HasSuffix(n, ".RemoveWithCV") }) {
			a := call.Common().Args
			if len(a) > 0 && isCVKey(a[len(a)-1]) {
				out = append(out, call)
			}
		}
		return out
	}
	// resolving node
	if fn := c.Func("(*db.DatabaseCollectionWithUser).resolveLocalWinsHLV"); fn == nil {
		r.Fail("C06-R4", "anchor resolveLocalWinsHLV", "-", "function not found")
	} else {
		r.Check("C06-R4", "fn=resolveLocalWinsHLV removes=revision-cache-entry keyed-by=current-version", c.Pos(fn.Pos()), len(removes(fn)) > 0, "the resolving node drops its stale entry", "the resolving node no longer drops the revision-cache entry of the version whose history it rewrites")
	}
	// other nodes, via the mutation feed
	fn := c.Func("(*db.changeCache).DocChanged")
	if fn == nil {
		r.Fail("C06-R4", "anchor (*db.changeCache).DocChanged", "-", "function not found")
		return
	}
	flag := int64(-1)
	if k, ok := c.SSAPkg["channels"].Pkg.Scope().Lookup("UnchangedCV").(*types.Const); ok {
		flag, _ = constantInt64(k)
	}
	if flag < 0 {
		r.Fail("C06-R4", "anchor channels.UnchangedCV", "-", "constant not found")
		return
	}
	edges := EdgesWhere(fn, func(cond ssa.Value) (bool, bool) {
		b, ok := cond.(*ssa.BinOp)
		if !ok || (b.Op != token.NEQ && b.Op != token.EQL) {
			return false, false
		}
		and, ok := b.X.(*ssa.BinOp)
		if !ok || and.Op != token.AND {
			return false, false
		}
		if k, isK := constInt(and.Y); !isK || k != flag {
			if k2, isK2 := constInt(and.X); !isK2 || k2 != flag {
				return false, false
			}
		}
		if z, isZ := constInt(b.Y); !isZ || z != 0 {
			return false, false
		}
		return true, b.Op == token.NEQ
	})
	rm := removes(fn)
	ok := len(edges) > 0 && len(rm) > 0
	if ok {
		// on the flag's edge, every path to the forwarding of the change passes the removal
		fwd := c.Calls(fn, false, nameIs("(*db.changeCache).processEntry"))
		var rmI []ssa.Instruction
		for _, x := range rm {
			rmI = append(rmI, x)
		}
		for _, e := range edges {
			for _, f := range fwd {
				if ReachFrom(e.To(), 0, func(in ssa.Instruction) bool { return in == ssa.Instruction(f) }, NewAvoid().AddInstr(rmI...)) != nil {
					ok = false
				}
			}
		}
	}
	r.Check("C06-R4", "fn=(*db.changeCache).DocChanged unchanged-cv-mutation removes=revision-cache-entry keyed-by=current-version before=forwarding", c.Pos(fn.Pos()), ok,
		"other nodes drop the entry of the version whose history was rewritten", "a mutation that keeps the current version but rewrites its history (local-wins resolution on another node) no longer evicts the revision-cache entry keyed by that version: this node keeps serving and pushing the pre-resolution revision, the peer answers 409 and the databases stay different")
}
