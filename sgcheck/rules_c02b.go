package main

import (
	"fmt"

	"golang.org/x/tools/go/ssa"
)

// C02-R8: the document's CURRENT channel set (SyncData.getCurrentChannels) describes the current revision only. Used for any other
// revision — an old revision whose backup carries no channels, say — it lets a reader who holds only the document's new channel
// fetch a body that lived in another one. Who may read it is therefore a closed table (fail closed: a new caller is a violation).
var c02CurrentChannelReaders = map[string]string{
	"(*db.Document).channelsForRevTreeID":                    "answers for the current revision id only (the other arm reads the revision tree)",
	"(*db.DatabaseCollection).getRevisionChannels":           "only on the edge where the requested version IS the document's current version",
	"(*db.DatabaseCollection).getCurrentVersion":             "loads the current version itself (else-arm: the requested version is the current one)",
	"(*db.DatabaseCollectionWithUser).documentUpdateFunc":    "captures the channels of the revision being superseded, to stamp its backup (C02-R4)",
	"(*db.DatabaseCollectionWithUser).tombstoneActiveRevision": "stamps the backup of the active revision it tombstones",
	"(*db.DatabaseCollectionWithUser).postWriteUpdateHLV":    "stamps the delta-sync backup of the revision just written (the current one)",
}

func c02R8(c *Ctx, r *Report) {
	r.Rule("C02-R8", "E4 who-may-call (closed table)", "the document's current channel set is read only by the listed functions, each of which handles the current revision; no revision loader falls back to it for another revision", 5)
	n := 0
	seen := map[string]int{}
	for _, fn := range c.ScopeFuncs() {
		for _, call := range c.Calls(fn, false, nameHasSuffix(".getCurrentChannels")) {
			top := c.FuncName(TopLevel(fn))
			n++
			seen[top]++
			why, ok := c02CurrentChannelReaders[top]
			r.Check("C02-R8", fmt.Sprintf("fn=%s reads=current-channels #%d", top, seen[top]), c.Pos(call.Pos()), ok, "listed: "+why, "the document's current channel set is consulted by a function that is not listed as handling the current revision: a revision other than the current one (an old revision whose backup has no channel information) would be authorised against channels it was never in, and a reader holding only the document's new channel could fetch it")
		}
	}
	if n == 0 {
		r.Fail("C02-R8", "readers of the current channel set", "-", "none found")
	}
	_ = ssa.Value(nil)
}

// C02-R9: the doc-id-filtered changes path (createChangesEntry) builds its row from the document's channel map, which also lists the
// channels the document was REMOVED from. A removal may be reported — with document id, revision id, deleted flag and the channel's
// name — only for a channel the requester can see. So inside the per-channel loop every look at a removal record's contents
// (its sequence, its deleted flag) has to sit on the true edge of the requester's CanSeeCollectionChannel verdict for that channel.
func c02R9(c *Ctx, r *Report) {
	r.Rule("C02-R9", "E2 pathrules", "in createChangesEntry a channel-removal record is examined (sequence, deleted flag) only on the edge where the requester can see that channel", 2)
	var fn *ssa.Function
	for _, f := range c.ScopeFuncs() {
		if f.Name() == "createChangesEntry" && f.Parent() == nil {
			fn = f
		}
	}
	if fn == nil {
		r.Fail("C02-R9", "anchor createChangesEntry", "-", "function not found")
		return
	}
	var verdicts []ssa.Value
	for _, call := range c.Calls(fn, false, nameHasSuffix(".CanSeeCollectionChannel")) {
		if cv, ok := call.(*ssa.Call); ok {
			verdicts = append(verdicts, resultValues(cv, 0)...)
		}
	}
	if len(verdicts) == 0 {
		r.Fail("C02-R9", "fn=createChangesEntry gate=CanSeeCollectionChannel", c.Pos(fn.Pos()), "the per-channel visibility check was not found")
		return
	}
	pos, _ := EdgesOnValue(fn, func(v ssa.Value) bool {
		for _, x := range verdicts {
			if v == x {
				return true
			}
		}
		return false
	})
	n := 0
	EachInstr(fn, false, func(in ssa.Instruction) {
		fa, ok := in.(*ssa.FieldAddr)
		if !ok || namedOf(derefType(fa.X.Type())) != "ChannelRemoval" {
			return
		}
		f := structField(fa.X.Type(), fa.Field)
		n++
		okDom := len(pos) > 0 && DominatedBy(fn, fa, NewAvoid().AddEdge(pos...))
		r.Check("C02-R9", fmt.Sprintf("fn=createChangesEntry removal.%s #%d only-if=requester-can-see-channel", f.Name(), n), c.Pos(fa.Pos()), okDom, "dominated by CanSeeCollectionChannel == true", "a removal record of a channel the requester cannot see is examined and can make the row visible: a doc-id-filtered changes request then lists documents (id, revision, deleted flag, former channel name) that were only ever in channels the requester has no access to")
	})
	if n == 0 {
		r.Fail("C02-R9", "fn=createChangesEntry removal records", c.Pos(fn.Pos()), "no access to a removal record found")
	}
}
