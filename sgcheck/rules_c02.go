package main

import (
	"go/types"
	"fmt"
	"sort"
	"strings"

	"golang.org/x/tools/go/ssa"
)

func init() { registry["C02"] = checkC02 }

// ---- sources: calls that hand out revision bodies / attachment bytes with no user check ----

func c02IsCacheRead(name string) bool {
	if !strings.HasPrefix(name, "(*db.collectionRevisionCache).") && !strings.HasPrefix(name, "(db.RevisionCache).") {
		return false
	}
	switch CalleeIdentOf(name) {
	case "Get", "GetActive", "GetWithDelta", "Peek":
		return true
	}
	return false
}

func c02IsSource(name string) bool {
	if c02IsCacheRead(name) {
		return true
	}
	switch name {
	case "(*db.DatabaseCollection).getRevision", "(*db.DatabaseCollection).getOldRevisionJSON",
		"(*db.DatabaseCollection).GetAttachment", "(*db.DatabaseCollection).loadAttachmentsData",
		"(*db.DatabaseCollectionWithUser).getAvailable1xRev", "(*db.DatabaseCollectionWithUser).getAvailableRev", "(*db.DatabaseCollectionWithUser).get1xRevFromDoc":
		return true
	}
	return false
}

// c02Class: how a function that calls a source keeps the data inside the reader's channels.
//   gating      the function itself checks access; verified by R1/R2 obligations named in `verify`
//   forwards    hands the source's result only to a gating callee and returns that callee's result
//   internal    not a user read path (write path, import, resync, cache loader …): the data is consumed, never returned to a requester
//   gated-input operates on a revision value that was obtained through a gating function by its caller
type c02Row struct {
	class  string
	reason string
}

var c02Table = map[string]c02Row{
	"(*db.DatabaseCollectionWithUser).getRev":                     {"forwards", "result of the cache read is passed to documentRevisionForRequest, whose result is returned"},
	"(*db.DatabaseCollectionWithUser).GetDelta":                   {"gating", "three authorizeUserForChannels gates; every delta-yielding return is on an authorised edge"},
	"(*db.DatabaseCollectionWithUser).get1xRevFromDoc":            {"gating", "authorizeDoc gate before the body is read; unauthorised edge yields only a redacted stub"},
	"(*db.DatabaseCollectionWithUser).Get1xRevAndChannels":        {"forwards", "body obtained through the gated get1xRevFromDoc"},
	"db.UserHasDocAccess":                                         {"internal", "is itself a gate: uses only the active revision's channels and returns a boolean"},
	"(*db.DatabaseCollection).getRevisionChannels":                {"internal", "returns channel set and deletion flag only; feeds the gates of GetDelta"},
	"(*db.DatabaseCollectionWithUser).backupPreImportRevision":    {"internal", "write path (import): copies the pre-import revision to a backup document"},
	"(*db.DatabaseCollectionWithUser).getResyncedDocument":        {"internal", "resync (admin, user == nil): bodies are inputs of the sync function"},
	"(*db.DatabaseCollectionWithUser).getAvailableRev":            {"internal", "write-path helper: nearest available ancestor body (sync function input / attachment bookkeeping)"},
	"(*db.DatabaseCollectionWithUser).getAvailable1xRev":          {"internal", "write-path helper (see getAvailableRev)"},
	"(*db.DatabaseCollectionWithUser).getAvailableRevAttachments": {"internal", "write-path helper: ancestor attachment metadata"},
	"(*db.DatabaseCollectionWithUser).recalculateSyncFnForActiveRev": {"internal", "write path: body of the revision that becomes current is re-evaluated by the sync function"},
	"db.getAttachmentIDsForLeafRevisions":                         {"internal", "write path: attachment ids referenced by leaves (C14-R2)"},
	"(*db.DatabaseCollection).getCurrentVersion":                  {"internal", "revision cache loader"},
	"(*db.DatabaseCollection).getRevision":                        {"internal", "source helper (reads an archived body for a document the caller already holds)"},
	"(*db.DatabaseCollection).getOldRevisionJSON":                 {"internal", "source helper"},
	"(*db.DatabaseCollection).ForEachStubAttachment":              {"internal", "write path: verifies that stub attachments exist"},
	"(*db.DatabaseCollection).loadAttachmentsData":                {"internal", "source helper: callers operate on an already gated revision"},
	"(*db.DocumentRevision).Inject1xBodyProperties":               {"gated-input", "receiver revision was returned by getRev/documentRevisionForRequest"},
	"(*db.DocumentRevision).Mutable1xBody":                        {"gated-input", "receiver revision was returned by getRev/documentRevisionForRequest"},
	"(*db.blipHandler).handleGetAttachment":                       {"gating", "allow-list counter gate (C14-R4)"},
	"(*db.blipHandler).handleProveAttachment":                     {"internal", "returns only a proof digest, keyed by the allow-list entry's document"},
	"(*rest.handler).handleGetAttachment":                         {"gating", "attachment key derives from the attachments of the revision returned by the gated GetRev"},
}

func checkC02(c *Ctx, r *Report) {
	r.Explain = "Decides structural necessary conditions of 'no document content outside the reader's channels': (R1) every access gate's verdict is honoured — on the unauthorised edge a function returns only the gate's redacted stub, a zero value or an error, error-valued gates propagate on every path, and the channel set each gate judges is the revision's own channel set (from the revision cache entry, the revision-channel lookup or the revision tree), never the document's current channels; (R2) containment — every call that hands out revision bodies or attachment bytes without a user check sits in a function that is classified (gating / forwards to a gating callee / internal write, import, resync or cache-loader path / operates on an already gated revision) and the classification is verified; a new unclassified caller is a violation (fail-closed who-may-read rule); (R3) all-docs — in enumeration mode a row is produced only on the edge where the document's channels intersect the user's, explicit keys are filtered by the document's channel set, bodies come only from the gated Get1xRevAndChannels and the user's channels come from the inherited-channel computation; (R4) backups of a superseded revision are stamped with the channels the document had before the update; (R5) a long-lived replication connection that reloads its user also re-subscribes to the user's (new) roles; (R6) REST handlers that reach an ungated document read are registered with admin privileges only; (R7) every replication message handler runs behind the user refresh unless listed with the reason it makes no channel decision.; (R8) the document's current channel set is read only by the listed functions, each handling the current revision — no loader falls back to it for another revision; (R9) the doc-id-filtered changes path examines a channel-removal record only for channels the requester can see. Not decided: correctness of the channel values stored on cache entries (partly C16), existence leaks through timing or error text, heap-mediated flows beyond one function, EE-only files."
	c02R1(c, r)
	c02R2(c, r)
	c02R3(c, r)
	c02R4R5(c, r)
	c02R6(c, r)
	c02R7(c, r)
	c02R8(c, r)
	c02R9(c, r)
}

func c02R1(c *Ctx, r *Report) {
	r.Rule("C02-R1", "E2 pathrules + def-use", "gate verdicts are honoured and gates judge the revision's own channels", 11)
	gate := "(*db.DatabaseCollectionWithUser).authorizeUserForChannels"
	for _, fn := range c.ScopeFuncs() {
		n := 0
		for _, call := range c.Calls(fn, false, nameIs(gate)) {
			n++
			cv := call.(*ssa.Call)
			var okV, redV ssa.Value
			for _, e := range resultValues(cv, 0) {
				okV = e
			}
			for _, e := range resultValues(cv, 1) {
				redV = e
			}
			base := fmt.Sprintf("fn=%s gate=authorizeUserForChannels #%d", c.FuncName(fn), n)
			_, denied := EdgesOnValue(fn, func(v ssa.Value) bool { return v == okV })
			if okV == nil || len(denied) == 0 {
				r.Fail("C02-R1", base+" verdict-decides-branch", c.Pos(call.Pos()), "the gate's verdict does not decide a branch")
				continue
			}
			// on the denied edge: every reachable return yields only clean values
			bad := ""
			for _, e := range denied {
				ReachFrom(e.To(), 0, func(in ssa.Instruction) bool {
					ret, ok := in.(*ssa.Return)
					if !ok {
						return false
					}
					for _, res := range ret.Results {
						if isErrorType(res.Type()) {
							continue
						}
						if !c02CleanValue(res, redV) {
							bad = c.Pos(ret.Pos())
						}
					}
					return false
				}, nil)
				// no source call reachable on the denied edge
				if hit := ReachFrom(e.To(), 0, func(in ssa.Instruction) bool {
					ci, ok := in.(ssa.CallInstruction)
					return ok && c02IsSource(c.CalleeName(ci))
				}, nil); hit != nil {
					bad = "source read at " + c.Pos(hit.Pos())
				}
			}
			r.Check("C02-R1", base+" denied-edge yields=redacted|zero|error", c.Pos(call.Pos()), bad == "", "on the unauthorised edge only the redacted stub, zero values or an error leave the function", "on the unauthorised edge the function can still return (or read) revision content: "+bad)
			// channel argument provenance
			args := callArgs(call)
			chArg, revArg := unwrapLoadFree(args[3]), unwrapLoadFree(args[1])
			okProv := c02ChannelsOfRevision(c, chArg, revArg)
			r.Check("C02-R1", base+" judges=revision-channels", c.Pos(call.Pos()), okProv, "channel set comes from the revision (cache entry / revision-channel lookup)", "the gate judges a channel set that is not the requested revision's own (e.g. the document's current channels): a user could read an old revision through a channel it was never in")
		}
	}
	// error-valued gates
	fe := newFailEdge(c)
	for _, fn := range c.ScopeFuncs() {
		k := 0
		if c.FuncName(fn) == gate || c.FuncName(fn) == "db.UserHasDocAccess" || c.FuncName(fn) == "(*db.DatabaseCollectionWithUser).authorizeDoc" {
			continue // the gates themselves
		}
		for _, call := range c.Calls(fn, false, func(nm string) bool {
			return nm == "(*db.DatabaseCollectionWithUser).authorizeDoc"
		}) {
			k++
			cv := call.(*ssa.Call)
			// get1xRevFromDoc deliberately continues on the denied edge with a redacted stub: verify that shape instead of propagation
			if c.FuncName(fn) == "(*db.DatabaseCollectionWithUser).get1xRevFromDoc" {
				pos, neg := EdgesOnValue(fn, func(v ssa.Value) bool { return unwrapLoadFree(v) == ssa.Value(cv) })
				var srcs []ssa.CallInstruction
				srcs = c.Calls(fn, false, c02IsSource)
				ok := len(neg) > 0 && len(srcs) > 0
				for _, s := range srcs {
					if !DominatedBy(fn, s, NewAvoid().AddEdge(neg...)) {
						ok = false
					}
				}
				for _, e := range pos {
					if ReachFrom(e.To(), 0, func(in ssa.Instruction) bool {
						ci, isCall := in.(ssa.CallInstruction)
						return isCall && c02IsSource(c.CalleeName(ci))
					}, NewAvoid().AddEdge(neg...)) != nil {
						ok = false
					}
				}
				r.Check("C02-R1", fmt.Sprintf("fn=%s gate=authorizeDoc #%d body-read only-on=authorised-edge", c.FuncName(fn), k), c.Pos(call.Pos()), ok, "the revision body is read only when authorizeDoc returned nil; the denied edge builds a redacted stub", "the revision body can be read although authorizeDoc denied access")
				continue
			}
			s := fe.classifyStrict(fn, cv)
			r.Check("C02-R1", fmt.Sprintf("fn=%s gate=authorizeDoc #%d denial-propagates", c.FuncName(fn), k), c.Pos(call.Pos()), s.Verdict == "propagating", "a denial is returned to the requester", "an access denial is not propagated: "+s.Detail)
		}
	}
	// authorizeDoc itself judges the requested revision's channels
	if fn := c.Func("(*db.DatabaseCollectionWithUser).authorizeDoc"); fn == nil {
		r.Fail("C02-R1", "anchor authorizeDoc", "-", "function not found")
	} else {
		ok := false
		for _, call := range c.Calls(fn, false, nameHasSuffix(".AuthorizeAnyCollectionChannel")) {
			a := call.Common().Args
			if DependsOn(a[len(a)-1], c.ResultOf(0, nameIs("(*db.Document).channelsForRevTreeID"))) {
				ok = true
			}
		}
		r.Check("C02-R1", "fn=authorizeDoc judges=channels-of-requested-revision", c.Pos(fn.Pos()), ok, "channels come from channelsForRevTreeID(revid)", "authorizeDoc no longer judges the requested revision's channel set")
	}
	// authorizeUserForChannels: authorised verdict only on AuthorizeAnyCollectionChannel == nil or no user
	if fn := c.Func(gate); fn == nil {
		r.Fail("C02-R1", "anchor authorizeUserForChannels", "-", "function not found")
	} else {
		var okE []Edge
		for _, call := range c.Calls(fn, false, nameHasSuffix(".AuthorizeAnyCollectionChannel")) {
			cv := valueOfCall(call)
			_, neg := EdgesOnValue(fn, func(v ssa.Value) bool { return unwrapLoadFree(v) == cv })
			okE = append(okE, neg...)
			a := call.Common().Args
			if !DependsOn(a[len(a)-1], func(v ssa.Value) bool { return isParam(v, 4) }) {
				okE = nil
			}
		}
		userF := c.Field("db.DatabaseCollectionWithUser", "user")
		noUser := EdgesWhere(fn, func(cond ssa.Value) (bool, bool) {
			x, trueMeansNil, ok := NilTest(cond)
			if ok {
				if f, _ := fieldRead(x); f == userF {
					return true, trueMeansNil
				}
			}
			return false, false
		})
		ok := len(okE) > 0
		for _, ret := range Returns(fn) {
			if k, isK := ret.Results[0].(*ssa.Const); isK && k.Value != nil && k.Value.String() == "false" {
				continue
			}
			if !DominatedBy(fn, ret, NewAvoid().AddEdge(okE...).AddEdge(noUser...)) {
				ok = false
			}
		}
		r.Check("C02-R1", "fn=authorizeUserForChannels authorised only-if=channel-check-passed|no-user", c.Pos(fn.Pos()), ok, "true is returned only after AuthorizeAnyCollectionChannel(channels) == nil, or for the admin", "the gate can report 'authorised' without the channel check having passed")
	}
}

// c02ChannelsOfRevision: ch is the channel set of the very revision identified by rev:
//   (a) ch = B.Channels for a DocumentRevision B, and rev = B.RevID or B was obtained by a call that was given rev; or
//   (b) ch = result 0 of getRevisionChannels(…, rev).
func c02ChannelsOfRevision(c *Ctx, ch, rev ssa.Value) bool {
	sameVal := func(x, y ssa.Value) bool {
		x, y = unwrapLoadFree(x), unwrapLoadFree(y)
		return x == y || sameFieldRead(x, y)
	}
	if ex, ok := ch.(*ssa.Extract); ok && ex.Index == 0 {
		if cc, ok := ex.Tuple.(*ssa.Call); ok && strings.HasSuffix(c.CalleeName(cc), ".getRevisionChannels") {
			a := callArgs(cc)
			return sameVal(a[len(a)-1], rev)
		}
		return false
	}
	f, b := fieldRead(ch)
	if f == nil || f.Name() != "Channels" || namedOf(b.Type()) != "DocumentRevision" {
		return false
	}
	if rf, rb := fieldRead(rev); rf != nil && rf.Name() == "RevID" && rb == b {
		return true
	}
	// b is a local cell or value obtained from a call that was given rev
	var origins []ssa.Value
	if al, ok := rootAddr(b).(*ssa.Alloc); ok {
		for _, st := range storesInto(al) {
			origins = append(origins, st.Val)
		}
	} else {
		origins = append(origins, b)
	}
	if len(origins) == 0 {
		return false
	}
	for _, o := range origins {
		o = unwrapLoadFree(o)
		if ex, ok := o.(*ssa.Extract); ok {
			o = ex.Tuple
		}
		cc, ok := o.(*ssa.Call)
		if !ok {
			return false
		}
		// (ctx, docID, rev, …): the revision a cache read returns is the one named by its third argument
		a := callArgs(cc)
		if len(a) < 3 || !sameVal(a[2], rev) {
			return false
		}
	}
	return true
}

// c02CleanValue: a value that carries no revision content: constants/zero values, the gate's redacted stub (or its address),
// values derived only from those.
func c02CleanValue(v ssa.Value, redacted ssa.Value) bool {
	v = unwrapLoadFree(v)
	switch x := v.(type) {
	case *ssa.Const:
		return true
	case *ssa.Alloc:
		// address of a local: clean if every store into it is clean (e.g. &redactedBody)
		for _, st := range storesInto(x) {
			if !c02CleanValue(st.Val, redacted) {
				return false
			}
		}
		return true
	case *ssa.UnOp:
		if ad, ok := loadOf(v); ok {
			if al, ok := rootAddr(ad).(*ssa.Alloc); ok {
				return c02CleanValue(al, redacted)
			}
		}
		return false
	case *ssa.Extract:
		return v == redacted
	case *ssa.MakeInterface:
		return c02CleanValue(x.X, redacted)
	case *ssa.Phi:
		for _, e := range x.Edges {
			if !c02CleanValue(e, redacted) {
				return false
			}
		}
		return true
	}
	return v == redacted
}

func c02R2(c *Ctx, r *Report) {
	r.Rule("C02-R2", "E4 gateflow (containment table)", "every caller of an ungated body/attachment source is classified and the classification is verified", 18)
	implFiles := map[string]bool{"db/revision_cache_interface.go": true, "db/revision_cache_lru.go": true, "db/revision_cache_orchestrator.go": true, "db/revision_cache_bypass.go": true, "db/delta_cache_lru.go": true}
	byFn := map[string][]ssa.CallInstruction{}
	fnOf := map[string]*ssa.Function{}
	for _, fn := range c.ScopeFuncs() {
		top := TopLevel(fn)
		if implFiles[c.File(top.Pos())] && !strings.HasPrefix(c.FuncName(top), "(*db.DocumentRevision).") && c.FuncName(top) != "(*db.DatabaseCollection).getCurrentVersion" {
			continue // the cache implementation layers themselves
		}
		for _, call := range c.Calls(fn, false, c02IsSource) {
			name := c.FuncName(top)
			byFn[name] = append(byFn[name], call)
			fnOf[name] = top
		}
	}
	var names []string
	for k := range byFn {
		names = append(names, k)
	}
	sort.Strings(names)
	for _, name := range names {
		calls := byFn[name]
		row, ok := c02Table[name]
		construct := fmt.Sprintf("fn=%s reads=%s", name, CalleeIdent(calls[0]))
		pos := c.Pos(calls[0].Pos())
		if !ok {
			r.Fail("C02-R2", construct+" unclassified", pos, "a function reads revision bodies / attachment bytes through an ungated source and is not classified: if it can return that data to a requester it must check the requester's channels (gate) or hand the data only to a gating function")
			continue
		}
		fn := fnOf[name]
		switch row.class {
		case "internal", "gated-input":
			r.Pass("C02-R2", construct+" class="+row.class, pos, row.reason)
		case "forwards":
			okF, why := c02VerifyForwards(c, fn, calls)
			r.Check("C02-R2", construct+" class=forwards", pos, okF, row.reason, "the function no longer hands the ungated data exclusively to a gating callee: "+why)
		case "gating":
			okG, why := c02VerifyGating(c, fn, calls)
			r.Check("C02-R2", construct+" class=gating", pos, okG, row.reason, "the function's gate no longer covers its reads: "+why)
		}
	}
	// the gating callee that "forwards" rows rely on: releases the revision it was handed only on the gate's authorised edge
	if fn := c.Func("(*db.DatabaseCollectionWithUser).documentRevisionForRequest"); fn == nil {
		r.Fail("C02-R2", "anchor documentRevisionForRequest", "-", "function not found")
	} else {
		var okE []Edge
		var red []ssa.Value
		for _, g := range c.Calls(fn, false, nameIs("(*db.DatabaseCollectionWithUser).authorizeUserForChannels")) {
			for _, e := range resultValues(g.(*ssa.Call), 0) {
				pos, _ := EdgesOnValue(fn, func(v ssa.Value) bool { return v == e })
				okE = append(okE, pos...)
			}
			red = append(red, resultValues(g.(*ssa.Call), 1)...)
		}
		ok, why := len(okE) > 0, "no gate"
		for _, d := range resultDefs(fn, 0) {
			if d.Val == nil {
				continue
			}
			clean := false
			for _, rv := range append(red, nil) {
				if c02CleanValue(d.Val, rv) {
					clean = true
				}
			}
			if clean {
				continue
			}
			if !DominatedBy(fn, d.At, NewAvoid().AddEdge(okE...)) {
				ok, why = false, "revision content returned at "+c.Pos(d.At.Pos())+" without an authorised verdict"
			}
		}
		r.Check("C02-R2", "fn=documentRevisionForRequest releases-revision only-on=authorised-edge", c.Pos(fn.Pos()), ok, "the revision handed in is returned only after the gate authorised the requester", "the request-level gate no longer covers what it returns: "+why)
	}
	for name := range c02Table {
		if _, used := byFn[name]; !used && c.Func(name) == nil {
			r.Pass("C02-R2", "table-row-unused fn="+name, "-", "function no longer exists")
		}
	}
}

var c02GatingCallees = map[string]bool{
	"(*db.DatabaseCollectionWithUser).documentRevisionForRequest": true,
	"(*db.DatabaseCollectionWithUser).get1xRevFromDoc":            true,
	"(*db.DatabaseCollectionWithUser).getRev":                     true,
}

// forwards: each source result flows only into a gating callee; the function's non-error returns derive from that callee's result.
func c02VerifyForwards(c *Ctx, fn *ssa.Function, calls []ssa.CallInstruction) (bool, string) {
	for _, call := range calls {
		if c02GatingCallees[c.CalleeName(call)] {
			continue // the source here is itself a gating function (e.g. Get1xRevAndChannels → get1xRevFromDoc)
		}
		cv, ok := call.(*ssa.Call)
		if !ok {
			return false, "source invoked via go/defer"
		}
		// all uses of the data component must be arguments of gating callees (through phis / cells)
		var data ssa.Value = cv
		if cv.Call.Signature().Results().Len() > 1 {
			for _, e := range resultValues(cv, 0) {
				data = e
			}
		}
		if !c02OnlyFlowsToGating(c, data, map[ssa.Value]bool{}) {
			return false, "result of " + CalleeIdent(call) + " is used outside a gating callee"
		}
	}
	// returns: non-error results derive from gating callee results or are zero
	for _, ret := range Returns(fn) {
		for _, res := range ret.Results {
			if isErrorType(res.Type()) {
				continue
			}
			v := unwrapLoadFree(res)
			if _, isConst := v.(*ssa.Const); isConst {
				continue
			}
			fromGate := DependsOn(res, func(x ssa.Value) bool {
				if cc, ok := x.(*ssa.Call); ok && c02GatingCallees[c.CalleeName(cc)] {
					return true
				}
				return false
			})
			fromSource := false
			for _, call := range calls {
				if c02GatingCallees[c.CalleeName(call)] {
					continue
				}
				if cv, ok := call.(*ssa.Call); ok && dependsDirectly(res, cv) {
					fromSource = true
				}
			}
			if fromSource && !fromGate {
				return false, "a return carries the ungated data"
			}
		}
	}
	return true, ""
}

// dependsDirectly: res derives from cv without passing through another call.
func dependsDirectly(res ssa.Value, cv *ssa.Call) bool {
	seen := map[ssa.Value]bool{}
	var walk func(v ssa.Value) bool
	walk = func(v ssa.Value) bool {
		if v == nil || seen[v] {
			return false
		}
		seen[v] = true
		if v == ssa.Value(cv) {
			return true
		}
		switch x := v.(type) {
		case *ssa.Extract:
			return walk(x.Tuple)
		case *ssa.Phi:
			for _, e := range x.Edges {
				if walk(e) {
					return true
				}
			}
		case *ssa.UnOp:
			if ad, ok := loadOf(v); ok {
				for _, st := range storesInto(ad) {
					if walk(st.Val) {
						return true
					}
				}
			}
			return walk(x.X)
		case *ssa.Field:
			return walk(x.X)
		case *ssa.FieldAddr:
			return walk(x.X)
		case *ssa.MakeInterface:
			return walk(x.X)
		}
		return false
	}
	return walk(res)
}

func c02OnlyFlowsToGating(c *Ctx, v ssa.Value, seen map[ssa.Value]bool) bool {
	if seen[v] {
		return true
	}
	seen[v] = true
	refs := v.Referrers()
	if refs == nil {
		return true
	}
	for _, rf := range *refs {
		switch u := rf.(type) {
		case *ssa.DebugRef:
		case *ssa.Phi:
			if !c02OnlyFlowsToGating(c, u, seen) {
				return false
			}
		case *ssa.Store:
			// stored into a local cell: follow its loads
			al, ok := rootAddr(u.Addr).(*ssa.Alloc)
			if !ok {
				return false
			}
			ok2 := true
			EachInstr(TopLevel(al.Parent()), true, func(in ssa.Instruction) {
				if ld, isLoad := in.(*ssa.UnOp); isLoad {
					if ad, isL := loadOf(ld); isL && rootAddr(ad) == ssa.Value(al) {
						if !c02OnlyFlowsToGating(c, ld, seen) {
							ok2 = false
						}
					}
				}
			})
			if !ok2 {
				return false
			}
		case ssa.CallInstruction:
			if !c02GatingCallees[c.CalleeName(u)] {
				return false
			}
		case *ssa.Return:
			return false
		default:
			return false
		}
	}
	return true
}

// gating: per function shape.
func c02VerifyGating(c *Ctx, fn *ssa.Function, calls []ssa.CallInstruction) (bool, string) {
	name := c.FuncName(fn)
	switch name {
	case "(*db.DatabaseCollectionWithUser).GetDelta":
		// every return whose delta result is non-nil is dominated by an authorised edge of a gate
		var okE []Edge
		for _, g := range c.Calls(fn, false, nameIs("(*db.DatabaseCollectionWithUser).authorizeUserForChannels")) {
			for _, e := range resultValues(g.(*ssa.Call), 0) {
				pos, _ := EdgesOnValue(fn, func(v ssa.Value) bool { return v == e })
				okE = append(okE, pos...)
			}
		}
		if len(okE) < 3 {
			return false, fmt.Sprintf("expected three gates, found %d authorised edges", len(okE))
		}
		for _, d := range resultDefs(fn, 0) {
			if d.Val == nil || isNilConst(d.Val) {
				continue
			}
			if !DominatedBy(fn, d.At, NewAvoid().AddEdge(okE...)) {
				return false, "a delta is returned at " + c.Pos(d.At.Pos()) + " without an authorised gate verdict"
			}
		}
		return true, ""
	case "(*db.DatabaseCollectionWithUser).get1xRevFromDoc":
		// verified under R1 (body read only on authorizeDoc's nil edge)
		g := c.Calls(fn, false, nameIs("(*db.DatabaseCollectionWithUser).authorizeDoc"))
		return len(g) == 1, "authorizeDoc gate missing"
	case "(*db.blipHandler).handleGetAttachment":
		cntF := c.Field("db.AllowedAttachment", "counter")
		has := false
		for _, i := range Ifs(fn) {
			if b, ok := i.Cond.(*ssa.BinOp); ok {
				if f, _ := fieldRead(b.X); f == cntF {
					has = true
				}
			}
		}
		return has, "allow-list counter check missing"
	case "(*rest.handler).handleGetAttachment":
		// GetAttachment dominated by nil-error edge of GetRev and key derived from that revision's attachments
		var okE []Edge
		var revs []ssa.Value
		for _, g := range c.Calls(fn, false, nameHasSuffix(".GetRev")) {
			gv := g.(*ssa.Call)
			ev := errValueOf(gv)
			_, neg := EdgesOnValue(fn, func(v ssa.Value) bool { return unwrapLoadFree(v) == ev })
			okE = append(okE, neg...)
			for _, e := range resultValues(gv, 0) {
				revs = append(revs, e)
			}
		}
		if len(okE) == 0 {
			return false, "gated revision read (GetRev) missing"
		}
		for _, call := range calls {
			if !DominatedBy(fn, call, NewAvoid().AddEdge(okE...)) {
				return false, "attachment read not dominated by a successful gated revision read"
			}
			key := unwrapLoadFree(callArgs(call)[1])
			kc, isKey := key.(*ssa.Call)
			if !isKey || c.CalleeName(kc) != "db.MakeAttachmentKey" {
				return false, "attachment key is not built by MakeAttachmentKey from the revision's metadata"
			}
			// the digest component of the key must come from the gated revision's attachment metadata
			fromRev := DependsOn(kc.Call.Args[2], func(v ssa.Value) bool {
				f, base := fieldRead(v)
				if f == nil || f.Name() != "Attachments" {
					return false
				}
				for _, rv := range revs {
					if base == rv || DependsOn(base, func(x ssa.Value) bool { return x == rv }) {
						return true
					}
				}
				return false
			})
			if !fromRev {
				return false, "attachment key is not derived from the gated revision's attachment metadata"
			}
		}
		return true, ""
	}
	return false, "no verification shape for this gating function"
}

func c02R3(c *Ctx, r *Report) {
	r.Rule("C02-R3", "E2 pathrules + def-use", "all-docs: rows in enumeration mode only on the filterChannels != nil edge; explicit keys filtered by the document's channel set; bodies only from Get1xRevAndChannels; user's channels from InheritedCollectionChannels", 4)
	fn := c.Func("(*rest.handler).handleAllDocs")
	if fn == nil {
		r.Fail("C02-R3", "anchor handleAllDocs", "-", "function not found")
		return
	}
	// locate literals by the calls they make
	var rowLit *ssa.Function
	lits := c15Lits(fn)
	// row builder: calls Get1xRevAndChannels
	for _, l := range lits {
		if len(c.Calls(l, false, nameHasSuffix(".Get1xRevAndChannels"))) > 0 {
			rowLit = l
		}
	}
	if rowLit == nil {
		r.Fail("C02-R3", "fn=handleAllDocs row-builder", c.Pos(fn.Pos()), "row builder not found")
		return
	}
	// the two channel filters are identified by role, not by name: closures created in handleAllDocs that capture the cell holding
	// the user's inherited channels; the one taking a []string filters an enumeration row's channels, the one taking a ChannelMap
	// filters the channel set of an explicitly requested document.
	var availCell ssa.Value
	for _, call := range c.Calls(fn, false, nameHasSuffix(".InheritedCollectionChannels")) {
		for _, e := range resultValues(call.(*ssa.Call), 0) {
			if refs := e.Referrers(); refs != nil {
				for _, rf := range *refs {
					if st, ok := rf.(*ssa.Store); ok && st.Val == e {
						availCell = rootAddr(st.Addr)
					}
				}
			}
		}
	}
	filterKind := func(t types.Type) string {
		if pt, ok := t.(*types.Pointer); ok {
			t = pt.Elem()
		}
		sig, ok := t.Underlying().(*types.Signature)
		if !ok || sig.Params().Len() != 1 || sig.Results().Len() != 1 {
			return ""
		}
		if sl, ok := sig.Results().At(0).Type().Underlying().(*types.Slice); !ok || !types.Identical(sl.Elem(), types.Typ[types.String]) {
			return ""
		}
		pt := sig.Params().At(0).Type()
		if namedOf(pt) == "ChannelMap" {
			return "set"
		}
		if sl, ok := pt.Underlying().(*types.Slice); ok && types.Identical(sl.Elem(), types.Typ[types.String]) {
			return "list"
		}
		return ""
	}
	// closures of those shapes must capture the availability cell
	capturesAvail := map[string]bool{}
	EachInstr(fn, false, func(in ssa.Instruction) {
		if mc, ok := in.(*ssa.MakeClosure); ok {
			if k := filterKind(mc.Type()); k != "" {
				for _, bnd := range mc.Bindings {
					if availCell != nil && bnd == availCell {
						capturesAvail[k] = true
					}
				}
			}
		}
	})
	var filterCalls, filterSetCalls []*ssa.Call
	EachInstr(rowLit, false, func(in ssa.Instruction) {
		call, ok := in.(*ssa.Call)
		if !ok || call.Call.IsInvoke() || call.Call.StaticCallee() != nil {
			return
		}
		v := call.Call.Value
		if ld, ok := v.(*ssa.UnOp); ok {
			v = ld.X
		}
		if _, isFV := v.(*ssa.FreeVar); !isFV {
			return
		}
		switch filterKind(v.Type()) {
		case "list":
			if capturesAvail["list"] {
				filterCalls = append(filterCalls, call)
			}
		case "set":
			if capturesAvail["set"] {
				filterSetCalls = append(filterSetCalls, call)
			}
		}
	})
	if len(filterCalls) == 0 || len(filterSetCalls) == 0 {
		r.Fail("C02-R3", "fn=handleAllDocs$row filters", c.Pos(rowLit.Pos()), fmt.Sprintf("channel filters not applied in the row builder (filterChannels=%d, filterChannelSet=%d)", len(filterCalls), len(filterSetCalls)))
		return
	}
	// non-nil row returns
	nonNilEdges := func(calls []*ssa.Call) []Edge {
		var out []Edge
		for _, call := range calls {
			pos, _ := EdgesOnValue(rowLit, func(v ssa.Value) bool { return unwrapLoadFree(v) == ssa.Value(call) })
			out = append(out, pos...)
		}
		return out
	}
	visible := nonNilEdges(filterCalls)
	visibleSet := nonNilEdges(filterSetCalls)
	// explicit-keys edges
	explicit := EdgesWhere(rowLit, func(cond ssa.Value) (bool, bool) {
		x, trueMeansNil, ok := NilTest(cond)
		if !ok {
			return false, false
		}
		// the explicitly requested keys: the captured []string variable that the row builder tests against nil
		if ld, isLoad := x.(*ssa.UnOp); isLoad {
			if fv, isFV := ld.X.(*ssa.FreeVar); isFV {
				if pt, ok := fv.Type().(*types.Pointer); ok {
					if sl, ok := pt.Elem().Underlying().(*types.Slice); ok && types.Identical(sl.Elem(), types.Typ[types.String]) {
						return true, !trueMeansNil
					}
				}
			}
		}
		return false, false
	})
	// rows that carry data (status not set to an error): returns of the row pointer that are not the nil constant and not
	// preceded by a Status store are hard to separate; structural condition: the final (successful) row return is dominated by
	// (visible) or (explicit ∧ visibleSet)
	var last *ssa.Return
	for _, ret := range Returns(rowLit) {
		if !isNilConst(ret.Results[0]) {
			if last == nil || ret.Pos() > last.Pos() {
				last = ret
			}
		}
	}
	ok := last != nil && len(visible) > 0 && len(explicit) > 0 && DominatedBy(rowLit, last, NewAvoid().AddEdge(visible...).AddEdge(explicit...))
	r.Check("C02-R3", "fn=handleAllDocs$row enumeration-row only-if=document-in-user-channels", c.Pos(rowLit.Pos()), ok, "enumeration rows pass the filterChannels != nil edge", "in enumeration mode a row can be produced for a document none of whose channels the user has: all-docs would reveal the existence of documents outside the user's channels")
	// explicit keys: the data-carrying part (after Get1xRevAndChannels) is filtered by the document's channel set
	var docStores []ssa.Instruction
	docF := c.Field("rest.allDocsRow", "Doc")
	EachInstr(rowLit, false, func(in ssa.Instruction) {
		if st, ok := in.(*ssa.Store); ok {
			if fa, ok := st.Addr.(*ssa.FieldAddr); ok && structField(fa.X.Type(), fa.Field) == docF {
				docStores = append(docStores, st)
				// body provenance
				from := DependsOn(st.Val, c.ResultOf(0, nameHasSuffix(".Get1xRevAndChannels")))
				r.Check("C02-R3", "fn=handleAllDocs$row row.Doc from=Get1xRevAndChannels", c.Pos(st.Pos()), from, "bodies come from the gated read", "all-docs returns a body that did not come from the gated Get1xRevAndChannels")
			}
		}
	})
	okExp := len(visibleSet) > 0 && len(docStores) > 0
	notExplicit := []Edge{}
	for _, e := range explicit {
		notExplicit = append(notExplicit, Edge{e.From, 1 - e.Succ})
	}
	for _, st := range docStores {
		if !DominatedBy(rowLit, st, NewAvoid().AddEdge(visibleSet...).AddEdge(notExplicit...)) {
			okExp = false
		}
	}
	r.Check("C02-R3", "fn=handleAllDocs$row explicit-key-body only-if=document-channel-set-visible", c.Pos(rowLit.Pos()), okExp, "for explicit keys the body is attached only when filterChannelSet(doc channels) != nil", "for explicitly requested keys a body can be attached without the document's channel set intersecting the user's")
	// availableChannels provenance
	inh := c.Calls(fn, false, nameHasSuffix(".InheritedCollectionChannels"))
	r.Check("C02-R3", "fn=handleAllDocs user-channels from=InheritedCollectionChannels", c.Pos(fn.Pos()), len(inh) > 0, "user's channel set is the inherited (direct + role) set", "all-docs no longer computes the user's channels from InheritedCollectionChannels")
}

func c02R4R5(c *Ctx, r *Report) {
	r.Rule("C02-R4", "E2 def-use", "backups of superseded revisions are stamped with the channels the document had before the update", 1)
	r.Rule("C02-R5", "E2 pathrules", "a replication connection that reloads its user refreshes the user-change subscription keys (roles) on every success path", 1)
	duf := c.Func("(*db.DatabaseCollectionWithUser).documentUpdateFunc")
	if duf == nil {
		r.Fail("C02-R4", "anchor documentUpdateFunc", "-", "function not found")
	} else {
		ok := false
		for _, call := range c.Calls(duf, false, nameIs("(*db.DatabaseCollectionWithUser).backupAncestorRevs")) {
			a := callArgs(call)
			chArg := a[len(a)-1]
			cur := c.ResultOf(0, nameHasSuffix(".getCurrentChannels"))
			if cur(unwrapLoadFree(chArg)) {
				// and that snapshot is taken before the update callback mutates the document
				snap := unwrapLoadFree(chArg).(ssa.Instruction)
				var cb ssa.Instruction
				EachInstr(duf, false, func(in ssa.Instruction) {
					if cl, isCall := in.(*ssa.Call); isCall {
						if p, isP := cl.Call.Value.(*ssa.Parameter); isP && namedOf(p.Type()) == "updateAndReturnDocCallback" {
							cb = cl
						}
					}
				})
				ok = cb != nil && DominatedBy(duf, cb, NewAvoid().AddInstr(snap))
			}
		}
		r.Check("C02-R4", "fn=documentUpdateFunc backupAncestorRevs channels=pre-update-snapshot", c.Pos(duf.Pos()), ok, "the old revision's backup carries the channels the document had before this update", "the backup of the superseded revision is stamped with a channel set other than the one it had (e.g. the new revision's channels): a user who only has the new channel could read the old revision's body")
	}
	c02RefreshKeysFor(c, r, "C02-R5")
}

// c02RefreshKeysFor: shared with C13 (a connection that does not watch a newly granted role never learns that the role lost a
// channel, so no revocation is computed for it).
func c02RefreshKeysFor(c *Ctx, r *Report, rule string) {
	ru := c.Func("(*db.blipHandler).refreshUser")
	if ru == nil {
		r.Fail(rule, "anchor refreshUser", "-", "function not found")
		return
	}
	reloads := c.Calls(ru, false, nameHasSuffix(".ReloadUser"))
	refresh := c.Calls(ru, false, nameIs("(*db.ChangeWaiter).RefreshUserKeys"))
	ok := len(reloads) > 0 && len(refresh) > 0
	for _, rl := range reloads {
		ev := errValueOf(rl.(*ssa.Call))
		_, okE := EdgesOnValue(ru, func(v ssa.Value) bool { return unwrapLoadFree(v) == ev })
		for _, e := range okE {
			leak := ReachFrom(e.To(), 0, func(in ssa.Instruction) bool {
				ret, isRet := in.(*ssa.Return)
				return isRet && isNilConst(unwrapLoadFree(ret.Results[0]))
			}, NewAvoid().AddInstr(instrs(refresh)...))
			if leak != nil {
				ok = false
			}
		}
	}
	r.Check(rule, "fn=(*db.blipHandler).refreshUser reload then=RefreshUserKeys", c.Pos(ru.Pos()), ok, "after reloading the user the connection watches the user's current roles", "after reloading its user a replication connection does not refresh the keys it watches: a later change to a newly granted role (e.g. the role losing a channel) never reloads the user and the connection keeps serving documents from the revoked channel")
}

// ---- R6: handlers that read documents without a channel gate are registered with admin privileges only ----

var c02RawReads = map[string]bool{
	"(*db.DatabaseCollection).GetDocumentWithRaw":    true,
	"(*db.DatabaseCollection).GetDocWithXattrs":      true,
	"(*db.Document).Body":                            true,
	"(*db.Document).BodyBytes":                       true,
	"(*db.DatabaseCollection).GetAttachment":         true,
}

// handlers that reach a raw read and are reachable by non-admin requests, each with the reason the data stays inside the reader's channels
var c02RawReadNonAdmin = map[string]string{
	"(*rest.handler).handleGetAttachment": "attachment key derives from the gated revision (C02-R2)",
	"(*rest.handler).handlePutDoc":        "returns to the writer the body the writer just supplied (new document built from the request)",
	"(*rest.handler).handlePutDocReplicator2": "see handlePutDoc",
}

func c02R6(c *Ctx, r *Report) {
	r.Rule("C02-R6", "E4 who-may-call (route table)", "REST handlers that reach an ungated document read are registered only with admin privileges (or are listed with the reason their output stays within the requester's own data)", 4)
	// route registrations
	type reg struct {
		h     *ssa.Function
		privs string
		pos   string
	}
	var regs []reg
	for _, fn := range c.ScopeFuncs() {
		for _, call := range c.Calls(fn, false, func(n string) bool {
			return strings.HasPrefix(n, "rest.make") && strings.Contains(n, "Handler")
		}) {
			a := call.Common().Args
			if len(a) < 5 {
				continue
			}
			var h *ssa.Function
			switch m := unwrap(a[4]).(type) {
			case *ssa.Function:
				h = m
			case *ssa.MakeClosure:
				h, _ = m.Fn.(*ssa.Function)
			}
			if h == nil {
				continue // forwarded parameter inside the make*Handler wrappers themselves
			}
			names := []string{"regularPrivs", "publicPrivs", "adminPrivs", "metricsPrivs"}
			var ps []string
			if v, ok := constInt(a[1]); ok && v >= 0 && int(v) < len(names) {
				ps = []string{names[v]}
			} else if prm, ok := a[1].(*ssa.Parameter); ok {
				// router builder parameterised by privilege level: one registration per constant passed by its callers
				idx := -1
				for i, q := range fn.Params {
					if q == prm {
						idx = i
					}
				}
				for _, g := range c.ScopeFuncs() {
					for _, cs := range c.Calls(g, false, nameIs(c.FuncName(fn))) {
						if v, ok := constInt(cs.Common().Args[idx]); ok && v >= 0 && int(v) < len(names) {
							ps = append(ps, names[v])
						} else {
							ps = append(ps, "?")
						}
					}
				}
			}
			if len(ps) == 0 {
				ps = []string{"?"}
			}
			for _, p := range ps {
				regs = append(regs, reg{h, p, c.Pos(call.Pos())})
			}
		}
	}
	if len(regs) < 100 {
		r.Fail("C02-R6", "route-table", "-", fmt.Sprintf("only %d route registrations resolved (expected > 100)", len(regs)))
		return
	}
	// handlers reaching raw reads through static calls inside package rest (depth-bounded)
	memo := map[*ssa.Function]string{}
	var reaches func(fn *ssa.Function, depth int) string
	reaches = func(fn *ssa.Function, depth int) string {
		if v, ok := memo[fn]; ok {
			return v
		}
		memo[fn] = ""
		res := ""
		EachInstr(fn, true, func(in ssa.Instruction) {
			ci, ok := in.(ssa.CallInstruction)
			if !ok || res != "" {
				return
			}
			n := c.CalleeName(ci)
			if c02RawReads[n] {
				res = n
				return
			}
			if depth < 4 {
				if cal := ci.Common().StaticCallee(); cal != nil && cal.Pkg != nil && cal.Pkg.Pkg.Name() == "rest" && cal.Blocks != nil {
					if s := reaches(cal, depth+1); s != "" {
						res = s
					}
				}
			}
		})
		memo[fn] = res
		return res
	}
	seen := map[string]bool{}
	for _, rg := range regs {
		name := strings.TrimSuffix(c.FuncName(rg.h), "$thunk")
		via := reaches(rg.h, 0)
		if via == "" {
			continue
		}
		key := name + " privs=" + rg.privs
		if seen[key] {
			continue
		}
		seen[key] = true
		construct := fmt.Sprintf("handler=%s privs=%s reads=%s", name, rg.privs, CalleeIdentOf(via))
		if rg.privs == "adminPrivs" {
			r.Pass("C02-R6", construct, rg.pos, "admin-only route")
			continue
		}
		if why, ok := c02RawReadNonAdmin[name]; ok {
			r.Pass("C02-R6", construct, rg.pos, why)
			continue
		}
		r.Fail("C02-R6", construct, rg.pos, "a handler reachable without admin privileges reads documents through an API that performs no channel check; it must go through GetRev/Get1xRevAndChannels or be registered admin-only")
	}
}

// ---- R7: replication (BLIP) message handlers that act for the connection's user run behind the user refresh ----

// handlers registered without the user refresh, each with the reason no channel decision depends on the user object
var c02BlipNoRefresh = map[string]string{
	"(*db.blipHandler).handleGetCheckpoint":   "reads the client's own checkpoint document (a local document keyed by the client id; no channel check involved)",
	"(*db.blipHandler).handleSetCheckpoint":   "writes the client's own checkpoint document",
	"(*db.blipHandler).handleNoRev":           "carries no document data; only marks a sequence as handled",
	"(*db.blipHandler).handleProposeChanges":  "answers with revision statuses only; the revisions themselves arrive through rev, which is refreshed",
	"(*db.blipHandler).handlePing":            "no data",
}

func c02R7(c *Ctx, r *Report) {
	r.Rule("C02-R7", "E4 who-may-call (BLIP profile table)", "every replication message handler is registered behind userBlipHandler (which reloads the connection's user when its access changed), unless it is listed with the reason it makes no channel decision", 12)
	wrapName := "db.userBlipHandler"
	n := 0
	for _, fn := range []*ssa.Function{c.SSAPkg["db"].Func("init")} {
		if fn == nil {
			r.Fail("C02-R7", "anchor db.init", "-", "package initialiser not found")
			return
		}
		EachInstr(fn, false, func(in ssa.Instruction) {
			mu, ok := in.(*ssa.MapUpdate)
			if !ok || namedOf(mu.Value.Type()) != "blipHandlerFunc" {
				return
			}
			// unwrap the registration expression
			wrapped := false
			var h *ssa.Function
			v := mu.Value
			for depth := 0; depth < 6 && v != nil; depth++ {
				v = unwrap(v)
				switch x := v.(type) {
				case *ssa.Call:
					if c.CalleeName(x) == wrapName {
						wrapped = true
					}
					if len(x.Call.Args) == 0 {
						v = nil
					} else {
						v = x.Call.Args[0]
					}
				case *ssa.Function:
					h = x
					v = nil
				case *ssa.MakeClosure:
					h, _ = x.Fn.(*ssa.Function)
					v = nil
				default:
					v = nil
				}
			}
			if h == nil {
				r.Fail("C02-R7", "blip-profile handler unresolved", c.Pos(mu.Pos()), "a replication message handler registration could not be resolved to a function (undecided)")
				return
			}
			n++
			name := strings.TrimSuffix(c.FuncName(h), "$thunk")
			construct := "blip-handler=" + name
			switch {
			case wrapped:
				r.Pass("C02-R7", construct+" behind=user-refresh", c.Pos(mu.Pos()), "registered through userBlipHandler")
			case c02BlipNoRefresh[name] != "":
				r.Pass("C02-R7", construct+" no-refresh listed", c.Pos(mu.Pos()), c02BlipNoRefresh[name])
			default:
				r.Fail("C02-R7", construct+" behind=user-refresh", c.Pos(mu.Pos()), "this replication message handler is registered without userBlipHandler: on a long-lived connection it keeps using the user object loaded when the connection was opened, so a channel or role revoked since then still passes its access checks")
			}
		})
	}
	// the wrapper refreshes before it delegates
	if w := c.Func(wrapName); w == nil {
		r.Fail("C02-R7", "anchor db.userBlipHandler", "-", "function not found")
	} else {
		ok := false
		for _, lit := range w.AnonFuncs {
			refresh := c.Calls(lit, false, nameIs("(*db.blipHandler).refreshUser"))
			var next []ssa.Instruction
			EachInstr(lit, false, func(in ssa.Instruction) {
				if cl, isCall := in.(*ssa.Call); isCall {
					cv := cl.Call.Value
					if ld, isLoad := cv.(*ssa.UnOp); isLoad {
						cv = ld.X
					}
					if _, isFV := cv.(*ssa.FreeVar); isFV {
						next = append(next, cl)
					}
				}
			})
			if len(refresh) == 1 && len(next) > 0 {
				ev := valueOfCall(refresh[0])
				_, okE := EdgesOnValue(lit, func(v ssa.Value) bool { return unwrapLoadFree(v) == ev })
				ok = len(okE) > 0
				for _, nx := range next {
					if !DominatedBy(lit, nx, NewAvoid().AddEdge(okE...)) {
						ok = false
					}
				}
			}
		}
		r.Check("C02-R7", "fn=db.userBlipHandler delegate only-after=refreshUser-ok", c.Pos(w.Pos()), ok, "the wrapped handler runs only on the success edge of refreshUser", "userBlipHandler no longer refreshes the user before delegating")
	}
	if n < 12 {
		r.Fail("C02-R7", "blip-profile table", "-", fmt.Sprintf("only %d handler registrations resolved", n))
	}
}
