package main

import (
	"fmt"
	"sort"
	"strings"

	"golang.org/x/tools/go/ssa"
)

// C14-R7: writer/reader table agreement for raw mutation-feed values. sgbucket.DecodeValueWithXattrs(names, data) returns only the
// extended attributes it was ASKED for; a later lookup of an attribute that was not requested yields nil and looks exactly like
// "the document has none". Attachment compaction's mark phase reads the attachment metadata that way (from _sync, and from
// _globalSync where current versions keep it): if the request list loses a name, documents whose metadata lives there look
// attachment-less, their attachments are not marked and the sweep deletes data a live revision still references. For every call
// site, every constant key looked up in the returned map must be among the requested names.
func c14R7(c *Ctx, r *Report) {
	r.Rule("C14-R7", "E7 tables", "every extended attribute looked up in the result of DecodeValueWithXattrs was requested in that call's name list (attachment compaction reads _sync and _globalSync attachment metadata this way)", 2)
	n := 0
	for _, fn := range c.ScopeFuncs() {
		if fn.Pkg == nil || fn.Pkg.Pkg.Name() != "db" {
			continue
		}
		k := 0
		for _, call := range c.Calls(fn, false, nameHasSuffix(".DecodeValueWithXattrs")) {
			cv, ok := call.(*ssa.Call)
			if !ok || len(cv.Call.Args) < 1 {
				continue
			}
			n++
			k++
			construct := fmt.Sprintf("fn=%s DecodeValueWithXattrs #%d requested⊇consulted", c.FuncName(fn), k)
			// requested names: string constants stored into the array behind the slice argument
			req := map[string]bool{}
			undecided := false
			if sl, isSl := cv.Call.Args[0].(*ssa.Slice); isSl {
				if refs := sl.X.Referrers(); refs != nil {
					for _, u := range *refs {
						if ia, isIA := u.(*ssa.IndexAddr); isIA && ia.Referrers() != nil {
							for _, w := range *ia.Referrers() {
								if st, isSt := w.(*ssa.Store); isSt {
									if s, isK := constString(st.Val); isK {
										req[s] = true
									} else {
										undecided = true
									}
								}
							}
						}
					}
				}
			} else {
				undecided = true
			}
			// consulted names: constant-key lookups in result #1
			var missing []string
			for _, m := range resultValues(cv, 1) {
				if refs := m.Referrers(); refs != nil {
					for _, u := range *refs {
						if lk, isLk := u.(*ssa.Lookup); isLk {
							if s, isK := constString(lk.Index); isK {
								if !req[s] {
									missing = append(missing, s)
								}
							}
						}
					}
				}
			}
			sort.Strings(missing)
			if undecided && len(missing) > 0 {
				r.Fail("C14-R7", construct, c.Pos(call.Pos()), "the requested name list is not a literal of constants and a consulted name could not be matched (undecided): "+strings.Join(missing, ","))
				continue
			}
			r.Check("C14-R7", construct, c.Pos(call.Pos()), len(missing) == 0, "every consulted attribute was requested", "attribute(s) "+strings.Join(missing, ", ")+" are looked up in the decoded value but were not requested, so the lookup is always nil: documents that keep their attachment metadata there look attachment-less to the compaction's mark phase and the sweep deletes attachment data a live revision still references")
		}
	}
	if n == 0 {
		r.Fail("C14-R7", "DecodeValueWithXattrs call sites in db", "-", "none found")
	}
}
