package main

import (
	"fmt"
	"go/token"
	"go/types"
	"runtime"
	"sort"
	"strings"
	"sync"

	"golang.org/x/tools/go/ssa"
)

func init() { registry["C20"] = checkC20 }

func mkSeqID(tb, low, seq int) *aStruct {
	st := &aStruct{}
	for _, id := range []int{tb, low, seq} { // field order of db.SequenceID: TriggeredBy, LowSeq, Seq (asserted below)
		var v aval = aSym{id}
		st.cells = append(st.cells, &v)
	}
	return st
}

func evalWith(c *Ctx, fn *ssa.Function, rank []int, setup func(ev *cmpEval), args ...aval) (res aval, left string) {
	defer func() {
		if p := recover(); p != nil {
			if e, ok := p.(errLeftFragment); ok {
				left = e.msg
				return
			}
			panic(p)
		}
	}()
	ev := newCmpEval(c, &ordering{rank: rank})
	if setup != nil {
		setup(ev)
	}
	return ev.Call(fn, args, nil), ""
}

func evalBool(c *Ctx, fn *ssa.Function, rank []int, args ...aval) (bool, string) {
	v, left := evalWith(c, fn, rank, nil, args...)
	if left != "" {
		return false, left
	}
	b, ok := v.(aBool)
	if !ok {
		return false, fmt.Sprintf("result is %T, not a boolean", v)
	}
	return bool(b), ""
}

// key6 canonicalises the ordering induced on six symbols (plus zero).
func key6(rank []int, ids [6]int) int {
	var rs [6]int
	var distinct []int
	for i, id := range ids {
		rs[i] = rank[id]
		if rs[i] > 0 {
			distinct = append(distinct, rs[i])
		}
	}
	sort.Ints(distinct)
	k := 0
	for _, r := range rs {
		c := 0
		if r > 0 {
			// position among distinct values
			prev := -1
			for _, d := range distinct {
				if d != prev {
					c++
					prev = d
				}
				if d == r {
					break
				}
			}
		}
		k = k*7 + c
	}
	return k
}

type ruleFail struct{ law, witness string }

func checkC20(c *Ctx, r *Report) {
	r.Level = "proof"
	r.Explain = "Proof by exhaustive abstract interpretation over order types: SequenceID.Before only compares and copies its uint64 fields, so its result depends only on the weak ordering of the fields (and 0); the checker walks the SSA form of Before under every weak ordering of the fields of one, two and three tokens and discharges irreflexivity, asymmetry, transitivity and agreement with ascending Seq for ALL uint64 values. The same evaluator composes String()'s arm selection with the parser's slot table (both extracted from the code) and shows that the resume position (SafeSequence) and the printed form survive a print/parse cycle for every order type. Structural obligations: writer/reader slot table agreement, empty slot only where the parser allows it, every parse failure is a 4xx error and every caller of the parsers ends the operation on it (none continues with the zero token), feeds are merged with this Before."
	r.Trusted = append(r.Trusted, "the E6 evaluator (sgcheck/cmpeval.go) and its fragment check", "fmt %d / strconv.FormatUint and strconv.ParseUint(base 10) being mutually inverse on uint64", "strings.Split(s, \":\") yielding the colon-delimited components")
	before := c.Func("(db.SequenceID).Before")
	safe := c.Func("(db.SequenceID).SafeSequence")
	str := c.Func("(db.SequenceID).intSeqToString")
	parse := c.Func("db.parseIntegerSequenceID")
	r.Rule("C20-O1", "E6 cmpeval", "Before is irreflexive, asymmetric and transitive for all uint64 field values (all weak orderings of the fields of 1, 2 and 3 tokens together with 0)", 3)
	r.Rule("C20-O2", "E6 cmpeval", "tokens of one feed listed by ascending Seq (same TriggeredBy, same LowSeq) are ascending under Before", 1)
	r.Rule("C20-O3", "E6 cmpeval + token model", "for every order type, printing a token and parsing it back (slot table) preserves the resume position SafeSequence and the printed form", 2)
	r.Rule("C20-O4", "E7 tables", "each printed form with k components maps slot i to the field the k-component parser arm assigns from component i; an empty slot is printed only where the parser passes allowEmpty", 4)
	r.Rule("C20-O5", "E2 pathrules", "every failure exit of the token parser returns a client error (base.HTTPErrorf with a 4xx status)", 3)
	r.Rule("C20-O6", "E3 def-use", "the changes feed merges and advances by SequenceID.Before; the checkpointer sorts by it", 2)
	c20O7(c, r)
	if before == nil || safe == nil || str == nil || parse == nil {
		r.Fail("C20-O1", "anchor Before/SafeSequence/intSeqToString/parseIntegerSequenceID", "-", "function not found")
		return
	}
	// field order assertion
	T := c.NamedType("db.SequenceID")
	st := T.Underlying().(*types.Struct)
	if st.NumFields() != 3 || st.Field(0).Name() != "TriggeredBy" || st.Field(1).Name() != "LowSeq" || st.Field(2).Name() != "Seq" {
		r.Fail("C20-O1", "anchor db.SequenceID layout", "-", "SequenceID fields changed; the evaluator's token constructor must be updated")
		return
	}
	thorough := c.Tier == "thorough"

	// ---- O1: 1- and 2-token laws; table of Before over all orderings of 6 symbols
	table := map[int]bool{}
	var fails []ruleFail
	left := ""
	n6 := forEachWeakOrdering(6, func(rank []int) bool {
		a, b := mkSeqID(1, 2, 3), mkSeqID(4, 5, 6)
		aa, l := evalBool(c, before, rank, a, a)
		if l != "" {
			left = l
			return false
		}
		if aa && len(fails) < 6 {
			fails = append(fails, ruleFail{"irreflexive", witness(rank, 3)})
		}
		ab, _ := evalBool(c, before, rank, a, b)
		ba, _ := evalBool(c, before, rank, b, a)
		if ab && ba && len(fails) < 6 {
			fails = append(fails, ruleFail{"asymmetric", witness(rank, 6)})
		}
		table[key6(rank, [6]int{1, 2, 3, 4, 5, 6})] = ab
		return true
	})
	if left != "" {
		r.Fail("C20-O1", "fn=(db.SequenceID).Before in-comparison-only-fragment", c.Pos(before.Pos()), "Before left the decidable fragment, obligation undischarged: "+left)
		return
	}
	r.Extra["order_types_2_tokens"] = n6
	irr, asym := true, true
	for _, f := range fails {
		if f.law == "irreflexive" {
			irr = false
		} else {
			asym = false
		}
	}
	r.Check("C20-O1", "fn=(db.SequenceID).Before law=irreflexive", c.Pos(before.Pos()), irr, fmt.Sprintf("holds under all %d order types", n6), "a token is Before itself: "+failsOf(fails, "irreflexive"))
	r.Check("C20-O1", "fn=(db.SequenceID).Before law=asymmetric", c.Pos(before.Pos()), asym, fmt.Sprintf("holds under all %d order types", n6), "two tokens are each Before the other: "+failsOf(fails, "asymmetric"))

	// ---- transitivity over 9 symbols using the table (Before(x,y) depends only on the ordering induced on x,y's fields)
	var mu sync.Mutex
	var tfails []string
	total := 0
	depthSyms := 9
	if !thorough {
		depthSyms = 9 // the table makes the full enumeration cheap enough for the quick tier as well
	}
	prefixes := weakOrderingPrefixes(3)
	jobs := make(chan *woState, len(prefixes))
	for _, p := range prefixes {
		jobs <- p
	}
	close(jobs)
	var wg sync.WaitGroup
	missing := false
	for w := 0; w < runtime.NumCPU(); w++ {
		wg.Add(1)
		go func() {
			defer wg.Done()
			for p := range jobs {
				cnt, _ := forEachWeakOrderingFrom(p, 4, depthSyms, func(rank []int) bool {
					ab, ok1 := table[key6(rank, [6]int{1, 2, 3, 4, 5, 6})]
					bc, ok2 := table[key6(rank, [6]int{4, 5, 6, 7, 8, 9})]
					ac, ok3 := table[key6(rank, [6]int{1, 2, 3, 7, 8, 9})]
					if !ok1 || !ok2 || !ok3 {
						missing = true
						return false
					}
					if ab && bc && !ac {
						mu.Lock()
						if len(tfails) < 5 {
							tfails = append(tfails, witness(rank, 9))
						}
						mu.Unlock()
					}
					return true
				})
				mu.Lock()
				total += cnt
				mu.Unlock()
			}
		}()
	}
	wg.Wait()
	r.Extra["order_types_3_tokens"] = total
	if missing {
		r.Fail("C20-O1", "fn=(db.SequenceID).Before law=transitive", c.Pos(before.Pos()), "internal: induced ordering missing from the 2-token table")
	} else {
		r.Check("C20-O1", "fn=(db.SequenceID).Before law=transitive", c.Pos(before.Pos()), len(tfails) == 0 && total > 1000000, fmt.Sprintf("holds under all %d order types of three tokens", total), "a Before b and b Before c but not a Before c: "+strings.Join(tfails, " | "))
	}

	// ---- O2
	o2bad := ""
	n4 := forEachWeakOrdering(4, func(rank []int) bool {
		// symbols: 1=TriggeredBy, 2=LowSeq, 3=SeqA, 4=SeqB
		if !(rank[3] < rank[4]) {
			return true
		}
		ab, _ := evalBool(c, before, rank, mkSeqID(1, 2, 3), mkSeqID(1, 2, 4))
		if !ab && o2bad == "" {
			o2bad = fmt.Sprintf("TriggeredBy=%d LowSeq=%d Seq=%d vs Seq=%d", rank[1], rank[2], rank[3], rank[4])
		}
		return true
	})
	r.Check("C20-O2", "fn=(db.SequenceID).Before agrees-with=ascending-Seq-within-a-feed", c.Pos(before.Pos()), o2bad == "", fmt.Sprintf("holds under all %d order types", n4), "two entries of one feed with ascending Seq are not ascending under Before: "+o2bad)

	// ---- O4 slot tables (static extraction)
	writer := c20WriterTable(c, str)
	reader, allowEmpty := c20ReaderTable(c, parse)
	for k := 1; k <= 3; k++ {
		wf, ok := writer[k]
		rf := reader[k]
		construct := fmt.Sprintf("printed-form components=%d writer-slots=reader-slots", k)
		if !ok || rf == nil {
			r.Fail("C20-O4", construct, c.Pos(str.Pos()), fmt.Sprintf("writer forms %v / reader arm %v missing", writer[k], reader[k]))
			continue
		}
		for _, form := range wf {
			ok := len(form.fields) == len(rf)
			for i := range form.fields {
				if !ok {
					break
				}
				if form.fields[i] == "" {
					// empty slot: parser must allow empty there, and parse it as 0
					if !allowEmpty[k][i] {
						ok = false
					}
					continue
				}
				if form.fields[i] != rf[i] {
					ok = false
				}
			}
			r.Check("C20-O4", fmt.Sprintf("printed-form %q slots=%v", form.format, form.fields), c.Pos(str.Pos()), ok, fmt.Sprintf("parser arm(%d) assigns %v", k, rf), fmt.Sprintf("printed slots %v do not match the fields the %d-component parser arm assigns %v (allowEmpty %v)", form.fields, k, rf, allowEmpty[k]))
		}
	}

	// ---- O3: print/parse preserves the resume position, for every order type of one token
	o3bad := ""
	n3 := forEachWeakOrdering(3, func(rank []int) bool {
		s := mkSeqID(1, 2, 3)
		form, args, l := c20Print(c, str, rank, s)
		if l != "" {
			o3bad = "printing left the fragment: " + l
			return false
		}
		// parse back through the reader table
		k := len(form.fields)
		rf := reader[k]
		if rf == nil {
			o3bad = "no parser arm for printed form " + form.format
			return false
		}
		ids := map[string]int{"TriggeredBy": 0, "LowSeq": 0, "Seq": 0}
		ai := 0
		for i, f := range form.fields {
			if f == "" {
				continue // empty slot parses as zero
			}
			ids[rf[i]] = args[ai]
			ai++
		}
		s2 := mkSeqID(ids["TriggeredBy"], ids["LowSeq"], ids["Seq"])
		v1, _ := evalWith(c, safe, rank, nil, s)
		v2, _ := evalWith(c, safe, rank, nil, s2)
		a1, ok1 := v1.(aSym)
		a2, ok2 := v2.(aSym)
		if !ok1 || !ok2 || rank[a1.id] != rank[a2.id] {
			o3bad = fmt.Sprintf("TriggeredBy=%d LowSeq=%d Seq=%d prints as %q and parses to a token with a different resume position", rank[1], rank[2], rank[3], form.format)
			return false
		}
		form2, args2, _ := c20Print(c, str, rank, s2)
		same := form2.format == form.format && len(args2) == len(args)
		for i := range args {
			if same && rank[args[i]] != rank[args2[i]] {
				same = false
			}
		}
		if !same {
			o3bad = fmt.Sprintf("TriggeredBy=%d LowSeq=%d Seq=%d: printing the parsed token gives a different form", rank[1], rank[2], rank[3])
			return false
		}
		return true
	})
	r.Check("C20-O3", "print∘parse preserves SafeSequence and printed form", c.Pos(str.Pos()), o3bad == "", fmt.Sprintf("holds under all %d order types of one token", n3), o3bad)
	// SafeSequence itself: LowSeq iff 0 < LowSeq < Seq
	ssbad := ""
	forEachWeakOrdering(3, func(rank []int) bool {
		v, l := evalWith(c, safe, rank, nil, mkSeqID(1, 2, 3))
		if l != "" {
			ssbad = l
			return false
		}
		want := 3
		if rank[2] > 0 && rank[2] < rank[3] {
			want = 2
		}
		if a, ok := v.(aSym); !ok || rank[a.id] != rank[want] {
			ssbad = fmt.Sprintf("LowSeq=%d Seq=%d", rank[2], rank[3])
		}
		return true
	})
	r.Check("C20-O3", "fn=(db.SequenceID).SafeSequence = LowSeq iff 0<LowSeq<Seq else Seq", c.Pos(safe.Pos()), ssbad == "", "holds under all order types", "resume position is wrong for "+ssbad)

	// ---- O5
	n := 0
	for _, ret := range Returns(parse) {
		ev := unwrapLoadFree(ret.Results[1])
		if isNilConst(ev) {
			continue
		}
		n++
		ok := false
		if call, isCall := unwrap(ev).(*ssa.Call); isCall && c.CalleeName(call) == "base.HTTPErrorf" {
			if k, isK := constInt(call.Call.Args[0]); isK && k >= 400 && k <= 499 {
				ok = true
			}
		}
		r.Check("C20-O5", fmt.Sprintf("fn=db.parseIntegerSequenceID error-exit #%d is-4xx", n), c.Pos(ret.Pos()), ok, "base.HTTPErrorf(4xx)", "a malformed token is reported with a non-client error (the raw strconv error maps to HTTP 500)")
	}

	// every component parse is checked: a component that fails to parse makes the whole parse fail
	fe := newFailEdge(c)
	pn := 0
	for _, call := range c.Calls(parse, false, nameIs("db.ParseIntSequenceComponent")) {
		cv, ok := call.(*ssa.Call)
		if !ok {
			continue
		}
		pn++
		s := fe.classifyStrict(parse, cv)
		r.Check("C20-O5", fmt.Sprintf("fn=db.parseIntegerSequenceID component-parse #%d failure-rejects-token", pn), c.Pos(call.Pos()), s.Verdict == "propagating",
			"a component that does not parse makes the token invalid", "the result of parsing one component is ignored or overwritten: a token with a malformed component is accepted and mis-parsed ("+s.Detail+")")
	}
	if pn < 6 {
		r.Fail("C20-O5", "fn=db.parseIntegerSequenceID component-parses", c.Pos(parse.Pos()), fmt.Sprintf("expected 6 component parses (1+2+3), found %d", pn))
	}

	// ---- O6
	for _, use := range []struct{ fn, what string }{
		{"(*db.DatabaseCollectionWithUser).SimpleMultiChangesFeed", "changes feed merge"},
		{"(*db.Checkpointer)._calculateSafeExpectedSeqsIdx", "checkpointer sort"},
	} {
		fn := c.Func(use.fn)
		if fn == nil {
			r.Fail("C20-O6", "anchor "+use.fn, "-", "function not found")
			continue
		}
		cnt := len(c.Calls(fn, true, nameIs("(db.SequenceID).Before")))
		r.Check("C20-O6", "fn="+use.fn+" orders-by=SequenceID.Before", c.Pos(fn.Pos()), cnt > 0, fmt.Sprintf("%d call(s)", cnt), use.what+" no longer uses the proven order relation")
	}
}

func witness(rank []int, n int) string {
	names := []string{"", "a.TriggeredBy", "a.LowSeq", "a.Seq", "b.TriggeredBy", "b.LowSeq", "b.Seq", "c.TriggeredBy", "c.LowSeq", "c.Seq"}
	var parts []string
	for i := 1; i <= n; i++ {
		parts = append(parts, fmt.Sprintf("%s=%d", names[i], rank[i]))
	}
	return strings.Join(parts, ",")
}

func failsOf(fs []ruleFail, law string) string {
	var out []string
	for _, f := range fs {
		if f.law == law {
			out = append(out, f.witness)
		}
	}
	return strings.Join(out, " | ")
}

type printedForm struct {
	format string
	fields []string // field name per slot; "" = empty slot
}

// c20WriterTable extracts, from intSeqToString, each printed form: the format literal and which SequenceID field fills each slot.
func c20WriterTable(c *Ctx, fn *ssa.Function) map[int][]printedForm {
	out := map[int][]printedForm{}
	for _, call := range c.Calls(fn, false, nameIs("fmt.Sprintf", "strconv.FormatUint")) {
		cv := call.(*ssa.Call)
		if c.CalleeName(cv) == "strconv.FormatUint" {
			f, _ := fieldRead(cv.Call.Args[0])
			if f != nil {
				out[1] = append(out[1], printedForm{"%d", []string{f.Name()}})
			}
			continue
		}
		format, ok := constString(cv.Call.Args[0])
		if !ok {
			continue
		}
		// varargs: Slice(Alloc [n]any) with stores of MakeInterface(field)
		var argFields []string
		if sl, ok := cv.Call.Args[1].(*ssa.Slice); ok {
			if al, ok := sl.X.(*ssa.Alloc); ok {
				type slot struct {
					idx int
					f   string
				}
				var slots []slot
				for _, ref := range *al.Referrers() {
					ia, ok := ref.(*ssa.IndexAddr)
					if !ok {
						continue
					}
					k, _ := constInt(ia.Index)
					for _, u := range *ia.Referrers() {
						if st, ok := u.(*ssa.Store); ok {
							if f, _ := fieldRead(unwrap(st.Val)); f != nil {
								slots = append(slots, slot{int(k), f.Name()})
							}
						}
					}
				}
				sort.Slice(slots, func(i, j int) bool { return slots[i].idx < slots[j].idx })
				for _, s := range slots {
					argFields = append(argFields, s.f)
				}
			}
		}
		comps := strings.Split(format, ":")
		var fields []string
		ai := 0
		for _, comp := range comps {
			if comp == "%d" && ai < len(argFields) {
				fields = append(fields, argFields[ai])
				ai++
			} else if comp == "" {
				fields = append(fields, "")
			} else {
				fields = append(fields, "?"+comp)
			}
		}
		out[len(comps)] = append(out[len(comps)], printedForm{format, fields})
	}
	return out
}

// c20ReaderTable extracts, from parseIntegerSequenceID, for each component count k the field assigned from component i and whether
// an empty component is accepted there.
func c20ReaderTable(c *Ctx, fn *ssa.Function) (map[int][]string, map[int][]bool) {
	fields := map[int][]string{}
	empties := map[int][]bool{}
	// branch edges on len(components) == k
	lenEdges := map[int][]Edge{}
	for _, i := range Ifs(fn) {
		b, ok := i.Cond.(*ssa.BinOp)
		if !ok || b.Op != token.EQL {
			continue
		}
		call, ok := b.X.(*ssa.Call)
		if !ok {
			continue
		}
		if bi, ok := call.Call.Value.(*ssa.Builtin); !ok || bi.Name() != "len" {
			continue
		}
		if k, ok := constInt(b.Y); ok {
			lenEdges[int(k)] = append(lenEdges[int(k)], Edge{i.Block(), 0})
		}
	}
	for k, edges := range lenEdges {
		fs := make([]string, k)
		es := make([]bool, k)
		for _, call := range c.Calls(fn, false, nameIs("db.ParseIntSequenceComponent")) {
			if !DominatedBy(fn, call, NewAvoid().AddEdge(edges...)) {
				continue
			}
			cv := call.(*ssa.Call)
			// component index
			ld, ok := cv.Call.Args[0].(*ssa.UnOp)
			if !ok {
				continue
			}
			ia, ok := ld.X.(*ssa.IndexAddr)
			if !ok {
				continue
			}
			idx, ok := constInt(ia.Index)
			if !ok || int(idx) >= k {
				continue
			}
			allow := false
			if kc, ok := cv.Call.Args[1].(*ssa.Const); ok && kc.Value != nil {
				allow = kc.Value.String() == "true"
			}
			// which field receives result 0
			for _, e := range resultValues(cv, 0) {
				for _, u := range *e.Referrers() {
					if st, ok := u.(*ssa.Store); ok {
						if fa, ok := st.Addr.(*ssa.FieldAddr); ok {
							fs[idx] = structField(fa.X.Type(), fa.Field).Name()
							es[idx] = allow
						}
					}
				}
			}
		}
		fields[k] = fs
		empties[k] = es
	}
	return fields, empties
}

// c20Print evaluates intSeqToString abstractly: which printed form is chosen and which symbols fill its slots.
func c20Print(c *Ctx, fn *ssa.Function, rank []int, s *aStruct) (printedForm, []int, string) {
	var form printedForm
	var args []int
	_, left := evalWith(c, fn, rank, func(ev *cmpEval) {
		ev.uninterp["fmt.Sprintf"] = func(ev *cmpEval, a []aval) aval {
			f, _ := a[0].(aOpaque)
			form.format = strings.TrimPrefix(f.what, "str:")
			if p, ok := a[1].(aPtr); ok && p.str != nil {
				for _, cell := range p.str.cells {
					if sym, ok := (*cell).(aSym); ok {
						args = append(args, sym.id)
					}
				}
			}
			for _, comp := range strings.Split(form.format, ":") {
				if comp == "" {
					form.fields = append(form.fields, "")
				} else {
					form.fields = append(form.fields, comp)
				}
			}
			return aOpaque{"printed"}
		}
		ev.uninterp["strconv.FormatUint"] = func(ev *cmpEval, a []aval) aval {
			form.format = "%d"
			form.fields = []string{"%d"}
			if sym, ok := a[0].(aSym); ok {
				args = append(args, sym.id)
			}
			return aOpaque{"printed"}
		}
	}, s)
	return form, args, left
}
