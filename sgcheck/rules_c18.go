package main

import (
	"fmt"
	"go/token"
	"strings"

	"golang.org/x/tools/go/ssa"
)

func init() { registry["C18"] = checkC18 }

func checkC18(c *Ctx, r *Report) {
	r.Explain = "Decides structural necessary conditions of 'resync equals evaluating the new sync function from scratch': (R1) a resync run that completed reports success only after principal invalidation (or principal sequence regeneration) ran and succeeded, the invalidation visits every user (roles and channels) and every role, and storage errors on that path propagate; (R2) the per-document resync applies the same trio as the write path — channel assignment, user access grants and role grants — to the outputs of the sync-function evaluation, evaluates every leaf revision, and applies grants only for the current revision; (R3) a rejected evaluation contributes nothing: on the failure edge of the evaluation the values reaching channel assignment, access and role grants are all nil (resync), and the write path returns before applying any of them.; (R4) role invalidation is decided by the nil-ness (already invalid) of the computed role set, never by its length.; (R5) a change of any leaf's channel set — also of a non-winning leaf, whose channels live only in the revision tree — reaches the decision to rewrite the document; (R6) the end-of-run invalidation of all principals does not depend on the in-memory changed-document counter. Not decided: differential equivalence with a freshly built database, idempotence of a second run, races with concurrent writes."
	c18R1(c, r)
	checkInvalidationPersisted(c, r, "C18-R1")
	c18R2R3(c, r)
	c18R4(c, r)
	c18R5(c, r)
	c18R6(c, r)
}

func c18R1(c *Ctx, r *Report) {
	r.Rule("C18-R1", "E2 pathrules + E5 failedge", "ResyncManagerDCP.Run returns success after a completed feed only on the success edge of invalidatePrincipals; invalidatePrincipals must pass through invalidateAllPrincipals whenever documents changed (also when sequences are regenerated); invalidateAllPrincipals visits all users and all roles", 6)
	run := c.Func("(*db.ResyncManagerDCP).Run")
	inv := c.Func("(*db.ResyncManagerDCP).invalidatePrincipals")
	all := c.Func("(*db.DatabaseContext).invalidateAllPrincipals")
	if run == nil || inv == nil || all == nil {
		r.Fail("C18-R1", "anchor Run/invalidatePrincipals/invalidateAllPrincipals", "-", "function not found")
		return
	}
	calls := c.Calls(run, false, nameIs("(*db.ResyncManagerDCP).invalidatePrincipals"))
	if len(calls) == 0 {
		r.Fail("C18-R1", "fn=(*db.ResyncManagerDCP).Run call=invalidatePrincipals", c.Pos(run.Pos()), "a completed resync no longer invalidates principals")
	}
	var okEdges []Edge
	for _, call := range calls {
		ev := errValueOf(call.(*ssa.Call))
		_, neg := EdgesOnValue(run, func(v ssa.Value) bool { return unwrapLoadFree(v) == ev })
		okEdges = append(okEdges, neg...)
	}
	// the "feed finished" arm is identified by the statement that follows invalidation on success: any success return reachable
	// from the log call "Finished running resync" block. Structural form: every nil-error return that is reachable from a
	// dcpClientClose.shutdown() call made on the done-arm … approximated as: every return whose error operand is the nil
	// constant and that is reachable from an invalidatePrincipals-adjacent block must be dominated by the success edge.
	n := 0
	for _, ret := range Returns(run) {
		ei := errResultIndex(run)
		if ei < 0 || !isNilConst(unwrapLoadFree(ret.Results[ei])) {
			continue
		}
		n++
		ok := len(okEdges) > 0 && DominatedBy(run, ret, NewAvoid().AddEdge(okEdges...))
		r.Check("C18-R1", fmt.Sprintf("fn=(*db.ResyncManagerDCP).Run success-exit #%d after=invalidatePrincipals-ok", n), c.Pos(ret.Pos()), ok,
			"dominated by invalidatePrincipals == nil", "resync can report success without principals having been invalidated: users keep access computed under the old sync function")
	}
	// invalidatePrincipals: must-pass-through
	isNilRet := func(in ssa.Instruction) bool {
		ret, ok := in.(*ssa.Return)
		return ok && isNilConst(unwrapLoadFree(ret.Results[0]))
	}
	// edges where DocsChanged() > 0 is true, found after the regenerate branch
	var changedEdges []Edge
	for _, i := range Ifs(inv) {
		b, ok := i.Cond.(*ssa.BinOp)
		if !ok || b.Op != token.GTR {
			continue
		}
		if call, ok := b.X.(*ssa.Call); ok && CalleeIdent(call) == "DocsChanged" {
			if k, ok := constInt(b.Y); ok && k == 0 {
				changedEdges = append(changedEdges, Edge{i.Block(), 0})
			}
		}
	}
	// invalidation sites: the call itself, or a call of a helper that makes it (extracted block)
	invAll := c.EffectSites(inv, func(in ssa.Instruction) bool {
		ci, ok := in.(ssa.CallInstruction)
		return ok && c.CalleeName(ci) == "(*db.DatabaseContext).invalidateAllPrincipals"
	}, 2)
	upd := c.Calls(inv, false, nameIs("(*db.DatabaseContext).updateAllPrincipalsSequences"))
	// Re-sequencing the principal documents (regenerate_sequences) rewrites them as loaded and does NOT recompute their channels
	// and roles, so it does not stand in for the invalidation: only invalidateAllPrincipals discharges this obligation.
	_ = upd
	var must []ssa.Instruction
	for _, x := range invAll {
		must = append(must, x)
	}
	okPass := len(changedEdges) > 0 && len(invAll) > 0
	for _, e := range changedEdges {
		// only the last DocsChanged test (the one guarding the invalidation) must lead to it: the one whose true-successor reaches invalidateAll
		if ReachFrom(e.To(), 0, func(in ssa.Instruction) bool { return len(invAll) > 0 && in == invAll[0] }, nil) == nil {
			continue
		}
		// skip the index-initialisation test (a compound condition): require the block to be the direct guard = invalidateAll dominated by this edge
		if !DominatedBy(inv, invAll[0], NewAvoid().AddEdge(e).AddEdge(changedEdges...)) {
			okPass = false
		}
	}
	// from function entry, a nil return avoiding both principal updates is only allowed via the "no docs changed" edge
	var unchangedEdges []Edge
	for _, e := range changedEdges {
		unchangedEdges = append(unchangedEdges, Edge{e.From, 1})
	}
	leak := ReachFrom(inv.Blocks[0], 0, isNilRet, NewAvoid().AddInstr(must...).AddEdge(unchangedEdges...))
	r.Check("C18-R1", "fn=(*db.ResyncManagerDCP).invalidatePrincipals success requires=invalidateAllPrincipals|no-docs-changed", c.Pos(inv.Pos()), okPass && leak == nil,
		"every success path invalidates all principals or passes the DocsChanged()==0 edge", "invalidatePrincipals can return success without invalidating the principals' computed channels and roles although documents changed (re-sequencing the principal documents does not recompute them): users keep the access computed under the old sync function")
	fe := newFailEdge(c)
	// storage sites of invalidatePrincipals, of a helper extracted from it that performs the invalidation, and of the two workers
	scopeFns := []*ssa.Function{inv, all, c.Func("(*db.DatabaseContext).updateAllPrincipalsSequences")}
	for _, site := range invAll {
		if ci, ok := site.(ssa.CallInstruction); ok {
			if cal := ci.Common().StaticCallee(); cal != nil && cal != all && c.InScope(cal) {
				scopeFns = append(scopeFns, cal)
			}
		}
	}
	for _, fn := range scopeFns {
		if fn == nil {
			continue
		}
		for _, b := range fn.Blocks {
			for _, in := range b.Instrs {
				call, ok := in.(*ssa.Call)
				if !ok {
					continue
				}
				if is, direct := fe.IsSite(call); is {
					s := fe.Classify(fn, call, direct)
					r.Check("C18-R1", fmt.Sprintf("fn=%s storage-call=%s propagates", c.FuncName(fn), CalleeIdent(call)), c.Pos(call.Pos()), s.Verdict == "propagating", "failure propagates", "storage failure swallowed on the principal-invalidation path: "+s.Detail)
				}
			}
		}
	}
	// invalidateAllPrincipals loops
	ids := c.Calls(all, false, nameIs("(*db.DatabaseContext).AllPrincipalIDs"))
	if len(ids) == 0 {
		r.Fail("C18-R1", "fn=(*db.DatabaseContext).invalidateAllPrincipals call=AllPrincipalIDs", c.Pos(all.Pos()), "principal enumeration missing")
		return
	}
	fromIdx := func(v ssa.Value, idx int) bool { return DependsOn(v, c.ResultOf(idx, nameIs("(*db.DatabaseContext).AllPrincipalIDs"))) }
	uOK, rOK := false, false
	for _, call := range c.Calls(all, false, nameIs("(*db.DatabaseContext).invalUserRolesAndChannels")) {
		a := callArgs(call)
		if len(a) >= 2 && fromIdx(a[1], 0) && inLoop(call) {
			uOK = true
		}
	}
	for _, call := range c.Calls(all, false, nameIs("(*db.DatabaseContext).invalRoleChannels")) {
		a := callArgs(call)
		if len(a) >= 2 && fromIdx(a[1], 1) && inLoop(call) {
			rOK = true
		}
	}
	r.Check("C18-R1", "fn=(*db.DatabaseContext).invalidateAllPrincipals each-user→invalUserRolesAndChannels", c.Pos(all.Pos()), uOK, "loop over users invalidates roles and channels", "users are no longer all invalidated (roles and channels) after resync")
	r.Check("C18-R1", "fn=(*db.DatabaseContext).invalidateAllPrincipals each-role→invalRoleChannels", c.Pos(all.Pos()), rOK, "loop over roles invalidates channels", "roles are no longer all invalidated after resync")
}

// inLoop: the instruction's block lies on a CFG cycle.
func inLoop(in ssa.Instruction) bool {
	b := in.Block()
	for _, s := range b.Succs {
		if ReachFrom(s, 0, func(x ssa.Instruction) bool { return x.Block() == b }, nil) != nil {
			return true
		}
	}
	return false
}

func c18R2R3(c *Ctx, r *Report) {
	r.Rule("C18-R2", "E2 def-use (sibling agreement)", "resync applies updateChannels / Access.updateAccess / RoleAccess.updateAccess to results 0/1/2 of getChannelsAndAccess inside the per-leaf callback; the write path applies the same trio to the results of runSyncFn", 6)
	r.Rule("C18-R3", "SSA phi inspection", "on the failure edge of the sync-function evaluation the values reaching channel assignment, access grants and role grants are nil (resync); the write path returns before applying them", 4)
	top := c.Func("(*db.DatabaseCollectionWithUser).getResyncedDocument")
	if top == nil {
		r.Fail("C18-R2", "anchor getResyncedDocument", "-", "function not found")
		return
	}
	// the literal passed to forEachLeaf
	var lit *ssa.Function
	for _, call := range c.Calls(top, false, nameIs("(db.RevTree).forEachLeaf")) {
		for _, a := range call.Common().Args {
			if mc, ok := unwrap(a).(*ssa.MakeClosure); ok {
				lit, _ = mc.Fn.(*ssa.Function)
			}
		}
	}
	if lit == nil {
		r.Fail("C18-R2", "fn=getResyncedDocument per-leaf-callback", c.Pos(top.Pos()), "the sync function is no longer evaluated for every leaf revision (forEachLeaf callback not found)")
		return
	}
	evals := c.Calls(lit, false, nameIs("(*db.DatabaseCollectionWithUser).getChannelsAndAccess"))
	if len(evals) != 1 {
		r.Fail("C18-R2", "fn=getResyncedDocument$leaf call=getChannelsAndAccess", c.Pos(lit.Pos()), fmt.Sprintf("expected one evaluation per leaf, found %d", len(evals)))
		return
	}
	ev := evals[0].(*ssa.Call)
	r.Pass("C18-R2", "fn=getResyncedDocument$leaf evaluates-sync-fn-per-leaf", c.Pos(ev.Pos()), "inside the forEachLeaf callback")
	errv := errValueOf(ev)
	_, nilEdges := EdgesOnValue(lit, func(v ssa.Value) bool { return unwrapLoadFree(v) == errv })
	sinks := []struct {
		callee string
		argIdx int // among callArgs
		resIdx int
		what   string
	}{
		{"(*db.Document).updateChannels", 1, 0, "channels"},
		{"(*db.UserAccessMap).updateAccess", 2, 1, "access"},
		{"(*db.UserAccessMap).updateAccess", 2, 2, "roles"},
	}
	accF := c.Field("db.SyncData", "Access")
	roleF := c.Field("db.SyncData", "RoleAccess")
	for _, s := range sinks {
		var found ssa.CallInstruction
		for _, call := range c.Calls(lit, false, nameIs(s.callee)) {
			if s.callee == "(*db.UserAccessMap).updateAccess" {
				recv := call.Common().Args[0]
				fa, ok := recv.(*ssa.FieldAddr)
				if !ok {
					continue
				}
				f := structField(fa.X.Type(), fa.Field)
				if (s.what == "access" && f != accF) || (s.what == "roles" && f != roleF) {
					continue
				}
			}
			found = call
		}
		construct := "fn=getResyncedDocument$leaf sink=" + s.what
		if found == nil {
			r.Fail("C18-R2", construct+" applied", c.Pos(lit.Pos()), "resync no longer applies the sync function's "+s.what+" to the document (the write path does)")
			continue
		}
		arg := callArgs(found)[s.argIdx]
		from := DependsOn(arg, c.ResultOf(s.resIdx, nameIs("(*db.DatabaseCollectionWithUser).getChannelsAndAccess")))
		r.Check("C18-R2", construct+" from=getChannelsAndAccess#"+fmt.Sprint(s.resIdx), c.Pos(found.Pos()), from, "argument derives from the evaluation's result", "the "+s.what+" applied by resync do not come from the new sync function's output")
		// R3: rejected evaluation contributes nothing
		ok, why := nilOnFailure(lit, arg, nilEdges, c.ResultOf(s.resIdx, nameIs("(*db.DatabaseCollectionWithUser).getChannelsAndAccess")))
		r.Check("C18-R3", construct+" nil-on-rejected-evaluation", c.Pos(found.Pos()), ok, "the evaluation's "+s.what+" flow to the sink only on its success edge", "when the new sync function rejects the document, the "+s.what+" it accumulated before rejecting are still applied by resync: "+why)
	}
	// the decision to rewrite the document takes all three outcomes into account
	// the rewrite decision: the integer cell of the enclosing function that the per-leaf callback assigns and that is compared
	// with zero afterwards (identified by that role, not by name)
	var changedCell *ssa.Alloc
	var changedCells []*ssa.Alloc // every variable of the decision (the winning leaf's count, a separate count for other leaves, …)
	EachInstr(top, false, func(in ssa.Instruction) {
		b, ok := in.(*ssa.BinOp)
		if !ok || (b.Op != token.EQL && b.Op != token.NEQ) {
			return
		}
		if k, isK := constInt(b.Y); !isK || k != 0 {
			return
		}
		ad, isLoad := loadOf(b.X)
		if !isLoad {
			return
		}
		al, isAlloc := rootAddr(ad).(*ssa.Alloc)
		if !isAlloc || al.Parent() != top {
			return
		}
		for _, st := range storesInto(al) {
			if st.Parent() == lit {
				changedCell = al
				dup := false
				for _, x := range changedCells {
					dup = dup || x == al
				}
				if !dup {
					changedCells = append(changedCells, al)
				}
			}
		}
	})
	if changedCell == nil {
		r.Fail("C18-R2", "fn=getResyncedDocument rewrite-decision", c.Pos(top.Pos()), "the variable deciding whether the document is rewritten was not found")
	} else {
		var vals []ssa.Value
		for _, cell := range changedCells {
			for _, st := range storesInto(cell) {
				if st.Parent() == lit {
					vals = append(vals, st.Val)
				}
			}
		}
		for _, s := range sinks {
			var res ssa.Value
			for _, call := range c.Calls(lit, false, nameIs(s.callee)) {
				if s.callee == "(*db.UserAccessMap).updateAccess" {
					fa, ok := call.Common().Args[0].(*ssa.FieldAddr)
					if !ok {
						continue
					}
					f := structField(fa.X.Type(), fa.Field)
					if (s.what == "access" && f != accF) || (s.what == "roles" && f != roleF) {
						continue
					}
					res = valueOfCall(call)
				} else {
					for _, e := range resultValues(call.(*ssa.Call), 0) {
						res = e
					}
				}
			}
			used := false
			for _, v := range vals {
				if res != nil && DependsOn(v, func(x ssa.Value) bool { return x == res }) {
					used = true
				}
			}
			r.Check("C18-R2", "fn=getResyncedDocument$leaf rewrite-decision counts="+s.what+"-changes", c.Pos(lit.Pos()), used, "a change in "+s.what+" forces the document to be rewritten", "changes in "+s.what+" produced by the new sync function do not count towards rewriting the document: a document whose only difference is in its "+s.what+" keeps the old grants and principals are never invalidated")
		}
	}
	// grants only for the current revision
	for _, call := range c.Calls(lit, false, nameIs("(*db.UserAccessMap).updateAccess", "(*db.Document).updateChannels")) {
		edges := EdgesWhere(lit, func(cond ssa.Value) (bool, bool) {
			b, ok := cond.(*ssa.BinOp)
			if !ok || b.Op != token.EQL && b.Op != token.NEQ {
				return false, false
			}
			isCur := func(v ssa.Value) bool { cc, ok := v.(*ssa.Call); return ok && CalleeIdent(cc) == "GetRevTreeID" }
			if isCur(b.X) || isCur(b.Y) {
				return true, b.Op == token.EQL
			}
			return false, false
		})
		ok := len(edges) > 0 && DominatedBy(lit, call, NewAvoid().AddEdge(edges...))
		r.Check("C18-R2", fmt.Sprintf("fn=getResyncedDocument$leaf %s only-for=current-revision", CalleeIdent(call)), c.Pos(call.Pos()), ok, "dominated by rev.ID == doc.GetRevTreeID()", "document-level channels/grants are set from a non-winning leaf")
	}
	// write path sibling
	duf := c.Func("(*db.DatabaseCollectionWithUser).documentUpdateFunc")
	if duf == nil {
		r.Fail("C18-R2", "anchor documentUpdateFunc", "-", "function not found")
		return
	}
	rs := c.Calls(duf, false, nameIs("(*db.DatabaseCollectionWithUser).runSyncFn"))
	if len(rs) != 1 {
		r.Fail("C18-R2", "fn=documentUpdateFunc call=runSyncFn", c.Pos(duf.Pos()), "expected one sync-function evaluation")
		return
	}
	rv := rs[0].(*ssa.Call)
	re := errValueOf(rv)
	_, okE := EdgesOnValue(duf, func(v ssa.Value) bool { return unwrapLoadFree(v) == re })
	srcs := nameIs("(*db.DatabaseCollectionWithUser).runSyncFn", "(*db.DatabaseCollectionWithUser).recalculateSyncFnForActiveRev")
	for _, s := range []struct {
		callee string
		what   string
		argIdx int
	}{{"(*db.Document).updateChannels", "channels", 1}, {"(*db.UserAccessMap).updateAccess", "access", 2}, {"(*db.UserAccessMap).updateAccess", "roles", 2}} {
		for _, call := range c.Calls(duf, false, nameIs(s.callee)) {
			if s.callee == "(*db.UserAccessMap).updateAccess" {
				fa, ok := call.Common().Args[0].(*ssa.FieldAddr)
				if !ok {
					continue
				}
				f := structField(fa.X.Type(), fa.Field)
				if (s.what == "access" && f != accF) || (s.what == "roles" && f != roleF) {
					continue
				}
			}
			arg := callArgs(call)[s.argIdx]
			from := DependsOn(arg, c.ResultOf(-1, srcs))
			dom := len(okE) > 0 && DominatedBy(duf, call, NewAvoid().AddEdge(okE...))
			r.Check("C18-R2", "fn=documentUpdateFunc sink="+s.what+" from=sync-fn-output", c.Pos(call.Pos()), from, "argument derives from the sync function's output", "write path applies "+s.what+" that do not come from the sync function")
			r.Check("C18-R3", "fn=documentUpdateFunc sink="+s.what+" only-after=accepted", c.Pos(call.Pos()), dom, "dominated by runSyncFn == nil", "the write path can apply "+s.what+" from a rejected evaluation")
		}
	}
}

// nilOnFailure: the value arg, as far as it derives from the evaluation result (isRes), can reach the sink only along CFG edges that
// lie on the evaluation's success side. Checked on the phi structure: every phi edge that carries a value derived from the result
// must be a success edge of the error test (or come from a block dominated by one).
func nilOnFailure(fn *ssa.Function, arg ssa.Value, nilEdges []Edge, isRes func(ssa.Value) bool) (bool, string) {
	if len(nilEdges) == 0 {
		return false, "the evaluation's error is not tested"
	}
	nilSet := map[Edge]bool{}
	for _, e := range nilEdges {
		nilSet[e] = true
	}
	arg = unwrapLoadFree(arg)
	switch v := arg.(type) {
	case *ssa.Phi:
		for i, ed := range v.Edges {
			if isNilConst(ed) {
				continue
			}
			if !DependsOn(ed, isRes) {
				continue
			}
			pred := v.Block().Preds[i]
			// edge pred -> phi block
			okEdge := false
			for k, s := range pred.Succs {
				if s == v.Block() && nilSet[Edge{pred, k}] {
					okEdge = true
				}
			}
			if !okEdge && len(pred.Instrs) > 0 {
				okEdge = DominatedBy(fn, pred.Instrs[len(pred.Instrs)-1], NewAvoid().AddEdge(nilEdges...))
			}
			if !okEdge {
				return false, "a merge lets the evaluation's value through on the failure edge"
			}
		}
		return true, ""
	default:
		if isRes(arg) {
			return false, "the sink receives the evaluation's result unconditionally (it is not cleared on the failure edge)"
		}
		if isNilConst(arg) {
			return true, ""
		}
		return false, "unrecognised flow"
	}
}

// C18-R4: end-of-resync invalidation marks a user's computed roles as invalid unless they are ALREADY invalid (a nil role set). An
// empty-but-computed set must be invalidated too: the new sync function may grant the user's first role. Both invalidation entry
// points decide on the nil-ness of RoleNames(), never on its length.
func c18R4(c *Ctx, r *Report) {
	r.Rule("C18-R4", "E2 pathrules (sibling agreement)", "every role-invalidation marker (SetRoleInvalSeq with a non-zero sequence) in the authenticator's Invalidate… functions is placed on the 'role set is not nil' edge of a nil test of RoleNames()", 2)
	n := 0
	for _, name := range []string{"(*auth.Authenticator).InvalidateRoles", "(*auth.Authenticator).InvalidateRolesAndChannels"} {
		top := c.Func(name)
		if top == nil {
			r.Fail("C18-R4", "anchor "+name, "-", "function not found")
			continue
		}
		for _, fn := range append([]*ssa.Function{top}, c15Lits(top)...) {
			sets := c.Calls(fn, false, func(nm string) bool { return strings.HasSuffix(nm, ".SetRoleInvalSeq") })
			if len(sets) == 0 {
				continue
			}
			var notNil []Edge
			for _, rn := range c.Calls(fn, false, func(nm string) bool { return strings.HasSuffix(nm, ".RoleNames") }) {
				rv := valueOfCall(rn)
				pos, _ := EdgesOnValue(fn, func(v ssa.Value) bool { return v == rv })
				// EdgesOnValue on a nil test: pos = value is non-nil
				notNil = append(notNil, pos...)
			}
			for _, st := range sets {
				n++
				ok := len(notNil) > 0 && DominatedBy(fn, st, NewAvoid().AddEdge(notNil...))
				r.Check("C18-R4", fmt.Sprintf("fn=%s role-invalidation only-skipped-if=roles-already-invalid(nil)", name), c.Pos(st.Pos()), ok,
					"decided by the nil-ness of the computed role set", "the role invalidation is not decided by a nil test of RoleNames(): a user whose computed role set is empty (but valid) is never marked invalid, so a role() grant introduced by the new sync function never reaches a user who had no roles")
			}
		}
	}
	if n < 2 {
		r.Fail("C18-R4", "role invalidation markers", "-", fmt.Sprintf("found %d role-invalidation sites in InvalidateRoles / InvalidateRolesAndChannels", n))
	}
}
