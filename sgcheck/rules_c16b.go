package main

import (
	"fmt"

	"golang.org/x/tools/go/ssa"
)

// C16-R7: a load that failed must not leave its placeholder behind. Get and GetActive insert a value into the lookup map before it
// is loaded; when the load fails the value holds only the error. Left in the map it is counted as an item although nothing was
// loaded, and every later lookup is a "hit" that replays the stale error even after the bucket can serve the revision. So from a
// load call no return is reachable on the failure edge without passing the failed-load removal.
func c16R7(c *Ctx, r *Report) {
	r.Rule("C16-R7", "E2 pathrules (failure edge)", "in every LRURevisionCache function that loads a value it inserted (revCacheValue.load / loadForDoc), no return is reachable on the load's failure edge without passing removeValueForFailedLoad", 2)
	n := 0
	for _, fn := range c.ScopeFuncs() {
		if fn.Signature.Recv() == nil || namedOf(derefType(fn.Signature.Recv().Type())) != "LRURevisionCache" {
			continue
		}
		loads := c.Calls(fn, false, nameIs("(*db.revCacheValue).load", "(*db.revCacheValue).loadForDoc"))
		for i, call := range loads {
			cv, ok := call.(*ssa.Call)
			if !ok {
				continue
			}
			n++
			construct := fmt.Sprintf("fn=%s load=%s #%d failure-edge removes placeholder", c.FuncName(fn), CalleeIdent(call), i+1)
			e := errValueOf(cv)
			if e == nil {
				r.Fail("C16-R7", construct, c.Pos(call.Pos()), "the load's error is discarded")
				continue
			}
			_, nilEdges := EdgesOnValue(fn, func(v ssa.Value) bool { return unwrapLoadFree(v) == e })
			av := NewAvoid().AddEdge(nilEdges...)
			removes := c.CallsThroughHelpers(fn, 2, nameHasSuffix(".removeValueForFailedLoad", ".removeValue"))
			av.AddInstr(instrs(removes)...)
			hit := ReachAfter(call, func(in ssa.Instruction) bool { _, isRet := in.(*ssa.Return); return isRet }, av)
			detail := ""
			if hit != nil {
				detail = "the return at " + c.Pos(hit.Pos()) + " is reachable after a failed load without removing the value that was inserted for it: the entry stays in the cache holding only the error — it is counted as an item, and later lookups are hits that replay the stale error"
			}
			r.Check("C16-R7", construct, c.Pos(call.Pos()), hit == nil && len(removes) > 0, "every failure continuation passes the failed-load removal", detail)
		}
	}
	if n == 0 {
		r.Fail("C16-R7", "load sites of LRURevisionCache", "-", "no load of an inserted value found")
	}
}

// C16-R8: a revision is evicted from the cache when its channels change without a new revision (Remove, driven by the mutation
// feed). Get inserts its placeholder BEFORE it reads the bucket, so such an eviction discards the placeholder and the reader's value
// never lands in the map. A function that reads the bucket document first and inserts afterwards (GetActive: the revision id is only
// known after the read) can insert what the eviction was meant to discard — the eviction found nothing, and nothing evicts the stale
// entry later. Such a function must be able to discard the entry it filled on the SUCCESS path too (after detecting an intervening
// removal); a removal that is only reachable on the load's failure edge cannot do that.
func c16R8(c *Ctx, r *Report) {
	r.Rule("C16-R8", "E2 pathrules (ordering)", "a cache function that reads the bucket document before it inserts the cache entry filled from it (loadForDoc) can discard that entry on the load's success edge (re-validation against removals that ran in between)", 1)
	n := 0
	for _, fn := range c.ScopeFuncs() {
		if fn.Signature.Recv() == nil || namedOf(derefType(fn.Signature.Recv().Type())) != "LRURevisionCache" {
			continue
		}
		for _, call := range c.Calls(fn, false, nameIs("(*db.revCacheValue).loadForDoc")) {
			cv, ok := call.(*ssa.Call)
			if !ok {
				continue
			}
			inserts := c.Calls(fn, false, nameHasSuffix(".getValue"))
			reads := c.Calls(fn, false, nameHasSuffix(".GetDocument"))
			if len(inserts) == 0 || len(reads) == 0 {
				continue
			}
			n++
			construct := fmt.Sprintf("fn=%s fill-from-earlier-read revalidated-against-removal", c.FuncName(fn))
			// is some bucket read NOT preceded by the insertion?
			readFirst := false
			for _, rd := range reads {
				if !DominatedBy(fn, rd, NewAvoid().AddInstr(instrs(inserts)...)) {
					readFirst = true
				}
			}
			if !readFirst {
				r.Pass("C16-R8", construct, c.Pos(call.Pos()), "the entry is inserted before the bucket is read: a concurrent removal discards the placeholder")
				continue
			}
			e := errValueOf(cv)
			pos, _ := EdgesOnValue(fn, func(v ssa.Value) bool { return unwrapLoadFree(v) == e })
			removes := c.CallsThroughHelpers(fn, 2, nameHasSuffix(".removeValueForFailedLoad", ".removeValue"))
			onSuccess := false
			for _, rm := range removes {
				if ReachAfter(call, func(in ssa.Instruction) bool { return in == ssa.Instruction(rm) }, NewAvoid().AddEdge(pos...)) != nil {
					onSuccess = true
				}
			}
			r.Check("C16-R8", construct, c.Pos(call.Pos()), onSuccess, "the filled entry can be dropped on the success path", "the bucket document is read before the cache entry is inserted, and the entry filled from it can only be removed when the load fails: a removal for a channel change that keeps the revision id, arriving between the read and the insertion, finds nothing to evict, and the entry with the old channels is then inserted and served from then on (GET doc, _bulk_get, replication) to users who lost access")
		}
	}
	if n == 0 {
		r.Fail("C16-R8", "cache fills from an earlier bucket read", "-", "no loadForDoc site found")
	}
}
