package main

import (
	"fmt"

	"golang.org/x/tools/go/ssa"
)

// C16-R7: a load that failed must not leave its placeholder behind. Get and GetActive insert a value into the lookup map before it
// is loaded; when the load fails the value holds only the error. Left in the map it is counted as an item although nothing was
// loaded, and every later lookup is a "hit" that replays the stale error even after the bucket can serve the revision. So from a
// load call no return is reachable on the failure edge without passing the failed-load removal.
func c16R7(c *Ctx, r *Report) {
	r.Rule("C16-R7", "E2 pathrules (failure edge)", "in every LRURevisionCache function that loads a value it inserted (revCacheValue.load / loadForDoc), no return is reachable on the load's failure edge without passing removeValueForFailedLoad", 2)
	n := 0
	for _, fn := range c.ScopeFuncs() {
		if fn.Signature.Recv() == nil || namedOf(derefType(fn.Signature.Recv().Type())) != "LRURevisionCache" {
			continue
		}
		loads := c.Calls(fn, false, nameIs("(*db.revCacheValue).load", "(*db.revCacheValue).loadForDoc"))
		for i, call := range loads {
			cv, ok := call.(*ssa.Call)
			if !ok {
				continue
			}
			n++
			construct := fmt.Sprintf("fn=%s load=%s #%d failure-edge removes placeholder", c.FuncName(fn), CalleeIdent(call), i+1)
			e := errValueOf(cv)
			if e == nil {
				r.Fail("C16-R7", construct, c.Pos(call.Pos()), "the load's error is discarded")
				continue
			}
			_, nilEdges := EdgesOnValue(fn, func(v ssa.Value) bool { return unwrapLoadFree(v) == e })
			av := NewAvoid().AddEdge(nilEdges...)
			removes := c.CallsThroughHelpers(fn, 2, nameHasSuffix(".removeValueForFailedLoad", ".removeValue"))
			av.AddInstr(instrs(removes)...)
			hit := ReachAfter(call, func(in ssa.Instruction) bool { _, isRet := in.(*ssa.Return); return isRet }, av)
			detail := ""
			if hit != nil {
				detail = "the return at " + c.Pos(hit.Pos()) + " is reachable after a failed load without removing the value that was inserted for it: the entry stays in the cache holding only the error — it is counted as an item, and later lookups are hits that replay the stale error"
			}
			r.Check("C16-R7", construct, c.Pos(call.Pos()), hit == nil && len(removes) > 0, "every failure continuation passes the failed-load removal", detail)
		}
	}
	if n == 0 {
		r.Fail("C16-R7", "load sites of LRURevisionCache", "-", "no load of an inserted value found")
	}
}
