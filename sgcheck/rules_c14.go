package main

import (
	"go/types"
	"fmt"
	"strings"
	"go/token"

	"golang.org/x/tools/go/ssa"
)

func init() { registry["C14"] = checkC14 }

func checkC14(c *Ctx, r *Report) {
	r.Explain = "Decides structural necessary conditions of attachment integrity and lifetime: (R1) content addressing — the storage key and the advertised digest of a new attachment are computed from the very bytes that are stored, and the advertised length is their length; (R2) an attachment document is deleted by the write path only after the commit succeeded, only when obsolete-attachment removal was not disabled (cross-cluster versioning, or a failed leaf scan before or after the write), and only on the miss edge of the lookup in the set of attachments still referenced by any leaf computed after the write; that set is complete or an error — every load/parse failure while collecting leaf attachments propagates; (R3) attachment documents are deleted only by the listed owners; (R4) a replication peer can fetch an attachment only while the allow-list counter for it is positive, every path after registering a revision's attachments on the allow-list reaches their removal (failed send, and every exit of the response handler), and the allow-list is only touched under its lock.; (R5) the pre-write scan of the leaves' attachments is repeated on every CAS attempt, before the update is computed; (R6) the document-level attachment metadata (of the current revision) is replaced only by a revision that becomes current.; (R7) every extended attribute that attachment compaction (and any other reader of raw feed values) looks up in a decoded value was requested when decoding it. Not decided: byte identity through all APIs, histories that share digests across documents, completeness of clean-up."
	c14R1(c, r)
	c14R2(c, r)
	c14R3(c, r)
	c14R4(c, r)
	c14R5(c, r)
	c14R7(c, r)
	c14R6(c, r)
}

func c14R1(c *Ctx, r *Report) {
	r.Rule("C14-R1", "E2 def-use", "storeAttachments: key = MakeAttachmentKey(…, Sha1DigestKey(data)), stored body = data, meta digest = that digest, meta length = len(data)", 3)
	fn := c.Func("(*db.DatabaseCollectionWithUser).storeAttachments")
	if fn == nil {
		r.Fail("C14-R1", "anchor storeAttachments", "-", "function not found")
		return
	}
	dig := c.Calls(fn, false, nameIs("db.Sha1DigestKey"))
	keys := c.Calls(fn, false, nameIs("db.MakeAttachmentKey"))
	if len(dig) != 1 || len(keys) != 1 {
		r.Fail("C14-R1", "fn=storeAttachments digest/key computation", c.Pos(fn.Pos()), fmt.Sprintf("expected one digest and one key computation, found %d/%d", len(dig), len(keys)))
		return
	}
	data := dig[0].Common().Args[0] // the bytes being digested
	digV := valueOfCall(dig[0])
	keyArgs := keys[0].Common().Args
	okKey := len(keyArgs) == 3 && keyArgs[2] == digV
	r.Check("C14-R1", "fn=storeAttachments key=f(digest-of-stored-bytes)", c.Pos(keys[0].Pos()), okKey, "storage key is built from the digest of the decoded data", "the attachment key is not derived from the digest of the bytes being stored")
	// body stored: the updatedAttachment struct literal's body field = data
	bodyF := c.Field("db.updatedAttachment", "body")
	okBody := false
	EachInstr(fn, false, func(in ssa.Instruction) {
		if st, ok := in.(*ssa.Store); ok {
			if fa, ok := st.Addr.(*ssa.FieldAddr); ok && structField(fa.X.Type(), fa.Field) == bodyF && st.Val == data {
				okBody = true
			}
		}
	})
	r.Check("C14-R1", "fn=storeAttachments stored-body=digested-bytes", c.Pos(dig[0].Pos()), okBody, "the bytes stored are the bytes digested", "the bytes stored under the key are not the bytes the digest was computed from")
	// meta: "digest" -> digV, "length"/"encoded_length" -> len(data); built in storeAttachments itself or in a helper that is
	// handed the stored bytes and their digest
	metaOK := func(host *ssa.Function, dataV, digestV ssa.Value) (okD, okL bool) {
		EachInstr(host, false, func(in ssa.Instruction) {
			mu, ok := in.(*ssa.MapUpdate)
			if !ok {
				return
			}
			k, ok := constString(unwrap(mu.Key))
			if !ok {
				return
			}
			v := unwrap(mu.Value)
			switch k {
			case "digest":
				if v == digestV {
					okD = true
				}
			case "length", "encoded_length":
				if call, ok := v.(*ssa.Call); ok {
					if b, ok := call.Call.Value.(*ssa.Builtin); ok && b.Name() == "len" && call.Call.Args[0] == dataV {
						okL = true
					}
				}
			}
		})
		return
	}
	okDigest, okLen := metaOK(fn, data, digV)
	if !okDigest && !okLen {
		EachInstr(fn, false, func(in ssa.Instruction) {
			call, ok := in.(*ssa.Call)
			if !ok {
				return
			}
			cal := call.Call.StaticCallee()
			if cal == nil || cal.Parent() != nil || !c.InScope(cal) || len(cal.Blocks) == 0 {
				return
			}
			di, gi := -1, -1
			for i, a := range call.Call.Args {
				if a == data {
					di = i
				}
				if a == digV {
					gi = i
				}
			}
			if di < 0 || gi < 0 || di >= len(cal.Params) || gi >= len(cal.Params) {
				return
			}
			if d, l := metaOK(cal, cal.Params[di], cal.Params[gi]); d && l {
				okDigest, okLen = true, true
			}
		})
	}
	r.Check("C14-R1", "fn=storeAttachments meta digest=digest-of-stored-bytes length=len(stored-bytes)", c.Pos(fn.Pos()), okDigest && okLen, "advertised digest and length describe the stored bytes", fmt.Sprintf("advertised metadata does not describe the stored bytes (digest ok=%v, length ok=%v)", okDigest, okLen))
}

func c14R2(c *Ctx, r *Report) {
	r.Rule("C14-R2", "E2 pathrules + E5 failedge", "obsolete attachment deletion: after commit, not when removal is disabled, only on the miss edge of the post-write leaf attachment set; leaf attachment collection propagates every failure", 5)
	name := "(*db.DatabaseCollectionWithUser).updateAndReturnDoc"
	fn := c.Func(name)
	if fn == nil {
		r.Fail("C14-R2", "anchor "+name, "-", "function not found")
		return
	}
	var dels []ssa.CallInstruction
	for _, call := range c.Calls(fn, false, func(n string) bool { return true }) {
		if isStorageIface(call) && CalleeIdent(call) == "Delete" {
			dels = append(dels, call)
		}
	}
	if len(dels) != 1 {
		r.Fail("C14-R2", "fn="+name+" obsolete-attachment delete", c.Pos(fn.Pos()), fmt.Sprintf("expected one attachment delete, found %d", len(dels)))
		return
	}
	del := dels[0]
	// skip flag edges: !skipObsoleteAttachmentsRemoval
	// the 'removal disabled' flag: the boolean cell that a failed leaf scan sets to true (identified by that role, not by name)
	var notSkipped []Edge
	var skipCell *ssa.Alloc
	for _, top := range append([]*ssa.Function{fn}, fn.AnonFuncs...) {
		for _, call := range c.Calls(top, false, nameIs("db.getAttachmentIDsForLeafRevisions")) {
			ev := errValueOf(call.(*ssa.Call))
			pos, _ := EdgesOnValue(top, func(v ssa.Value) bool { return unwrapLoadFree(v) == ev })
			for _, e := range pos {
				for _, in := range e.To().Instrs {
					if st, ok := in.(*ssa.Store); ok {
						if k, isK := st.Val.(*ssa.Const); isK && k.Value != nil && k.Value.String() == "true" {
							if al, isAlloc := rootAddr(st.Addr).(*ssa.Alloc); isAlloc && skipCell == nil {
								skipCell = al
							}
						}
					}
				}
			}
		}
	}
	for _, i := range Ifs(fn) {
		v, pos := BoolTest(i.Cond)
		if ad, ok := loadOf(v); ok {
			if al, ok := rootAddr(ad).(*ssa.Alloc); ok && skipCell != nil && al == skipCell {
				if pos {
					notSkipped = append(notSkipped, Edge{i.Block(), 1})
				} else {
					notSkipped = append(notSkipped, Edge{i.Block(), 0})
				}
			}
		}
	}
	// the last test before the delete must be on the not-skipped edge
	okSkip := false
	for _, e := range notSkipped {
		if DominatedBy(fn, del, NewAvoid().AddEdge(e)) {
			// and no store of true to the flag between that edge and the delete
			okSkip = true
		}
	}
	r.Check("C14-R2", "fn="+name+" attachment-delete only-if=removal-not-disabled", c.Pos(del.Pos()), okSkip, "dominated by !skipObsoleteAttachmentsRemoval", "obsolete attachments can be deleted although removal was disabled (cross-cluster versioning / failed leaf scan): data still needed elsewhere would be lost")
	// flag is set on CCV enabled and on each leaf-scan error
	if skipCell != nil {
		sets := 0
		for _, top := range append([]*ssa.Function{fn}, fn.AnonFuncs...) {
			EachInstr(top, false, func(in ssa.Instruction) {
				if st, ok := in.(*ssa.Store); ok && rootAddr(st.Addr) == ssa.Value(skipCell) {
					if k, ok := st.Val.(*ssa.Const); ok && k.Value != nil && k.Value.String() == "true" {
						sets++
					}
				}
			})
		}
		r.Check("C14-R2", "fn="+name+" removal-disabled on=CCV|pre-scan-error|post-scan-error", c.Pos(fn.Pos()), sets >= 3, fmt.Sprintf("%d sites disable removal", sets), fmt.Sprintf("only %d site(s) disable obsolete-attachment removal; expected cross-cluster versioning and both leaf-scan failure paths", sets))
		// each leaf-scan call: its failure edge sets the flag before anything else
		for _, top := range append([]*ssa.Function{fn}, fn.AnonFuncs...) {
			for i, call := range c.Calls(top, false, nameIs("db.getAttachmentIDsForLeafRevisions")) {
				cv := call.(*ssa.Call)
				ev := errValueOf(cv)
				pos, _ := EdgesOnValue(top, func(v ssa.Value) bool { return unwrapLoadFree(v) == ev })
				ok := len(pos) > 0
				for _, e := range pos {
					hit := ReachFrom(e.To(), 0, func(in ssa.Instruction) bool {
						st, ok := in.(*ssa.Store)
						return ok && rootAddr(st.Addr) == ssa.Value(skipCell)
					}, nil)
					if hit == nil || hit.Block() != e.To() {
						ok = false
					}
				}
				r.Check("C14-R2", fmt.Sprintf("fn=%s leaf-scan #%d failure disables-removal", c.FuncName(top), i+1), c.Pos(call.Pos()), ok, "a failed leaf scan disables obsolete-attachment removal for this write", "a failed scan of the leaves' attachments does not disable obsolete-attachment removal: attachments of leaves that could not be read would be deleted")
			}
		}
	}
	// miss edge of lookup in the post-write set
	var postCalls []ssa.Value
	for _, call := range c.Calls(fn, false, nameIs("db.getAttachmentIDsForLeafRevisions")) {
		for _, e := range resultValues(call.(*ssa.Call), 0) {
			postCalls = append(postCalls, e)
		}
	}
	miss := EdgesWhere(fn, func(cond ssa.Value) (bool, bool) {
		v, pos := BoolTest(cond)
		e, ok := v.(*ssa.Extract)
		if !ok || e.Index != 1 {
			return false, false
		}
		lk, ok := e.Tuple.(*ssa.Lookup)
		if !ok || !lk.CommaOk {
			return false, false
		}
		fromPost := DependsOn(lk.X, func(x ssa.Value) bool {
			for _, p := range postCalls {
				if x == p {
					return true
				}
			}
			return false
		})
		if !fromPost {
			return false, false
		}
		return true, !pos
	})
	r.Check("C14-R2", "fn="+name+" attachment-delete only-if=not-referenced-by-any-leaf-after-write", c.Pos(del.Pos()), len(miss) > 0 && DominatedBy(fn, del, NewAvoid().AddEdge(miss...)),
		"dominated by the miss edge of the lookup in the post-write leaf attachment set", "an attachment can be deleted without checking that no leaf revision still references it after the write")
	// the deleted key iterates the pre-write set
	// leaf collection propagates failures
	la := c.Func("db.getAttachmentIDsForLeafRevisions")
	if la == nil {
		r.Fail("C14-R2", "anchor db.getAttachmentIDsForLeafRevisions", "-", "function not found")
		return
	}
	fe := newFailEdge(c)
	n := 0
	for _, b := range la.Blocks {
		for _, in := range b.Instrs {
			call, ok := in.(*ssa.Call)
			if !ok || !hasErrResult(call.Call.Signature()) {
				continue
			}
			nm := c.CalleeName(call)
			if !strings.HasSuffix(nm, ".getRevision") && nm != "db.retrieveV2Attachments" {
				continue
			}
			n++
			s := fe.classifyStrict(la, call)
			r.Check("C14-R2", fmt.Sprintf("fn=db.getAttachmentIDsForLeafRevisions %s #%d failure-propagates", CalleeIdent(call), n), c.Pos(call.Pos()), s.Verdict == "propagating",
				"a leaf whose attachments cannot be determined makes the whole collection fail", "a leaf whose body or attachment metadata cannot be loaded is skipped: its attachments drop out of the still-referenced set and are deleted as obsolete ("+s.Detail+")")
		}
	}
	if n < 3 {
		r.Fail("C14-R2", "fn=db.getAttachmentIDsForLeafRevisions sites", c.Pos(la.Pos()), fmt.Sprintf("expected 3 failure sites, found %d", n))
	}
}

func c14R3(c *Ctx, r *Report) {
	r.Rule("C14-R3", "E3 whomay", "attachment documents (keys from MakeAttachmentKey / leaf attachment maps) are deleted only by the write path's obsolete removal, purge, and attachment compaction", 2)
	allowed := map[string]string{
		"(*db.DatabaseCollectionWithUser).updateAndReturnDoc": "obsolete attachment removal after commit (R2)",
		"(*db.DatabaseCollectionWithUser).Purge":              "purge of the whole document",
		"db.attachmentCompactSweepPhase":                      "attachment compaction sweep of unmarked attachments",
		"db.attachmentCompactCleanupPhase":                    "attachment compaction clean-up of its own markers",
	}
	isAttKey := func(v ssa.Value) bool {
		return DependsOn(v, func(x ssa.Value) bool {
			if call, ok := x.(*ssa.Call); ok {
				n := c.CalleeName(call)
				return n == "db.MakeAttachmentKey" || n == "db.getAttachmentIDsForLeafRevisions" || n == "db.retrieveV2Attachments"
			}
			return false
		})
	}
	n := 0
	for _, fn := range c.ScopeFuncs() {
		if fn.Pkg == nil || fn.Pkg.Pkg.Name() != "db" {
			continue
		}
		EachInstr(fn, false, func(in ssa.Instruction) {
			call, ok := in.(ssa.CallInstruction)
			if !ok || !isStorageIface(call) || (CalleeIdent(call) != "Delete" && CalleeIdent(call) != "Remove") {
				return
			}
			args := call.Common().Args
			if len(args) < 2 || !isAttKey(args[1]) {
				return
			}
			n++
			top := c.FuncName(TopLevel(fn))
			reason, ok := allowed[top]
			r.Check("C14-R3", fmt.Sprintf("fn=%s deletes=attachment-document #%d", top, n), c.Pos(call.Pos()), ok, reason, "attachment data deleted outside the owners that check leaf references")
		})
	}
}

func c14R4(c *Ctx, r *Report) {
	r.Rule("C14-R4", "E2 pathrules + E1 guardedby", "getAttachment is served only while the allow-list counter is positive; every path after addAllowedAttachments reaches removeAllowedAttachments; the allow-list map is touched only under its lock", 6)
	// gate
	for _, name := range []string{"(*db.blipHandler).handleGetAttachment"} {
		fn := c.Func(name)
		if fn == nil {
			r.Fail("C14-R4", "anchor "+name, "-", "function not found")
			continue
		}
		cntF := c.Field("db.AllowedAttachment", "counter")
		allowedEdges := EdgesWhere(fn, func(cond ssa.Value) (bool, bool) {
			b, ok := cond.(*ssa.BinOp)
			if !ok {
				return false, false
			}
			f, _ := fieldRead(b.X)
			if f != cntF {
				return false, false
			}
			k, ok := constInt(b.Y)
			if !ok || k != 0 {
				return false, false
			}
			switch b.Op {
			case token.LEQ:
				return true, false
			case token.GTR:
				return true, true
			}
			return false, false
		})
		gets := c.Calls(fn, false, func(n string) bool { return n == "(*db.DatabaseCollection).GetAttachment" || n == "(*db.DatabaseCollectionWithUser).GetAttachment" })
		for i, g := range gets {
			ok := len(allowedEdges) > 0 && DominatedBy(fn, g, NewAvoid().AddEdge(allowedEdges...))
			r.Check("C14-R4", fmt.Sprintf("fn=%s GetAttachment #%d only-if=allow-list-counter>0", name, i+1), c.Pos(g.Pos()), ok, "dominated by counter > 0", "attachment data can be served to a replication peer for an attachment that is not on the allow-list")
			// the key uses the allow-list entry's doc/version
			key := callArgs(g)[1]
			dep := DependsOn(key, c.ResultOf(0, nameIs("(*db.blipHandler).allowedAttachment", "(*db.BlipSyncContext).allowedAttachment")))
			r.Check("C14-R4", fmt.Sprintf("fn=%s GetAttachment #%d key-from=allow-list-entry", name, i+1), c.Pos(g.Pos()), dep, "attachment key built from the allow-list entry", "attachment key is not derived from the allow-list entry that authorised the download")
		}
		if len(gets) == 0 {
			r.Fail("C14-R4", "fn="+name+" GetAttachment", c.Pos(fn.Pos()), "attachment read not found")
		}
	}
	// pairing
	fn := c.Func("(*db.BlipSyncContext).sendRevisionWithProperties")
	if fn == nil {
		r.Fail("C14-R4", "anchor sendRevisionWithProperties", "-", "function not found")
	} else {
		adds := c.Calls(fn, false, nameIs("(*db.BlipSyncContext).addAllowedAttachments"))
		isRemove := nameIs("(*db.BlipSyncContext).removeAllowedAttachments")
		var rems []ssa.Instruction
		for _, x := range c.Calls(fn, false, isRemove) {
			rems = append(rems, x)
		}
		// goroutines started by the function whose body removes on all exits count as a removal point
		var goOK []ssa.Instruction
		var goBad []string
		EachInstr(fn, false, func(in ssa.Instruction) {
			g, ok := in.(*ssa.Go)
			if !ok {
				return
			}
			var lit *ssa.Function
			if mc, ok := g.Call.Value.(*ssa.MakeClosure); ok {
				lit, _ = mc.Fn.(*ssa.Function)
			} else if f, ok := g.Call.Value.(*ssa.Function); ok {
				lit = f
			}
			if lit == nil {
				return
			}
			var lrem []ssa.Instruction
			for _, x := range c.Calls(lit, false, isRemove) {
				lrem = append(lrem, x)
			}
			// every normal exit of the literal passes a removal
			leak := ReachFrom(lit.Blocks[0], 0, func(in ssa.Instruction) bool { _, ok := in.(*ssa.Return); return ok }, NewAvoid().AddInstr(lrem...))
			if len(lrem) > 0 && leak == nil {
				goOK = append(goOK, g)
			} else {
				goBad = append(goBad, c.Pos(g.Pos()))
			}
		})
		for i, a := range adds {
			leak := ReachAfter(a, func(in ssa.Instruction) bool { _, ok := in.(*ssa.Return); return ok }, NewAvoid().AddInstr(rems...).AddInstr(goOK...).AddEdge(CorrelatedInfeasibleEdges(fn, a)...))
			r.Check("C14-R4", fmt.Sprintf("fn=(*db.BlipSyncContext).sendRevisionWithProperties allow-list-add #%d paired-with=remove", i+1), c.Pos(a.Pos()), leak == nil && len(goBad) == 0,
				"every path after registration removes it again (directly, or in the response handler on all of its exits)", fmt.Sprintf("attachments registered on the allow-list are not removed on every path (response handler exits without removal: %v): the peer could keep downloading them after the revision exchange ended", goBad))
		}
		if len(adds) == 0 {
			r.Fail("C14-R4", "fn=sendRevisionWithProperties allow-list-add", c.Pos(fn.Pos()), "attachments of a sent revision are no longer registered on the allow-list")
		}
	}
	la := newLockAnalysis(c, []string{"BlipSyncContext.allowedAttachmentsLock"}, "db")
	la.Solve()
	runGuardRule(c, r, "C14-R4", la, []GuardRow{{Struct: "db.BlipSyncContext", Fields: []string{"allowedAttachments"}, Lock: "BlipSyncContext.allowedAttachmentsLock"}}, nil)
}

// C14-R5: the set of attachments referenced before the write ("previous leaf attachments") is what obsolete-attachment removal
// compares against after the commit. It has to describe the document the CAS attempt actually writes over: the scan is repeated,
// unconditionally, on every attempt of the CAS loop, before the update is computed.
func c14R5(c *Ctx, r *Report) {
	r.Rule("C14-R5", "E2 pathrules", "inside the CAS callback of updateAndReturnDoc the pre-write leaf-attachment scan dominates the computation of the update (it is repeated on every attempt, on the freshly read document)", 1)
	top := c.Func("(*db.DatabaseCollectionWithUser).updateAndReturnDoc")
	if top == nil {
		r.Fail("C14-R5", "anchor updateAndReturnDoc", "-", "function not found")
		return
	}
	n := 0
	for _, lit := range top.AnonFuncs {
		dufs := c.Calls(lit, false, nameIs("(*db.DatabaseCollectionWithUser).documentUpdateFunc"))
		if len(dufs) == 0 {
			continue
		}
		scans := c.EffectSites(lit, func(in ssa.Instruction) bool {
			ci, ok := in.(ssa.CallInstruction)
			return ok && c.CalleeName(ci) == "db.getAttachmentIDsForLeafRevisions"
		}, 2)
		for _, d := range dufs {
			n++
			ok := len(scans) > 0 && DominatedBy(lit, d, NewAvoid().AddInstr(scans...))
			// and the scan judges the document handed to this attempt (a value of the literal, not of the enclosing function)
			r.Check("C14-R5", fmt.Sprintf("fn=updateAndReturnDoc$cas-callback leaf-attachment-scan repeated-on=every-attempt #%d", n), c.Pos(d.Pos()), ok,
				"the scan of the leaves' attachments precedes the update on every path of every attempt", "the pre-write scan of the leaves' attachments can be skipped on a CAS retry (or altogether): obsolete-attachment removal then compares against the attachments of a document that is no longer the one written over — an attachment added by the writer that won the race and dropped by this write is never deleted, or one still referenced is")
		}
	}
	if n == 0 {
		r.Fail("C14-R5", "fn=updateAndReturnDoc$cas-callback", c.Pos(top.Pos()), "the CAS callback computing the update was not found")
	}
}

// C14-R6: the document-level attachment metadata describes the CURRENT (winning) revision. When a newly added revision does not
// become the winner (a hidden, losing leaf) it must not replace that metadata; the losing revision's attachments belong with its own
// stored body.
func c14R6(c *Ctx, r *Report) {
	r.Rule("C14-R6", "E2 pathrules", "storeOldBodyInRevTreeAndUpdateCurrent replaces the document-level attachments with the new revision's only on the edge where the new revision is the current one", 1)
	fn := c.Func("(*db.DatabaseCollectionWithUser).storeOldBodyInRevTreeAndUpdateCurrent")
	if fn == nil {
		r.Fail("C14-R6", "anchor storeOldBodyInRevTreeAndUpdateCurrent", "-", "function not found")
		return
	}
	// edges on which doc.GetRevTreeID() == newRevID (newRevID is a string parameter)
	isWinner := EdgesWhere(fn, func(cond ssa.Value) (bool, bool) {
		b, ok := cond.(*ssa.BinOp)
		if !ok || (b.Op != token.EQL && b.Op != token.NEQ) {
			return false, false
		}
		isCur := func(v ssa.Value) bool {
			cc, ok := v.(*ssa.Call)
			return ok && strings.HasSuffix(c.CalleeName(cc), ".GetRevTreeID")
		}
		isNew := func(v ssa.Value) bool {
			p, ok := v.(*ssa.Parameter)
			return ok && types.Identical(p.Type().Underlying(), types.Typ[types.String])
		}
		if (isCur(b.X) && isNew(b.Y)) || (isCur(b.Y) && isNew(b.X)) {
			return true, b.Op == token.EQL
		}
		return false, false
	})
	n := 0
	for _, call := range c.Calls(fn, false, nameIs("(*db.Document).SetAttachments")) {
		a := callArgs(call)
		if len(a) == 0 {
			continue
		}
		// only the assignment from the NEW revision's attachments
		fromNew := DependsOn(a[len(a)-1], func(v ssa.Value) bool {
			cc, ok := v.(*ssa.Call)
			if !ok || !strings.HasSuffix(c.CalleeName(cc), ".Attachments") || len(cc.Call.Args) == 0 {
				return false
			}
			p, isP := cc.Call.Args[0].(*ssa.Parameter)
			return isP && p != fn.Params[3] // not the stored document itself (receiver, ctx, doc, …)
		})
		if !fromNew {
			continue
		}
		n++
		ok := len(isWinner) > 0 && DominatedBy(fn, call, NewAvoid().AddEdge(isWinner...))
		r.Check("C14-R6", fmt.Sprintf("fn=storeOldBodyInRevTreeAndUpdateCurrent doc-attachments=new-revision's #%d only-if=new-revision-is-current", n), c.Pos(call.Pos()), ok,
			"the current revision's attachment metadata is replaced only by a revision that becomes current", "the document-level attachment metadata is overwritten with the attachments of a revision that did not become the current one: the winner then reports the loser's attachments, and obsolete-attachment removal deletes the winner's attachment bodies")
	}
	if n == 0 {
		r.Fail("C14-R6", "fn=storeOldBodyInRevTreeAndUpdateCurrent doc-attachments", c.Pos(fn.Pos()), "the assignment of the new revision's attachments to the document was not found")
	}
}
