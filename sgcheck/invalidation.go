package main

import (
	"fmt"
	"strings"

	"golang.org/x/tools/go/ssa"
)

// checkInvalidationPersisted (shared by C03 and C18): inside the update callbacks of the authenticator's Invalidate* functions,
// once an invalidation marker has been set on the loaded principal the callback must not cancel the update — every path from the
// marker to a return yields the marshalled principal (a cancel would silently drop the invalidation).
func checkInvalidationPersisted(c *Ctx, r *Report, rule string) {
	n := 0
	for _, name := range []string{"(*auth.Authenticator).InvalidateChannels", "(*auth.Authenticator).InvalidateRoles", "(*auth.Authenticator).InvalidateRolesAndChannels"} {
		fn := c.Func(name)
		if fn == nil {
			r.Fail(rule, "anchor "+name, "-", "function not found")
			continue
		}
		for _, lit := range fn.AnonFuncs {
			for _, call := range c.Calls(lit, false, func(nm string) bool {
				return strings.HasSuffix(nm, ".setCollectionChannelInvalSeq") || strings.HasSuffix(nm, ".SetRoleInvalSeq") || strings.HasSuffix(nm, ".SetChannelInvalSeq")
			}) {
				n++
				cancel := ReachAfter(call, func(in ssa.Instruction) bool {
					ret, ok := in.(*ssa.Return)
					if !ok || len(ret.Results) == 0 {
						return false
					}
					last := unwrap(unwrapLoadFree(ret.Results[len(ret.Results)-1]))
					if u, ok := last.(*ssa.UnOp); ok {
						if g, ok := u.X.(*ssa.Global); ok && g.Name() == "ErrUpdateCancel" {
							return true
						}
					}
					return false
				}, NewAvoid().AddEdge(flagInfeasibleEdges(lit, call)...))
				where := ""
				if cancel != nil {
					where = c.Pos(cancel.Pos())
				}
				r.Check(rule, fmt.Sprintf("fn=%s$callback marker=%s #%d then=persisted-not-cancelled", name, CalleeIdent(call), n), c.Pos(call.Pos()), cancel == nil,
					"after setting the invalidation marker the callback always returns the updated principal", "after an invalidation marker is set the update callback can still cancel the write (return at "+where+"): the invalidation is silently dropped and the principal keeps its stale computed access")
			}
		}
	}
	if n < 4 {
		r.Fail(rule, "invalidation-marker sites", "-", fmt.Sprintf("expected at least 4 marker sites in the Invalidate* callbacks, found %d", n))
	}
}
