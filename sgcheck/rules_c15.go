package main

import (
	"fmt"
	"go/token"

	"golang.org/x/tools/go/ssa"
)

func init() { registry["C15"] = checkC15 }

var c15Ops = []string{"(*rest.bootstrapContext).InsertConfig", "(*rest.bootstrapContext).UpdateConfig", "(*rest.bootstrapContext).DeleteConfig"}

func checkC15(c *Ctx, r *Report) {
	r.Explain = "Decides structural necessary conditions of consistent database configurations: (R1) the two-document protocol is ordered — inside each registry worker the registry is written only after the recovery read (getRegistryAndDatabase) succeeded and the registry mutation was accepted; the config document is written/deleted only after the registry loop succeeded; the finalising registry update only after the config write succeeded; a registry rollback to an existing config first fences the config document (CAS touch) and writes the registry only on the fence's success edge; (R2) the registry document and the per-database config documents are written only by the listed owners; (R3) every such write carries a CAS read earlier in the same operation (insert only for a registry that did not exist); (R4) loads are version-matched — a config is returned as current only on the version-equal edge (or the listed repair case), and an in-flight delete is re-attempted only for a config document that still carries the version the registry recorded; deleted entries are skipped when enumerating; (R5) storage failures on the operation paths propagate.; (R6) in-flight conflicts are computed against the previous version's collections, active conflicts against the current ones.; (R7) registry entries in the deleted state take no part in collection-conflict checks and are never recorded as a previous version; (R8) the version-matched load path consults the entry's previous version (so one left by an interrupted update can be cleared). Not decided: the outcome of recovery from each crash state, races between nodes, collection-conflict computation."
	c15R1(c, r)
	c15R2R3(c, r)
	c15R4(c, r)
	c15R5(c, r)
	c15R6(c, r)
	c15R7(c, r)
	c15R8(c, r)
}

func c15Lits(fn *ssa.Function) []*ssa.Function {
	out := []*ssa.Function{}
	var walk func(f *ssa.Function)
	walk = func(f *ssa.Function) {
		for _, a := range f.AnonFuncs {
			out = append(out, a)
			walk(a)
		}
	}
	walk(fn)
	return out
}

func c15R1(c *Ctx, r *Report) {
	r.Rule("C15-R1", "E2 pathrules", "write order of the registry/config protocol in InsertConfig, UpdateConfig, DeleteConfig and rollbackRegistry", 10)
	cfgWrite := map[string]string{
		"(*rest.bootstrapContext).InsertConfig": "InsertMetadataDocument",
		"(*rest.bootstrapContext).UpdateConfig": "WriteMetadataDocument",
		"(*rest.bootstrapContext).DeleteConfig": "DeleteMetadataDocument",
	}
	for _, name := range c15Ops {
		fn := c.Func(name)
		if fn == nil {
			r.Fail("C15-R1", "anchor "+name, "-", "function not found")
			continue
		}
		loops := c.Calls(fn, false, nameIs("base.RetryLoopWithOptions"))
		var writes []ssa.CallInstruction
		for _, call := range c.Calls(fn, false, func(n string) bool { return true }) {
			if call.Common().IsInvoke() && call.Common().Method.Name() == cfgWrite[name] {
				writes = append(writes, call)
			}
		}
		if len(loops) == 0 || len(writes) != 1 {
			r.Fail("C15-R1", "fn="+name+" protocol-steps", c.Pos(fn.Pos()), fmt.Sprintf("expected registry retry loop(s) and exactly one config document write, found %d/%d", len(loops), len(writes)))
			continue
		}
		w := writes[0]
		// (a) config write dominated by the success edge of the first registry loop
		first := loops[0].(*ssa.Call)
		var ev ssa.Value
		for _, e := range resultValues(first, 0) {
			ev = e
		}
		_, okE := EdgesOnValue(fn, func(v ssa.Value) bool { return unwrapLoadFree(v) == ev })
		r.Check("C15-R1", "fn="+name+" config-document-write after=registry-update-succeeded", c.Pos(w.Pos()), ev != nil && len(okE) > 0 && DominatedBy(fn, w, NewAvoid().AddEdge(okE...)),
			"the config document is touched only after the registry recorded the intent", "the config document can be written/deleted although the registry update did not succeed: other nodes would load a config the registry does not describe")
		// (b) finalise loop (in the operation itself or in a helper extracted from it) dominated by success of config write
		loopSites := c.EffectSites(fn, func(in ssa.Instruction) bool {
			ci, ok := in.(ssa.CallInstruction)
			return ok && c.CalleeName(ci) == "base.RetryLoopWithOptions"
		}, 2)
		if len(loopSites) > 1 {
			wv := errValueOf(w.(*ssa.Call))
			_, wOK := EdgesOnValue(fn, func(v ssa.Value) bool { return unwrapLoadFree(v) == wv })
			fin := loopSites[len(loopSites)-1]
			r.Check("C15-R1", "fn="+name+" registry-finalise after=config-document-write-succeeded", c.Pos(fin.Pos()), len(wOK) > 0 && DominatedBy(fn, fin, NewAvoid().AddEdge(wOK...)),
				"the previous version is dropped from the registry only after the config document was written", "the registry can be finalised although the config document write failed: the recovery information (previous version) would be lost")
		}
		// (c) inside the first worker: setGatewayRegistry after getRegistryAndDatabase success and after the registry mutation
		var worker *ssa.Function
		for _, a := range first.Call.Args {
			if mc, ok := unwrap(a).(*ssa.MakeClosure); ok {
				worker, _ = mc.Fn.(*ssa.Function)
			}
		}
		if worker == nil {
			r.Fail("C15-R1", "fn="+name+" registry-worker", c.Pos(first.Pos()), "worker literal not found")
			continue
		}
		sets := c.Calls(worker, false, nameIs("(*rest.bootstrapContext).setGatewayRegistry"))
		gets := c.Calls(worker, false, nameIs("(*rest.bootstrapContext).getRegistryAndDatabase"))
		muts := c.Calls(worker, false, nameIs("(*rest.GatewayRegistry).upsertDatabaseConfig", "(*rest.GatewayRegistry).deleteDatabase"))
		if len(sets) == 0 || len(gets) == 0 || len(muts) == 0 {
			r.Fail("C15-R1", "fn="+name+"$worker steps", c.Pos(worker.Pos()), "recovery read / registry mutation / registry write not all found")
			continue
		}
		var getOK, mutOK []Edge
		for _, g := range gets {
			gv := errValueOf(g.(*ssa.Call))
			_, neg := EdgesOnValue(worker, func(v ssa.Value) bool { return unwrapLoadFree(v) == gv })
			getOK = append(getOK, neg...)
		}
		for _, m := range muts {
			mv := errValueOf(m.(*ssa.Call))
			_, neg := EdgesOnValue(worker, func(v ssa.Value) bool { return unwrapLoadFree(v) == mv })
			mutOK = append(mutOK, neg...)
		}
		for i, s := range sets {
			ok := len(getOK) > 0 && len(mutOK) > 0 && DominatedBy(worker, s, NewAvoid().AddEdge(getOK...)) && DominatedBy(worker, s, NewAvoid().AddEdge(mutOK...))
			r.Check("C15-R1", fmt.Sprintf("fn=%s$worker registry-write #%d after=recovery-read-and-accepted-mutation", name, i+1), c.Pos(s.Pos()), ok,
				"registry written only after recovery (getRegistryAndDatabase) and an accepted registry mutation", "the registry can be written without the recovery read having succeeded or the mutation having been accepted (collection conflicts unchecked / half-applied change not repaired first)")
		}
	}
	// DeleteConfig finalize: the registry entry is removed only if it is still the deleted marker written in step 2
	if fn := c.Func("(*rest.bootstrapContext).DeleteConfig"); fn != nil {
		found := false
		var lits []*ssa.Function
		for _, h := range c.PrivateHelpers(fn, 2) { // the finalize step may have been extracted into a helper of DeleteConfig
			lits = append(lits, c15Lits(h)...)
		}
		for _, lit := range lits {
			rm := c.Calls(lit, false, nameIs("(*rest.GatewayRegistry).removeDatabase"))
			if len(rm) == 0 {
				continue
			}
			found = true
			var deleted []Edge
			for _, call := range c.Calls(lit, false, nameHasSuffix(".IsDeleted")) {
				cv := valueOfCall(call)
				pos, _ := EdgesOnValue(lit, func(v ssa.Value) bool { return v == cv })
				deleted = append(deleted, pos...)
			}
			for i, x := range rm {
				ok := len(deleted) > 0 && DominatedBy(lit, x, NewAvoid().AddEdge(deleted...))
				r.Check("C15-R1", fmt.Sprintf("fn=DeleteConfig$finalize registry-entry-removal #%d only-if=still-deleted-marker", i+1), c.Pos(x.Pos()), ok,
					"the finalize step removes only the entry it marked deleted", "the finalize step of a delete removes whatever entry the registry now holds for the name: a database re-created by another node in the meantime loses its registry entry (an acknowledged create is lost)")
			}
		}
		if !found {
			r.Fail("C15-R1", "fn=DeleteConfig$finalize registry-entry-removal", c.Pos(fn.Pos()), "finalize step not found")
		}
	}
	// rollbackRegistry: fence before registry write
	rb := c.Func("(*rest.bootstrapContext).rollbackRegistry")
	if rb == nil {
		r.Fail("C15-R1", "anchor rollbackRegistry", "-", "function not found")
		return
	}
	var touch, write []ssa.CallInstruction
	for _, call := range c.Calls(rb, false, func(n string) bool { return true }) {
		if !call.Common().IsInvoke() {
			continue
		}
		switch call.Common().Method.Name() {
		case "TouchMetadataDocument":
			touch = append(touch, call)
		case "WriteMetadataDocument":
			write = append(write, call)
		}
	}
	if len(touch) != 1 || len(write) != 1 {
		r.Fail("C15-R1", "fn=rollbackRegistry fence/registry-write", c.Pos(rb.Pos()), fmt.Sprintf("expected one fence and one registry write, found %d/%d", len(touch), len(write)))
		return
	}
	tv := errValueOf(touch[0].(*ssa.Call))
	_, tOK := EdgesOnValue(rb, func(v ssa.Value) bool { return unwrapLoadFree(v) == tv })
	nilCfg := EdgesWhere(rb, func(cond ssa.Value) (bool, bool) {
		x, trueMeansNil, ok := NilTest(cond)
		if ok && isParam(x, 5) {
			return true, trueMeansNil
		}
		return false, false
	})
	r.Check("C15-R1", "fn=rollbackRegistry registry-write after=config-fence-succeeded|no-config", c.Pos(write[0].Pos()), len(tOK) > 0 && len(nilCfg) > 0 && DominatedBy(rb, write[0], NewAvoid().AddEdge(tOK...).AddEdge(nilCfg...)),
		"the registry is rolled back only after the config document was fenced (CAS touch succeeded), or when there is no config", "the registry can be rolled back before/without fencing the config document: a slow writer's config write could land after the rollback, leaving registry and config on different versions")
}

func c15R2R3(c *Ctx, r *Report) {
	r.Rule("C15-R2", "E3 whomay", "the registry document is written only by setGatewayRegistry and rollbackRegistry; database config documents only by the three operations, waitForConfigDelete, rollbackRegistry's fence", 5)
	r.Rule("C15-R3", "E2 def-use", "every registry/config write carries a CAS obtained earlier in the operation (never the constant 0); insert only where no document existed", 5)
	regOwners := map[string]bool{"(*rest.bootstrapContext).setGatewayRegistry": true, "(*rest.bootstrapContext).rollbackRegistry": true}
	cfgOwners := map[string]bool{"(*rest.bootstrapContext).InsertConfig": true, "(*rest.bootstrapContext).UpdateConfig": true, "(*rest.bootstrapContext).DeleteConfig": true,
		"(*rest.bootstrapContext).waitForConfigDelete": true, "(*rest.bootstrapContext).rollbackRegistry": true}
	isRegKey := func(v ssa.Value) bool {
		s, ok := constString(v)
		return ok && s == "_sync:registry"
	}
	isCfgKey := func(v ssa.Value) bool {
		return DependsOn(v, c.ResultOf(0, nameIs("rest.PersistentConfigKey")))
	}
	n := 0
	for _, fn := range c.ScopeFuncs() {
		if fn.Pkg == nil || fn.Pkg.Pkg.Name() != "rest" {
			continue
		}
		EachInstr(fn, false, func(in ssa.Instruction) {
			call, ok := in.(ssa.CallInstruction)
			if !ok || !call.Common().IsInvoke() {
				return
			}
			m := call.Common().Method.Name()
			casIdx := map[string]int{"WriteMetadataDocument": 3, "DeleteMetadataDocument": 3, "TouchMetadataDocument": 5, "InsertMetadataDocument": -1}
			ci, isW := casIdx[m]
			if !isW {
				return
			}
			args := call.Common().Args
			if len(args) < 3 {
				return
			}
			key := args[2]
			top := c.FuncName(TopLevel(fn))
			switch {
			case isRegKey(key):
				n++
				r.Check("C15-R2", fmt.Sprintf("fn=%s writes=registry via=%s #%d", top, m, n), c.Pos(call.Pos()), regOwners[top], "registry owner", "the shared registry is written outside its two owners")
			case isCfgKey(key):
				n++
				r.Check("C15-R2", fmt.Sprintf("fn=%s writes=db-config via=%s #%d", top, m, n), c.Pos(call.Pos()), cfgOwners[top], "config document owner", "a database config document is written outside the protocol's operations")
			default:
				return
			}
			if ci >= 0 && ci < len(args) {
				cas := args[ci]
				k, isConst := constInt(cas)
				okCas := !(isConst && k == 0) && DependsOn(cas, func(v ssa.Value) bool {
					if f, _ := fieldRead(v); f != nil && (f.Name() == "cfgCas" || f.Name() == "cas") {
						return true
					}
					if _, ok := v.(*ssa.Parameter); ok {
						return true
					}
					if _, ok := v.(*ssa.TypeAssert); ok { // cas carried as retry-loop value
						return true
					}
					return false
				})
				r.Check("C15-R3", fmt.Sprintf("fn=%s %s #%d cas=previously-read", top, m, n), c.Pos(call.Pos()), okCas, "CAS-guarded with a value read earlier", "a registry/config write is not guarded by a CAS read earlier in the operation: a concurrent change would be overwritten")
			} else if m == "InsertMetadataDocument" && isRegKey(key) {
				// insert of the registry only when none existed: dominated by cas == 0 edge
				zero := EdgesWhere(fn, func(cond ssa.Value) (bool, bool) {
					b, ok := cond.(*ssa.BinOp)
					if !ok {
						return false, false
					}
					if k, isK := constInt(b.Y); isK && k == 0 {
						if f, _ := fieldRead(b.X); f != nil && f.Name() == "cas" {
							switch b.Op {
							case token.EQL:
								return true, true
							case token.NEQ, token.GTR:
								return true, false
							}
						}
						if _, isPhiOrLoad := b.X.(*ssa.UnOp); isPhiOrLoad || true {
							switch b.Op {
							case token.EQL:
								return true, true
							case token.NEQ, token.GTR:
								return true, false
							}
						}
					}
					return false, false
				})
				r.Check("C15-R3", fmt.Sprintf("fn=%s InsertMetadataDocument #%d only-if=no-registry-existed", top, n), c.Pos(call.Pos()), len(zero) > 0 && DominatedBy(fn, call, NewAvoid().AddEdge(zero...)), "insert only on the cas == 0 edge", "the registry can be inserted although one was read: the insert would fail or clobber")
			}
		})
	}
}

func c15R4(c *Ctx, r *Report) {
	r.Rule("C15-R4", "E2 pathrules", "version-matched loads: a config is handed out as current only on the Version == requested edge (or the repair case); an in-flight delete is re-attempted only for a config that still carries the recorded version; deleted registry entries are skipped", 4)
	gv := c.Func("(*rest.bootstrapContext).getConfigVersionWithRetry")
	wd := c.Func("(*rest.bootstrapContext).waitForConfigDelete")
	gd := c.Func("(*rest.bootstrapContext).GetDatabaseConfigs")
	if gv == nil || wd == nil || gd == nil {
		r.Fail("C15-R4", "anchor config load functions", "-", "function not found")
		return
	}
	verF := c.Field("rest.DatabaseConfig", "Version")
	// getConfigVersionWithRetry worker: returns (false, nil, config)
	for _, lit := range gv.AnonFuncs {
		eq := EdgesWhere(lit, func(cond ssa.Value) (bool, bool) {
			b, ok := cond.(*ssa.BinOp)
			if !ok || (b.Op != token.EQL && b.Op != token.NEQ) {
				return false, false
			}
			fx, _ := fieldRead(b.X)
			fy, _ := fieldRead(b.Y)
			if fx == verF || fy == verF {
				return true, b.Op == token.EQL
			}
			// version == invalidDatabaseConflictingCollectionsVersion (repair case)
			if s, isC := constString(b.Y); isC && s != "" {
				return true, b.Op == token.EQL
			}
			return false, false
		})
		n := 0
		for _, ret := range Returns(lit) {
			if len(ret.Results) != 3 {
				continue
			}
			// success with a config: err nil, value non-nil, retry false
			if !isNilConst(unwrap(ret.Results[1])) || isNilConst(unwrap(ret.Results[2])) {
				continue
			}
			n++
			r.Check("C15-R4", fmt.Sprintf("fn=getConfigVersionWithRetry$worker success-exit #%d only-if=version-equal|repair", n), c.Pos(ret.Pos()), len(eq) > 0 && DominatedBy(lit, ret, NewAvoid().AddEdge(eq...)),
				"a config is returned without error only when its version equals the requested one (or the repair case)", "a config document can be returned as current although its version differs from the one the registry records")
		}
		if n == 0 {
			r.Fail("C15-R4", "fn=getConfigVersionWithRetry$worker success-exit", c.Pos(lit.Pos()), "success exit not found")
		}
	}
	// waitForConfigDelete worker: the "still exists, re-attempt delete" outcome (ErrAlreadyExists) only if version == "" or version == config.Version
	for _, lit := range wd.AnonFuncs {
		match := EdgesWhere(lit, func(cond ssa.Value) (bool, bool) {
			b, ok := cond.(*ssa.BinOp)
			if !ok || (b.Op != token.EQL && b.Op != token.NEQ) {
				return false, false
			}
			fx, _ := fieldRead(b.X)
			fy, _ := fieldRead(b.Y)
			if fx == verF || fy == verF {
				return true, b.Op == token.EQL
			}
			if s, isC := constString(b.Y); isC && s == "" {
				return true, b.Op == token.EQL
			}
			return false, false
		})
		n := 0
		for _, ret := range Returns(lit) {
			if len(ret.Results) != 3 {
				continue
			}
			ev := unwrap(ret.Results[1])
			u, ok := ev.(*ssa.UnOp)
			if !ok {
				continue
			}
			g, ok := u.X.(*ssa.Global)
			if !ok || g.Name() != "ErrAlreadyExists" {
				continue
			}
			n++
			r.Check("C15-R4", fmt.Sprintf("fn=waitForConfigDelete$worker still-exists-exit #%d only-if=version-unset|version-equal", n), c.Pos(ret.Pos()), len(match) > 0 && DominatedBy(lit, ret, NewAvoid().AddEdge(match...)),
				"an in-flight delete is re-attempted only for the config version the registry recorded as being deleted", "a config document whose version differs from the one being deleted is treated as the leftover of the in-flight delete: a database re-created by another node would be deleted")
		}
		if n == 0 {
			r.Fail("C15-R4", "fn=waitForConfigDelete$worker still-exists-exit", c.Pos(lit.Pos()), "exit not found")
		}
	}
	// GetDatabaseConfigs skips deleted entries and returns only configs from getDatabaseConfig
	skip := len(c.Calls(gd, true, nameHasSuffix(".IsDeleted"))) > 0
	via := len(c.Calls(gd, true, nameIs("(*rest.bootstrapContext).getDatabaseConfig"))) > 0
	r.Check("C15-R4", "fn=GetDatabaseConfigs skips-deleted via=getDatabaseConfig", c.Pos(gd.Pos()), skip && via, "deleted registry entries are skipped and configs are loaded version-matched", "enumeration no longer skips deleted entries or bypasses the version-matched load")
}

func c15R5(c *Ctx, r *Report) {
	r.Rule("C15-R5", "E5 failedge", "storage failures on the configuration operation paths propagate (or are listed protocol signals)", 15)
	saveS := handledSentinels
	ext := map[string]bool{}
	for k, v := range saveS {
		ext[k] = v
	}
	// protocol signals of the configuration manager, not failures: the caller reloads / the entry was rolled back
	ext["ErrConfigRegistryRollback"] = true
	ext["ErrConfigRegistryReloadRequired"] = true
	ext["ErrConfigVersionMismatch"] = true
	handledSentinels = ext
	defer func() { handledSentinels = saveS }()
	fe := newFailEdge(c)
	scope := map[string]bool{}
	for _, n := range append([]string{"(*rest.bootstrapContext).rollbackRegistry", "(*rest.bootstrapContext).setGatewayRegistry", "(*rest.bootstrapContext).waitForConfigDelete", "(*rest.bootstrapContext).getRegistryAndDatabase", "(*rest.bootstrapContext).getDatabaseConfig", "(*rest.bootstrapContext).getGatewayRegistry"}, c15Ops...) {
		scope[n] = true
	}
	table := []BestEffort{
		{Func: "(*rest.bootstrapContext).getDatabaseConfig", Callee: "getConfigVersionWithRetry", Reason: "on a rollback signal the error is replaced by the outcome of rollbackRegistry (reload-required or the rollback's own error); other errors propagate"},
		{Func: "(*rest.bootstrapContext).getGatewayRegistry", Callee: "bucketExists", Reason: "only consulted to refine a failed registry read into 'bucket no longer exists'; the original read error is returned otherwise"},
	}
	runFailEdge(c, r, "C15-R5", fe, func(fn *ssa.Function) bool { return scope[c.FuncName(TopLevel(fn))] }, table)
}

// C15-R6: collections of a database whose update is in flight (registry entry with a previous version) stay reserved for the
// rollback: the in-flight conflict check compares the requested collections with the PREVIOUS version's scopes, the active conflict
// check with the current ones (sibling functions with the same shape — a swapped field compiles).
func c15R6(c *Ctx, r *Report) {
	r.Rule("C15-R6", "E3 def-use (sibling agreement)", "getPreviousConflicts feeds findCollectionConflicts with the scopes of the registry entry's previous version (under PreviousVersion != nil); getCollectionConflicts with the entry's current scopes", 2)
	for _, s := range []struct {
		fn      string
		viaPrev bool
	}{{"(*rest.GatewayRegistry).getPreviousConflicts", true}, {"(*rest.GatewayRegistry).getCollectionConflicts", false}} {
		fn := c.Func(s.fn)
		if fn == nil {
			r.Fail("C15-R6", "anchor "+s.fn, "-", "function not found")
			continue
		}
		calls := c.Calls(fn, false, nameIs("rest.findCollectionConflicts"))
		if len(calls) == 0 {
			r.Fail("C15-R6", "fn="+s.fn+" call=findCollectionConflicts", c.Pos(fn.Pos()), "the conflict computation was not found")
			continue
		}
		for i, call := range calls {
			a := call.Common().Args
			reg := a[len(a)-1]
			// the registry-side scopes: every non-default source must be a read of field Scopes
			viaPrev, direct, other := false, false, false
			seen := map[ssa.Value]bool{}
			var walk func(v ssa.Value)
			walk = func(v ssa.Value) {
				if v == nil || seen[v] {
					return
				}
				seen[v] = true
				v = unwrap(unwrapLoadFree(v))
				if phi, ok := v.(*ssa.Phi); ok {
					for _, e := range phi.Edges {
						walk(e)
					}
					return
				}
				if f, b := fieldRead(v); f != nil && f.Name() == "Scopes" {
					// is the struct reached through the PreviousVersion field?
					if DependsOn(b, func(x ssa.Value) bool { pf, _ := fieldRead(x); return pf != nil && pf.Name() == "PreviousVersion" }) {
						viaPrev = true
					} else {
						direct = true
					}
					return
				}
				if ad, ok := loadOf(v); ok {
					if _, isGlobal := ad.(*ssa.Global); isGlobal {
						return // defaultOnlyRegistryScopes
					}
					sts := storesInto(rootAddr(ad))
					if len(sts) > 0 {
						for _, st := range sts {
							walk(st.Val)
						}
						return
					}
				}
				other = true
			}
			walk(reg)
			ok := !other && ((s.viaPrev && viaPrev && !direct) || (!s.viaPrev && direct && !viaPrev))
			want := "the entry's current scopes"
			if s.viaPrev {
				want = "the scopes of the entry's previous version"
			}
			r.Check("C15-R6", fmt.Sprintf("fn=%s conflicts-computed-against #%d", s.fn, i+1), c.Pos(call.Pos()), ok, "compares with "+want,
				"the conflict check does not compare the requested collections with "+want+": collections that a half-applied update moved away from are not reserved for its rollback (or an in-flight update is judged by its new collections), so two databases can end up owning the same collection")
		}
	}
}
