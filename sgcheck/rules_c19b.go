package main

import (
	"fmt"

	"golang.org/x/tools/go/ssa"
)

// C19-R4: the body of a non-winning revision that is too large to stay in the revision tree lives in its own document
// (_sync:rb:<hash>). The tree only remembers the key, so the body a read path returns for that revision IS that document. It may be
// deleted only when the commit that no longer needs it has succeeded: deleted from inside the compare-and-swap callback (which runs
// before the commit and again on every retry) the retry — or a concurrent reader — finds the key without the body, and the revision
// comes back with another revision's body. Shared with the deletion clause of C11-R2.
func c19R4(c *Ctx, r *Report) {
	r.Rule("C19-R4", "E3 whomay + E2 pathrules", "externally stored revision bodies are deleted (deleteRemovedRevisionBodies) only by updateAndReturnDoc itself, on the success edge of the compare-and-swap write — never from the callback that runs before the commit", 1)
	target := "(*db.Document).deleteRemovedRevisionBodies"
	if c.Func(target) == nil {
		r.Fail("C19-R4", "anchor "+target, "-", "function not found")
		return
	}
	host := c.Func("(*db.DatabaseCollectionWithUser).updateAndReturnDoc")
	if host == nil {
		r.Fail("C19-R4", "anchor updateAndReturnDoc", "-", "function not found")
		return
	}
	var w *ssa.Call
	for _, call := range c.Calls(host, false, nameHasSuffix(".WriteUpdateWithXattrs")) {
		if cv, ok := call.(*ssa.Call); ok {
			w = cv
		}
	}
	n := 0
	for _, fn := range c.ScopeFuncs() {
		for _, call := range c.Calls(fn, false, nameIs(target)) {
			n++
			construct := fmt.Sprintf("fn=%s call=deleteRemovedRevisionBodies #%d after=commit", c.FuncName(fn), n)
			if fn != host || w == nil {
				r.Fail("C19-R4", construct, c.Pos(call.Pos()), "stored revision bodies are deleted outside updateAndReturnDoc's post-commit section (inside the pre-commit callback the deletion takes effect for an attempt that may lose the CAS race: the retry finds the revision's key without its body)")
				continue
			}
			e := errValueOf(w)
			_, nilEdges := EdgesOnValue(host, func(v ssa.Value) bool { return unwrapLoadFree(v) == e })
			ok := len(nilEdges) > 0 && c11AfterSuccess(host, call, e, nilEdges)
			r.Check("C19-R4", construct, c.Pos(call.Pos()), ok, "reachable only after the CAS write succeeded", "stored revision bodies can be deleted on a path where the write failed or has not happened yet: an accepted revision's body is lost")
		}
	}
	if n == 0 {
		r.Fail("C19-R4", "callers of deleteRemovedRevisionBodies", "-", "none found")
	}
}
