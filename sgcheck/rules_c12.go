package main

import (
	"fmt"
	"go/token"
	"go/types"

	"golang.org/x/tools/go/ssa"
)

func init() { registry["C12"] = checkC12 }

func checkC12(c *Ctx, r *Report) {
	r.Explain = "Decides structural necessary conditions of authentication: (R1) every exit of the password and session authenticators that yields a user is dominated by the credential check (password verified / session epoch equals the user's current epoch), a user-exists check and a disabled-account check; (R2) a one-time session yields a user only on the success edge of its deletion, every failure of that deletion (not-found included) is an error, and the cookie TTL refresh is skipped for one-time sessions; (R3) every store to the password hash is paired with a session-epoch bump on every path, and the bcrypt-cost rehash inside the CAS callback is decided on the callback's own freshly loaded hash; (R4) the verified-password cache is filled only on the success edge of the full bcrypt comparison, under a key that depends on both hash and password, by a single writer; (R5) the request handler's user is set only from an authenticator result (or the table-listed re-fetches), after being reset first; (R6) only CreateSession writes a session document unconditionally — a refresh of an existing session cannot re-create one that was deleted in the meantime.; (R7) expiry of sessions is enforced only by the bucket, so every write of a session document carries an expiry computed from the session's time-to-live (never a constant) and CreateSession refuses a non-positive time-to-live. Not decided: histories (delete and re-create), bcrypt itself, OIDC/JWT validation, that the bucket honours the expiry."
	c12R1(c, r)
	c12R2(c, r)
	c12R3(c, r)
	c12R4(c, r)
	c12R5(c, r)
	c12R6(c, r)
	c12R7(c, r)
}

// userYieldingReturns: returns whose result idx is not the nil constant.
func userYieldingReturns(fn *ssa.Function, idx int) []*ssa.Return {
	var out []*ssa.Return
	for _, ret := range Returns(fn) {
		if idx < len(ret.Results) && !isNilConst(ret.Results[idx]) {
			out = append(out, ret)
		}
	}
	return out
}

func c12R1(c *Ctx, r *Report) {
	r.Rule("C12-R1", "E2 pathrules (sibling cross-check)", "each authenticator exit that yields a user is dominated by: credential check passed, user exists, account not disabled", 6)
	uuidF := c.Field("auth.LoginSession", "SessionUUID")
	if uuidF == nil {
		r.Fail("C12-R1", "anchor auth.LoginSession.SessionUUID", "-", "field not found")
		return
	}
	// password path
	if fn := c.Func("(*auth.Authenticator).AuthenticateUser"); fn == nil {
		r.Fail("C12-R1", "anchor (*auth.Authenticator).AuthenticateUser", "-", "function not found")
	} else {
		var okEdges []Edge
		for _, call := range c.Calls(fn, false, func(n string) bool {
			return n == "(auth.User).AuthenticateWithReason" || n == "(auth.User).Authenticate" || n == "(*auth.userImpl).AuthenticateWithReason"
		}) {
			cv := call.(*ssa.Call)
			var bv ssa.Value = cv
			if cv.Call.Signature().Results().Len() > 1 {
				for _, e := range resultValues(cv, 0) {
					bv = e
				}
			}
			pos, _ := EdgesOnValue(fn, func(v ssa.Value) bool { return v == bv })
			okEdges = append(okEdges, pos...)
		}
		for i, ret := range userYieldingReturns(fn, 0) {
			ok := len(okEdges) > 0 && DominatedBy(fn, ret, NewAvoid().AddEdge(okEdges...))
			r.Check("C12-R1", fmt.Sprintf("fn=(*auth.Authenticator).AuthenticateUser user-exit #%d after=password-verified", i+1), c.Pos(ret.Pos()), ok, "dominated by AuthenticateWithReason == true", "a user is returned on a path where the password check did not succeed")
		}
	}
	// AuthenticateWithReason: true-return dominated by !Disabled_, hash present & compare ok
	if fn := c.Func("(*auth.userImpl).AuthenticateWithReason"); fn == nil {
		r.Fail("C12-R1", "anchor (*auth.userImpl).AuthenticateWithReason", "-", "function not found")
	} else {
		disF := c.Field("auth.userImplBody", "Disabled_")
		notDisabled := EdgesWhere(fn, func(cond ssa.Value) (bool, bool) {
			v, pos := BoolTest(cond)
			if f, _ := fieldRead(v); f != nil && f == disF {
				return true, !pos
			}
			return false, false
		})
		var cmpOK []Edge
		for _, call := range c.Calls(fn, false, nameIs("auth.compareHashAndPassword")) {
			cv := valueOfCall(call)
			pos, _ := EdgesOnValue(fn, func(v ssa.Value) bool { return v == cv })
			cmpOK = append(cmpOK, pos...)
		}
		n := 0
		for _, ret := range Returns(fn) {
			if k, ok := ret.Results[0].(*ssa.Const); ok && k.Value != nil && k.Value.String() == "false" {
				continue
			}
			n++
			okD := len(notDisabled) > 0 && DominatedBy(fn, ret, NewAvoid().AddEdge(notDisabled...))
			r.Check("C12-R1", fmt.Sprintf("fn=(*auth.userImpl).AuthenticateWithReason true-exit #%d after=not-disabled", n), c.Pos(ret.Pos()), okD, "dominated by !Disabled_", "password authentication can succeed for a disabled account")
			// either the hash comparison succeeded, or no hash is stored and the empty-password branch is taken (judged by R1b below)
			hashF := c.Field("auth.userImplBody", "PasswordHash_")
			noHash := EdgesWhere(fn, func(cond ssa.Value) (bool, bool) {
				x, trueMeansNil, ok := NilTest(cond)
				if !ok {
					return false, false
				}
				if f, _ := fieldRead(x); f == hashF {
					return true, trueMeansNil
				}
				return false, false
			})
			okC := len(cmpOK) > 0 && DominatedBy(fn, ret, NewAvoid().AddEdge(cmpOK...).AddEdge(noHash...))
			r.Check("C12-R1", fmt.Sprintf("fn=(*auth.userImpl).AuthenticateWithReason true-exit #%d after=hash-compare-ok|no-hash", n), c.Pos(ret.Pos()), okC, "dominated by compareHashAndPassword == true, or no hash stored", "password authentication can succeed although the stored hash did not match")
		}
	}
	// session paths
	for _, s := range []struct {
		fn      string
		idx     int
		disable bool // the disabled-account check is required in this function
	}{{"(*auth.Authenticator).AuthenticateCookie", 0, true}, {"(*auth.Authenticator).GetSession", 1, false}} {
		fn := c.Func(s.fn)
		if fn == nil {
			r.Fail("C12-R1", "anchor "+s.fn, "-", "function not found")
			continue
		}
		// epoch-equal edges: BinOp on (session.SessionUUID, user.GetSessionUUID())
		eq := EdgesWhere(fn, func(cond ssa.Value) (bool, bool) {
			b, ok := cond.(*ssa.BinOp)
			if !ok || (b.Op != token.EQL && b.Op != token.NEQ) {
				return false, false
			}
			isU := func(v ssa.Value) bool { f, _ := fieldRead(v); return f == uuidF }
			isG := func(v ssa.Value) bool {
				call, ok := v.(*ssa.Call)
				return ok && CalleeIdent(call) == "GetSessionUUID"
			}
			if (isU(b.X) && isG(b.Y)) || (isU(b.Y) && isG(b.X)) {
				return true, b.Op == token.EQL
			}
			return false, false
		})
		// user non-nil edges
		var userVals []ssa.Value
		for _, call := range c.Calls(fn, false, nameIs("(*auth.Authenticator).GetUser")) {
			for _, e := range resultValues(call.(*ssa.Call), 0) {
				userVals = append(userVals, e)
			}
		}
		nn, _ := EdgesOnValue(fn, func(v ssa.Value) bool {
			for _, u := range userVals {
				if v == u {
					return true
				}
			}
			return false
		})
		notDis := c12NotDisabledEdges(c, fn)
		for i, ret := range userYieldingReturns(fn, s.idx) {
			base := fmt.Sprintf("fn=%s user-exit #%d", s.fn, i+1)
			r.Check("C12-R1", base+" after=session-epoch-equals-user-epoch", c.Pos(ret.Pos()), len(eq) > 0 && DominatedBy(fn, ret, NewAvoid().AddEdge(eq...)),
				"dominated by SessionUUID == user.GetSessionUUID()", "a session issued before a password change (different epoch) can authenticate")
			r.Check("C12-R1", base+" after=user-exists", c.Pos(ret.Pos()), len(nn) > 0 && DominatedBy(fn, ret, NewAvoid().AddEdge(nn...)),
				"dominated by user != nil", "a session of a deleted user can authenticate")
			if s.disable {
				r.Check("C12-R1", base+" after=not-disabled", c.Pos(ret.Pos()), len(notDis) > 0 && DominatedBy(fn, ret, NewAvoid().AddEdge(notDis...)),
					"dominated by !user.Disabled()", "the session path never tests user.Disabled(): a session created before the account was disabled still authenticates (the password path rejects disabled accounts)")
			}
		}
	}
	// one-time session path: yields the user GetSession validated, only if not disabled
	if fn := c.Func("(*auth.Authenticator).AuthenticateOneTimeSession"); fn == nil {
		r.Fail("C12-R1", "anchor (*auth.Authenticator).AuthenticateOneTimeSession", "-", "function not found")
	} else {
		var okEdges []Edge
		for _, call := range c.Calls(fn, false, nameIs("(*auth.Authenticator).GetSession")) {
			ev := errValueOf(call.(*ssa.Call))
			_, neg := EdgesOnValue(fn, func(v ssa.Value) bool { return unwrapLoadFree(v) == ev })
			okEdges = append(okEdges, neg...)
		}
		notDis := c12NotDisabledEdges(c, fn)
		for i, ret := range userYieldingReturns(fn, 0) {
			base := fmt.Sprintf("fn=(*auth.Authenticator).AuthenticateOneTimeSession user-exit #%d", i+1)
			fromGS := DependsOn(ret.Results[0], c.ResultOf(1, nameIs("(*auth.Authenticator).GetSession")))
			r.Check("C12-R1", base+" after=GetSession-validated", c.Pos(ret.Pos()), fromGS && len(okEdges) > 0 && DominatedBy(fn, ret, NewAvoid().AddEdge(okEdges...)),
				"user is the one GetSession validated, on its success edge", "a user is returned that GetSession did not validate")
			r.Check("C12-R1", base+" after=not-disabled", c.Pos(ret.Pos()), len(notDis) > 0 && DominatedBy(fn, ret, NewAvoid().AddEdge(notDis...)),
				"dominated by !user.Disabled()", "the one-time session path never tests user.Disabled(): a session created before the account was disabled still authenticates")
		}
	}
}

// c12NotDisabledEdges: branch edges of fn on which a Disabled() result is known false.
func c12NotDisabledEdges(c *Ctx, fn *ssa.Function) []Edge {
	var notDis []Edge
	for _, call := range c.Calls(fn, false, func(n string) bool { return n == "(auth.User).Disabled" || n == "(*auth.userImpl).Disabled" }) {
		cv := valueOfCall(call)
		_, neg := EdgesOnValue(fn, func(v ssa.Value) bool { return v == cv })
		notDis = append(notDis, neg...)
	}
	return notDis
}

func c12R2(c *Ctx, r *Report) {
	r.Rule("C12-R2", "E2 pathrules + E5 failedge (strict)", "one-time sessions: user-yielding exits are dominated by the success edge of deleteOneTimeSession; every failure of its Delete (not-found included) returns an error; the TTL refresh write is skipped for one-time sessions", 4)
	for _, s := range []struct {
		fn  string
		idx int
	}{{"(*auth.Authenticator).AuthenticateCookie", 0}, {"(*auth.Authenticator).AuthenticateOneTimeSession", 0}} {
		fn := c.Func(s.fn)
		if fn == nil {
			r.Fail("C12-R2", "anchor "+s.fn, "-", "function not found")
			continue
		}
		var okEdges []Edge
		for _, call := range c.Calls(fn, false, nameIs("(*auth.Authenticator).deleteOneTimeSession")) {
			cv := valueOfCall(call)
			_, neg := EdgesOnValue(fn, func(v ssa.Value) bool { return unwrapLoadFree(v) == cv })
			okEdges = append(okEdges, neg...)
		}
		for i, ret := range userYieldingReturns(fn, s.idx) {
			ok := len(okEdges) > 0 && DominatedBy(fn, ret, NewAvoid().AddEdge(okEdges...))
			r.Check("C12-R2", fmt.Sprintf("fn=%s user-exit #%d after=one-time-session-consumed", s.fn, i+1), c.Pos(ret.Pos()), ok, "dominated by deleteOneTimeSession == nil", "a user is returned without the one-time session having been consumed first: the same one-time session could authenticate again")
		}
	}
	// strict failure discipline inside deleteOneTimeSession
	if fn := c.Func("(*auth.Authenticator).deleteOneTimeSession"); fn == nil {
		r.Fail("C12-R2", "anchor (*auth.Authenticator).deleteOneTimeSession", "-", "function not found")
	} else {
		fe := newFailEdge(c)
		n := 0
		for _, call := range c.Calls(fn, false, nameHasSuffix(".Delete")) {
			cv, ok := call.(*ssa.Call)
			if !ok {
				continue
			}
			n++
			s := fe.classifyStrict(fn, cv)
			r.Check("C12-R2", fmt.Sprintf("fn=(*auth.Authenticator).deleteOneTimeSession delete #%d every-failure-is-error", n), c.Pos(call.Pos()), s.Verdict == "propagating",
				"every failure edge of the Delete (including not-found) reaches an error return", "a failed deletion of the one-time session (e.g. not-found because a concurrent request consumed it) is treated as success: "+s.Detail)
		}
		if n == 0 {
			r.Fail("C12-R2", "fn=(*auth.Authenticator).deleteOneTimeSession delete", c.Pos(fn.Pos()), "the one-time session is no longer deleted")
		}
		// the non-one-time early exit must test the OneTime flag
		oneF := c.Field("auth.LoginSession", "OneTime")
		tests := 0
		for _, i := range Ifs(fn) {
			if x, _, ok := NilTest(i.Cond); ok {
				if f, _ := fieldRead(x); f == oneF {
					tests++
				}
			}
		}
		r.Check("C12-R2", "fn=(*auth.Authenticator).deleteOneTimeSession tests=OneTime", c.Pos(fn.Pos()), tests > 0, "OneTime flag decides whether to consume", "OneTime flag not consulted")
	}
	// cookie refresh skipped for one-time sessions
	if fn := c.Func("(*auth.Authenticator).AuthenticateCookie"); fn != nil {
		oneF := c.Field("auth.LoginSession", "OneTime")
		notOne := EdgesWhere(fn, func(cond ssa.Value) (bool, bool) {
			if x, trueMeansNil, ok := NilTest(cond); ok {
				if f, _ := fieldRead(x); f == oneF {
					return true, trueMeansNil
				}
			}
			v, pos := BoolTest(cond)
			if ad, ok := loadOf(v); ok {
				if f, _ := fieldRead(ad); f == oneF {
					return true, !pos
				}
			}
			return false, false
		})
		n := 0
		for _, call := range c.Calls(fn, false, nameHasSuffix(".Set")) {
			if !isStorageIface(call) {
				continue
			}
			n++
			ok := len(notOne) > 0 && DominatedBy(fn, call, NewAvoid().AddEdge(notOne...))
			r.Check("C12-R2", fmt.Sprintf("fn=(*auth.Authenticator).AuthenticateCookie refresh-write #%d only-if=not-one-time", n), c.Pos(call.Pos()), ok, "dominated by OneTime == nil || !*OneTime", "the TTL refresh can re-write a one-time session document: a concurrent presentation could find it again after it was consumed")
		}
	}
}

// classifyStrict: like Classify but with no absence predicates and no handled sentinels — every failure must reach an error return.
func (fe *failEdge) classifyStrict(fn *ssa.Function, call *ssa.Call) failSite {
	saveA, saveS := absencePredicates, handledSentinels
	absencePredicates, handledSentinels = map[string]bool{}, map[string]bool{}
	defer func() { absencePredicates, handledSentinels = saveA, saveS }()
	return fe.classify(fn, call, true, "")
}

func c12R3(c *Ctx, r *Report) {
	r.Rule("C12-R3", "E2 pathrules", "every store to the password hash is accompanied by a session-epoch bump (UpdateSessionUUID) on every path through it; the rehash CAS callback changes the password only when the freshly loaded hash has a different bcrypt cost", 3)
	hashF := c.Field("auth.userImplBody", "PasswordHash_")
	if hashF == nil {
		r.Fail("C12-R3", "anchor auth.userImpl.PasswordHash_", "-", "field not found")
		return
	}
	exempt := map[string]string{
		"(*auth.userImpl).UnmarshalJSON": "decoding a stored user",
	}
	isRet := func(in ssa.Instruction) bool { _, ok := in.(*ssa.Return); return ok }
	cnt := map[string]int{}
	for _, st := range c.storesToField(hashF) {
		fn := st.Parent()
		name := c.FuncName(fn)
		if _, ok := exempt[c.FuncName(TopLevel(fn))]; ok {
			continue
		}
		if isFreshAlloc(st.Addr.(*ssa.FieldAddr).X) {
			continue
		}
		cnt[name]++
		var bumps []ssa.Instruction
		for _, call := range c.Calls(fn, false, func(n string) bool {
			return n == "(*auth.userImpl).UpdateSessionUUID" || n == "(auth.User).UpdateSessionUUID"
		}) {
			bumps = append(bumps, call)
		}
		before := len(bumps) > 0 && DominatedBy(fn, st, NewAvoid().AddInstr(bumps...))
		after := len(bumps) > 0 && ReachAfter(st, isRet, NewAvoid().AddInstr(bumps...)) == nil
		r.Check("C12-R3", fmt.Sprintf("fn=%s store=userImpl.PasswordHash_ #%d with=UpdateSessionUUID", name, cnt[name]), c.Pos(st.Pos()), before || after,
			"epoch bumped on every path through this store", "the password hash can change on a path that does not bump the session epoch: sessions issued before the password change keep authenticating")
	}
	// rehash callback
	if fn := c.Func("(*auth.Authenticator).rehashPassword"); fn == nil {
		r.Fail("C12-R3", "anchor (*auth.Authenticator).rehashPassword", "-", "function not found")
	} else {
		n := 0
		for _, lit := range fn.AnonFuncs {
			for _, call := range c.Calls(lit, false, func(nm string) bool { return nm == "(*auth.userImpl).SetPassword" || nm == "(auth.User).SetPassword" }) {
				n++
				// dominated by an edge whose condition depends on bcrypt.Cost(<hash of a value derived from the literal's parameter>)
				edges := EdgesWhere(lit, func(cond ssa.Value) (bool, bool) {
					dep := DependsOn(cond, func(v ssa.Value) bool {
						cc, ok := v.(*ssa.Call)
						if !ok || c.CalleeName(cc) != "golang.org/x/crypto/bcrypt.Cost" {
							return false
						}
						return DependsOn(cc.Call.Args[0], func(x ssa.Value) bool { p, ok := x.(*ssa.Parameter); return ok && p.Parent() == lit })
					})
					if !dep {
						return false, false
					}
					return true, true
				})
				var both []Edge
				for _, e := range edges {
					both = append(both, e, Edge{e.From, 1 - e.Succ})
				}
				// the SetPassword must lie strictly on one side of such a test: removing the edges into the side containing it disconnects it
				ok := false
				for _, e := range both {
					if DominatedBy(lit, call, NewAvoid().AddEdge(e)) {
						ok = true
					}
				}
				r.Check("C12-R3", fmt.Sprintf("fn=(*auth.Authenticator).rehashPassword$callback SetPassword #%d decided-on=fresh-hash-cost", n), c.Pos(call.Pos()), ok,
					"control-dependent on bcrypt.Cost of the hash of the principal handed to the callback", "the rehash callback rewrites the password without re-checking the freshly loaded hash: after a CAS retry it would overwrite a concurrent password change with the old password")
			}
		}
		if n == 0 {
			r.Pass("C12-R3", "fn=(*auth.Authenticator).rehashPassword$callback no-SetPassword", c.Pos(fn.Pos()), "callback does not set passwords")
		}
		// … and only after the password was verified against that same freshly loaded hash: the caller verified it against the copy
		// of the user it had loaded, which a concurrent password change makes stale by the time the callback re-runs.
		k := 0
		for _, lit := range fn.AnonFuncs {
			for _, call := range c.Calls(lit, false, func(nm string) bool { return nm == "(*auth.userImpl).SetPassword" || nm == "(auth.User).SetPassword" }) {
				k++
				var okEdges []Edge
				for _, cmp := range c.Calls(lit, false, nameIs("golang.org/x/crypto/bcrypt.CompareHashAndPassword", "auth.compareHashAndPassword")) {
					a := cmp.Common().Args
					hashArg := a[0]
					if c.CalleeName(cmp) == "auth.compareHashAndPassword" {
						hashArg = a[1]
					}
					if !DependsOn(hashArg, func(x ssa.Value) bool { p, ok := x.(*ssa.Parameter); return ok && p.Parent() == lit }) {
						continue
					}
					cv := valueOfCall(cmp)
					pos, neg := EdgesOnValue(lit, func(v ssa.Value) bool { return unwrapLoadFree(v) == cv })
					if isErrorType(cv.Type()) {
						okEdges = append(okEdges, neg...)
					} else {
						okEdges = append(okEdges, pos...)
					}
				}
				ok := len(okEdges) > 0 && DominatedBy(lit, call, NewAvoid().AddEdge(okEdges...))
				r.Check("C12-R3", fmt.Sprintf("fn=(*auth.Authenticator).rehashPassword$callback SetPassword #%d only-if=password-matches-fresh-hash", k), c.Pos(call.Pos()), ok,
					"the password is re-verified against the hash of the principal handed to the callback", "the rehash callback re-hashes the password it was given without verifying it against the freshly loaded hash: when the password was changed concurrently (CAS retry) the old password is written back and authenticates again while the new one is rejected")
			}
		}
	}
}

func c12R4(c *Ctx, r *Report) {
	r.Rule("C12-R4", "E2 pathrules + E3 whomay", "the verified-password cache is written only after bcrypt.CompareHashAndPassword returned nil, with a key derived from both the hash and the password; cache.Put has one caller", 3)
	fn := c.Func("auth.compareHashAndPassword")
	if fn == nil {
		r.Fail("C12-R4", "anchor auth.compareHashAndPassword", "-", "function not found")
		return
	}
	var okEdges []Edge
	for _, call := range c.Calls(fn, false, nameIs("golang.org/x/crypto/bcrypt.CompareHashAndPassword")) {
		cv := valueOfCall(call)
		_, neg := EdgesOnValue(fn, func(v ssa.Value) bool { return unwrapLoadFree(v) == cv })
		okEdges = append(okEdges, neg...)
	}
	puts := c.Calls(fn, false, nameIs("(auth.Cache).Put"))
	for i, p := range puts {
		ok := len(okEdges) > 0 && DominatedBy(fn, p, NewAvoid().AddEdge(okEdges...))
		r.Check("C12-R4", fmt.Sprintf("fn=auth.compareHashAndPassword cache-put #%d after=bcrypt-ok", i+1), c.Pos(p.Pos()), ok, "dominated by CompareHashAndPassword == nil", "a password can be remembered as verified without the full bcrypt comparison succeeding")
		key := p.Common().Args[0]
		dH := c12KeyDependsOnParam(key, 1)
		dP := c12KeyDependsOnParam(key, 2)
		r.Check("C12-R4", fmt.Sprintf("fn=auth.compareHashAndPassword cache-put #%d key=f(hash,password)", i+1), c.Pos(p.Pos()), dH && dP, "key depends on hash and password", "cache key does not depend on both the hash and the password: a hit for one user/password would vouch for another")
	}
	// true-returns: either cache hit on that same key, or bcrypt ok
	var hitEdges []Edge
	for _, call := range c.Calls(fn, false, nameIs("(auth.Cache).Contains")) {
		cv := valueOfCall(call)
		pos, _ := EdgesOnValue(fn, func(v ssa.Value) bool { return v == cv })
		hitEdges = append(hitEdges, pos...)
		key := call.Common().Args[0]
		dH := c12KeyDependsOnParam(key, 1)
		dP := c12KeyDependsOnParam(key, 2)
		r.Check("C12-R4", "fn=auth.compareHashAndPassword cache-lookup key=f(hash,password)", c.Pos(call.Pos()), dH && dP, "lookup key depends on hash and password", "cache lookup key does not depend on both the hash and the password")
	}
	n := 0
	for _, ret := range Returns(fn) {
		if k, ok := ret.Results[0].(*ssa.Const); ok && k.Value != nil && k.Value.String() == "false" {
			continue
		}
		n++
		ok := DominatedBy(fn, ret, NewAvoid().AddEdge(okEdges...).AddEdge(hitEdges...))
		r.Check("C12-R4", fmt.Sprintf("fn=auth.compareHashAndPassword true-exit #%d after=hit|bcrypt-ok", n), c.Pos(ret.Pos()), ok, "true only after a cache hit or a successful bcrypt comparison", "the fast path can accept a password without a cache hit or a successful comparison")
	}
	// single writer of cachedHashes via Put
	writers := 0
	bad := ""
	for _, g := range c.ScopeFuncs() {
		if g.Pkg == nil || g.Pkg.Pkg.Name() != "auth" {
			continue
		}
		for _, call := range c.Calls(g, false, func(nm string) bool {
			return nm == "(auth.Cache).Put" || nm == "(*auth.RandReplKeyCache).Put" || nm == "(*auth.NoReplKeyCache).Put"
		}) {
			writers++
			if c.FuncName(TopLevel(g)) != "auth.compareHashAndPassword" {
				bad = c.FuncName(g) + "@" + c.Pos(call.Pos())
			}
		}
	}
	r.Check("C12-R4", "verified-password-cache writers=compareHashAndPassword", "-", bad == "" && writers > 0, fmt.Sprintf("%d Put call(s), all in compareHashAndPassword", writers), "another function fills the verified-password cache: "+bad)
}

func c12R5(c *Ctx, r *Report) {
	r.Rule("C12-R5", "E3 whomay + def-use", "handler.user is assigned only from authenticator results (or listed re-fetches of the authenticated name), and checkPublicAuth resets it first", 5)
	userF := c.Field("rest.handler", "user")
	if userF == nil {
		r.Fail("C12-R5", "anchor rest.handler.user", "-", "field not found")
		return
	}
	authCalls := nameIs("(*auth.Authenticator).AuthenticateUntrustedJWT", "(*auth.Authenticator).AuthenticateUser", "(*auth.Authenticator).AuthenticateOneTimeSession", "(*auth.Authenticator).AuthenticateCookie")
	rows := map[string]string{
		"(*rest.handler).makeSessionWithTTL": "session POST handlers: the user was authenticated by the caller (password / OIDC) immediately before",
		"(*rest.handler).validateAndWriteHeaders": "re-fetch of the already authenticated OIDC user after its principal was updated",
	}
	cnt := map[string]int{}
	for _, st := range c.storesToField(userF) {
		fn := st.Parent()
		name := c.FuncName(TopLevel(fn))
		cnt[name]++
		construct := fmt.Sprintf("fn=%s store=handler.user #%d", name, cnt[name])
		pos := c.Pos(st.Pos())
		if isNilConst(st.Val) {
			r.Pass("C12-R5", construct, pos, "reset to nil")
			continue
		}
		if name == "(*rest.handler).setUserForPublicAuth" {
			fromAuth := DependsOn(st.Val, c.ResultOf(0, authCalls))
			fromGet := DependsOn(st.Val, c.ResultOf(0, nameIs("(*auth.Authenticator).GetUser")))
			if fromAuth {
				r.Pass("C12-R5", construct, pos, "value is an authenticator result")
				continue
			}
			if fromGet {
				// guest fetch GetUser("") must be followed by the Disabled check; the post-JWT refetch must be dominated by a successful JWT authentication
				var jwtStores []ssa.Instruction
				for _, s2 := range c.storesToField(userF) {
					if s2.Parent() == fn && DependsOn(s2.Val, c.ResultOf(0, nameIs("(*auth.Authenticator).AuthenticateUntrustedJWT"))) {
						jwtStores = append(jwtStores, s2)
					}
				}
				afterJWT := len(jwtStores) > 0 && DominatedBy(fn, st, NewAvoid().AddInstr(jwtStores...))
				guest := false
				DependsOn(st.Val, func(v ssa.Value) bool {
					if call, ok := v.(*ssa.Call); ok && c.CalleeName(call) == "(*auth.Authenticator).GetUser" {
						if s, ok := constString(callArgs(call)[0]); ok && s == "" {
							guest = true
						}
					}
					return false
				})
				if guest {
					// a Disabled() call must be reachable after the store before a nil-error return for regular privileges
					dis := c.Calls(fn, false, func(n string) bool { return n == "(auth.User).Disabled" })
					ok := false
					for _, d := range dis {
						if ReachAfter(st, func(in ssa.Instruction) bool { return in == ssa.Instruction(d) }, nil) != nil {
							ok = true
						}
					}
					r.Check("C12-R5", construct, pos, ok, "guest user fetch followed by the guest-disabled check", "guest user installed without checking that guest access is enabled")
					continue
				}
				r.Check("C12-R5", construct, pos, afterJWT, "re-fetch after a successful JWT authentication", "handler.user assigned from a plain user lookup that is not preceded by an authentication")
				continue
			}
			r.Fail("C12-R5", construct, pos, "handler.user assigned from a value that is not an authenticator result")
			continue
		}
		if reason, ok := rows[name]; ok {
			r.Pass("C12-R5", construct, pos, "table: "+reason)
			continue
		}
		r.Fail("C12-R5", construct, pos, "handler.user assigned outside the public-auth path and the listed exceptions")
	}
	// reset first
	if fn := c.Func("(*rest.handler).checkPublicAuth"); fn != nil {
		var resets []ssa.Instruction
		for _, st := range c.storesToField(userF) {
			if st.Parent() == fn && isNilConst(st.Val) {
				resets = append(resets, st)
			}
		}
		calls := c.Calls(fn, false, nameIs("(*rest.handler).setUserForPublicAuth"))
		ok := len(resets) > 0 && len(calls) > 0
		for _, call := range calls {
			if !DominatedBy(fn, call, NewAvoid().AddInstr(resets...)) {
				ok = false
			}
		}
		r.Check("C12-R5", "fn=(*rest.handler).checkPublicAuth reset-before-auth", c.Pos(fn.Pos()), ok, "h.user = nil dominates setUserForPublicAuth", "a user left over from earlier processing could survive a failed authentication")
	} else {
		r.Fail("C12-R5", "anchor (*rest.handler).checkPublicAuth", "-", "function not found")
	}
	// setUserForPublicAuth: nil-error returns after an authenticator call are on that call's success edge or with h.user checked non-nil
	_ = types.Typ
}

// C12-R6: a session exists only from its creation to its deletion/expiry. Only CreateSession may write a session document
// unconditionally; every other write to a session key must be unable to re-create a session that was deleted since it was read.
func c12R6(c *Ctx, r *Report) {
	r.Rule("C12-R6", "E3 whomay + E2 pathrules", "session documents are created only by CreateSession; any other write to a session key is conditional on the document still existing (Update whose callback cancels when there is no current value, Touch, or a CAS write carrying a previously read CAS)", 5)
	n := 0
	for _, fn := range c.ScopeFuncs() {
		if fn.Pkg == nil || fn.Pkg.Pkg.Name() != "auth" {
			continue
		}
		for _, call := range c.Calls(fn, false, func(string) bool { return true }) {
			cc := call.Common()
			if !cc.IsInvoke() {
				continue
			}
			args := cc.Args
			if len(args) < 2 || !DependsOn(args[1], c.ResultOf(0, nameHasSuffix(".DocIDForSession"))) {
				continue
			}
			n++
			op := cc.Method.Name()
			top := c.FuncName(TopLevel(fn))
			construct := fmt.Sprintf("fn=%s session-doc op=%s #%d", top, op, n)
			switch op {
			case "Get", "GetRaw", "Delete", "Remove", "Touch", "GetAndTouchRaw", "Exists":
				r.Pass("C12-R6", fmt.Sprintf("fn=%s session-doc op=%s", top, op), c.Pos(call.Pos()), "read, delete or expiry touch: cannot create a session")
			case "Set", "SetRaw", "Add", "AddRaw":
				ok := top == "(*auth.Authenticator).CreateSession"
				r.Check("C12-R6", fmt.Sprintf("fn=%s session-doc op=%s unconditional-write only-in=CreateSession", top, op), c.Pos(call.Pos()), ok, "session creation", "a session document is written unconditionally outside CreateSession: if the session was deleted (logout, admin revocation, one-time use) after it was read, this write re-creates it and the revoked session authenticates again")
			case "WriteCas":
				k, isK := constInt(args[len(args)-3])
				_ = k
				r.Check("C12-R6", construct+" cas=previously-read", c.Pos(call.Pos()), !isK, "CAS-conditional write", "a session document is written with a constant CAS")
			case "Update":
				// callback: on the no-current-value edge it must fail/cancel
				ok := false
				var lit *ssa.Function
				switch cb := unwrap(args[len(args)-1]).(type) {
				case *ssa.MakeClosure:
					lit, _ = cb.Fn.(*ssa.Function)
				case *ssa.Function:
					lit = cb
				}
				if lit != nil && len(lit.Params) > 0 {
					cur := lit.Params[0]
					absent := EdgesWhere(lit, func(cond ssa.Value) (bool, bool) {
						if x, trueMeansNil, isNil := NilTest(cond); isNil && x == ssa.Value(cur) {
							return true, trueMeansNil
						}
						// len(current) == 0
						if b, isB := cond.(*ssa.BinOp); isB {
							if l, isCall := b.X.(*ssa.Call); isCall {
								if bi, isBuiltin := l.Call.Value.(*ssa.Builtin); isBuiltin && bi.Name() == "len" && l.Call.Args[0] == ssa.Value(cur) {
									if k, isK := constInt(b.Y); isK && k == 0 {
										switch b.Op {
										case token.EQL:
											return true, true
										case token.NEQ, token.GTR:
											return true, false
										}
									}
								}
							}
						}
						return false, false
					})
					ok = len(absent) > 0
					for _, e := range absent {
						if ReachFrom(e.To(), 0, func(in ssa.Instruction) bool {
							ret, isRet := in.(*ssa.Return)
							return isRet && isNilConst(unwrapLoadFree(ret.Results[len(ret.Results)-1]))
						}, nil) != nil {
							ok = false
						}
					}
				}
				r.Check("C12-R6", fmt.Sprintf("fn=%s session-doc op=Update cancels-when=no-current-value", top), c.Pos(call.Pos()), ok, "the refresh cannot re-create a deleted session", "the update callback does not fail when the session document no longer exists: a deleted session is re-created by the refresh")
			default:
				r.Fail("C12-R6", construct+" unknown-operation", c.Pos(call.Pos()), "unrecognised storage operation on a session key (undecided, treated as failure)")
			}
		}
	}
}

// c12KeyDependsOnParam: key derives from parameter `param` of the enclosing function; when key is the result of a helper with a
// body (authKey), the helper's result must itself derive from the argument that carries the parameter.
func c12KeyDependsOnParam(key ssa.Value, param int) bool {
	isP := func(v ssa.Value) bool { return isParam(v, param) }
	if cc, ok := unwrapLoadFree(key).(*ssa.Call); ok {
		if cal := cc.Call.StaticCallee(); cal != nil && len(cal.Blocks) > 0 {
			for i, a := range cc.Call.Args {
				if !DependsOn(a, isP) {
					continue
				}
				through := true
				// objects fed with the parameter (hash.Write(password)): a result derived from such an object derives from it
				fed := map[ssa.Value]bool{}
				EachInstr(cal, false, func(in ssa.Instruction) {
					if ci, ok := in.(ssa.CallInstruction); ok {
						cm := ci.Common()
						for _, x := range cm.Args {
							if isParam(x, i) {
								if cm.IsInvoke() {
									fed[cm.Value] = true
								} else if len(cm.Args) > 0 && !isParam(cm.Args[0], i) {
									fed[cm.Args[0]] = true
								}
							}
						}
					}
				})
				for _, ret := range Returns(cal) {
					if !DependsOn(ret.Results[0], func(v ssa.Value) bool { return isParam(v, i) || fed[v] }) {
						through = false
					}
				}
				if through {
					return true
				}
			}
			return false
		}
	}
	return DependsOn(key, isP)
}
