package main

import (
	"fmt"
	"go/token"
	"go/types"
	"sort"
	"strings"

	"golang.org/x/tools/go/ssa"
)

func init() { registry["C09"] = checkC09 }

var sgWriteFns = nameIs("(*db.Document).IsSGWrite", "(*db.SyncData).IsSGWrite", "(*db.SyncData).IsSGWriteXattrOnly")

// notOwnWriteEdges: branch edges of fn on which an IsSGWrite-family verdict (result 0) is known false, and those on which it is known true.
func ownWriteEdges(c *Ctx, fn *ssa.Function) (isOwn, notOwn []Edge) {
	var vals []ssa.Value
	for _, call := range c.Calls(fn, false, sgWriteFns) {
		if cv, ok := call.(*ssa.Call); ok {
			for _, e := range resultValues(cv, 0) {
				vals = append(vals, e)
			}
		}
	}
	pos, neg := EdgesOnValue(fn, func(v ssa.Value) bool {
		v = unwrapLoadFree(v)
		for _, x := range vals {
			if v == x {
				return true
			}
			// merged verdict variables (declared before an if/else): phi of verdicts and the initial false
			if phi, ok := v.(*ssa.Phi); ok {
				for _, e := range phi.Edges {
					if e == x {
						return true
					}
				}
			}
		}
		return false
	})
	return pos, neg
}

func checkC09(c *Ctx, r *Report) {
	r.Explain = "Decides structural necessary conditions of 'external writes imported once, own writes never': (R1) every on-demand and feed import is issued only on the edge where the own-write predicate (IsSGWrite family) is false for that document (or no sync metadata exists); (R2) the import's update callback re-evaluates the predicate on the freshly loaded document inside the CAS loop and cancels with 'already imported' on the own-write edge before mutating anything; (R3) the three sibling implementations of the own-write predicate agree on every valuation of their shared atoms (CAS equal, body CRC equal, user-xattr changed, stored CV present, CV extraction outcome, CV equal, delete marker); (R4) the caching feed forwards a document mutation to the change cache only on the own-write edge (with the ambiguous xattr-only answer resolved by the body CRC of the same CAS); (R5) only the listed write paths stamp _sync.cas by macro expansion (a metadata rewrite that does not check who wrote the body must not claim the body), and feed-triggered metadata rewrites use the CAS of the event that triggered them. every function that hands the sync xattr to the bucket stamps _sync.cas unless it is a listed metadata-only rewrite; (R6) an on-demand import that lost the CAS race re-reads its input (body and bucket document) from the freshly loaded document before using it again.; (R7) the delete marker handed to an import describes the document found in the bucket, never the request that triggered the import.; (R8) _mou.cas is stamped only by the commit of a write/import, the re-stamp of the writer's own commit, or a metadata-only rewrite that has established that the loaded document is the gateway's own write. Not decided: parent/generation of the imported revision, redelivery idempotence as a whole, _mou bookkeeping values."
	c09R1(c, r)
	c09R2(c, r)
	c09R3(c, r)
	c09R4(c, r)
	c09R5(c, r)
	c09R6(c, r)
	c09R7(c, r)
	c09R8(c, r)
}

func c09R1(c *Ctx, r *Report) {
	r.Rule("C09-R1", "E2 pathrules", "imports (OnDemandImportForGet / OnDemandImportForWrite / feed ImportDocRaw) are control-dependent on the not-own-write edge of an IsSGWrite-family check", 7)
	importCalls := nameIs("(*db.DatabaseCollection).OnDemandImportForGet", "(*db.DatabaseCollectionWithUser).OnDemandImportForWrite", "(*db.DatabaseCollectionWithUser).ImportDocRaw", "(*db.DatabaseCollection).ImportDocRaw")
	// wrappers that merely forward to the import (the gate is at their callers)
	forwarders := map[string]string{
		"(*db.DatabaseCollection).OnDemandImportForGet":           "performs the import; gated at its callers",
		"(*db.DatabaseCollectionWithUser).OnDemandImportForWrite": "performs the import; gated at its callers",
	}
	n := 0
	for _, fn := range c.ScopeFuncs() {
		calls := c.Calls(fn, false, importCalls)
		if len(calls) == 0 {
			continue
		}
		top := c.FuncName(TopLevel(fn))
		if _, ok := forwarders[top]; ok {
			continue
		}
		_, notOwn := ownWriteEdges(c, fn)
		// "no sync metadata" edges: syncData == nil
		noMeta := EdgesWhere(fn, func(cond ssa.Value) (bool, bool) {
			x, trueMeansNil, ok := NilTest(cond)
			if !ok {
				return false, false
			}
			if p, isPtr := x.Type().(*types.Pointer); isPtr && namedOf(p.Elem()) == "SyncData" {
				return true, trueMeansNil
			}
			return false, false
		})
		for _, call := range calls {
			n++
			ok := len(notOwn) > 0 && DominatedBy(fn, call, NewAvoid().AddEdge(notOwn...).AddEdge(noMeta...))
			r.Check("C09-R1", fmt.Sprintf("fn=%s import=%s #%d only-if=not-own-write", c.FuncName(fn), CalleeIdent(call), n), c.Pos(call.Pos()), ok,
				"dominated by IsSGWrite == false (or no sync metadata)", "an import can be issued for a document without first establishing that it is not the gateway's own write: own writes would be re-imported (import loop / extra revisions)")
		}
	}
}

func c09R2(c *Ctx, r *Report) {
	r.Rule("C09-R2", "E2 pathrules", "importDoc's CAS callback re-checks IsSGWrite on the callback's document and returns ErrAlreadyImported on the own-write edge before any mutation", 2)
	fn := c.Func("(*db.DatabaseCollectionWithUser).importDoc")
	if fn == nil {
		r.Fail("C09-R2", "anchor importDoc", "-", "function not found")
		return
	}
	lits, _ := casCallbackContext(c)
	var lit *ssa.Function
	for _, l := range fn.AnonFuncs {
		if lits[l] {
			lit = l
		}
	}
	if lit == nil {
		r.Fail("C09-R2", "fn=importDoc CAS-callback", c.Pos(fn.Pos()), "update callback not found")
		return
	}
	checks := c.Calls(lit, false, nameIs("(*db.Document).IsSGWrite"))
	okDoc := false
	for _, call := range checks {
		if DependsOn(call.Common().Args[0], func(v ssa.Value) bool { p, ok := v.(*ssa.Parameter); return ok && p.Parent() == lit }) {
			okDoc = true
		}
	}
	r.Check("C09-R2", "fn=importDoc$callback rechecks=IsSGWrite(callback-doc)", c.Pos(lit.Pos()), okDoc, "own-write predicate evaluated on the document handed to the callback", "the import callback no longer re-checks the freshly loaded document: a feed import racing an on-demand import would import twice")
	isOwn, _ := ownWriteEdges(c, lit)
	// on the own-write edge the callback returns ErrAlreadyImported without reaching addRevision / body updates
	okCancel := len(isOwn) > 0
	for _, e := range isOwn {
		hit := ReachFrom(e.To(), 0, func(in ssa.Instruction) bool {
			if call, ok := in.(ssa.CallInstruction); ok {
				n := CalleeIdent(call)
				return n == "addRevision" || n == "UpdateBody" || n == "setRevisionBody"
			}
			return false
		}, nil)
		if hit != nil {
			okCancel = false
		}
		ret := ReachFrom(e.To(), 0, func(in ssa.Instruction) bool { _, ok := in.(*ssa.Return); return ok }, nil)
		if rr, ok := ret.(*ssa.Return); ok {
			last := unwrap(rr.Results[len(rr.Results)-1])
			u, isLoad := last.(*ssa.UnOp)
			if !isLoad {
				okCancel = false
			} else if g, isG := u.X.(*ssa.Global); !isG || g.Name() != "ErrAlreadyImported" {
				okCancel = false
			}
		} else {
			okCancel = false
		}
	}
	r.Check("C09-R2", "fn=importDoc$callback own-write-edge cancels=ErrAlreadyImported before-mutation", c.Pos(lit.Pos()), okCancel, "returns ErrAlreadyImported without touching the revision tree", "on the own-write edge the import callback continues (or mutates before cancelling): an already imported document would gain another revision")
}

func c09R4(c *Ctx, r *Report) {
	r.Rule("C09-R4", "E2 pathrules", "DocChanged forwards a document mutation to processEntry only on the own-write edge; the ambiguous xattr-only verdict is resolved by the body CRC fetched at the event's CAS", 3)
	fn := c.Func("(*db.changeCache).DocChanged")
	if fn == nil {
		r.Fail("C09-R4", "anchor DocChanged", "-", "function not found")
		return
	}
	xo := c.Calls(fn, false, nameIs("(*db.SyncData).IsSGWriteXattrOnly"))
	if len(xo) != 1 {
		r.Fail("C09-R4", "fn=(*db.changeCache).DocChanged own-write-check", c.Pos(fn.Pos()), fmt.Sprintf("expected one IsSGWriteXattrOnly call, found %d", len(xo)))
		return
	}
	cv := xo[0].(*ssa.Call)
	var own, amb ssa.Value
	for _, e := range resultValues(cv, 0) {
		own = e
	}
	for _, e := range resultValues(cv, 1) {
		amb = e
	}
	ownPos, _ := EdgesOnValue(fn, func(v ssa.Value) bool { return v == own })
	ambPos, _ := EdgesOnValue(fn, func(v ssa.Value) bool { return v == amb })
	// crc-equal edges: Crc32cHashString(body) == syncData.Crc32c
	crcEq := EdgesWhere(fn, func(cond ssa.Value) (bool, bool) {
		b, ok := cond.(*ssa.BinOp)
		if !ok {
			return false, false
		}
		isHash := func(v ssa.Value) bool { cc, ok := v.(*ssa.Call); return ok && c.CalleeName(cc) == "base.Crc32cHashString" }
		isStored := func(v ssa.Value) bool { f, _ := fieldRead(v); return f != nil && f.Name() == "Crc32c" }
		if (isHash(b.X) && isStored(b.Y)) || (isHash(b.Y) && isStored(b.X)) {
			return true, b.Op.String() == "=="
		}
		return false, false
	})
	pes := c.Calls(fn, false, nameIs("(*db.changeCache).processEntry"))
	if len(pes) == 0 {
		r.Fail("C09-R4", "fn=(*db.changeCache).DocChanged call=processEntry", c.Pos(fn.Pos()), "document mutations are no longer forwarded to the cache")
		return
	}
	for i, pe := range pes {
		// only the document path (after the own-write check) is judged
		if ReachAfter(cv, func(in ssa.Instruction) bool { return in == ssa.Instruction(pe) }, nil) == nil {
			continue
		}
		ok := len(ownPos) > 0 && DominatedBy(fn, pe, NewAvoid().AddEdge(ownPos...).AddEdge(crcEq...))
		r.Check("C09-R4", fmt.Sprintf("fn=(*db.changeCache).DocChanged processEntry #%d only-if=own-write", i+1), c.Pos(pe.Pos()), ok,
			"dominated by isSGWrite == true, or ambiguous resolved by body CRC match", "the caching feed can forward a mutation that is not the gateway's own write: the external write would appear in feeds before it is imported")
	}
	// ambiguous resolution uses the event CAS
	okAmb := len(ambPos) > 0 && len(crcEq) > 0
	casCheck := EdgesWhere(fn, func(cond ssa.Value) (bool, bool) {
		b, ok := cond.(*ssa.BinOp)
		if !ok {
			return false, false
		}
		isEv := func(v ssa.Value) bool { f, _ := fieldRead(v); return f != nil && f.Name() == "Cas" }
		isRead := func(v ssa.Value) bool { e, ok := v.(*ssa.Extract); return ok && e.Index == 1 }
		if (isEv(b.X) && isRead(b.Y)) || (isEv(b.Y) && isRead(b.X)) {
			return true, b.Op.String() == "=="
		}
		return false, false
	})
	for _, e := range crcEq {
		last := e.From.Instrs[len(e.From.Instrs)-1]
		if len(casCheck) == 0 || !DominatedBy(fn, last, NewAvoid().AddEdge(casCheck...)) {
			okAmb = false
		}
	}
	r.Check("C09-R4", "fn=(*db.changeCache).DocChanged ambiguous-verdict resolved-by=body-crc@event-cas", c.Pos(cv.Pos()), okAmb, "body fetched, its CAS compared with the event's, CRC compared with the stored one", "the ambiguous own-write verdict is resolved without checking the body CRC at the event's CAS")
}

func c09R5(c *Ctx, r *Report) {
	r.Rule("C09-R5", "E3 whomay + def-use", "_sync.cas is stamped (CAS macro expansion on the sync xattr) only by the listed writers, each of which owns or has verified the body; feed-triggered metadata rewrites pass the CAS of the triggering event", 4)
	allowed := map[string]string{
		"(*db.DatabaseCollectionWithUser).updateAndReturnDoc":        "the write path: the callback imports or rejects foreign bodies before writing",
		"(*db.DatabaseCollection).updateChannelHistoryCompact":       "",
		"(*db.DatabaseCollectionWithUser).MigrateAttachmentMetadata": "metadata-only move of attachment metadata for an event classified as own write, CAS-guarded by the event CAS",
		"(*db.DatabaseCollectionWithUser).restampVersionCAS":         "re-stamp immediately after this node's own successful write, CAS-guarded by that write's CAS",
		"db.macroExpandSpec":                                         "helper building the spec for the callers above",
	}
	// discover: calls to xattrCasPath(SyncXattrName) or macroExpandSpec(SyncXattrName)
	n := 0
	for _, fn := range c.ScopeFuncs() {
		if fn.Pkg == nil || fn.Pkg.Pkg.Name() != "db" {
			continue
		}
		for _, call := range c.Calls(fn, true, nameIs("db.xattrCasPath", "db.macroExpandSpec")) {
			if fn.Parent() != nil {
				continue // counted at the top-level function through deep=true
			}
			a := call.Common().Args
			if len(a) == 0 {
				continue
			}
			s, ok := constString(a[0])
			if !ok || s != "_sync" {
				continue
			}
			n++
			top := c.FuncName(TopLevel(call.Parent()))
			_, okA := allowed[top]
			if !okA && strings.Contains(top, "compactChannelHistory") || strings.Contains(top, "CompactChannelHistory") || strings.Contains(top, "revokedChannelHistory") {
				okA = true
			}
			if !okA && (top == "(*db.DatabaseCollection).compactRemovedChannelHistory" || strings.HasSuffix(top, "RemoveObsoleteChannelHistory")) {
				okA = true
			}
			r.Check("C09-R5", fmt.Sprintf("fn=%s stamps=_sync.cas #%d", top, n), c.Pos(call.Pos()), okA || c09PrecheckedOwn(c, TopLevel(call.Parent())),
				"listed writer (owns or verified the body)", "a metadata rewrite that does not establish who wrote the body stamps _sync.cas: a pending external body would afterwards be classified as the gateway's own write and never imported")
		}
	}
	// the converse: every function that hands the sync xattr to the bucket also stamps _sync.cas — otherwise the gateway's own
	// rewrite moves the document's CAS away from the recorded one and is imported as if it were an external write — except the
	// listed metadata-only rewrites, which deliberately stamp _mou.cas instead so as not to claim a body they did not check.
	metadataOnly := map[string]string{
		"(*db.DatabaseCollectionWithUser).ResyncDocument": "resync rewrites channels/grants only; it stamps _mou.cas (metadata-only update marker) and must not claim the body (seed C09-A of round 1)",
	}
	writers := c09SyncXattrWriters(c)
	var wn []string
	byName := map[string]*ssa.Function{}
	for f := range writers {
		wn = append(wn, c.FuncName(f))
		byName[c.FuncName(f)] = f
	}
	sort.Strings(wn)
	for _, name := range wn {
		f := byName[name]
		stampsIn := func(h *ssa.Function) bool {
			for _, g := range append([]*ssa.Function{h}, c15Lits(h)...) {
				for _, call := range c.CallsThroughHelpers(g, 1, nameIs("db.xattrCasPath", "db.macroExpandSpec")) {
					if a := call.Common().Args; len(a) > 0 {
						if s, ok := constString(a[0]); ok && s == "_sync" {
							return true
						}
					}
				}
			}
			return false
		}
		stamps := stampsIn(f)
		if !stamps {
			// the mutate-in options (and with them the macro expansions) may be supplied by the callers
			takesOpts := false
			for _, prm := range f.Params {
				if namedOf(prm.Type()) == "MutateInOptions" {
					takesOpts = true
				}
			}
			if takesOpts {
				callers, all := 0, true
				for _, g := range c.ScopeFuncs() {
					if len(c.Calls(g, false, nameIs(name))) > 0 {
						callers++
						if !stampsIn(TopLevel(g)) {
							all = false
						}
					}
				}
				stamps = callers > 0 && all
			}
		}
		mouOnly := false
		if _, listed := metadataOnly[name]; listed {
			mouOnly = len(c.CallsThroughHelpers(f, 1, nameIs("db.XattrMouCasPath"))) > 0
		}
		r.Check("C09-R5", "fn="+name+" writes=_sync stamps=_sync.cas|listed-metadata-only", c.Pos(writers[f].Pos()), stamps || mouOnly,
			"the gateway's rewrite of its own metadata records the CAS it produces", "this function rewrites the document's sync metadata without recording the resulting CAS in _sync.cas (and is not a listed metadata-only rewrite): the gateway's own write is afterwards classified as an external write and imported as a new revision")
	}
	if len(wn) < 3 {
		r.Fail("C09-R5", "sync-xattr writers", "-", fmt.Sprintf("only %d functions found that hand the sync xattr to the bucket", len(wn)))
	}
	// The recorded body hash (_sync.value_crc32c) is only ever filled in by the server through macro expansion: an in-memory
	// document that has just been written does not know it. A writer of the sync xattr therefore either expands value_crc32c too,
	// or sends back sync data it read from the bucket in the same operation (whose recorded hash is the stored one).
	for _, name := range wn {
		f := byName[name]
		stampsCrc := false
		stampIn := func(h *ssa.Function) bool {
			for _, g := range append([]*ssa.Function{h}, c15Lits(h)...) {
				for _, call := range c.CallsThroughHelpers(g, 1, nameIs("db.xattrCrc32cPath", "db.macroExpandSpec")) {
					if a := call.Common().Args; len(a) > 0 {
						if s, ok := constString(a[0]); ok && s == "_sync" {
							return true
						}
					}
				}
			}
			return false
		}
		stampsCrc = stampIn(f)
		if !stampsCrc {
			for _, prm := range f.Params {
				if namedOf(prm.Type()) == "MutateInOptions" {
					callers, all := 0, true
					for _, g := range c.ScopeFuncs() {
						if len(c.Calls(g, false, nameIs(name))) > 0 {
							callers++
							if !stampIn(TopLevel(g)) {
								all = false
							}
						}
					}
					stampsCrc = callers > 0 && all
				}
			}
		}
		readsHere := false
		for _, g := range append([]*ssa.Function{f}, c15Lits(f)...) {
			if len(c.Calls(g, false, nameHasSuffix(".GetWithXattrs", ".GetXattrs", ".GetDocument", ".GetDocumentWithRaw", ".GetDocWithXattrs"))) > 0 {
				readsHere = true
			}
			if g.Parent() != nil {
				// an update callback of the bucket's read-modify-write receives the stored xattrs
				for _, call := range c.Calls(f, false, nameHasSuffix(".WriteUpdateWithXattrs")) {
					for _, a := range call.Common().Args {
						if mc, ok := unwrap(a).(*ssa.MakeClosure); ok && mc.Fn == ssa.Value(g) {
							readsHere = true
						}
						if ld, ok := unwrap(a).(*ssa.UnOp); ok {
							_ = ld
						}
					}
				}
			}
		}
		if !readsHere {
			// the callback may be bound to a local first (writeUpdateFunc := func…; WriteUpdateWithXattrs(…, writeUpdateFunc))
			if len(c.Calls(f, false, nameHasSuffix(".WriteUpdateWithXattrs"))) > 0 && len(f.AnonFuncs) > 0 {
				readsHere = true
			}
		}
		r.Check("C09-R5", "fn="+name+" writes=_sync body-hash=expanded|read-in-same-operation", c.Pos(writers[f].Pos()), stampsCrc || readsHere,
			"the recorded body hash it sends is the server's", "this function rewrites the sync xattr from an in-memory document it did not read in the same operation and does not macro-expand _sync.value_crc32c: the recorded body hash becomes stale, and the next mutation that moves the CAS without re-stamping _sync.cas (resync, an SDK touch) makes the gateway import its own write as a new revision")
	}
	// event CAS: feed-triggered rewrites
	for _, name := range []string{"(*db.DatabaseCollectionWithUser).MigrateAttachmentMetadata"} {
		fn := c.Func(name)
		if fn == nil {
			r.Fail("C09-R5", "anchor "+name, "-", "function not found")
			continue
		}
		k := 0
		for _, call := range c.Calls(fn, false, nameHasSuffix(".UpdateXattrs")) {
			k++
			a := call.Common().Args
			ok := len(a) > 3 && isParamAny(a[3])
			r.Check("C09-R5", fmt.Sprintf("fn=%s UpdateXattrs #%d cas=caller-provided", name, k), c.Pos(call.Pos()), ok, "cas argument is the function's cas parameter (the feed event's CAS)", "the metadata rewrite uses a CAS it read itself instead of the triggering event's CAS: a stale event would overwrite the ownership stamp of a newer external write")
		}
		if k == 0 {
			r.Fail("C09-R5", "fn="+name+" UpdateXattrs", c.Pos(fn.Pos()), "CAS-guarded xattr rewrite not found")
		}
	}
}

// c09PrecheckedOwn: the function compares a CAS it was given with the stored sync CAS before stamping (own-write precheck).
func c09PrecheckedOwn(c *Ctx, fn *ssa.Function) bool {
	return len(c.Calls(fn, true, nameIs("(*db.SyncData).GetSyncCas"))) > 0 || len(c.Calls(fn, true, sgWriteFns)) > 0
}


// c09SyncXattrWriters: top-level functions of package db that put the sync xattr ("_sync") into an xattr map handed to the bucket.
func c09SyncXattrWriters(c *Ctx) map[*ssa.Function]ssa.Instruction {
	out := map[*ssa.Function]ssa.Instruction{}
	for _, fn := range c.ScopeFuncs() {
		if fn.Pkg == nil || fn.Pkg.Pkg.Name() != "db" {
			continue
		}
		EachInstr(fn, false, func(in ssa.Instruction) {
			mu, ok := in.(*ssa.MapUpdate)
			if !ok {
				return
			}
			if k, isK := constString(unwrap(mu.Key)); !isK || k != "_sync" {
				return
			}
			mt, ok := mu.Map.Type().Underlying().(*types.Map)
			if !ok {
				return
			}
			if sl, ok := mt.Elem().Underlying().(*types.Slice); !ok || !types.Identical(sl.Elem(), types.Typ[types.Byte]) {
				return
			}
			// handed to the bucket: the map is an argument of a storage write or becomes the Xattrs of an sgbucket.UpdatedDoc
			handed := false
			if refs := mu.Map.Referrers(); refs != nil {
				for _, rf := range *refs {
					switch u := rf.(type) {
					case ssa.CallInstruction:
						if u.Common().IsInvoke() {
							handed = true
						}
					case *ssa.Store:
						if fa, ok := u.Addr.(*ssa.FieldAddr); ok && namedOf(fa.X.Type()) == "UpdatedDoc" {
							handed = true
						}
					}
				}
			}
			if !handed {
				return
			}
			top := TopLevel(fn)
			if _, have := out[top]; !have {
				out[top] = in
			}
		})
	}
	return out
}

// C09-R6: an on-demand import that loses the CAS race re-imports the *current* state of the document: inside the import's CAS
// callback, on the CAS-mismatch / on-demand edge, the captured import input (the body the import filter and the sync function see)
// is re-assigned from the freshly loaded document before it is used again, together with the captured bucket document.
func c09R6(c *Ctx, r *Report) {
	r.Rule("C09-R6", "E2 pathrules on captured cells", "importDoc's callback: on the CAS-mismatch on-demand edge the captured body is re-assigned from the callback's document before any further use, and the captured bucket document is re-assigned too", 2)
	top := c.Func("(*db.DatabaseCollectionWithUser).importDoc")
	if top == nil {
		r.Fail("C09-R6", "anchor importDoc", "-", "function not found")
		return
	}
	var lit *ssa.Function
	for l := range retryCallbacks(c) {
		if TopLevel(l) == top {
			lit = l
		}
	}
	if lit == nil || len(lit.Params) == 0 {
		r.Fail("C09-R6", "anchor importDoc callback", c.Pos(top.Pos()), "the import's update callback was not found")
		return
	}
	docParam := lit.Params[0]
	var bodyFV, existingFV *ssa.FreeVar
	for _, fv := range lit.FreeVars {
		pt, ok := fv.Type().(*types.Pointer)
		if !ok {
			continue
		}
		if namedOf(pt.Elem()) == "Body" {
			if _, isPtr := pt.Elem().(*types.Pointer); !isPtr {
				bodyFV = fv
			}
		}
		if p2, ok := pt.Elem().(*types.Pointer); ok && namedOf(p2.Elem()) == "BucketDocument" {
			existingFV = fv
		}
	}
	if bodyFV == nil || existingFV == nil {
		r.Fail("C09-R6", "fn=importDoc$callback captured-import-input", c.Pos(lit.Pos()), "the captured body / bucket document of the import were not found")
		return
	}
	casF := c.Field("db.Document", "Cas")
	isDocCas := func(v ssa.Value) bool {
		f, b := fieldRead(v)
		return f != nil && f == casF && b == ssa.Value(docParam)
	}
	mismatch := EdgesWhere(lit, func(cond ssa.Value) (bool, bool) {
		b, ok := cond.(*ssa.BinOp)
		if !ok || (b.Op != token.NEQ && b.Op != token.EQL) {
			return false, false
		}
		if isDocCas(b.X) || isDocCas(b.Y) {
			return true, b.Op == token.NEQ
		}
		return false, false
	})
	var refresh, existingStores []ssa.Instruction
	var loads []ssa.Instruction
	EachInstr(lit, false, func(in ssa.Instruction) {
		switch x := in.(type) {
		case *ssa.Store:
			if x.Addr == ssa.Value(bodyFV) && DependsOn(x.Val, func(v ssa.Value) bool {
				cc, ok := v.(*ssa.Call)
				return ok && c.CalleeName(cc) == "(*db.Document).Body" && len(cc.Call.Args) > 0 && cc.Call.Args[0] == ssa.Value(docParam)
			}) {
				refresh = append(refresh, x)
			}
			if x.Addr == ssa.Value(existingFV) {
				existingStores = append(existingStores, x)
			}
		case *ssa.UnOp:
			if ad, ok := loadOf(x); ok && ad == ssa.Value(bodyFV) {
				loads = append(loads, x)
			}
		}
	})
	if len(mismatch) == 0 {
		r.Fail("C09-R6", "fn=importDoc$callback cas-mismatch-test", c.Pos(lit.Pos()), "the callback no longer compares the loaded document's CAS with the CAS the import was started for")
		return
	}
	// the on-demand edges inside the mismatch region: where the captured bucket document is re-assigned
	okBody, okPair := len(refresh) > 0, len(existingStores) > 0
	for _, st := range existingStores {
		if !DominatedBy(lit, st, NewAvoid().AddEdge(mismatch...)) {
			continue // initialisation elsewhere
		}
		// the body must have been refreshed on every path that reaches this re-assignment …
		if !DominatedBy(lit, st, NewAvoid().AddInstr(refresh...)) {
			// … or be refreshed after it before any further use
			isLoad := func(in ssa.Instruction) bool {
				for _, l := range loads {
					if in == l {
						return true
					}
				}
				return false
			}
			if ReachAfter(st, isLoad, NewAvoid().AddInstr(refresh...)) != nil {
				okBody = false
			}
		}
	}
	for _, rf := range refresh {
		if !DominatedBy(lit, rf, NewAvoid().AddEdge(mismatch...)) {
			okBody = false
		}
	}
	r.Check("C09-R6", "fn=importDoc$callback retry refreshes=captured-body from=callback-document", c.Pos(lit.Pos()), okBody && okPair,
		"the retried on-demand import sees the body of the document as it is now", "after losing the CAS race an on-demand import keeps using the body it was started with (the re-read body is not assigned to the captured variable): the import filter and sync function judge a superseded external write, which can be imported although the current write must be filtered out")
	r.Check("C09-R6", "fn=importDoc$callback retry refreshes=captured-bucket-document", c.Pos(lit.Pos()), okPair, "the captured bucket document is re-initialised from the loaded document", "the retried import keeps the stale bucket document")
}
