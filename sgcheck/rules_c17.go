package main

import (
	"strings"
	"go/token"
	"fmt"

	"golang.org/x/tools/go/ssa"
)

func init() { registry["C17"] = checkC17 }

var checkpointerGuardRows = []GuardRow{
	{Struct: "db.Checkpointer", Fields: []string{"expectedSeqs", "processedSeqs", "idAndRevLookup", "stats", "lastLocalCheckpointRevID", "lastRemoteCheckpointRevID"}, Lock: "Checkpointer.lock"},
	{Struct: "db.Checkpointer", Fields: []string{"lastCheckpointSeq"}, Lock: "Checkpointer.lock"},
}

var checkpointerGuardExempt = []GuardExempt{
	{Func: "(*db.Checkpointer).setLastCheckpointSeq", Reason: "runs while the replicator is being set up, before the checkpointer goroutine and the replication handlers are started"},
	{Func: "(*db.Checkpointer).fetchDefaultCollectionCheckpoints", Reason: "replicator start-up, before the checkpointer goroutine and the replication handlers are started"},
	{Func: "(*db.Checkpointer).fetchNamedCollectionCheckpoints", Reason: "replicator start-up, before the checkpointer goroutine and the replication handlers are started"},
	{Func: "(*db.ActivePullReplicator)._startPullNonCollection", Field: "lastCheckpointSeq", Reason: "read of the stored checkpoint while the pull is being started, before the checkpointer goroutine and handlers run"},
	{Func: "(*db.ActivePullReplicator)._startPullWithCollections", Field: "lastCheckpointSeq", Reason: "read of the stored checkpoint while the pull is being started, before the checkpointer goroutine and handlers run"},
	{Func: "(*db.ActivePushReplicator)._startPushNonCollection", Field: "lastCheckpointSeq", Reason: "read of the stored checkpoint while the push is being started, before the checkpointer goroutine and handlers run"},
	{Func: "(*db.ActivePushReplicator)._startPushWithCollections", Field: "lastCheckpointSeq", Reason: "read of the stored checkpoint while the push is being started, before the checkpointer goroutine and handlers run"},
}

// fieldOfDynamicCall: the call invokes a function value loaded from struct field f; returns the field name.
func fieldOfDynamicCall(call ssa.CallInstruction) string {
	cc := call.Common()
	if cc.IsInvoke() || cc.StaticCallee() != nil {
		return ""
	}
	if f, _ := fieldRead(cc.Value); f != nil {
		return f.Name()
	}
	return ""
}

// invokesFieldCallback: the call instruction invokes the function value stored in struct field `field` — directly, or through an
// in-repo wrapper (a function with a body that does so on some path, followed to depth 2). Wrappers are followed so that moving the
// notification into a helper does not hide it from the path rules.
func (c *Ctx) invokesFieldCallback(call ssa.CallInstruction, field string, depth int) bool {
	if fieldOfDynamicCall(call) == field {
		return true
	}
	if depth >= 2 {
		return false
	}
	cal := call.Common().StaticCallee()
	if cal == nil || len(cal.Blocks) == 0 || !c.InScope(cal) || cal.Parent() != nil {
		return false // function literals are analysed as functions of their own
	}
	found := false
	EachInstr(cal, false, func(in ssa.Instruction) {
		if ci, ok := in.(ssa.CallInstruction); ok && !found && c.invokesFieldCallback(ci, field, depth+1) {
			found = true
		}
	})
	return found
}

func checkC17(c *Ctx, r *Report) {
	r.Explain = "Decides structural necessary conditions of 'checkpoints never run ahead': (R1) the checkpointer's lists, lookup table, last checkpoint and revision ids are only touched under its lock and the `_` helpers — including the function that persists the checkpoints — are entered with it held, so the computation of a safe sequence and its persistence are one critical section; (R2) the persisted last_sequence derives only from the element of the expected list selected by the safe-prefix index, and the in-memory last checkpoint is updated only after both writes succeeded; (R3) the safe-prefix scan sorts by SequenceID.Before, advances only on the processed-hit edge and stops at the first miss, and list compaction removes an element only when it and its successor are processed; (R4) the replicators bind each registration callback to the matching checkpointer method, and when a pulled changes batch is handled the already-known sequences are reported only after the batch's expected sequences have been registered; (R5) a pulled revision is reported processed only on the success edge of its local write (or purge); (R6) a pushed revision is reported processed only after the peer's answer to it was received.; (R7) all registration methods drop their input once the checkpointer's context is cancelled. Not decided: interleavings of registration and completion across concurrent batches, monotonicity of successive checkpoints as a whole."
	la := newLockAnalysis(c, []string{"Checkpointer.lock"}, "db")
	la.Solve()
	r.Rule("C17-R1", "E1 guardedby", "Checkpointer{expectedSeqs,processedSeqs,idAndRevLookup,stats,lastCheckpointSeq,last*CheckpointRevID} accessed only under Checkpointer.lock; `_` helpers entered with it held", 25)
	runGuardRule(c, r, "C17-R1", la, checkpointerGuardRows, checkpointerGuardExempt)
	for _, h := range []string{"_updateCheckpointLists", "_calculateSafeExpectedSeqsIdx", "_calculateSafeProcessedSeq", "_setCheckpoints"} {
		name := "(*db.Checkpointer)." + h
		fn := c.Func(name)
		if fn == nil {
			r.Fail("C17-R1", "anchor "+name, "-", "requires-held helper not found")
			continue
		}
		n, bad := 0, ""
		for _, caller := range c.ScopeFuncs() {
			for _, call := range c.Calls(caller, false, nameIs(name)) {
				n++
				if ls, ok := la.at[call]; ok && ls["Checkpointer.lock"] != modeW {
					bad = c.FuncName(caller) + "@" + c.Pos(call.Pos())
				}
			}
		}
		r.Check("C17-R1", "helper="+name+" requires-held=Checkpointer.lock", c.Pos(fn.Pos()), bad == "" && n > 0, fmt.Sprintf("%d call site(s), lock held at each", n), "called without the checkpointer lock at "+bad+": computing the safe sequence and persisting it would no longer be atomic, so an older checkpoint could overwrite a newer one")
	}
	c17R2(c, r)
	c17R3(c, r)
	c17R4(c, r)
	pullProcessedOnlyAfterWrite(c, r, "C17-R5")
	c06R3For(c, r, "C17-R6")
	c17R7(c, r)
	c17R8(c, r)
}

func c17R2(c *Ctx, r *Report) { c17R2For(c, r, "C17-R2") }

func c17R2For(c *Ctx, r *Report, rule string) {
	r.Rule(rule, "E2 def-use", "persisted last_sequence = String() of the sequence handed to _setCheckpoints, which CheckpointNow takes from _updateCheckpointLists, which selects expectedSeqs[_calculateSafeExpectedSeqsIdx()]; lastCheckpointSeq is stored only after both checkpoint writes succeeded", 4)
	set := c.Func("(*db.Checkpointer)._setCheckpoints")
	now := c.Func("(*db.Checkpointer).CheckpointNow")
	upd := c.Func("(*db.Checkpointer)._updateCheckpointLists")
	if set == nil || now == nil || upd == nil {
		r.Fail(rule, "anchor checkpointer functions", "-", "function not found")
		return
	}
	// LastSeq stores in _setCheckpoints derive from seq.String() of the parameter
	lastSeqF := c.Field("db.replicationCheckpoint", "LastSeq")
	n := 0
	for _, st := range c.storesToField(lastSeqF) {
		if st.Parent() != set {
			continue
		}
		n++
		ok := DependsOn(st.Val, func(v ssa.Value) bool {
			call, ok := v.(*ssa.Call)
			if !ok || c.CalleeName(call) != "(db.SequenceID).String" {
				return false
			}
			return DependsOn(call.Call.Args[0], func(x ssa.Value) bool { return isParam(x, 1) })
		})
		r.Check(rule, fmt.Sprintf("fn=(*db.Checkpointer)._setCheckpoints store=LastSeq #%d from=seq-parameter", n), c.Pos(st.Pos()), ok, "LastSeq = seq.String()", "the persisted checkpoint is not the sequence that was computed as safe")
	}
	if n < 2 {
		r.Fail(rule, "fn=(*db.Checkpointer)._setCheckpoints stores=LastSeq", c.Pos(set.Pos()), fmt.Sprintf("expected local and remote checkpoint bodies, found %d", n))
	}
	// CheckpointNow passes the result of _updateCheckpointLists
	okArg := false
	for _, call := range c.Calls(now, false, nameIs("(*db.Checkpointer)._setCheckpoints")) {
		a := callArgs(call)
		if len(a) == 1 && c.IsCallTo(unwrapLoadFree(a[0]), nameIs("(*db.Checkpointer)._updateCheckpointLists")) {
			okArg = true
		}
	}
	r.Check(rule, "fn=(*db.Checkpointer).CheckpointNow persists=result-of-_updateCheckpointLists", c.Pos(now.Pos()), okArg, "the safe sequence computed under the lock is what gets persisted", "CheckpointNow persists a sequence other than the one computed by _updateCheckpointLists")
	// _updateCheckpointLists: returned pointer points at a copy of expectedSeqs[maxI], maxI from the safe-index helper
	okSel := false
	EachInstr(upd, false, func(in ssa.Instruction) {
		ia, ok := in.(*ssa.IndexAddr)
		if !ok {
			return
		}
		if f, _ := fieldRead(ia.X); f == nil || f.Name() != "expectedSeqs" {
			return
		}
		if c.IsCallTo(ia.Index, nameIs("(*db.Checkpointer)._calculateSafeExpectedSeqsIdx")) {
			// its load must flow to the returned value
			for _, ret := range Returns(upd) {
				if DependsOn(ret.Results[0], func(v ssa.Value) bool { return v == ssa.Value(ia) }) {
					okSel = true
				}
			}
		}
	})
	r.Check(rule, "fn=(*db.Checkpointer)._updateCheckpointLists result=expectedSeqs[safe-index]", c.Pos(upd.Pos()), okSel, "safe sequence is the expected-list element at the safe-prefix index", "the sequence returned for checkpointing is not the expected-list element at the safe-prefix index")
	// lastCheckpointSeq store after both writes succeed
	lcF := c.Field("db.Checkpointer", "lastCheckpointSeq")
	var okEdges [][]Edge
	for _, nm := range []string{"(*db.Checkpointer).setLocalCheckpointWithRetry", "(*db.Checkpointer).setRemoteCheckpointWithRetry"} {
		for _, call := range c.Calls(set, false, nameIs(nm)) {
			ev := errValueOf(call.(*ssa.Call))
			_, neg := EdgesOnValue(set, func(v ssa.Value) bool { return unwrapLoadFree(v) == ev })
			okEdges = append(okEdges, neg)
		}
	}
	k := 0
	for _, st := range c.storesToField(lcF) {
		if st.Parent() != set {
			continue
		}
		k++
		ok := len(okEdges) == 2
		for _, es := range okEdges {
			if len(es) == 0 || !DominatedBy(set, st, NewAvoid().AddEdge(es...)) {
				ok = false
			}
		}
		r.Check(rule, fmt.Sprintf("fn=(*db.Checkpointer)._setCheckpoints store=lastCheckpointSeq #%d after=both-writes-ok", k), c.Pos(st.Pos()), ok, "dominated by success of the local and the remote checkpoint write", "the in-memory last checkpoint can advance although a checkpoint write failed")
	}
}

func c17R3(c *Ctx, r *Report) {
	r.Rule("C17-R3", "E2 pathrules", "safe-prefix scan: sort by Before dominates the scan; the index advances only on the processed-hit edge and the scan stops at the first miss; compaction deletes an element only if it and its successor are processed", 4)
	fn := c.Func("(*db.Checkpointer)._calculateSafeExpectedSeqsIdx")
	upd := c.Func("(*db.Checkpointer)._updateCheckpointLists")
	if fn == nil || upd == nil {
		r.Fail("C17-R3", "anchor safe-prefix functions", "-", "function not found")
		return
	}
	sorts := c.Calls(fn, false, nameIs("sort.Slice", "sort.SliceStable", "slices.SortFunc", "slices.SortStableFunc"))
	usesBefore := false
	for _, lit := range fn.AnonFuncs {
		if len(c.Calls(lit, false, nameIs("(db.SequenceID).Before"))) > 0 {
			usesBefore = true
		}
	}
	var lookups []*ssa.Lookup
	EachInstr(fn, false, func(in ssa.Instruction) {
		if lk, ok := in.(*ssa.Lookup); ok && lk.CommaOk {
			if f, _ := fieldRead(lk.X); f != nil && f.Name() == "processedSeqs" {
				lookups = append(lookups, lk)
			}
		}
	})
	okSort := len(sorts) == 1 && usesBefore && len(lookups) == 1
	if okSort {
		okSort = DominatedBy(fn, lookups[0], NewAvoid().AddInstr(sorts[0]))
	}
	r.Check("C17-R3", "fn=(*db.Checkpointer)._calculateSafeExpectedSeqsIdx sort-by-Before dominates scan", c.Pos(fn.Pos()), okSort, "expected list is ordered by SequenceID.Before before it is scanned", "the expected list is scanned without first being ordered by the feed order (SequenceID.Before)")
	if len(lookups) == 1 {
		lk := lookups[0]
		var okv ssa.Value
		for _, ref := range *lk.Referrers() {
			if e, ok := ref.(*ssa.Extract); ok && e.Index == 1 {
				okv = e
			}
		}
		hit, miss := EdgesOnValue(fn, func(v ssa.Value) bool { return v == okv })
		// the miss edge must leave the loop: the lookup is not reachable again from it
		stops := len(miss) > 0
		for _, e := range miss {
			if ReachFrom(e.To(), 0, func(in ssa.Instruction) bool { return in == ssa.Instruction(lk) }, nil) != nil {
				stops = false
			}
		}
		r.Check("C17-R3", "fn=(*db.Checkpointer)._calculateSafeExpectedSeqsIdx scan stops-at=first-unprocessed", c.Pos(lk.Pos()), stops, "the miss edge leaves the loop", "the scan continues past an expected sequence that has not been processed: the checkpoint could run ahead of an outstanding change")
		// the returned index: phi whose non-initial edges come from the hit side
		// Accepted forms of the returned index (all equal "index of the last element of the all-processed prefix", given that the
		// scan stops at the first miss): an accumulator assigned the loop index only on the hit edge; -1; `i - 1` returned from
		// inside iteration i; `len(expectedSeqs) - 1` returned only when the loop ran to completion (not reachable from a miss).
		var loopIdx ssa.Value
		DependsOn(lk.Index, func(v ssa.Value) bool {
			if ia, ok := v.(*ssa.IndexAddr); ok && loopIdx == nil {
				loopIdx = ia.Index
			}
			return false
		})
		adv := len(hit) > 0
		for _, ret := range Returns(fn) {
			v := ret.Results[0]
			if k, isK := constInt(v); isK && k == -1 {
				continue
			}
			if phi, ok := v.(*ssa.Phi); ok {
				adv = adv && c17PhiAdvancesOnlyOnHit(fn, phi, hit, map[*ssa.Phi]bool{})
				continue
			}
			if b, ok := v.(*ssa.BinOp); ok && b.Op == token.SUB {
				if k, isK := constInt(b.Y); isK && k == 1 {
					if loopIdx != nil && b.X == loopIdx && stops {
						continue // i - 1 from inside iteration i: every earlier iteration took the hit edge
					}
					if call, isCall := b.X.(*ssa.Call); isCall && stops {
						if bi, isB := call.Call.Value.(*ssa.Builtin); isB && bi.Name() == "len" {
							if f, _ := fieldRead(call.Call.Args[0]); f != nil && f.Name() == "expectedSeqs" {
								fromMiss := false
								for _, e := range miss {
									if ReachFrom(e.To(), 0, func(in ssa.Instruction) bool { return in == ssa.Instruction(ret) }, nil) != nil {
										fromMiss = true
									}
								}
								// ... and only after the scan: the return is dominated by the loop header (a return placed
								// before the scan — e.g. a "sizes are equal" shortcut — has examined nothing)
								var hdr *ssa.BasicBlock
								if loopIdx != nil {
									li := loopIdx
									if bo, isBO := li.(*ssa.BinOp); isBO && bo.Op == token.ADD {
										li = bo.X
									}
									if ph, isPh := li.(*ssa.Phi); isPh {
										hdr = ph.Block()
									}
								}
								afterScan := hdr != nil && hdr.Dominates(ret.Block())
								if !fromMiss && afterScan {
									continue // len - 1 only after the loop ran to completion: every element was a hit
								}
							}
						}
					}
				}
			}
			adv = false
		}
		r.Check("C17-R3", "fn=(*db.Checkpointer)._calculateSafeExpectedSeqsIdx index advances-only-on=processed-hit", c.Pos(lk.Pos()), adv, "the safe index is only assigned on the processed-hit edge", "the safe index can be assigned for an expected sequence that was not found in the processed set")
	}
	// compaction (in _updateCheckpointLists itself or in a helper extracted from it)
	n := 0
	for _, host := range c.PrivateHelpers(upd, 2) {
	EachInstr(host, false, func(in ssa.Instruction) {
		call, ok := in.(*ssa.Call)
		if !ok {
			return
		}
		b, ok := call.Call.Value.(*ssa.Builtin)
		if !ok || b.Name() != "delete" {
			return
		}
		if f, _ := fieldRead(call.Call.Args[0]); f == nil || f.Name() != "processedSeqs" {
			return
		}
		// only the compaction delete (inside the threshold branch): its key is loaded from expectedSeqs[i] where i is not bounded by maxI loop — identify by being dominated by two commaok lookups
		var hits [][]Edge
		EachInstr(host, false, func(in2 ssa.Instruction) {
			lk, ok := in2.(*ssa.Lookup)
			if !ok || !lk.CommaOk {
				return
			}
			if f, _ := fieldRead(lk.X); f == nil || f.Name() != "processedSeqs" {
				return
			}
			for _, ref := range *lk.Referrers() {
				if e, ok := ref.(*ssa.Extract); ok && e.Index == 1 {
					pos, _ := EdgesOnValue(host, func(v ssa.Value) bool { return v == ssa.Value(e) })
					if len(pos) > 0 {
						hits = append(hits, pos)
					}
				}
			}
		})
		domBy := 0
		for _, h := range hits {
			if DominatedBy(host, call, NewAvoid().AddEdge(h...)) {
				domBy++
			}
		}
		if domBy == 0 {
			return // the trim loop up to the safe index
		}
		n++
		r.Check("C17-R3", fmt.Sprintf("fn=(*db.Checkpointer)._updateCheckpointLists compaction-delete #%d only-if=current-and-next-processed", n), c.Pos(call.Pos()), domBy == 2, "dominated by both processed-hit edges", "compaction can drop an expected sequence whose successor is not processed: the retained list would allow a checkpoint past an outstanding change")
	})
	}
	if n == 0 {
		r.Fail("C17-R3", "fn=(*db.Checkpointer)._updateCheckpointLists compaction", c.Pos(upd.Pos()), "compaction branch not found")
	}
}

func c17PhiAdvancesOnlyOnHit(fn *ssa.Function, phi *ssa.Phi, hit []Edge, seen map[*ssa.Phi]bool) bool {
	if seen[phi] {
		return true
	}
	seen[phi] = true
	for i, e := range phi.Edges {
		if k, ok := constInt(e); ok && k == -1 {
			continue
		}
		if p2, ok := e.(*ssa.Phi); ok {
			if !c17PhiAdvancesOnlyOnHit(fn, p2, hit, seen) {
				return false
			}
			continue
		}
		// a loop index value: the predecessor block supplying it must be dominated by a hit edge
		pred := phi.Block().Preds[i]
		if len(pred.Instrs) == 0 || !DominatedBy(fn, pred.Instrs[len(pred.Instrs)-1], NewAvoid().AddEdge(hit...)) {
			// the edge itself may be the hit edge
			isHit := false
			for k2, s := range pred.Succs {
				if s == phi.Block() {
					for _, h := range hit {
						if h.From == pred && h.Succ == k2 {
							isHit = true
						}
					}
				}
			}
			if !isHit {
				return false
			}
		}
	}
	return true
}

func c17R4(c *Ctx, r *Report) {
	r.Rule("C17-R4", "E7 tables + E2", "registration callbacks are bound to the matching Checkpointer methods; in the pull changes handler already-known sequences are reported only after the batch's expected sequences were registered", 7)
	want := map[string]string{
		"sgr2PullAlreadyKnownSeqsCallback": "AddAlreadyKnownSeq",
		"sgr2PullAddExpectedSeqsCallback":  "AddExpectedSeqIDAndRevs",
		"sgr2PullProcessedSeqCallback":     "AddProcessedSeqIDAndRev",
		"sgr2PushAlreadyKnownSeqsCallback": "AddAlreadyKnownSeq",
		"sgr2PushAddExpectedSeqsCallback":  "AddExpectedSeqs",
		"sgr2PushProcessedSeqCallback":     "AddProcessedSeq",
	}
	got := map[string]string{}
	for _, fn := range c.ScopeFuncs() {
		EachInstr(fn, false, func(in ssa.Instruction) {
			st, ok := in.(*ssa.Store)
			if !ok {
				return
			}
			fa, ok := st.Addr.(*ssa.FieldAddr)
			if !ok {
				return
			}
			f := structField(fa.X.Type(), fa.Field)
			if f == nil {
				return
			}
			if _, ok := want[f.Name()]; !ok {
				return
			}
			// bound method closure: MakeClosure of Checkpointer.X$bound
			if mc, ok := st.Val.(*ssa.MakeClosure); ok {
				name := mc.Fn.Name()
				got[f.Name()] = trimBound(name)
			}
		})
	}
	for field, method := range want {
		r.Check("C17-R4", "callback="+field+" bound-to=Checkpointer."+method, "-", got[field] == method, "bound to the matching method", fmt.Sprintf("callback %s is bound to %q, expected Checkpointer.%s", field, got[field], method))
	}
	// ordering in the pull changes handler
	fn := c.Func("(*db.blipHandler).handleChanges")
	if fn == nil {
		r.Fail("C17-R4", "anchor (*db.blipHandler).handleChanges", "-", "function not found")
		return
	}
	var expCalls, knownCalls []ssa.Instruction
	EachInstr(fn, false, func(in ssa.Instruction) {
		if call, ok := in.(ssa.CallInstruction); ok {
			switch {
			case c.invokesFieldCallback(call, "sgr2PullAddExpectedSeqsCallback", 0):
				expCalls = append(expCalls, call)
			case c.invokesFieldCallback(call, "sgr2PullAlreadyKnownSeqsCallback", 0):
				knownCalls = append(knownCalls, call)
			}
		}
	})
	// edges on which the expected callback is nil (nothing to register)
	nilExp := EdgesWhere(fn, func(cond ssa.Value) (bool, bool) {
		x, trueMeansNil, ok := NilTest(cond)
		if !ok {
			return false, false
		}
		if f, _ := fieldRead(x); f != nil && f.Name() == "sgr2PullAddExpectedSeqsCallback" {
			return true, trueMeansNil
		}
		return false, false
	})
	if len(knownCalls) == 0 || len(expCalls) == 0 {
		r.Fail("C17-R4", "fn=(*db.blipHandler).handleChanges checkpoint-callbacks", c.Pos(fn.Pos()), "expected / already-known callbacks not invoked")
		return
	}
	for i, k := range knownCalls {
		// early-exit paths that register nothing expected (e.g. empty changes) are allowed: require domination by an expected-callback call or its nil edge
		ok := DominatedBy(fn, k, NewAvoid().AddInstr(expCalls...).AddEdge(nilExp...))
		r.Check("C17-R4", fmt.Sprintf("fn=(*db.blipHandler).handleChanges already-known #%d after=expected-registered", i+1), c.Pos(k.Pos()), ok,
			"already-known sequences reported after the batch's expected sequences", "already-known sequences of a batch can be reported before that batch's expected sequences are registered: a checkpoint taken in between would skip a change that has not even been requested")
	}
}

func trimBound(s string) string {
	if len(s) > 6 && s[len(s)-6:] == "$bound" {
		return s[:len(s)-6]
	}
	return s
}

// C17-R7: sibling agreement of the checkpointer's registration methods. After the replicator cancelled the checkpointer's context
// every registration is dropped, so the final checkpoint taken on disconnect only reflects complete batches. If one method keeps
// registering after cancellation while its siblings drop their input, a batch in flight at disconnect is recorded half: its
// already-known sequences count as expected-and-processed while the wanted ones were never expected, and the final checkpoint passes them.
func c17R7(c *Ctx, r *Report) {
	r.Rule("C17-R7", "E2 pathrules (sibling agreement)", "every Add… registration method of the Checkpointer returns without taking the lock when the checkpointer's context is done", 5)
	methods := []string{"AddAlreadyKnownSeq", "AddProcessedSeq", "AddProcessedSeqIDAndRev", "AddExpectedSeqs", "AddExpectedSeqIDAndRevs"}
	for _, m := range methods {
		fn := c.Func("(*db.Checkpointer)." + m)
		if fn == nil {
			r.Fail("C17-R7", "anchor (*db.Checkpointer)."+m, "-", "registration method not found")
			continue
		}
		// the non-blocking receive from ctx.Done()
		var sel *ssa.Select
		EachInstr(fn, false, func(in ssa.Instruction) {
			s, ok := in.(*ssa.Select)
			if !ok || s.Blocking {
				return
			}
			for _, st := range s.States {
				if DependsOn(st.Chan, func(v ssa.Value) bool {
					cc, isCall := v.(*ssa.Call)
					return isCall && cc.Call.IsInvoke() && cc.Call.Method.Name() == "Done"
				}) {
					sel = s
				}
			}
		})
		locks := c.Calls(fn, false, func(n string) bool { return strings.HasSuffix(n, ".Lock") })
		ok := sel != nil && len(locks) > 0
		if ok {
			// the lock must be taken only on the select's default arm: dominated by the select and unreachable from the ready arm
			// (index 0 of a single-state select)
			for _, l := range locks {
				if !DominatedBy(fn, l, NewAvoid().AddInstr(sel)) {
					ok = false
				}
			}
			var idx ssa.Value
			if refs := sel.Referrers(); refs != nil {
				for _, rf := range *refs {
					if ex, isEx := rf.(*ssa.Extract); isEx && ex.Index == 0 {
						idx = ex
					}
				}
			}
			ready := EdgesWhere(fn, func(cond ssa.Value) (bool, bool) {
				b, isB := cond.(*ssa.BinOp)
				if !isB || b.X != idx {
					return false, false
				}
				if k, isK := constInt(b.Y); isK && k == 0 && b.Op == token.EQL {
					return true, true
				}
				return false, false
			})
			if idx == nil || len(ready) == 0 {
				ok = false
			}
			for _, e := range ready {
				for _, l := range locks {
					if ReachFrom(e.To(), 0, func(in ssa.Instruction) bool { return in == ssa.Instruction(l) }, nil) != nil {
						ok = false
					}
				}
			}
		}
		r.Check("C17-R7", "fn=(*db.Checkpointer)."+m+" drops-input-when=context-done", c.Pos(fn.Pos()), ok,
			"returns before taking the lock once the context is cancelled", "this registration method keeps registering after the checkpointer's context was cancelled while its siblings drop their input: a changes batch in flight at disconnect is recorded half and the final checkpoint can pass revisions that were requested but never processed")
	}
}
