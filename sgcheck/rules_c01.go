package main

import (
	"go/types"
	"fmt"
	"os"
	"go/token"
	"strings"

	"golang.org/x/tools/go/ssa"
)

func init() { registry["C01"] = checkC01 }

var c01GuardRows = []GuardRow{
	{Struct: "db.singleChannelCacheImpl", Fields: []string{"logs", "validFrom", "cachedDocIDs"}, Lock: "singleChannelCacheImpl.lock"},
	{Struct: "db.singleChannelCacheImpl", Fields: []string{"lateLogs", "lastLateSequence", "lateLogsEvicted"}, Lock: "singleChannelCacheImpl.lateLogLock"},
	{Struct: "db.changeListener", Fields: []string{"counter", "keyCounts", "_terminateCheckCounter"}, Lock: "changeListener.tapNotifier.L"},
}

var c01GuardExempt = []GuardExempt{
	{Func: "db.newChannelCacheWithOptions", Reason: "constructor: the cache is not yet shared"},
	{Func: "db.newSingleChannelCache", Reason: "constructor"},
	{Func: "(*db.changeListener).Init", Reason: "initialisation before the feed is started"},
	{Func: "(*db.singleChannelCacheImpl).initializeLateLogs", Reason: "called from the constructor only, before the cache is shared"},
}

func checkC01(c *Ctx, r *Report) {
	r.Explain = "Decides structural necessary conditions of 'a changes request returns exactly the visible changes': (R1) the set of channels a user's feed iterates is the result of filtering the requested channels against the user's available channels (or all requested channels only when there is no user), and every per-channel feed reads the cache obtained for that same channel; (R2) an entry later than the cached high sequence captured at the start of the iteration is not sent (except a revocation triggered at or before it), and that bound only comes from the channel cache's high sequence; (R3) feeds are merged with the proven order SequenceID.Before, the resume position only advances under it, and a waiting (longpoll) request gets the low sequence it arrived with restored before it waits; (R4) lock discipline of the per-channel cache (entries, validity point, doc-id index; late-arrival log) and of the change listener's counters; the per-channel doc-id index is maintained wherever entries leave or enter the entry list; (R5) wake-up protocol — the waiter evaluates its predicate under the notifier's lock inside the loop that waits, and every caller that feeds an entry into the sequence buffer forwards the resulting channel set to the notifier.; (R6) a back-fill lowers a channel cache's validity point only when the queried range reaches up to it; (R7) a late-arriving removal is queued for the late-sequence feeds as a removal, as it is stored in the cache; (R8) the validity point is stored only by the cache's maintenance functions, is raised to one past a dropped entry wherever entries are dropped from the front of the entry list, and an entry from the mutation feed is cached only if it is not older than the validity point; (R9) a channel read is answered from the cache alone only when the validity point returned with those entries is at most since+1, and the back-fill query spans exactly [since+1, that validity point] and is joined with the entries of the same cache read. Not decided: that the merged entries equal the visible set, the remaining cache validity-point / back-fill arithmetic (which entries a partial back-fill keeps), de-duplication, limit/paging equivalence, liveness."
	c01R1(c, r)
	c01R2R3(c, r)
	c01R4(c, r)
	c01R5(c, r)
	c01R6(c, r)
	c01R7(c, r)
	c01R8(c, r)
	c01R9(c, r)
}

func c01Worker(c *Ctx) (*ssa.Function, *ssa.Function) {
	top := c.Func("(*db.DatabaseCollectionWithUser).SimpleMultiChangesFeed")
	if top == nil {
		return nil, nil
	}
	for _, l := range top.AnonFuncs {
		if len(c.Calls(l, false, nameIs("(*db.DatabaseCollectionWithUser).changesFeed"))) > 0 {
			return top, l
		}
	}
	return top, nil
}

func c01R1(c *Ctx, r *Report) {
	r.Rule("C01-R1", "E2 def-use", "the iterated channel set derives from FilterToAvailableCollectionChannels (user) or AtSequence(requested,0) on the no-user edge only; each changesFeed reads the cache obtained for the iterated channel", 3)
	_, lit := c01Worker(c)
	if lit == nil {
		r.Fail("C01-R1", "anchor SimpleMultiChangesFeed worker", "-", "function not found")
		return
	}
	// the cell channelsSince
	// the iterated channel set: the cell that is ranged over to obtain the key of each per-channel cache (identified by that
	// role, not by its name)
	var cell *ssa.Alloc
	for _, call := range c.Calls(lit, false, nameHasSuffix(".getSingleChannelCache")) {
		for _, x := range call.Common().Args {
			DependsOn(x, func(y ssa.Value) bool {
				if nx, isNext := y.(*ssa.Next); isNext {
					if rg, isRange := nx.Iter.(*ssa.Range); isRange {
						if ad, isLoad := loadOf(rg.X); isLoad {
							if al, isAlloc := rootAddr(ad).(*ssa.Alloc); isAlloc {
								cell = al
							}
						}
					}
				}
				return false
			})
		}
	}
	isFilter := c.ResultOf(0, nameHasSuffix(".FilterToAvailableCollectionChannels"))
	isAll := c.ResultOf(0, nameIs("channels.AtSequence"))
	// user == nil edges
	userF := c.Field("db.DatabaseCollectionWithUser", "user")
	noUser := EdgesWhere(lit, func(cond ssa.Value) (bool, bool) {
		x, trueMeansNil, ok := NilTest(cond)
		if !ok {
			return false, false
		}
		if f, _ := fieldRead(x); f == userF {
			return true, trueMeansNil
		}
		return false, false
	})
	check := func(val ssa.Value, at ssa.Instruction, n int) {
		switch {
		case isFilter(val):
			r.Pass("C01-R1", fmt.Sprintf("fn=SimpleMultiChangesFeed$worker channel-set-def #%d from=FilterToAvailableCollectionChannels", n), c.Pos(at.Pos()), "restricted to the user's available channels")
		case isAll(val):
			ok := len(noUser) > 0 && DominatedBy(lit, at, NewAvoid().AddEdge(noUser...))
			r.Check("C01-R1", fmt.Sprintf("fn=SimpleMultiChangesFeed$worker channel-set-def #%d all-requested only-if=no-user", n), c.Pos(at.Pos()), ok, "all requested channels only for the admin (no user)", "a user's feed can iterate every requested channel without filtering against the user's access")
		default:
			r.Fail("C01-R1", fmt.Sprintf("fn=SimpleMultiChangesFeed$worker channel-set-def #%d", n), c.Pos(at.Pos()), "the iterated channel set is assigned from something other than the availability filter: "+val.String())
		}
	}
	n := 0
	if cell != nil {
		for _, st := range storesInto(cell) {
			n++
			check(st.Val, st, n)
		}
	} else {
		// register form: find the value ranged over for changesFeed
		for _, call := range c.Calls(lit, false, nameHasSuffix(".FilterToAvailableCollectionChannels")) {
			n++
			r.Pass("C01-R1", fmt.Sprintf("fn=SimpleMultiChangesFeed$worker channel-set-def #%d from=FilterToAvailableCollectionChannels", n), c.Pos(call.Pos()), "restricted to the user's available channels")
		}
		for _, call := range c.Calls(lit, false, nameIs("channels.AtSequence")) {
			n++
			ok := len(noUser) > 0 && DominatedBy(lit, call, NewAvoid().AddEdge(noUser...))
			r.Check("C01-R1", fmt.Sprintf("fn=SimpleMultiChangesFeed$worker channel-set-def #%d all-requested only-if=no-user", n), c.Pos(call.Pos()), ok, "all requested channels only for the admin (no user)", "a user's feed can iterate every requested channel without filtering against the user's access")
		}
	}
	// each changesFeed: cache arg from getSingleChannelCache keyed by the range variable over channelsSince
	for i, call := range c.Calls(lit, false, nameIs("(*db.DatabaseCollectionWithUser).changesFeed")) {
		a := callArgs(call)
		okCache := len(a) > 1 && DependsOn(a[1], c.ResultOf(0, nameHasSuffix(".getSingleChannelCache")))
		// and that cache call's key derives from a Next over the channel set
		okKey := false
		if okCache {
			DependsOn(a[1], func(v ssa.Value) bool {
				if cc, ok := v.(*ssa.Call); ok && strings.HasSuffix(c.CalleeName(cc), ".getSingleChannelCache") {
					for _, x := range cc.Call.Args {
						if DependsOn(x, func(y ssa.Value) bool { _, isNext := y.(*ssa.Next); return isNext }) {
							okKey = true
						}
					}
				}
				return false
			})
		}
		r.Check("C01-R1", fmt.Sprintf("fn=SimpleMultiChangesFeed$worker changesFeed #%d cache=cache-of-iterated-channel", i+1), c.Pos(call.Pos()), okCache && okKey, "per-channel feed reads the cache of the channel being iterated", "a per-channel feed reads a cache that is not the one of the (filtered) channel being iterated")
	}
}

func c01R2R3(c *Ctx, r *Report) {
	r.Rule("C01-R2", "E2 pathrules", "entries later than the high cached sequence captured before the channel reads are skipped (valid revocations excepted); the bound comes only from GetHighCacheSequence", 2)
	r.Rule("C01-R3", "E2 def-use", "merge by SequenceID.Before; Since advances only under Before; a waiting request's low sequence is restored before it waits", 3)
	_, lit := c01Worker(c)
	if lit == nil {
		r.Fail("C01-R2", "anchor SimpleMultiChangesFeed worker", "-", "function not found")
		return
	}
	// the send of minEntry: select with send state whose value derives from the merged minimum entry
	var sendSel []ssa.Instruction
	EachInstr(lit, false, func(in ssa.Instruction) {
		if sel, ok := in.(*ssa.Select); ok {
			for _, st := range sel.States {
				if st.Dir == 1 /* types.SendOnly */ && st.Send != nil {
					if _, isNil := st.Send.(*ssa.Const); !isNil && namedOf(derefType(st.Send.Type())) == "ChangeEntry" {
						// exclude error entries (address of a local makeErrorEntry result)
						if _, isAlloc := st.Send.(*ssa.Alloc); isAlloc {
							continue
						}
						// forwarded error entries are loaded from the per-feed `current` slice; merged entries are not
						if u, isLoad := st.Send.(*ssa.UnOp); isLoad {
							if _, fromSlice := u.X.(*ssa.IndexAddr); fromSlice {
								continue
							}
						}
						sendSel = append(sendSel, sel)
					}
				}
			}
		}
	})
	// bound: cond comparing currentCachedSequence with entry.Seq.Seq
	// the bound: cells assigned from GetHighCacheSequence (identified by that role, not by name)
	ccsCells := map[ssa.Value]bool{}
	EachInstr(lit, false, func(in ssa.Instruction) {
		if st, ok := in.(*ssa.Store); ok && c.IsCallTo(st.Val, nameHasSuffix(".GetHighCacheSequence")) {
			if al, ok := rootAddr(st.Addr).(*ssa.Alloc); ok {
				ccsCells[al] = true
			}
		}
	})
	var isCCSd func(v ssa.Value, depth int) bool
	isCCSd = func(v ssa.Value, depth int) bool {
		v2 := unwrapLoadFree(v)
		if c.IsCallTo(v2, nameHasSuffix(".GetHighCacheSequence")) {
			return true
		}
		if ad, ok := loadOf(v); ok && ccsCells[rootAddr(ad)] {
			return true
		}
		if p, ok := v.(*ssa.Phi); ok && depth < 3 {
			any := false
			for _, e := range p.Edges {
				if k, isK := constInt(e); isK && k == 0 {
					continue
				}
				if !isCCSd(e, depth+1) {
					return false
				}
				any = true
			}
			return any
		}
		return false
	}
	isCCS := func(v ssa.Value) bool { return isCCSd(v, 0) }
	within := EdgesWhere(lit, func(cond ssa.Value) (bool, bool) {
		b, ok := cond.(*ssa.BinOp)
		if !ok {
			return false, false
		}
		if os.Getenv("SGDEBUG") != "" && (b.Op == token.LSS || b.Op == token.GEQ || b.Op == token.LEQ || b.Op == token.GTR) {
			fmt.Printf("COND %s: %s  X=%s(%T) Y=%s(%T)\n", c.Pos(b.Pos()), b.String(), b.X.String(), b.X, b.Y.String(), b.Y)
		}
		seqOf := func(v ssa.Value) bool { f, _ := fieldRead(v); return f != nil && f.Name() == "Seq" && namedOf(f.Type()) != "SequenceID" }
		if isCCS(b.X) && seqOf(b.Y) {
			switch b.Op {
			case token.LSS:
				return true, false // ccs < seq is false ⇒ within bound
			case token.GEQ:
				return true, true
			}
		}
		if seqOf(b.X) && isCCS(b.Y) {
			switch b.Op {
			case token.GTR:
				return true, false
			case token.LEQ:
				return true, true
			}
		}
		return false, false
	})
	// valid revocation edges
	validRev := EdgesWhere(lit, func(cond ssa.Value) (bool, bool) {
		v, pos := BoolTest(cond)
		if p, ok := v.(*ssa.Phi); ok {
			// the && of (Revoked == true) and (TriggeredBy <= cached high sequence)
			for _, e := range p.Edges {
				if b, ok := e.(*ssa.BinOp); ok && b.Op == token.LEQ && isCCS(b.Y) {
					if f, _ := fieldRead(b.X); f != nil && f.Name() == "TriggeredBy" {
						return true, pos
					}
				}
			}
		}
		// !isValidRevocation evaluated through the && chain: cond is the BinOp TriggeredBy <= ccs under Revoked
		b, ok := cond.(*ssa.BinOp)
		if ok && b.Op == token.LEQ && isCCS(b.Y) {
			if f, _ := fieldRead(b.X); f != nil && f.Name() == "TriggeredBy" {
				return true, true
			}
		}
		return false, false
	})
	if len(sendSel) == 0 {
		r.Fail("C01-R2", "fn=SimpleMultiChangesFeed$worker entry-send", c.Pos(lit.Pos()), "the send of merged entries was not found")
	}
	for i, s := range sendSel {
		ok := len(within) > 0 && DominatedBy(lit, s, NewAvoid().AddEdge(within...).AddEdge(validRev...))
		r.Check("C01-R2", fmt.Sprintf("fn=SimpleMultiChangesFeed$worker entry-send #%d only-if=seq<=cached-high-sequence|valid-revocation", i+1), c.Pos(s.Pos()), ok, "entries beyond the stable cached sequence are held back", "an entry later than the high cached sequence captured at the start of the iteration can be sent: a sequence not yet contiguous in the cache could be skipped by the client's next since")
	}
	// bound provenance
	okProv := len(c.Calls(lit, false, nameHasSuffix(".GetHighCacheSequence"))) > 0
	for cl := range ccsCells {
		for _, st := range storesInto(cl) {
			if !c.IsCallTo(st.Val, nameHasSuffix(".GetHighCacheSequence")) {
				if k, isK := constInt(st.Val); !(isK && k == 0) {
					okProv = false
				}
			}
		}
	}
	r.Check("C01-R2", "fn=SimpleMultiChangesFeed$worker bound=GetHighCacheSequence", c.Pos(lit.Pos()), okProv, "the bound is only ever the channel cache's high sequence", "the send bound is assigned from something other than the cache's high sequence")

	// R3
	nb := len(c.Calls(lit, false, nameIs("(db.SequenceID).Before")))
	r.Check("C01-R3", "fn=SimpleMultiChangesFeed$worker merge-order=SequenceID.Before", c.Pos(lit.Pos()), nb >= 2, fmt.Sprintf("%d comparisons through Before", nb), "the feed merge no longer uses SequenceID.Before")
	// options.Since = minSeq store dominated by Since.Before(minSeq) true edge
	sinceF := c.Field("db.ChangesOptions", "Since")
	var beforeTrue []Edge
	for _, call := range c.Calls(lit, false, nameIs("(db.SequenceID).Before")) {
		// receiver is a load of options.Since
		recv := call.Common().Args[0]
		if f, _ := fieldRead(recv); f == sinceF {
			cv := valueOfCall(call)
			pos, _ := EdgesOnValue(lit, func(v ssa.Value) bool { return v == cv })
			beforeTrue = append(beforeTrue, pos...)
		}
	}
	k := 0
	EachInstr(lit, false, func(in ssa.Instruction) {
		st, ok := in.(*ssa.Store)
		if !ok {
			return
		}
		fa, ok := st.Addr.(*ssa.FieldAddr)
		if !ok || structField(fa.X.Type(), fa.Field) != sinceF {
			return
		}
		root := rootAddr(fa.X)
		if !isRequestOptionsCell(root, lit) {
			return
		}
		k++
		ok2 := len(beforeTrue) > 0 && DominatedBy(lit, st, NewAvoid().AddEdge(beforeTrue...))
		r.Check("C01-R3", fmt.Sprintf("fn=SimpleMultiChangesFeed$worker store=options.Since #%d only-if=Since.Before(new)", k), c.Pos(st.Pos()), ok2, "the resume position never moves backwards", "the feed's resume position can be assigned without being Before the new value (a late sequence would roll it back)")
	})
	// restore before wait
	c01RestoreBeforeWait(c, r, lit, "C01-R3")
}

// c01RestoreBeforeWait: the iteration clears options.Since.LowSeq when it equals the current low sequence; a request that then waits
// must get the low sequence it arrived with back before waiting (unless late-sequence feeds are in use).
func c01RestoreBeforeWait(c *Ctx, r *Report, lit *ssa.Function, rule string) {
	lowF := c.Field("db.SequenceID", "LowSeq")
	sinceF := c.Field("db.ChangesOptions", "Since")
	var clears, restores []ssa.Instruction
	EachInstr(lit, false, func(in ssa.Instruction) {
		st, ok := in.(*ssa.Store)
		if !ok {
			return
		}
		fa, ok := st.Addr.(*ssa.FieldAddr)
		if !ok || structField(fa.X.Type(), fa.Field) != lowF {
			return
		}
		inner, ok := fa.X.(*ssa.FieldAddr)
		if !ok || structField(inner.X.Type(), inner.Field) != sinceF {
			return
		}
		if !isRequestOptionsCell(rootAddr(inner.X), lit) {
			return
		}
		if k, isK := constInt(st.Val); isK && k == 0 {
			clears = append(clears, st)
		} else {
			restores = append(restores, st)
		}
	})
	waits := c.Calls(lit, false, nameIs("(*db.ChangeWaiter).Wait"))
	if len(clears) == 0 {
		r.Pass(rule, "fn=SimpleMultiChangesFeed$worker low-sequence never cleared", c.Pos(lit.Pos()), "nothing to restore")
		return
	}
	if len(waits) == 0 {
		r.Fail(rule, "fn=SimpleMultiChangesFeed$worker wait", c.Pos(lit.Pos()), "the change waiter is no longer used")
		return
	}
	// edges on which late-sequence feeds are in use
	// the 'late-sequence feeds in use' flag: the boolean whose true edge guards the creation of a late feed (identified by that role)
	lateFlag := map[ssa.Value]bool{}
	lateCalls := c.Calls(lit, false, nameHasSuffix(".getLateFeed", ".newLateSequenceFeed"))
	for _, i := range Ifs(lit) {
		v, pos := BoolTest(i.Cond)
		if v == nil {
			continue
		}
		succ := 0
		if !pos {
			succ = 1
		}
		guards := false
		for _, lc := range lateCalls {
			if DominatedBy(lit, lc, NewAvoid().AddEdge(Edge{i.Block(), succ})) {
				guards = true
			}
		}
		if !guards {
			continue
		}
		if ad, ok := loadOf(v); ok {
			lateFlag[rootAddr(ad)] = true
		} else {
			lateFlag[v] = true
		}
	}
	late := EdgesWhere(lit, func(cond ssa.Value) (bool, bool) {
		v, pos := BoolTest(cond)
		if v == nil {
			return false, false
		}
		if lateFlag[v] {
			return true, pos
		}
		if ad, ok := loadOf(v); ok && lateFlag[rootAddr(ad)] {
			return true, pos
		}
		return false, false
	})
	for i, cl := range clears {
		leak := ReachAfter(cl, func(in ssa.Instruction) bool {
			for _, w := range waits {
				if in == ssa.Instruction(w) {
					return true
				}
			}
			return false
		}, NewAvoid().AddInstr(restores...).AddEdge(late...))
		r.Check(rule, fmt.Sprintf("fn=SimpleMultiChangesFeed$worker low-sequence-cleared #%d restored-before=wait", i+1), c.Pos(cl.Pos()), len(restores) > 0 && leak == nil,
			"a request that waits gets its own low sequence back first (or uses late-sequence feeds)", "a longpoll request whose low sequence was cleared for this iteration can go to sleep without getting it back: when the missing sequence arrives late the request resumes past it and the change is never delivered")
	}
}

func c01R4(c *Ctx, r *Report) {
	r.Rule("C01-R4", "E1 guardedby + sibling agreement", "singleChannelCacheImpl{logs,validFrom,cachedDocIDs} under .lock, late logs under .lateLogLock, changeListener counters under tapNotifier.L; the doc-id index is updated wherever entries are dropped from the entry list", 30)
	la := newLockAnalysis(c, []string{"singleChannelCacheImpl.lock", "singleChannelCacheImpl.lateLogLock", "changeListener.tapNotifier.L"}, "db")
	la.Solve()
	runGuardRule(c, r, "C01-R4", la, c01GuardRows, c01GuardExempt)
	// index maintenance: every function that re-slices c.logs to drop entries also deletes from cachedDocIDs on the same paths
	logsF := c.Field("db.singleChannelCacheImpl", "logs")
	idxF := c.Field("db.singleChannelCacheImpl", "cachedDocIDs")
	for _, fn := range c.ScopeFuncs() {
		recv := TopLevel(fn).Signature.Recv()
		if recv == nil || namedOf(recv.Type()) != "singleChannelCacheImpl" {
			continue
		}
		var drops []*ssa.Store
		EachInstr(fn, false, func(in ssa.Instruction) {
			st, ok := in.(*ssa.Store)
			if !ok {
				return
			}
			fa, ok := st.Addr.(*ssa.FieldAddr)
			if !ok || structField(fa.X.Type(), fa.Field) != logsF {
				return
			}
			// value is a re-slice of the same field (dropping a prefix / suffix): Slice whose X derives from load of logs
			if sl, ok := st.Val.(*ssa.Slice); ok {
				if f, _ := fieldRead(sl.X); f == logsF {
					drops = append(drops, st)
				}
			}
		})
		if len(drops) == 0 {
			continue
		}
		var dels []ssa.Instruction
		EachInstr(fn, false, func(in ssa.Instruction) {
			if call, ok := in.(*ssa.Call); ok {
				if b, ok := call.Call.Value.(*ssa.Builtin); ok && b.Name() == "delete" {
					if f, _ := fieldRead(call.Call.Args[0]); f == idxF {
						dels = append(dels, call)
					}
				}
			}
		})
		for i, d := range drops {
			ok := len(dels) > 0 && DominatedBy(fn, d, NewAvoid().AddInstr(dels...))
			if !ok && len(dels) > 0 {
				// delete after the drop on every path, or a delete of a DocID taken from the entry list inside a loop that precedes the drop
				after := ReachAfter(d, func(in ssa.Instruction) bool { _, isRet := in.(*ssa.Return); return isRet }, NewAvoid().AddInstr(dels...)) == nil
				loopBefore := false
				for _, dl := range dels {
					call := dl.(*ssa.Call)
					keyFromLogs := DependsOn(call.Call.Args[1], func(v ssa.Value) bool { f, _ := fieldRead(v); return f == logsF })
					if keyFromLogs && inLoop(dl) && ReachAfter(dl, func(in ssa.Instruction) bool { return in == ssa.Instruction(d) }, nil) != nil {
						loopBefore = true
					}
				}
				ok = after || loopBefore
			}
			r.Check("C01-R4", fmt.Sprintf("fn=%s drops-entries #%d also-removes=cachedDocIDs", c.FuncName(fn), i+1), c.Pos(d.Pos()), ok,
				"entries leave the list only after their doc ids left the index", "entries are dropped from the channel's entry list without removing their doc ids from the index: a later query back-fill skips those documents as 'already cached' yet marks the range valid, so cache-served requests silently omit them")
		}
	}
}

func c01R5(c *Ctx, r *Report) {
	r.Rule("C01-R5", "E2 pathrules", "changeListener.Wait evaluates its predicate under the lock inside the waiting loop; every caller of processEntry forwards the changed channels to the notifier", 6)
	w := c.Func("(*db.changeListener).Wait")
	if w == nil {
		r.Fail("C01-R5", "anchor (*db.changeListener).Wait", "-", "function not found")
	} else {
		waits := c.Calls(w, false, nameIs("(*sync.Cond).Wait"))
		preds := c.Calls(w, false, nameIs("(*db.changeListener)._currentCount"))
		ok := len(waits) == 1 && len(preds) > 0
		if ok {
			// predicate is re-evaluated after every wake-up: from the Wait call, reaching Wait again passes a predicate evaluation
			again := ReachAfter(waits[0], func(in ssa.Instruction) bool { return in == ssa.Instruction(waits[0]) }, NewAvoid().AddInstr(instrs(preds)...))
			// and before the first wait
			first := DominatedBy(w, waits[0], NewAvoid().AddInstr(instrs(preds)...))
			ok = again == nil && first
		}
		r.Check("C01-R5", "fn=(*db.changeListener).Wait predicate-checked-under-lock before-each-wait", c.Pos(w.Pos()), ok, "no check-then-wait window", "the waiter can block without (re-)evaluating its predicate under the lock: a notification between check and wait would be lost")
	}
	c01PendingFlush(c, r)
	// processEntry callers
	n := 0
	for _, fn := range c.ScopeFuncs() {
		for _, call := range c.Calls(fn, false, nameIs("(*db.changeCache).processEntry")) {
			n++
			cv := call.(*ssa.Call)
			// the result flows (possibly via set conversions) into a call of notifyChange / notifyChangeFunc, or is returned to a caller that does
			flows := false
			EachInstr(fn, false, func(in ssa.Instruction) {
				nc, ok := in.(ssa.CallInstruction)
				if !ok {
					return
				}
				name := c.CalleeName(nc)
				isNotify := name == "(*db.changeCache).notifyChange" || fieldOfDynamicCall(nc) == "notifyChangeFunc"
				if !isNotify {
					return
				}
				for _, a := range nc.Common().Args {
					if DependsOn(a, func(v ssa.Value) bool { return v == ssa.Value(cv) }) {
						flows = true
					}
				}
			})
			if !flows {
				// accumulated into a set that is later notified (Update on a set variable)
				flows = c01FlowsToNotifyViaSet(c, fn, cv)
			}
			r.Check("C01-R5", fmt.Sprintf("fn=%s processEntry #%d result→notify", c.FuncName(fn), n), c.Pos(call.Pos()), flows, "changed channels are forwarded to the notifier", "the channels changed by this entry are not forwarded to the change notifier: continuous/longpoll feeds on those channels would not wake up")
		}
	}
}

// c01PendingFlush: results of _addPendingLogs / processUnusedRange are either returned to the caller or forwarded to the notifier.
func c01PendingFlush(c *Ctx, r *Report) {
	n := 0
	for _, fn := range c.ScopeFuncs() {
		for _, call := range c.Calls(fn, false, nameIs("(*db.changeCache)._addPendingLogs", "(*db.changeCache).processUnusedRange")) {
			cv, ok := call.(*ssa.Call)
			if !ok {
				continue
			}
			n++
			returned := false
			for _, ret := range Returns(fn) {
				for _, res := range ret.Results {
					if DependsOn(res, func(v ssa.Value) bool { return v == ssa.Value(cv) }) {
						returned = true
					}
				}
			}
			notified := c01FlowsToNotifyViaSet(c, fn, cv)
			r.Check("C01-R5", fmt.Sprintf("fn=%s %s #%d result→return|notify", c.FuncName(fn), CalleeIdent(call), n), c.Pos(call.Pos()), returned || notified, "channels unblocked by flushing pending entries reach the notifier", "channels changed by flushing pending entries are dropped: feeds waiting on them are not woken")
		}
	}
}

func instrs(cs []ssa.CallInstruction) []ssa.Instruction {
	var out []ssa.Instruction
	for _, x := range cs {
		out = append(out, x)
	}
	return out
}

// c01FlowsToNotifyViaSet: result → SetFromArray… → Update(set) → … → notify(set)
func c01FlowsToNotifyViaSet(c *Ctx, fn *ssa.Function, res *ssa.Call) bool {
	// any notify call in the function whose argument depends (through calls, which DependsOn follows by argument) on res
	found := false
	EachInstr(fn, false, func(in ssa.Instruction) {
		nc, ok := in.(ssa.CallInstruction)
		if !ok {
			return
		}
		name := c.CalleeName(nc)
		if !(name == "(*db.changeCache).notifyChange" || fieldOfDynamicCall(nc) == "notifyChangeFunc") {
			return
		}
		for _, a := range nc.Common().Args {
			if DependsOn(a, func(v ssa.Value) bool {
				// phi/cell merges of sets built from res
				if cc, ok := v.(*ssa.Call); ok {
					for _, x := range cc.Call.Args {
						if x == ssa.Value(res) {
							return true
						}
					}
				}
				return v == ssa.Value(res)
			}) {
				found = true
			}
		}
	})
	return found
}

// isRequestOptionsCell: root is the feed request's own ChangesOptions variable — a cell of that type that belongs to the function
// enclosing the worker literal (captured), as opposed to the per-channel copies the worker makes locally.
func isRequestOptionsCell(root ssa.Value, lit *ssa.Function) bool {
	al, ok := root.(*ssa.Alloc)
	if !ok {
		return false
	}
	pt, ok := al.Type().(*types.Pointer)
	return ok && namedOf(pt.Elem()) == "ChangesOptions" && al.Parent() == TopLevel(lit) && TopLevel(lit) != lit
}

// C01-R6: a back-fill (query result prepended to a channel cache) may move the cache's validity point down only if the range the
// query covered reaches up to the current validity point; otherwise entries pruned in between (the gap) would be reported as covered
// by the cache and silently omitted from every later feed.
func c01R6(c *Ctx, r *Report) {
	r.Rule("C01-R6", "E2 pathrules", "prependChanges stores the cache's validity point only on the edge where the back-filled range is contiguous with it (changesValidTo >= validFrom)", 2)
	fn := c.Func("(*db.singleChannelCacheImpl).prependChanges")
	vf := c.Field("db.singleChannelCacheImpl", "validFrom")
	if fn == nil || vf == nil || len(fn.Params) < 5 {
		r.Fail("C01-R6", "anchor prependChanges / validFrom", "-", "function or field not found")
		return
	}
	validTo := fn.Params[4] // (receiver, ctx, changes, changesValidFrom, changesValidTo)
	isVF := func(v ssa.Value) bool { f, _ := fieldRead(v); return f == vf }
	isTo := func(v ssa.Value) bool { return v == ssa.Value(validTo) }
	contiguous := EdgesWhere(fn, func(cond ssa.Value) (bool, bool) {
		b, ok := cond.(*ssa.BinOp)
		if !ok {
			return false, false
		}
		switch {
		case isTo(b.X) && isVF(b.Y):
			switch b.Op {
			case token.LSS:
				return true, false
			case token.GEQ:
				return true, true
			}
		case isVF(b.X) && isTo(b.Y):
			switch b.Op {
			case token.GTR:
				return true, false
			case token.LEQ:
				return true, true
			}
		}
		return false, false
	})
	n := 0
	EachInstr(fn, false, func(in ssa.Instruction) {
		st, ok := in.(*ssa.Store)
		if !ok {
			return
		}
		fa, ok := st.Addr.(*ssa.FieldAddr)
		if !ok || structField(fa.X.Type(), fa.Field) != vf {
			return
		}
		n++
		okDom := len(contiguous) > 0 && DominatedBy(fn, st, NewAvoid().AddEdge(contiguous...))
		r.Check("C01-R6", fmt.Sprintf("fn=prependChanges store=validFrom #%d only-if=range-reaches-validity-point", n), c.Pos(st.Pos()), okDom, "dominated by changesValidTo >= validFrom", "a back-fill can lower the cache's validity point although the range it queried ends below it: sequences pruned in between are then treated as cached and never delivered")
	})
	if n == 0 {
		r.Fail("C01-R6", "fn=prependChanges store=validFrom", c.Pos(fn.Pos()), "no store to the validity point found")
	}
}

// C01-R7: sibling agreement between a channel cache and its late-sequence log. When a late-arriving entry is a removal from the
// channel, the cache stores a copy flagged Removed; the entry queued for the late-sequence feeds (which serve continuous requests)
// must be such a flagged copy too, otherwise a continuous feed announces an ordinary change where a one-shot feed announces a removal.
func c01R7(c *Ctx, r *Report) {
	r.Rule("C01-R7", "E2 feasible-edge walk (sibling agreement)", "in channelCacheImpl.AddToCache, on the removal edge the entry handed to AddLateSequence is not the unflagged entry handed to addToCache", 1)
	fn := c.Func("(*db.channelCacheImpl).AddToCache")
	if fn == nil {
		r.Fail("C01-R7", "anchor (*db.channelCacheImpl).AddToCache", "-", "function not found")
		return
	}
	adds := c.Calls(fn, false, nameHasSuffix(".addToCache"))
	lates := c.Calls(fn, false, nameHasSuffix(".AddLateSequence"))
	n := 0
	for _, a := range adds {
		aa := a.Common().Args
		if len(aa) < 3 {
			continue
		}
		flag := aa[len(aa)-1]
		if k, isK := flag.(*ssa.Const); isK && k.Value != nil && k.Value.String() == "false" {
			continue // never a removal (star channel)
		}
		entry := aa[len(aa)-2]
		for _, l := range lates {
			// the late-sequence call that follows this cache insertion (no other insertion in between)
			if ReachAfter(a, func(in ssa.Instruction) bool { return in == ssa.Instruction(l) }, NewAvoid().AddInstr(instrs(adds)...)) == nil {
				continue
			}
			n++
			la := l.Common().Args
			lateEntry := la[len(la)-1]
			construct := fmt.Sprintf("fn=(*db.channelCacheImpl).AddToCache late-entry #%d flagged-as-removal when=cache-entry-is", n)
			phi, isPhi := lateEntry.(*ssa.Phi)
			if !isPhi {
				r.Check("C01-R7", construct, c.Pos(l.Pos()), lateEntry != entry, "a distinct (flagged) entry is queued", "the late-sequence log is handed the very entry that the cache stores a Removed-flagged copy of: a late-arriving removal is sent to continuous feeds as an ordinary change")
				continue
			}
			feasible := FeasiblePhiEdges(fn, phi, func(cond ssa.Value) (bool, bool) {
				v, pos := BoolTest(cond)
				if v == flag {
					return pos, true // on the removal valuation the flag is true
				}
				if x, trueMeansNil, ok := NilTest(cond); ok {
					if b, isB := flag.(*ssa.BinOp); isB && (b.X == x || b.Y == x) {
						return trueMeansNil == false, true
					}
				}
				return false, false
			})
			ok := len(feasible) > 0
			for _, e := range feasible {
				if e == entry {
					ok = false
				}
			}
			r.Check("C01-R7", construct, c.Pos(l.Pos()), ok, "on the removal edge only the flagged copy reaches the late-sequence log", "on the removal edge the late-sequence log can receive the unflagged entry: a late-arriving removal is sent to continuous feeds as an ordinary change")
		}
	}
	if n == 0 {
		r.Fail("C01-R7", "fn=(*db.channelCacheImpl).AddToCache late-entry", c.Pos(fn.Pos()), "no late-sequence queueing found after a cache insertion that can be a removal")
	}
}
