package main

import (
	"fmt"
	"go/token"
	"go/types"
	"sort"
	"strings"

	"golang.org/x/tools/go/ssa"
)

func init() { registry["C05"] = checkC05 }

// casCallbackContext computes the set of functions that only ever run inside the compare-and-swap callback of
// updateAndReturnDoc: the literals passed as its callback argument, plus declared functions all of whose in-scope static
// callers are already in the set (fixpoint).
func casCallbackContext(c *Ctx) (lits map[*ssa.Function]bool, ctxFns map[*ssa.Function]bool) {
	lits = map[*ssa.Function]bool{}
	ctxFns = map[*ssa.Function]bool{}
	uar := "(*db.DatabaseCollectionWithUser).updateAndReturnDoc"
	for _, fn := range c.ScopeFuncs() {
		for _, call := range c.Calls(fn, false, nameIs(uar)) {
			args := call.Common().Args
			if len(args) == 0 {
				continue
			}
			cb := unwrap(args[len(args)-1])
			if mc, ok := cb.(*ssa.MakeClosure); ok {
				if lit, ok := mc.Fn.(*ssa.Function); ok {
					lits[lit] = true
					ctxFns[lit] = true
				}
			} else if f, ok := cb.(*ssa.Function); ok {
				lits[f] = true
				ctxFns[f] = true
			}
		}
	}
	// callers index
	callers := map[*ssa.Function][]*ssa.Function{}
	for _, fn := range c.ScopeFuncs() {
		EachInstr(fn, false, func(in ssa.Instruction) {
			if call, ok := in.(ssa.CallInstruction); ok {
				if cal := call.Common().StaticCallee(); cal != nil {
					if cal.Origin() != nil {
						cal = cal.Origin()
					}
					callers[cal] = append(callers[cal], fn)
				}
			}
		})
	}
	// the CAS literal inside updateAndReturnDoc and documentUpdateFunc also run inside the CAS loop
	if top := c.Func(uar); top != nil {
		for _, l := range top.AnonFuncs {
			ctxFns[l] = true
		}
	}
	changed := true
	for changed {
		changed = false
		for _, fn := range c.ScopeFuncs() {
			if ctxFns[fn] || fn.Parent() != nil {
				// nested literals of context functions are in context too
				if !ctxFns[fn] && fn.Parent() != nil && ctxFns[fn.Parent()] {
					ctxFns[fn] = true
					changed = true
				}
				continue
			}
			cs := callers[fn]
			if len(cs) == 0 {
				continue
			}
			all := true
			for _, g := range cs {
				if !ctxFns[g] {
					all = false
				}
			}
			if all {
				ctxFns[fn] = true
				changed = true
			}
		}
	}
	return
}

func checkC05(c *Ctx, r *Report) {
	r.Explain = "Decides structural necessary conditions of 'acknowledged writes are never lost / one accepted child per parent': (R1) every conflict decision (IsIllegalConflict, revTreeConflictCheck, Document.IsInConflict, the leaf test of Put) is evaluated inside the compare-and-swap callback on the document value that callback was handed (so it is re-evaluated on every CAS retry against the freshly read document), and Put accepts a client-supplied parent only on the edge where that parent is a leaf; (R2) document sync metadata is committed only through the CAS loop of updateAndReturnDoc / ResyncDocument or through writes that carry a CAS value read earlier (never the constant 0); (R3) the sequence reserved for a write survives CAS retries in variables declared outside the callback, a sequence kept from an earlier attempt is reused only when it is still greater than the document's stored sequence, otherwise a new one is allocated (above the stored one). (R4) the post-commit CAS re-stamp is issued only against the CAS the writer's own commit returned (never a CAS read afterwards), so it cannot overwrite a revision committed in between; (R5) the CAS callback carries nothing from one attempt into the next except the sequence bookkeeping and the function's named results.; (R6, shared with C07-R6) a release of the allocator's remaining window leaves no hand-out reachable before the window is abandoned — a sequence handed to an acknowledged write must not also be published as unused, or the feed drops the write as a duplicate. Not decided: that exactly one concurrent writer wins under every schedule, and that the feed ends up announcing the final revision."
	c05R1(c, r)
	c05R2(c, r)
	c05R3(c, r)
	c05R4(c, r)
	c05R5(c, r)
	c07R6For(c, r, "C05-R6")
}

func c05R1(c *Ctx, r *Report) {
	r.Rule("C05-R1", "E3 whomay + E2 pathrules", "conflict decisions run inside the CAS callback on the callback's own document parameter; Put accepts a supplied parent only on the is-leaf edge", 7)
	lits, ctxFns := casCallbackContext(c)
	if len(lits) < 3 {
		r.Fail("C05-R1", "anchor updateAndReturnDoc callbacks", "-", fmt.Sprintf("found %d callback literals, expected >= 3", len(lits)))
	}
	checks := map[string]int{ // callee -> index of the *Document argument (excluding receiver)
		"(*db.DatabaseCollectionWithUser).IsIllegalConflict":    1,
		"(*db.DatabaseCollectionWithUser).revTreeConflictCheck": 2,
		"(*db.Document).IsInConflict":                           -1, // receiver
	}
	cnt := map[string]int{}
	for _, fn := range c.ScopeFuncs() {
		EachInstr(fn, false, func(in ssa.Instruction) {
			call, ok := in.(ssa.CallInstruction)
			if !ok {
				return
			}
			name := c.CalleeName(call)
			idx, ok := checks[name]
			if !ok {
				return
			}
			k := c.FuncName(fn) + "|" + CalleeIdent(call)
			cnt[k]++
			construct := fmt.Sprintf("fn=%s conflict-check=%s #%d inside=CAS-callback", c.FuncName(fn), CalleeIdent(call), cnt[k])
			pos := c.Pos(call.Pos())
			if !ctxFns[fn] {
				r.Fail("C05-R1", construct, pos, "conflict decision evaluated outside the compare-and-swap callback: it would judge a stale copy of the document and not be repeated on CAS retry (lost update / two children of one parent)")
				return
			}
			var docArg ssa.Value
			if idx < 0 {
				docArg = call.Common().Args[0]
			} else {
				a := callArgs(call)
				if idx < len(a) {
					docArg = a[idx]
				}
			}
			// the document must come from a parameter of a context function, not from a captured variable
			fromParam := docArg != nil && DependsOn(docArg, func(v ssa.Value) bool {
				p, ok := v.(*ssa.Parameter)
				return ok && isDocPtr(p.Type())
			})
			fromOuter := docArg != nil && DependsOn(docArg, func(v ssa.Value) bool {
				fv, ok := v.(*ssa.FreeVar)
				return ok && isDocPtrOrCell(fv.Type())
			})
			r.Check("C05-R1", construct, pos, fromParam && !fromOuter, "judges the document handed to the callback", "the conflict check judges a document value captured from outside the callback (stale under CAS retry)")
		})
	}
	// Put: IsIllegalConflict / acceptance only on isLeaf edge
	var putLit *ssa.Function
	if put := c.Func("(*db.DatabaseCollectionWithUser).Put"); put != nil {
		for _, l := range put.AnonFuncs {
			if lits[l] {
				putLit = l
			}
		}
	}
	if putLit == nil {
		r.Fail("C05-R1", "anchor Put callback", "-", "callback literal of Put not found")
		return
	}
	// the leaf test may live in the callback itself or in a helper that only the callback calls (followed to depth 2)
	cands := []*ssa.Function{putLit}
	for depth, frontier := 0, []*ssa.Function{putLit}; depth < 2; depth++ {
		var next []*ssa.Function
		for _, f := range frontier {
			EachInstr(f, false, func(in ssa.Instruction) {
				if ci, ok := in.(ssa.CallInstruction); ok {
					if cal := ci.Common().StaticCallee(); cal != nil && cal.Parent() == nil && ctxFns[cal] && len(cal.Blocks) > 0 {
						next = append(next, cal)
						cands = append(cands, cal)
					}
				}
			})
		}
		frontier = next
	}
	found := false
	for _, host := range cands {
		leafCalls := c.Calls(host, false, nameIs("(db.RevTree).isLeaf"))
		ics := c.Calls(host, false, nameIs("(*db.DatabaseCollectionWithUser).IsIllegalConflict"))
		if len(leafCalls) == 0 || len(ics) == 0 {
			continue
		}
		found = true
		var leafTrue []Edge
		for _, lc := range leafCalls {
			lv := valueOfCall(lc)
			pos, _ := EdgesOnValue(host, func(v ssa.Value) bool { return v == lv })
			leafTrue = append(leafTrue, pos...)
		}
		for i, ic := range ics {
			ok := len(leafTrue) > 0 && DominatedBy(host, ic, NewAvoid().AddEdge(leafTrue...))
			r.Check("C05-R1", fmt.Sprintf("fn=(*db.DatabaseCollectionWithUser).Put$callback accept-parent #%d only-on=isLeaf(parent)", i+1), c.Pos(ic.Pos()), ok,
				"a client-supplied parent is accepted only if it is a leaf of the freshly read tree", "Put can accept a client-supplied parent revision that is not a leaf: two acknowledged children of one parent become possible")
		}
	}
	if !found {
		r.Fail("C05-R1", "fn=(*db.DatabaseCollectionWithUser).Put$callback leaf-test", c.Pos(putLit.Pos()), "the leaf test / conflict test on the supplied parent revision is missing")
	}
}

func isDocPtr(t types.Type) bool {
	p, ok := t.(*types.Pointer)
	return ok && namedOf(p.Elem()) == "Document"
}

func isDocPtrOrCell(t types.Type) bool {
	if isDocPtr(t) {
		return true
	}
	if p, ok := t.(*types.Pointer); ok {
		return isDocPtr(p.Elem())
	}
	return false
}

func c05R2(c *Ctx, r *Report) {
	r.Rule("C05-R2", "E3 whomay + def-use", "sync metadata is committed only via the CAS loop (WriteUpdateWithXattrs in updateAndReturnDoc / ResyncDocument) or by CAS-carrying xattr writes whose cas argument derives from a previously read CAS", 6)
	allowedLoop := map[string]bool{"(*db.DatabaseCollectionWithUser).updateAndReturnDoc": true, "(*db.DatabaseCollectionWithUser).ResyncDocument": true}
	casIdx := map[string]int{"UpdateXattrs": 3, "WriteWithXattrs": 3, "WriteTombstoneWithXattrs": 3, "WriteResurrectionWithXattrs": -1, "SetXattrs": -2, "DeleteWithXattrs": -1, "RemoveXattrs": 3}
	exempt := map[string]string{
		"db.attachmentCompactMarkPhase":    "marks attachment documents (not sync metadata) with a compaction id",
		"db.handleAttachments":             "marks attachment documents (not sync metadata) with a compaction id",
		"db.attachmentCompactSweepPhase":   "attachment documents",
		"db.attachmentCompactCleanupPhase": "attachment documents",
		"(*db.DatabaseCollectionWithUser).Purge": "purge removes the document and its metadata unconditionally by design (admin operation)",
	}
	n := map[string]int{}
	for _, fn := range c.ScopeFuncs() {
		if fn.Pkg == nil || fn.Pkg.Pkg.Name() != "db" {
			continue
		}
		EachInstr(fn, false, func(in ssa.Instruction) {
			call, ok := in.(ssa.CallInstruction)
			if !ok || !isStorageIface(call) {
				return
			}
			id := CalleeIdent(call)
			top := c.FuncName(TopLevel(fn))
			if id == "WriteUpdateWithXattrs" {
				n[top+id]++
				r.Check("C05-R2", fmt.Sprintf("fn=%s commit=WriteUpdateWithXattrs #%d", top, n[top+id]), c.Pos(call.Pos()), allowedLoop[top], "CAS loop owner", "a new read-modify-write loop over document metadata outside the two owners: conflict checks, sequence handling and invalidation of the main write path would be bypassed")
				return
			}
			idx, ok := casIdx[id]
			if !ok {
				return
			}
			if _, ex := exempt[top]; ex {
				return
			}
			n[top+id]++
			construct := fmt.Sprintf("fn=%s xattr-write=%s #%d cas-guarded", top, id, n[top+id])
			if idx < 0 {
				r.Fail("C05-R2", construct, c.Pos(call.Pos()), "metadata write without a CAS argument in package db")
				return
			}
			args := call.Common().Args
			if idx >= len(args) {
				r.Fail("C05-R2", construct, c.Pos(call.Pos()), "unexpected arity")
				return
			}
			cas := args[idx]
			if k, isConst := constInt(cas); isConst && k == 0 {
				r.Fail("C05-R2", construct, c.Pos(call.Pos()), "cas argument is the constant 0: the write overwrites concurrent updates unconditionally")
				return
			}
			okDep := DependsOn(cas, func(v ssa.Value) bool {
				if p, ok := v.(*ssa.Parameter); ok {
					return types.Identical(p.Type(), types.Typ[types.Uint64])
				}
				if f, _ := fieldRead(v); f != nil && (f.Name() == "Cas" || f.Name() == "cas") {
					return true
				}
				if e, ok := v.(*ssa.Extract); ok {
					_ = e
					return types.Identical(v.Type(), types.Typ[types.Uint64])
				}
				return false
			})
			r.Check("C05-R2", construct, c.Pos(call.Pos()), okDep, "cas derives from a value read earlier", "cas argument does not derive from a CAS value read from the bucket")
		})
	}
}

func c05R3(c *Ctx, r *Report) {
	r.Rule("C05-R3", "E2 pathrules", "a sequence kept from an earlier CAS attempt is reused only if it is still greater than the stored document sequence; otherwise a new one is allocated, and one not above the stored sequence is replaced via nextSequenceGreaterThan", 2)
	name := "(*db.DatabaseContext).assignSequence"
	fn := c.Func(name)
	if fn == nil {
		r.Fail("C05-R3", "anchor "+name, "-", "function not found")
		return
	}
	seqF := c.Field("db.SyncData", "Sequence")
	var stores []*ssa.Store
	for _, st := range c.storesToField(seqF) {
		if st.Parent() == fn {
			stores = append(stores, st)
		}
	}
	if len(stores) == 0 {
		r.Fail("C05-R3", "fn="+name+" store=doc.Sequence", c.Pos(fn.Pos()), "the assigned sequence is not stored on the document")
		return
	}
	// edges on which X > doc.Sequence is known, X an unsigned value (parameter docSequence or an allocation result)
	gtEdges := EdgesWhere(fn, func(cond ssa.Value) (bool, bool) {
		b, ok := cond.(*ssa.BinOp)
		if !ok {
			return false, false
		}
		lf, _ := fieldRead(b.X)
		rf, _ := fieldRead(b.Y)
		if rf == seqF && lf == nil { // X OP doc.Sequence
			switch b.Op {
			case token.GTR:
				return true, true
			case token.LEQ:
				return true, false
			}
		}
		if lf == seqF && rf == nil { // doc.Sequence OP X
			switch b.Op {
			case token.LSS:
				return true, true
			case token.GEQ:
				return true, false
			}
		}
		return false, false
	})
	var okEdges []Edge
	for _, call := range c.Calls(fn, false, nameIs("(*db.sequenceAllocator).nextSequenceGreaterThan")) {
		cv := call.(*ssa.Call)
		ev := errValueOf(cv)
		_, neg := EdgesOnValue(fn, func(v ssa.Value) bool { return unwrapLoadFree(v) == ev })
		okEdges = append(okEdges, neg...)
	}
	for i, st := range stores {
		ok := len(gtEdges) > 0 && DominatedBy(fn, st, NewAvoid().AddEdge(gtEdges...).AddEdge(okEdges...))
		r.Check("C05-R3", fmt.Sprintf("fn=%s store=doc.Sequence #%d strictly-above-stored", name, i+1), c.Pos(st.Pos()), ok,
			"every path passes a (sequence > doc.Sequence) edge or a successful nextSequenceGreaterThan(doc.Sequence)", "a path assigns the document a sequence without establishing that it is greater than the stored one: a CAS retry could commit an acknowledged write below the sequence it supersedes")
	}
	// retry-state cells (shared with C07-R4 check, restated for this property)
	top := c.Func("(*db.DatabaseCollectionWithUser).updateAndReturnDoc")
	if top != nil {
		found := false
		for _, lit := range top.AnonFuncs {
			for _, call := range c.Calls(lit, false, nameIs("(*db.DatabaseCollectionWithUser).documentUpdateFunc")) {
				args := callArgs(call)
				if len(args) >= 6 {
					a1, ok1 := loadOf(args[4])
					a2, ok2 := loadOf(args[5])
					if ok1 && ok2 {
						_, isA1 := rootAddr(a1).(*ssa.Alloc)
						_, isA2 := rootAddr(a2).(*ssa.Alloc)
						p1 := isA1 && rootAddr(a1).(*ssa.Alloc).Parent() == top
						p2 := isA2 && rootAddr(a2).(*ssa.Alloc).Parent() == top
						found = p1 && p2
					}
				}
			}
		}
		r.Check("C05-R3", "fn=(*db.DatabaseCollectionWithUser).updateAndReturnDoc retry-state outlives-callback", c.Pos(top.Pos()), found, "docSequence and unusedSequences are variables of the enclosing function", "the reserved sequence is local to one CAS attempt: each retry would allocate afresh and leak the previous number")
	}
	_ = sort.Strings
}

// C05-R4: the post-commit re-stamp of a document's CAS writes the writer's in-memory metadata; it may only be issued against the CAS
// the writer's own commit returned. If it were issued against a CAS obtained by a later read, a revision another client committed in
// between would be overwritten by the first writer's metadata (an acknowledged write lost).
func c05R4(c *Ctx, r *Report) {
	r.Rule("C05-R4", "E3 def-use (value-only-from)", "restampVersionCAS is issued only with the CAS returned by the writer's own commit: its cas argument derives only from parameters, and correctVersionAheadOfCAS receives the CAS result of the commit write of the same function", 2)
	for _, fn := range c.ScopeFuncs() {
		n := 0
		for _, call := range c.Calls(fn, false, nameIs("(*db.DatabaseCollectionWithUser).restampVersionCAS")) {
			n++
			a := callArgs(call)
			cas := a[len(a)-1]
			ok := valueOnlyFrom(cas, func(v ssa.Value) (bool, bool) {
				switch x := v.(type) {
				case *ssa.Parameter:
					return true, true
				case *ssa.Call, *ssa.Extract:
					_ = x
					return true, false // any call result (a fresh read of the document's CAS, …) is not the commit's CAS
				}
				return false, false
			})
			r.Check("C05-R4", fmt.Sprintf("fn=%s restampVersionCAS #%d cas=from-parameter-only", c.FuncName(fn), n), c.Pos(call.Pos()), ok, "the re-stamp is conditional on the CAS handed in by the committing writer", "the post-commit CAS re-stamp is issued against a CAS obtained after the commit (a fresh read): it writes the first writer's in-memory metadata over whatever another client committed in between — that client's acknowledged revision disappears from the history")
		}
		n = 0
		for _, call := range c.Calls(fn, false, nameIs("(*db.DatabaseCollectionWithUser).correctVersionAheadOfCAS")) {
			n++
			a := callArgs(call)
			cas := a[len(a)-1]
			ok := DependsOn(cas, c.ResultOf(0, nameHasSuffix(".WriteUpdateWithXattrs"))) && valueOnlyFrom(cas, func(v ssa.Value) (bool, bool) {
				if ex, isEx := v.(*ssa.Extract); isEx {
					if cc, isCall := ex.Tuple.(*ssa.Call); isCall {
						return true, strings.HasSuffix(c.CalleeName(cc), ".WriteUpdateWithXattrs") && ex.Index == 0
					}
					return true, false
				}
				if _, isCall := v.(*ssa.Call); isCall {
					return true, false
				}
				if k, isK := constInt(v); isK {
					return true, k == 0
				}
				return false, false
			})
			r.Check("C05-R4", fmt.Sprintf("fn=%s correctVersionAheadOfCAS #%d cas=commit-result", c.FuncName(fn), n), c.Pos(call.Pos()), ok, "receives the CAS returned by WriteUpdateWithXattrs", "the CAS correction is not handed the CAS of the commit it corrects")
		}
	}
}

// C05-R5: the CAS callback of the document write path runs once per attempt on a freshly read document. The only state it may carry
// from one attempt to the next is the sequence bookkeeping (the sequence reserved so far and the list of superseded ones, handed to
// documentUpdateFunc and released on failure — R3, C07-R4) and the enclosing function's named results. Any other captured variable
// that an attempt writes and a later attempt reads before writing makes the retry act on the document the previous attempt saw.
func c05R5(c *Ctx, r *Report) {
	r.Rule("C05-R5", "E2 reaching stores on captured cells", "the CAS callback of updateAndReturnDoc carries across attempts only the sequence bookkeeping handed to documentUpdateFunc and the enclosing function's named results", 1)
	top := c.Func("(*db.DatabaseCollectionWithUser).updateAndReturnDoc")
	if top == nil {
		r.Fail("C05-R5", "anchor updateAndReturnDoc", "-", "function not found")
		return
	}
	n := 0
	for _, lit := range top.AnonFuncs {
		dufs := c.Calls(lit, false, nameIs("(*db.DatabaseCollectionWithUser).documentUpdateFunc"))
		if len(dufs) == 0 {
			continue
		}
		n++
		allowed := map[ssa.Value]string{}
		for _, d := range dufs {
			args := callArgs(d)
			for _, idx := range []int{4, 5} {
				if idx < len(args) {
					if ad, ok := loadOf(args[idx]); ok {
						allowed[ad] = "sequence bookkeeping"
					}
				}
			}
		}
		for _, al := range top.Locals {
			_ = al
		}
		// named results of the enclosing function
		resultCells := map[string]bool{}
		if res := top.Signature.Results(); res != nil {
			for i := 0; i < res.Len(); i++ {
				if res.At(i).Name() != "" {
					resultCells[res.At(i).Name()] = true
				}
			}
		}
		carried := carriedCellsDetailed(lit)
		ok, bad := true, ""
		for fv, ld := range carried {
			if _, isAllowed := allowed[ssa.Value(fv)]; isAllowed {
				continue
			}
			if al, isAlloc := freeVarBinding(fv).(*ssa.Alloc); isAlloc && resultCells[al.Comment] && al.Parent() == top {
				continue // a named result of updateAndReturnDoc (role: result cell; its declared name is part of the signature)
			}
			ok = false
			bad += fmt.Sprintf("%s (first read at %s) ", fv.Name(), c.Pos(ld.Pos()))
		}
		r.Check("C05-R5", "fn=updateAndReturnDoc$cas-callback carries-only=sequence-bookkeeping,named-results", c.Pos(lit.Pos()), ok,
			"no other state flows from one CAS attempt into the next", "the CAS callback keeps state from a previous attempt: "+bad+"— a retry then acts on what the previous attempt computed from a document that has since been overwritten")
	}
	if n == 0 {
		r.Fail("C05-R5", "fn=updateAndReturnDoc$cas-callback", c.Pos(top.Pos()), "the CAS callback was not found")
	}
}
