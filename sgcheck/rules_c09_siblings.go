package main

import (
	"fmt"
	"go/constant"
	"go/types"

	"golang.org/x/tools/go/ssa"
)

// setFieldPath assigns v to the (possibly promoted) field `name` of the abstract struct st of type t; returns false if absent.
func setFieldByName(st *aStruct, t types.Type, name string, v aval) bool {
	u, ok := t.Underlying().(*types.Struct)
	if !ok {
		return false
	}
	for i := 0; i < u.NumFields(); i++ {
		f := u.Field(i)
		if f.Name() == name {
			*st.cells[i] = v
			return true
		}
	}
	for i := 0; i < u.NumFields(); i++ {
		f := u.Field(i)
		if sub, ok := (*st.cells[i]).(*aStruct); ok {
			if _, isStruct := f.Type().Underlying().(*types.Struct); isStruct && (f.Embedded() || f.Name() == "RevAndVersion") {
				if setFieldByName(sub, f.Type(), name, v) {
					return true
				}
			}
		}
	}
	return false
}

// C09-R3: the three own-write predicates — SyncData.IsSGWrite (feed, body available), SyncData.IsSGWriteXattrOnly (feed, body not
// fetched) and Document.IsSGWrite (on-demand) — are evaluated abstractly for every valuation of the witnesses they consult and must
// agree: a write one of them calls the gateway's own while another calls it external is imported by one path and ignored by the
// other (double import, or a missed import).
func c09R3(c *Ctx, r *Report) {
	r.Rule("C09-R3", "E6 cmpeval (sibling agreement)", "SyncData.IsSGWrite, SyncData.IsSGWriteXattrOnly and Document.IsSGWrite give the same own-write verdict for every valuation of {cas equal, body-hash/stored-hash/delete-marker equalities, user xattr changed, stored CV present, CV extraction outcome, CV equal, delete}; an 'ambiguous' xattr-only verdict occurs only where the body hash alone decides", 4)
	F := c.Func("(*db.SyncData).IsSGWrite")
	X := c.Func("(*db.SyncData).IsSGWriteXattrOnly")
	D := c.Func("(*db.Document).IsSGWrite")
	for name, fn := range map[string]*ssa.Function{"(*db.SyncData).IsSGWrite": F, "(*db.SyncData).IsSGWriteXattrOnly": X, "(*db.Document).IsSGWrite": D} {
		if fn == nil {
			r.Fail("C09-R3", "anchor "+name, "-", "function not found")
			return
		}
	}
	sdT := c.NamedType("db.SyncData")
	docT := c.NamedType("db.Document")
	if sdT == nil || docT == nil {
		r.Fail("C09-R3", "anchor types", "-", "db.SyncData / db.Document not found")
		return
	}
	delConst := ""
	if k, ok := c.SSAPkg["base"].Pkg.Scope().Lookup("DeleteCrc32c").(*types.Const); ok {
		delConst = constantString(k)
	}
	if delConst == "" {
		r.Fail("C09-R3", "anchor base.DeleteCrc32c", "-", "constant not found")
		return
	}
	const (
		symCas, symSyncCas, symBodyHash, symStored, symDelMarker, symCV = 1, 2, 3, 4, 5, 6
	)
	// partitions of {bodyHash, stored, delMarker} as rank triples (only equalities matter)
	parts := [][3]int{{3, 3, 3}, {3, 3, 4}, {3, 4, 3}, {3, 4, 4}, {3, 4, 5}}
	type verdict struct{ is, amb bool }
	var firstBad [4]string
	cases := 0
	left := ""
	for _, casEq := range []bool{false, true} {
		for _, pt := range parts {
			for _, xattrChanged := range []bool{false, true} {
				for _, cvPresent := range []bool{false, true} {
					for cvOutcome := 0; cvOutcome < 3; cvOutcome++ { // 0 not found, 1 found, 2 extraction error
						for _, cvEqual := range []bool{false, true} {
							for _, isDelete := range []bool{false, true} {
								if isDelete && pt[0] != pt[2] {
									continue // the body hash of a deletion is the delete marker
								}
								rank := make([]int, 7)
								rank[symCas] = 1
								rank[symSyncCas] = 2
								if casEq {
									rank[symSyncCas] = 1
								}
								rank[symBodyHash], rank[symStored], rank[symDelMarker] = pt[0], pt[1], pt[2]
								if cvPresent {
									rank[symCV] = 1
								}
								setup := func(hlvNil bool) func(ev *cmpEval) {
									return func(ev *cmpEval) {
										ev.strSyms = map[string]aSym{delConst: {symDelMarker}}
										u := ev.uninterp
										u["(*db.SyncData).GetSyncCas"] = func(ev *cmpEval, a []aval) aval { return aSym{symSyncCas} }
										u["base.Crc32cHashString"] = func(ev *cmpEval, a []aval) aval { return aSym{symBodyHash} }
										u["db.HasUserXattrChanged"] = func(ev *cmpEval, a []aval) aval { return aBool(xattrChanged) }
										u["(*db.SyncData).CVEqual"] = func(ev *cmpEval, a []aval) aval { return aBool(cvEqual) }
										u["(db.cvExtractor).ExtractCV"] = func(ev *cmpEval, a []aval) aval {
											switch cvOutcome {
											case 0:
												return aTuple{aNil{}, aOpaque{"ErrNotFound"}}
											case 1:
												return aTuple{aOpaque{"cv"}, aNil{}}
											}
											return aTuple{aNil{}, aOpaque{"extraction error"}}
										}
										u["errors.Is"] = func(ev *cmpEval, a []aval) aval {
											o, _ := a[0].(aOpaque)
											return aBool(o.what == "ErrNotFound")
										}
										for _, lg := range []string{"base.InfofCtx", "base.DebugfCtx", "base.WarnfCtx", "base.TracefCtx"} {
											u[lg] = func(ev *cmpEval, a []aval) aval { return aNil{} }
										}
										for _, rd := range []string{"base.UD", "base.MD", "(*db.HybridLogicalVector).GetCurrentVersionString", "(*channels.RevAndVersion).CV", "(channels.RevAndVersion).CV"} {
											u[rd] = func(ev *cmpEval, a []aval) aval { return aOpaque{"redacted"} }
										}
										u["builtin.len"] = func(ev *cmpEval, a []aval) aval {
											if o, ok := a[0].(aOpaque); ok && o.what == "rawBody" {
												return aInt{1}
											}
											return aSym{0}
										}
										u["(*db.Document).BodyBytes"] = func(ev *cmpEval, a []aval) aval { return aTuple{aOpaque{"marshalled"}, aNil{}} }
										u["(*db.HybridLogicalVector).ExtractCurrentVersionFromHLV"] = func(ev *cmpEval, a []aval) aval { return aOpaque{"cv"} }
									}
								}
								mkSync := func() *aStruct {
									st := zeroOf(sdT).(*aStruct)
									ok := setFieldByName(st, sdT, "Crc32c", aSym{symStored})
									ok = setFieldByName(st, sdT, "CurrentVersion", aSym{symCV}) && ok
									ok = setFieldByName(st, sdT, "CurrentSource", aSym{symCV}) && ok
									if !ok {
										leave("SyncData fields Crc32c / RevAndVersion.CurrentVersion / CurrentSource not found")
									}
									return st
								}
								run := func(fn *ssa.Function, hlvNil bool, args ...aval) (verdict, bool) {
									v, l := evalWith(c, fn, rank, setup(hlvNil), args...)
									if l != "" {
										if left == "" {
											left = l
										}
										return verdict{}, false
									}
									t, ok := v.(aTuple)
									if !ok || len(t) < 2 {
										left = fmt.Sprintf("%s returned %T", c.FuncName(fn), v)
										return verdict{}, false
									}
									b0, ok0 := t[0].(aBool)
									b1, ok1 := t[1].(aBool)
									if !ok0 || !ok1 {
										left = fmt.Sprintf("%s returned non-boolean results", c.FuncName(fn))
										return verdict{}, false
									}
									return verdict{bool(b0), bool(b1)}, true
								}
								var f, x, d verdict
								var ok bool
								func() {
									defer func() {
										if p := recover(); p != nil {
											if e, isL := p.(errLeftFragment); isL {
												left, ok = e.msg, false
												return
											}
											panic(p)
										}
									}()
									var ok1, ok2, ok3 bool
									f, ok1 = run(F, false, aPtr{str: mkSync()}, aOpaque{"ctx"}, aSym{symCas}, aOpaque{"rawBody"}, aOpaque{"userXattr"}, aOpaque{"extractor"})
									x, ok2 = run(X, false, aPtr{str: mkSync()}, aOpaque{"ctx"}, aSym{symCas}, aBool(isDelete), aOpaque{"userXattr"}, aOpaque{"extractor"})
									ok, ok3 = ok1 && ok2, true
									if cvOutcome != 2 { // the on-demand sibling reads the vector from the loaded document: no extraction error
										doc := zeroOf(docT).(*aStruct)
										okS := setFieldByName(doc, docT, "Crc32c", aSym{symStored})
										okS = setFieldByName(doc, docT, "CurrentVersion", aSym{symCV}) && okS
										okS = setFieldByName(doc, docT, "CurrentSource", aSym{symCV}) && okS
										okS = setFieldByName(doc, docT, "Cas", aSym{symCas}) && okS
										okS = setFieldByName(doc, docT, "Deleted", aBool(isDelete)) && okS
										if cvOutcome == 1 {
											okS = setFieldByName(doc, docT, "HLV", aOpaque{"hlv"}) && okS
										}
										if !okS {
											leave("Document fields Crc32c / CurrentVersion / CurrentSource / Cas / Deleted / HLV not found")
										}
										d, ok3 = run(D, cvOutcome == 0, aPtr{str: doc}, aOpaque{"ctx"}, aOpaque{"noBody"})
									}
									ok = ok && ok3
								}()
								if !ok {
									continue
								}
								cases++
								desc := fmt.Sprintf("casEqual=%v bodyHash/stored/deleteMarker classes=%v userXattrChanged=%v storedCV=%v cvExtraction=%d cvEqual=%v delete=%v", casEq, pt, xattrChanged, cvPresent, cvOutcome, cvEqual, isDelete)
								note := func(i int, msg string) {
									if firstBad[i] == "" {
										firstBad[i] = msg + " [" + desc + "]"
									}
								}
								// anchors from the property itself
								if casEq && !(f.is && x.is && !x.amb) {
									note(0, "a write carrying the gateway's own CAS stamp is not recognised as the gateway's own")
								}
								if pt[0] != pt[1] && !casEq && f.is {
									note(0, "a body whose hash differs from the recorded one is treated as the gateway's own write (never imported)")
								}
								// xattr-only sibling vs the full predicate
								if !x.amb && x.is != f.is {
									note(1, fmt.Sprintf("IsSGWriteXattrOnly says own-write=%v without asking for the body, IsSGWrite says %v", x.is, f.is))
								}
								if x.amb && (isDelete || f.is != (pt[0] == pt[1])) {
									note(2, "IsSGWriteXattrOnly reports 'ambiguous' where the body hash alone does not decide IsSGWrite")
								}
								// on-demand sibling vs the feed predicate
								if cvOutcome != 2 && d.is != f.is {
									note(3, fmt.Sprintf("Document.IsSGWrite (on-demand import) says own-write=%v, SyncData.IsSGWrite (feed import) says %v", d.is, f.is))
								}
							}
						}
					}
				}
			}
		}
	}
	if left != "" {
		r.Fail("C09-R3", "siblings own-write predicates evaluable", c.Pos(F.Pos()), "an own-write predicate left the comparison-only fragment (undecided, treated as failure): "+left)
		return
	}
	labels := []string{
		"siblings cas-stamp=>own, body-hash-differs=>external",
		"siblings IsSGWriteXattrOnly(definite) = IsSGWrite",
		"siblings IsSGWriteXattrOnly(ambiguous) only-where body-hash decides",
		"siblings Document.IsSGWrite = SyncData.IsSGWrite",
	}
	for i, l := range labels {
		r.Check("C09-R3", l, c.Pos(F.Pos()), firstBad[i] == "" && cases >= 300, fmt.Sprintf("holds for %d valuations", cases), "own-write predicates disagree: "+firstBad[i])
	}
}

func constantString(k *types.Const) string {
	if k.Val().Kind() == constant.String {
		return constant.StringVal(k.Val())
	}
	return ""
}
