package main

import (
	"fmt"
	"strings"

	"golang.org/x/tools/go/ssa"
)

// C20-O7: "malformed tokens are rejected with a client error rather than mis-parsed" has two halves: the parser reports the failure
// (O5) and every CALLER of the parser lets that failure end the request — a caller that logs the error and carries on serves the
// request from the zero token (position 0). Each call site of the exported parsers, in non-test code outside the parser itself,
// is examined with the strict failure-edge analysis: every continuation of a failed parse must reach a return that carries this
// error or a fresh error; a site that goes on (it parses one element of a list and skips only that element) must not use the
// token the failed parse returned.
// callers that deliberately fall back to the zero token, with the reason (one function per row)
var c20ZeroTokenByDesign = map[string]string{
	"(*db.Checkpointer).setLastCheckpointSeq": "a persisted replication checkpoint that no longer parses is treated as 'no checkpoint': the replicator itself restarts from zero, which only re-examines changes it has already handled (no client request is answered from it)",
}

func c20O7(c *Ctx, r *Report) {
	r.Rule("C20-O7", "E5 failedge (strict)", "every caller of the sequence-token parsers ends the operation with an error when the parse fails, or skips the item without using the token the failed parse returned (no caller continues with the zero token)", 8)
	fe := newFailEdge(c)
	isParser := nameIs("db.ParsePlainSequenceID", "db.ParseJSONSequenceID", "db.parseIntegerSequenceID")
	inParserFile := func(fn *ssa.Function) bool {
		return strings.HasSuffix(c.Prog.Fset.Position(TopLevel(fn).Pos()).Filename, "db/sequence_id.go")
	}
	n := 0
	per := map[string]int{}
	for _, fn := range c.ScopeFuncs() {
		if inParserFile(fn) {
			continue
		}
		for _, call := range c.Calls(fn, false, isParser) {
			cv, ok := call.(*ssa.Call)
			if !ok {
				r.Fail("C20-O7", fmt.Sprintf("fn=%s parse=%s deferred/go", c.FuncName(fn), CalleeIdent(call)), c.Pos(call.Pos()), "the parser's result cannot be examined")
				continue
			}
			n++
			name := c.FuncName(TopLevel(fn))
			per[name]++
			construct := fmt.Sprintf("fn=%s parse=%s #%d failure-ends-operation", name, CalleeIdent(call), per[name])
			s := fe.classifyStrict(fn, cv)
			if s.Verdict == "propagating" {
				r.Pass("C20-O7", construct, c.Pos(call.Pos()), "every continuation of a failed parse returns an error")
				continue
			}
			// otherwise the failure must at least not be turned into a position: on the failure edge the parsed (zero) token is never used
			if why, listed := c20ZeroTokenByDesign[name]; listed {
				r.Pass("C20-O7", construct, c.Pos(call.Pos()), "listed: "+why)
				continue
			}
			ok2, why := c20FailureDropsValue(c, fn, cv)
			r.Check("C20-O7", construct, c.Pos(call.Pos()), ok2, "the operation goes on, but on the failure edge the parsed token is not used (the item is skipped, never read as position 0)", "a malformed token does not end the operation and the zero token it yields is used as a position: "+why+" — "+s.Detail)
		}
	}
	if n == 0 {
		r.Fail("C20-O7", "callers of the token parsers", "-", "no call site found")
	}
}

// c20FailureDropsValue: on the failure edge(s) of the parse, no instruction uses the parsed token (result 0) before the function
// returns or the loop moves on to the next item.
func c20FailureDropsValue(c *Ctx, fn *ssa.Function, call *ssa.Call) (bool, string) {
	e := errValueOf(call)
	if e == nil {
		return false, "error result discarded"
	}
	pos, _ := EdgesOnValue(fn, func(v ssa.Value) bool { return unwrapLoadFree(v) == e })
	if len(pos) == 0 {
		return false, "the error is never tested"
	}
	var tok ssa.Value
	if refs := call.Referrers(); refs != nil {
		for _, u := range *refs {
			if ex, ok := u.(*ssa.Extract); ok && ex.Index == 0 {
				tok = ex
			}
		}
	}
	if tok == nil {
		return true, ""
	}
	// uses of the token, looking through phis (a variable assigned on several branches)
	users := map[ssa.Instruction]bool{}
	seen := map[ssa.Value]bool{}
	var addUsers func(v ssa.Value)
	addUsers = func(v ssa.Value) {
		if seen[v] {
			return
		}
		seen[v] = true
		if refs := v.Referrers(); refs != nil {
			for _, u := range *refs {
				if phi, isPhi := u.(*ssa.Phi); isPhi {
					addUsers(phi)
					continue
				}
				users[u] = true
				// stored into a variable or structure before the error is tested: every later access to that object is a use
				if st, isSt := u.(*ssa.Store); isSt && st.Val == v {
					root := rootAddr(st.Addr)
					for {
						if fa, isFA := root.(*ssa.FieldAddr); isFA {
							root = rootAddr(fa.X)
							continue
						}
						if ia, isIA := root.(*ssa.IndexAddr); isIA {
							root = rootAddr(ia.X)
							continue
						}
						break
					}
					var mark func(a ssa.Value)
					mark = func(a ssa.Value) {
						if seen[a] {
							return
						}
						seen[a] = true
						if rr := a.Referrers(); rr != nil {
							for _, w := range *rr {
								if w == ssa.Instruction(st) {
									continue
								}
								users[w] = true
								if fa, isFA := w.(*ssa.FieldAddr); isFA {
									mark(fa)
								}
							}
						}
					}
					mark(root)
				}
			}
		}
	}
	addUsers(tok)
	for _, ed := range pos {
		hit := ReachFrom(ed.To(), 0, func(in ssa.Instruction) bool { return users[in] }, NewAvoid().AddInstr(call))
		if hit != nil {
			return false, "used at " + c.Pos(hit.Pos())
		}
	}
	return true, ""
}
