package main

import (
	"fmt"
	"go/token"

	"golang.org/x/tools/go/ssa"
)

// C18-R5: resync evaluates the new sync function for every leaf revision and stores the resulting channel set in the revision tree
// (RevInfo.Channels) — for a non-winning leaf that is the ONLY place its channels live, and they decide who may fetch that revision.
// The document is only rewritten when the per-leaf callback reports a change, so a change of a leaf's channel set must be able to
// reach the rewrite decision: the callback has to compare the leaf's stored channel set with the new one and feed a decision variable
// on that comparison. (The winning leaf's channels are covered by the updateChannels clause of R2.)
func c18R5(c *Ctx, r *Report) {
	r.Rule("C18-R5", "E2 def-use + control dependence", "the per-leaf resync callback compares each leaf's stored channel set with the newly computed one, and a variable of the rewrite decision is assigned under that comparison (a change confined to a non-winning leaf rewrites the document)", 1)
	top := c.Func("(*db.DatabaseCollectionWithUser).getResyncedDocument")
	chF := c.Field("db.RevInfo", "Channels")
	if top == nil || chF == nil {
		r.Fail("C18-R5", "anchor getResyncedDocument / RevInfo.Channels", "-", "function or field not found")
		return
	}
	var lit *ssa.Function
	for _, call := range c.Calls(top, false, nameIs("(db.RevTree).forEachLeaf")) {
		for _, a := range call.Common().Args {
			if mc, ok := unwrap(a).(*ssa.MakeClosure); ok {
				lit, _ = mc.Fn.(*ssa.Function)
			}
		}
	}
	construct := "fn=getResyncedDocument$leaf rewrite-decision counts=leaf-channel-changes"
	if lit == nil {
		r.Fail("C18-R5", construct, c.Pos(top.Pos()), "per-leaf callback not found")
		return
	}
	// decision cells: integer/bool cells of top that top tests (== 0, != 0, or as a boolean) and that lit assigns
	cells := map[*ssa.Alloc]bool{}
	EachInstr(top, false, func(in ssa.Instruction) {
		i, ok := in.(*ssa.If)
		if !ok {
			return
		}
		DependsOn(i.Cond, func(v ssa.Value) bool {
			if ad, isLoad := loadOf(v); isLoad {
				if al, isAlloc := rootAddr(ad).(*ssa.Alloc); isAlloc && al.Parent() == top {
					for _, st := range storesInto(al) {
						if st.Parent() == lit {
							cells[al] = true
						}
					}
				}
			}
			return false
		})
	})
	// comparisons on the leaf's stored channel set
	isOldRead := func(v ssa.Value) bool {
		f, _ := fieldRead(v)
		return f == chF
	}
	var edges []Edge
	for _, i := range Ifs(lit) {
		cond := i.Cond
		if u, ok := cond.(*ssa.UnOp); ok && u.Op == token.NOT {
			cond = u.X
		}
		if DependsOn(cond, isOldRead) {
			edges = append(edges, Edge{i.Block(), 0}, Edge{i.Block(), 1})
		}
	}
	ok := false
	for al := range cells {
		for _, st := range storesInto(al) {
			if st.Parent() != lit {
				continue
			}
			for _, e := range edges {
				if DominatedBy(lit, st, NewAvoid().AddEdge(e)) {
					ok = true
				}
			}
		}
	}
	detail := "the per-leaf callback stores the new channel set of every leaf in the revision tree but never compares it with the stored one, so a sync-function change that only moves a NON-winning (conflicting) leaf to other channels is not counted: the document is not rewritten and that revision stays readable through the old channels and unreadable through the new ones"
	r.Check("C18-R5", construct, c.Pos(lit.Pos()), ok && len(cells) > 0, "a rewrite-decision variable is assigned under a comparison of the leaf's stored channel set", detail)
}

// C18-R6: the end-of-run invalidation of all principals must not depend on the manager's changed-document counter. That counter is
// a statistic: it lives in memory, reaches the status document only periodically, and is restored from there when a run is resumed —
// documents rewritten shortly before the process died are missing from it, and the resumed run finds them already rewritten. A run
// that then counts zero changes skips the invalidation and every principal keeps the access computed from the old sync function.
// So every success return of invalidatePrincipals has to be dominated by the call that invalidates all principals.
func c18R6(c *Ctx, r *Report) {
	r.Rule("C18-R6", "E2 pathrules (must-pass-through)", "every success return of ResyncManagerDCP.invalidatePrincipals is dominated by invalidateAllPrincipals (the invalidation is not skipped on the strength of the changed-document counter)", 1)
	inv := c.Func("(*db.ResyncManagerDCP).invalidatePrincipals")
	if inv == nil {
		r.Fail("C18-R6", "anchor (*db.ResyncManagerDCP).invalidatePrincipals", "-", "function not found")
		return
	}
	calls := c.CallsThroughHelpers(inv, 2, nameIs("(*db.DatabaseContext).invalidateAllPrincipals"))
	ei := errResultIndex(inv)
	n := 0
	for _, d := range resultDefs(inv, ei) {
		if !isNilConst(d.Val) {
			continue
		}
		n++
		ok := len(calls) > 0 && DominatedBy(inv, d.At, NewAvoid().AddInstr(instrs(calls)...))
		r.Check("C18-R6", "fn=(*db.ResyncManagerDCP).invalidatePrincipals success-return #"+fmt.Sprint(n)+" requires=invalidateAllPrincipals", c.Pos(d.At.Pos()), ok, "dominated by the invalidation of all principals", "a completed resync can return success without invalidating the principals (the step is skipped when the in-memory changed-document counter is zero): after a crash or an unclean resume the counter restored from the periodically written status misses the documents rewritten last, the resumed run finds them unchanged, and users keep the access computed from the old sync function")
	}
	if n == 0 {
		r.Fail("C18-R6", "fn=(*db.ResyncManagerDCP).invalidatePrincipals success returns", c.Pos(inv.Pos()), "none found")
	}
}
