package main

import (
	"fmt"
	"go/token"

	"golang.org/x/tools/go/ssa"
)

// C08-R7: an unused-sequence range announced on the mutation feed ("_sync:unusedSeqs:<from>:<to>") must reach the buffering state as
// that very range. Both bounds are uint64, so a swapped or duplicated bound compiles; the rule follows the two bounds positionally
// from the parsed key to (a) the pending entry {Sequence: from, EndSequence: to, UnusedSequence: true} and (b) the batch removal from
// the skipped set, and checks the three-way classification against the high-water mark: a range wholly below it is taken out of the
// skipped set, a range wholly at or above it is buffered, and nothing else is buffered or removed.
func c08R7(c *Ctx, r *Report) {
	r.Rule("C08-R7", "E3 positional def-use + E2 pathrules", "an unused-sequence range keeps its bounds from the parsed key to the pending entry {Sequence: from, EndSequence: to, UnusedSequence} and to the skipped-set removal; it is buffered only on from >= nextSequence and removed from the skipped set only on to < nextSequence", 8)
	parse := c.Func("(*db.changeCache).processUnusedSequenceRange")
	rel := c.Func("(*db.changeCache).releaseUnusedSequenceRange")
	proc := c.Func("(*db.changeCache).processUnusedRange")
	push := c.Func("(*db.changeCache)._pushRangeToPending")
	next := c.Field("db.changeCache", "nextSequence")
	seqF := c.Field("db.LogEntry", "Sequence")
	endF := c.Field("db.LogEntry", "EndSequence")
	unF := c.Field("db.LogEntry", "UnusedSequence")
	if parse == nil || rel == nil || proc == nil || push == nil || next == nil || seqF == nil || endF == nil || unF == nil {
		r.Fail("C08-R7", "anchor unused-range handlers / changeCache.nextSequence / LogEntry fields", "-", "function or field not found")
		return
	}
	// uint64 parameters of fn in order (skipping receiver, ctx and non-integer parameters)
	bounds := func(fn *ssa.Function) []ssa.Value {
		var out []ssa.Value
		for _, p := range fn.Params {
			if p.Type().String() == "uint64" {
				out = append(out, p)
			}
		}
		return out
	}
	// argument i of call is exactly bound w (through conversions / cells)
	argIs := func(call ssa.CallInstruction, i int, w ssa.Value) bool {
		a := callArgs(call)
		// skip a leading context argument
		var ints []ssa.Value
		for _, x := range a {
			if x.Type().String() == "uint64" {
				ints = append(ints, x)
			}
		}
		return i < len(ints) && unwrapLoadFree(ints[i]) == w
	}
	// 1. parser -> release: argument k is ParseUint(sequences[k])
	for i, call := range c.Calls(parse, false, nameHasSuffix(".releaseUnusedSequenceRange")) {
		var ints []ssa.Value
		for _, x := range callArgs(call) {
			if x.Type().String() == "uint64" {
				ints = append(ints, x)
			}
		}
		ok := len(ints) == 2
		for k := 0; ok && k < 2; k++ {
			idx := int64(-1)
			n := 0
			DependsOn(ints[k], func(v ssa.Value) bool {
				if ia, isIA := v.(*ssa.IndexAddr); isIA {
					if j, isK := constInt(ia.Index); isK {
						idx = j
						n++
					}
				}
				return false
			})
			if n != 1 || idx != int64(k) {
				ok = false
			}
		}
		r.Check("C08-R7", fmt.Sprintf("fn=processUnusedSequenceRange call=releaseUnusedSequenceRange #%d bounds=(component 0, component 1)", i+1), c.Pos(call.Pos()), ok, "from = parse(component 0), to = parse(component 1)", "the bounds handed on are not (first key component, second key component): the range declared unused is not the range the allocator released")
	}
	// 2. release -> process, process -> push / skipped removal: positional forwarding of the function's own bounds
	fwd := func(fn *ssa.Function, calleeSuffix string, min int) {
		bs := bounds(fn)
		calls := c.Calls(fn, false, nameHasSuffix(calleeSuffix))
		if len(calls) < min || len(bs) < 2 {
			r.Fail("C08-R7", fmt.Sprintf("fn=%s call=%s", shortName(c.FuncName(fn)), calleeSuffix), c.Pos(fn.Pos()), "call or bounds not found")
			return
		}
		for i, call := range calls {
			ok := argIs(call, 0, bs[0]) && argIs(call, 1, bs[1])
			r.Check("C08-R7", fmt.Sprintf("fn=%s call=%s #%d bounds=(from, to)", shortName(c.FuncName(fn)), calleeSuffix, i+1), c.Pos(call.Pos()), ok, "forwards (from, to) in order", "the unused range is forwarded with swapped, duplicated or altered bounds")
		}
	}
	fwd(rel, ".processUnusedRange", 1)
	fwd(proc, "._pushRangeToPending", 1)
	fwd(proc, ".processUnusedSequenceRangeAtSkipped", 1)
	// 3. the pending entry
	pb := bounds(push)
	nEntry := 0
	EachInstr(push, false, func(in ssa.Instruction) {
		st, ok := in.(*ssa.Store)
		if !ok {
			return
		}
		fa, ok := st.Addr.(*ssa.FieldAddr)
		if !ok || !isFreshAlloc(fa.X) {
			return
		}
		f := structField(fa.X.Type(), fa.Field)
		switch f {
		case seqF, endF:
			nEntry++
			want := 0
			if f == endF {
				want = 1
			}
			ok := len(pb) >= 2 && unwrapLoadFree(st.Val) == pb[want]
			r.Check("C08-R7", fmt.Sprintf("fn=_pushRangeToPending entry.%s=bound %d", f.Name(), want), c.Pos(st.Pos()), ok, "positional", "the pending entry of an unused range does not carry (Sequence=from, EndSequence=to): the high-water mark advances across the wrong span")
		case unF:
			nEntry++
			k, isK := st.Val.(*ssa.Const)
			r.Check("C08-R7", "fn=_pushRangeToPending entry.UnusedSequence=true", c.Pos(st.Pos()), isK && k.Value != nil && k.Value.String() == "true", "marked unused", "the pending entry of an unused range is not marked as unused: it is forwarded to the channel caches as a document change")
		}
	})
	if nEntry < 3 {
		r.Fail("C08-R7", "fn=_pushRangeToPending entry fields", c.Pos(push.Pos()), "the pending entry's Sequence / EndSequence / UnusedSequence stores were not all found")
	}
	// 4. classification against the high-water mark
	procB := bounds(proc)
	if len(procB) < 2 {
		return
	}
	cmpEdges := func(bound ssa.Value, wantGEQ bool) []Edge {
		return EdgesWhere(proc, func(cond ssa.Value) (bool, bool) {
			b, ok := cond.(*ssa.BinOp)
			if !ok {
				return false, false
			}
			lf, _ := fieldRead(b.Y)
			rf, _ := fieldRead(b.X)
			op := b.Op
			switch {
			case unwrapLoadFree(b.X) == bound && lf == next:
			case unwrapLoadFree(b.Y) == bound && rf == next:
				switch op {
				case token.LSS:
					op = token.GTR
				case token.LEQ:
					op = token.GEQ
				case token.GTR:
					op = token.LSS
				case token.GEQ:
					op = token.LEQ
				}
			default:
				return false, false
			}
			// bound OP next
			if wantGEQ { // fact: bound >= next
				switch op {
				case token.GEQ:
					return true, true
				case token.LSS:
					return true, false
				}
			} else { // fact: bound < next
				switch op {
				case token.LSS:
					return true, true
				case token.GEQ:
					return true, false
				}
			}
			return false, false
		})
	}
	for i, call := range c.Calls(proc, false, nameHasSuffix("._pushRangeToPending")) {
		es := cmpEdges(procB[0], true)
		ok := len(es) > 0 && DominatedBy(proc, call, NewAvoid().AddEdge(es...))
		r.Check("C08-R7", fmt.Sprintf("fn=processUnusedRange call=_pushRangeToPending #%d only-if=from>=nextSequence", i+1), c.Pos(call.Pos()), ok, "dominated by from >= nextSequence", "an unused range that starts below the high-water mark can be buffered whole: its part below the mark stays in the skipped set although those sequences will never arrive")
	}
	for i, call := range c.Calls(proc, false, nameHasSuffix(".processUnusedSequenceRangeAtSkipped")) {
		es := cmpEdges(procB[1], false)
		ok := len(es) > 0 && DominatedBy(proc, call, NewAvoid().AddEdge(es...))
		r.Check("C08-R7", fmt.Sprintf("fn=processUnusedRange call=processUnusedSequenceRangeAtSkipped #%d only-if=to<nextSequence", i+1), c.Pos(call.Pos()), ok, "dominated by to < nextSequence", "a range that reaches the high-water mark or beyond is only taken out of the skipped set: its part at or above the mark is never declared unused and is later given up on as skipped")
	}
}
