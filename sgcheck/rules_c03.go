package main

import (
	"fmt"

	"golang.org/x/tools/go/ssa"
)

func init() { registry["C03"] = checkC03 }

func checkC03(c *Ctx, r *Report) {
	r.Explain = "Decides structural necessary conditions of 'effective access = admin grants ∪ grants of current documents': (R1) a committed write invalidates exactly the principals whose grants changed — the success return of the write path is dominated by MarkPrincipalsChanged, whose arguments derive from the changed-principal lists computed by applying the sync function's access and role grants to the document; (R2) only the write path and resync apply grants to a document, and on the write path grants are applied after the sync function has been (re-)evaluated for the revision that ends up current — no evaluation is reachable after grants were applied; (R3) invalidation reaches the authenticator for every changed principal (channels for each name in the first list, roles for each name in the second), and an invalidation marker, once set, is persisted rather than cancelled; (R4) a principal whose computed channels or roles are missing/invalidated is recomputed when loaded, the recomputation's failures propagate (a principal is never returned with stale or empty sets), and the recomputed sets include the explicit (admin) grants and the public channel. Not decided: that the recomputation query returns the right grants, order independence, role inheritance arithmetic."
	c03R1(c, r)
	c03R2(c, r)
	c03R3(c, r)
	c03R4(c, r)
}

func c03R1(c *Ctx, r *Report) {
	r.Rule("C03-R1", "E2 pathrules + def-use", "updateAndReturnDoc's success return is dominated by MarkPrincipalsChanged(changedAccessPrincipals, changedRoleAccessUsers) whose lists come from documentUpdateFunc, where they are the results of Access.updateAccess / RoleAccess.updateAccess", 4)
	top := c.Func("(*db.DatabaseCollectionWithUser).updateAndReturnDoc")
	duf := c.Func("(*db.DatabaseCollectionWithUser).documentUpdateFunc")
	if top == nil || duf == nil {
		r.Fail("C03-R1", "anchor updateAndReturnDoc/documentUpdateFunc", "-", "function not found")
		return
	}
	marks := c.Calls(top, false, nameIs("(*db.DatabaseCollectionWithUser).MarkPrincipalsChanged"))
	if len(marks) != 1 {
		r.Fail("C03-R1", "fn=updateAndReturnDoc call=MarkPrincipalsChanged", c.Pos(top.Pos()), fmt.Sprintf("expected one invalidation call, found %d", len(marks)))
		return
	}
	m := marks[0]
	// success returns that yield a document
	n := 0
	for _, ret := range Returns(top) {
		if isNilConst(unwrapLoadFree(ret.Results[0])) || !isNilConst(unwrapLoadFree(ret.Results[2])) {
			continue // not a success exit that yields the written document
		}
		n++
		ok := DominatedBy(top, ret, NewAvoid().AddInstr(m))
		r.Check("C03-R1", fmt.Sprintf("fn=updateAndReturnDoc success-exit #%d after=MarkPrincipalsChanged", n), c.Pos(ret.Pos()), ok, "a committed write always invalidates the affected principals before reporting success", "a write can be acknowledged without invalidating the principals whose grants it changed: their effective access stays stale")
	}
	// arguments: cells assigned from documentUpdateFunc results 5 and 6 inside the CAS callback
	args := callArgs(m)
	for i, resIdx := range map[int]int{3: 5, 4: 6} {
		ok := false
		if i < len(args) {
			if ad, isLoad := loadOf(args[i]); isLoad {
				for _, st := range storesInto(ad) {
					if c.ResultOf(resIdx, nameIs("(*db.DatabaseCollectionWithUser).documentUpdateFunc"))(st.Val) {
						ok = true
					}
				}
			}
		}
		r.Check("C03-R1", fmt.Sprintf("fn=updateAndReturnDoc MarkPrincipalsChanged arg#%d from=documentUpdateFunc#%d", i, resIdx), c.Pos(m.Pos()), ok, "list of changed principals comes from the document update", "the list of principals to invalidate does not come from the document update's grant comparison")
	}
	// in documentUpdateFunc results 5/6 are the updateAccess results
	accF := c.Field("db.SyncData", "Access")
	roleF := c.Field("db.SyncData", "RoleAccess")
	for resIdx, fld := range map[int]interface{ Name() string }{5: accF, 6: roleF} {
		ok := false
		for _, ret := range Returns(duf) {
			if resIdx >= len(ret.Results) {
				continue
			}
			v := ret.Results[resIdx]
			if DependsOn(v, func(x ssa.Value) bool {
				call, isCall := x.(*ssa.Call)
				if !isCall || c.CalleeName(call) != "(*db.UserAccessMap).updateAccess" {
					return false
				}
				fa, isFA := call.Call.Args[0].(*ssa.FieldAddr)
				return isFA && structField(fa.X.Type(), fa.Field).Name() == fld.Name()
			}) {
				ok = true
			}
		}
		r.Check("C03-R1", fmt.Sprintf("fn=documentUpdateFunc result#%d = %s.updateAccess(...)", resIdx, fld.Name()), c.Pos(duf.Pos()), ok, "changed-principal list is the outcome of applying the new grants", "the changed-principal list is not the outcome of applying the sync function's grants to the document")
	}
}

func c03R2(c *Ctx, r *Report) {
	r.Rule("C03-R2", "E3 whomay + E2 ordering", "grants are applied to documents only by documentUpdateFunc and getResyncedDocument; on the write path no sync-function evaluation is reachable after grants/channels were applied", 4)
	allowed := map[string]bool{"(*db.DatabaseCollectionWithUser).documentUpdateFunc": true, "(*db.DatabaseCollectionWithUser).getResyncedDocument": true}
	n := 0
	for _, fn := range c.ScopeFuncs() {
		for _, call := range c.Calls(fn, false, nameIs("(*db.UserAccessMap).updateAccess")) {
			n++
			top := c.FuncName(TopLevel(fn))
			r.Check("C03-R2", fmt.Sprintf("fn=%s applies-grants #%d", top, n), c.Pos(call.Pos()), allowed[top], "grant application owned by the write path / resync", "a new code path applies grants to a document; its result must reach principal invalidation (not covered by R1 / C18-R1)")
		}
	}
	duf := c.Func("(*db.DatabaseCollectionWithUser).documentUpdateFunc")
	if duf == nil {
		return
	}
	evals := c.Calls(duf, false, nameIs("(*db.DatabaseCollectionWithUser).runSyncFn", "(*db.DatabaseCollectionWithUser).recalculateSyncFnForActiveRev"))
	isEval := func(in ssa.Instruction) bool {
		for _, e := range evals {
			if in == ssa.Instruction(e) {
				return true
			}
		}
		return false
	}
	k := 0
	for _, call := range c.Calls(duf, false, nameIs("(*db.UserAccessMap).updateAccess", "(*db.Document).updateChannels")) {
		k++
		later := ReachAfter(call, isEval, nil)
		where := ""
		if later != nil {
			where = c.Pos(later.Pos())
		}
		r.Check("C03-R2", fmt.Sprintf("fn=documentUpdateFunc %s #%d after=all-sync-fn-evaluations", CalleeIdent(call), k), c.Pos(call.Pos()), later == nil && len(evals) >= 2,
			"grants are applied after the evaluation for the revision that ends up current", "grants/channels are applied before the sync function is re-evaluated for the revision that becomes current (evaluation at "+where+"): when a write makes another leaf the winner, the document keeps the grants of the revision just written")
	}
	// the arguments of the three sinks derive from the evaluations (shared with C18-R2 for the write path)
}

func c03R3(c *Ctx, r *Report) {
	r.Rule("C03-R3", "E2 must-call in loop", "MarkPrincipalsChanged invalidates channels for every name of the first list and roles for every name of the second list; invalidation markers are persisted once set", 6)
	fn := c.Func("(*db.DatabaseCollectionWithUser).MarkPrincipalsChanged")
	if fn == nil {
		r.Fail("C03-R3", "anchor MarkPrincipalsChanged", "-", "function not found")
		return
	}
	check := func(callee string, paramIdx int, what string) {
		ok := false
		for _, call := range c.Calls(fn, false, nameIs(callee)) {
			a := callArgs(call)
			if len(a) >= 2 && inLoop(call) && DependsOn(a[1], func(v ssa.Value) bool { return isParam(v, paramIdx) }) {
				// the call must be unconditional inside the loop body: it dominates the loop's back edge source… approximated by:
				// from the loop-body entry every path to the next iteration passes the call
				ok = c03UnconditionalInLoop(fn, call)
			}
		}
		r.Check("C03-R3", "fn=MarkPrincipalsChanged each-"+what+"→"+CalleeIdentOf(callee), c.Pos(fn.Pos()), ok, "called for every element of the list", "not every changed principal has its "+what+" invalidated")
	}
	check("(*db.DatabaseCollection).invalUserOrRoleChannels", 4, "changed-access-principal")
	check("(*db.DatabaseContext).invalUserRoles", 5, "changed-role-user")
	checkInvalidationPersisted(c, r, "C03-R3")
}

// c03UnconditionalInLoop: the call executes on every iteration — the block holding the `next` of the range loop is not reachable
// again from the loop body entry without passing the call.
func c03UnconditionalInLoop(fn *ssa.Function, call ssa.CallInstruction) bool {
	// find the range/next feeding the element
	var next *ssa.Next
	for _, a := range call.Common().Args {
		traceBack(a, func(v ssa.Value) bool {
			if n, ok := v.(*ssa.Next); ok {
				next = n
				return true
			}
			return false
		}, map[ssa.Value]bool{}, 0)
	}
	if next == nil {
		// index-based range over a slice: the element is loaded through an IndexAddr once per iteration; that load is the anchor
		var anchor ssa.Instruction
		for _, a := range call.Common().Args {
			traceBack(a, func(v ssa.Value) bool {
				if u, ok := v.(*ssa.UnOp); ok {
					if _, ok := u.X.(*ssa.IndexAddr); ok {
						anchor = u
						return true
					}
				}
				return false
			}, map[ssa.Value]bool{}, 0)
		}
		if anchor == nil {
			return false
		}
		return ReachAfter(anchor, func(in ssa.Instruction) bool { return in == anchor }, NewAvoid().AddInstr(call)) == nil
	}
	// after `next` (in the body), reaching `next` again must pass the call
	return ReachAfter(next, func(in ssa.Instruction) bool { return in == ssa.Instruction(next) }, NewAvoid().AddInstr(call)) == nil
}

func c03R4(c *Ctx, r *Report) {
	r.Rule("C03-R4", "E2 pathrules + strict failure-edge analysis", "getPrincipal rebuilds missing/invalidated channels and roles before returning the principal; every failure inside the rebuild functions propagates; rebuilt sets include explicit grants and the public channel", 6)
	gp := c.Func("(*auth.Authenticator).getPrincipal")
	if gp == nil {
		r.Fail("C03-R4", "anchor getPrincipal", "-", "function not found")
		return
	}
	// rebuild calls present in the load callback
	rc, rr := 0, 0
	for _, lit := range gp.AnonFuncs {
		rc += len(c.Calls(lit, false, nameIs("(*auth.Authenticator).RebuildChannels")))
		rr += len(c.Calls(lit, false, nameIs("(*auth.Authenticator).RebuildRoles")))
	}
	r.Check("C03-R4", "fn=(*auth.Authenticator).getPrincipal$load rebuilds=channels,roles", c.Pos(gp.Pos()), rc > 0 && rr > 0, "invalidated access is recomputed when the principal is loaded", "loading a principal no longer recomputes invalidated channels/roles")
	fe := newFailEdge(c)
	targets := []*ssa.Function{c.Func("(*auth.Authenticator).RebuildChannels"), c.Func("(*auth.Authenticator).rebuildCollectionChannels"), c.Func("(*auth.Authenticator).RebuildRoles")}
	targets = append(targets, gp.AnonFuncs...)
	n := 0
	for _, fn := range targets {
		if fn == nil {
			r.Fail("C03-R4", "anchor rebuild function", "-", "function not found")
			continue
		}
		for _, b := range fn.Blocks {
			for _, in := range b.Instrs {
				call, ok := in.(*ssa.Call)
				if !ok || !hasErrResult(call.Call.Signature()) {
					continue
				}
				nm := c.CalleeName(call)
				if nm == "base.JSONMarshal" || nm == "base.JSONUnmarshal" || nm == "github.com/pkg/errors.WithStack" || nm == "base.RedactErrorf" {
					continue
				}
				n++
				s := fe.classifyStrict(fn, call)
				r.Check("C03-R4", fmt.Sprintf("fn=%s call=%s #%d failure-propagates", c.FuncName(fn), CalleeIdent(call), n), c.Pos(call.Pos()), s.Verdict == "propagating",
					"a failed recomputation fails the load", "a failed access recomputation is swallowed: the principal is saved and returned with an empty/stale computed set and the invalidation marker cleared ("+s.Detail+")")
			}
		}
	}
	// rebuilt channel set includes explicit channels and the public channel; rebuilt roles include explicit roles
	if fn := c.Func("(*auth.Authenticator).rebuildCollectionChannels"); fn != nil {
		hasExplicit := len(c.Calls(fn, false, nameHasSuffix(".ExplicitChannels"))) > 0
		hasPublic := false
		for _, call := range c.Calls(fn, false, nameHasSuffix(".AddChannel")) {
			for _, a := range call.Common().Args {
				if g, ok := unwrapLoadFree(a).(*ssa.UnOp); ok {
					if gl, ok := g.X.(*ssa.Global); ok && gl.Name() == "DocumentPublicChannel" {
						hasPublic = true
					}
				}
				if s, ok := constString(a); ok && s == "!" {
					hasPublic = true
				}
			}
		}
		r.Check("C03-R4", "fn=(*auth.Authenticator).rebuildCollectionChannels includes=explicit+public", c.Pos(fn.Pos()), hasExplicit && hasPublic, "admin-assigned channels and the public channel are part of the recomputed set", "recomputed channels omit the admin-assigned channels or the public channel")
	}
	if fn := c.Func("(*auth.Authenticator).RebuildRoles"); fn != nil {
		hasExplicit := len(c.Calls(fn, false, nameHasSuffix(".ExplicitRoles"))) > 0
		r.Check("C03-R4", "fn=(*auth.Authenticator).RebuildRoles includes=explicit-roles", c.Pos(fn.Pos()), hasExplicit, "admin-assigned roles are part of the recomputed set", "recomputed roles omit the admin-assigned roles")
	}
}
