package main

import (
	"fmt"
	"go/token"
	"go/types"
	"strings"

	"golang.org/x/tools/go/ssa"
)

func init() { registry["C03"] = checkC03 }

func checkC03(c *Ctx, r *Report) {
	r.Explain = "Decides structural necessary conditions of 'effective access = admin grants ∪ grants of current documents': (R1) a committed write invalidates exactly the principals whose grants changed — the success return of the write path is dominated by MarkPrincipalsChanged, whose arguments derive from the changed-principal lists computed by applying the sync function's access and role grants to the document; (R2) only the write path and resync apply grants to a document, and on the write path grants are applied after the sync function has been (re-)evaluated for the revision that ends up current — no evaluation is reachable after grants were applied; (R3) invalidation reaches the authenticator for every changed principal (channels for each name in the first list, roles for each name in the second), and an invalidation marker, once set, is persisted rather than cancelled; (R4) a principal whose computed channels or roles are missing/invalidated is recomputed when loaded, the recomputation's failures propagate (a principal is never returned with stale or empty sets), and the recomputed sets include the explicit (admin) grants and the public channel; (R5) the sync function's channel, access-grant and role-grant outputs keep their identity on the way to the document (traced positionally through the wrappers — the two grant maps have the same type, so a swap compiles); (R6) the sub-document fast path of channel invalidation selects the per-collection slot exactly as IsDefaultCollection does, for all valuations; (R7) a purge, which writes no revision, invalidates the grantees of the purged document itself.; (R8) a failed invalidation after a committed change is returned to the caller or retried, never only logged. Not decided: that the recomputation query returns the right grants, invalidations racing a rebuild in progress (F31) and principals created while a granting document is written (F32), order independence, role inheritance arithmetic."
	c03R1(c, r)
	c03R2(c, r)
	c03R3(c, r)
	c03R4(c, r)
	c03R5(c, r)
	c03R6(c, r)
	c03R7(c, r)
	c03R8(c, r)
}

func c03R1(c *Ctx, r *Report) {
	r.Rule("C03-R1", "E2 pathrules + def-use", "updateAndReturnDoc's success return is dominated by MarkPrincipalsChanged(changedAccessPrincipals, changedRoleAccessUsers) whose lists come from documentUpdateFunc, where they are the results of Access.updateAccess / RoleAccess.updateAccess", 4)
	top := c.Func("(*db.DatabaseCollectionWithUser).updateAndReturnDoc")
	duf := c.Func("(*db.DatabaseCollectionWithUser).documentUpdateFunc")
	if top == nil || duf == nil {
		r.Fail("C03-R1", "anchor updateAndReturnDoc/documentUpdateFunc", "-", "function not found")
		return
	}
	marks := c.Calls(top, false, nameIs("(*db.DatabaseCollectionWithUser).MarkPrincipalsChanged"))
	if len(marks) != 1 {
		r.Fail("C03-R1", "fn=updateAndReturnDoc call=MarkPrincipalsChanged", c.Pos(top.Pos()), fmt.Sprintf("expected one invalidation call, found %d", len(marks)))
		return
	}
	m := marks[0]
	// success returns that yield a document
	n := 0
	for _, ret := range Returns(top) {
		if isNilConst(unwrapLoadFree(ret.Results[0])) || !isNilConst(unwrapLoadFree(ret.Results[2])) {
			continue // not a success exit that yields the written document
		}
		n++
		ok := DominatedBy(top, ret, NewAvoid().AddInstr(m))
		r.Check("C03-R1", fmt.Sprintf("fn=updateAndReturnDoc success-exit #%d after=MarkPrincipalsChanged", n), c.Pos(ret.Pos()), ok, "a committed write always invalidates the affected principals before reporting success", "a write can be acknowledged without invalidating the principals whose grants it changed: their effective access stays stale")
	}
	// arguments: cells assigned from documentUpdateFunc results 5 and 6 inside the CAS callback
	args := callArgs(m)
	for i, resIdx := range map[int]int{3: 5, 4: 6} {
		ok := false
		if i < len(args) {
			if ad, isLoad := loadOf(args[i]); isLoad {
				for _, st := range storesInto(ad) {
					if c.ResultOf(resIdx, nameIs("(*db.DatabaseCollectionWithUser).documentUpdateFunc"))(st.Val) {
						ok = true
					}
				}
			}
		}
		r.Check("C03-R1", fmt.Sprintf("fn=updateAndReturnDoc MarkPrincipalsChanged arg#%d from=documentUpdateFunc#%d", i, resIdx), c.Pos(m.Pos()), ok, "list of changed principals comes from the document update", "the list of principals to invalidate does not come from the document update's grant comparison")
	}
	// in documentUpdateFunc results 5/6 are the updateAccess results
	accF := c.Field("db.SyncData", "Access")
	roleF := c.Field("db.SyncData", "RoleAccess")
	for resIdx, fld := range map[int]interface{ Name() string }{5: accF, 6: roleF} {
		ok := false
		for _, ret := range Returns(duf) {
			if resIdx >= len(ret.Results) {
				continue
			}
			v := ret.Results[resIdx]
			if DependsOn(v, func(x ssa.Value) bool {
				call, isCall := x.(*ssa.Call)
				if !isCall || c.CalleeName(call) != "(*db.UserAccessMap).updateAccess" {
					return false
				}
				fa, isFA := call.Call.Args[0].(*ssa.FieldAddr)
				return isFA && structField(fa.X.Type(), fa.Field).Name() == fld.Name()
			}) {
				ok = true
			}
		}
		r.Check("C03-R1", fmt.Sprintf("fn=documentUpdateFunc result#%d = %s.updateAccess(...)", resIdx, fld.Name()), c.Pos(duf.Pos()), ok, "changed-principal list is the outcome of applying the new grants", "the changed-principal list is not the outcome of applying the sync function's grants to the document")
	}
}

func c03R2(c *Ctx, r *Report) {
	r.Rule("C03-R2", "E3 whomay + E2 ordering", "grants are applied to documents only by documentUpdateFunc and getResyncedDocument; on the write path no sync-function evaluation is reachable after grants/channels were applied", 4)
	allowed := map[string]bool{"(*db.DatabaseCollectionWithUser).documentUpdateFunc": true, "(*db.DatabaseCollectionWithUser).getResyncedDocument": true}
	n := 0
	for _, fn := range c.ScopeFuncs() {
		for _, call := range c.Calls(fn, false, nameIs("(*db.UserAccessMap).updateAccess")) {
			n++
			top := c.FuncName(TopLevel(fn))
			r.Check("C03-R2", fmt.Sprintf("fn=%s applies-grants #%d", top, n), c.Pos(call.Pos()), allowed[top], "grant application owned by the write path / resync", "a new code path applies grants to a document; its result must reach principal invalidation (not covered by R1 / C18-R1)")
		}
	}
	duf := c.Func("(*db.DatabaseCollectionWithUser).documentUpdateFunc")
	if duf == nil {
		return
	}
	evals := c.Calls(duf, false, nameIs("(*db.DatabaseCollectionWithUser).runSyncFn", "(*db.DatabaseCollectionWithUser).recalculateSyncFnForActiveRev"))
	isEval := func(in ssa.Instruction) bool {
		for _, e := range evals {
			if in == ssa.Instruction(e) {
				return true
			}
		}
		return false
	}
	k := 0
	for _, call := range c.Calls(duf, false, nameIs("(*db.UserAccessMap).updateAccess", "(*db.Document).updateChannels")) {
		k++
		later := ReachAfter(call, isEval, nil)
		where := ""
		if later != nil {
			where = c.Pos(later.Pos())
		}
		r.Check("C03-R2", fmt.Sprintf("fn=documentUpdateFunc %s #%d after=all-sync-fn-evaluations", CalleeIdent(call), k), c.Pos(call.Pos()), later == nil && len(evals) >= 2,
			"grants are applied after the evaluation for the revision that ends up current", "grants/channels are applied before the sync function is re-evaluated for the revision that becomes current (evaluation at "+where+"): when a write makes another leaf the winner, the document keeps the grants of the revision just written")
	}
	// the arguments of the three sinks derive from the evaluations (shared with C18-R2 for the write path)
}

func c03R3(c *Ctx, r *Report) {
	r.Rule("C03-R3", "E2 must-call in loop", "MarkPrincipalsChanged invalidates channels for every name of the first list and roles for every name of the second list; invalidation markers are persisted once set", 6)
	fn := c.Func("(*db.DatabaseCollectionWithUser).MarkPrincipalsChanged")
	if fn == nil {
		r.Fail("C03-R3", "anchor MarkPrincipalsChanged", "-", "function not found")
		return
	}
	check := func(callee string, paramIdx int, what string) {
		ok := false
		for _, call := range c.Calls(fn, false, nameIs(callee)) {
			a := callArgs(call)
			if len(a) >= 2 && inLoop(call) && DependsOn(a[1], func(v ssa.Value) bool { return isParam(v, paramIdx) }) {
				// the call must be unconditional inside the loop body: it dominates the loop's back edge source… approximated by:
				// from the loop-body entry every path to the next iteration passes the call
				ok = c03UnconditionalInLoop(fn, call)
			}
		}
		r.Check("C03-R3", "fn=MarkPrincipalsChanged each-"+what+"→"+CalleeIdentOf(callee), c.Pos(fn.Pos()), ok, "called for every element of the list", "not every changed principal has its "+what+" invalidated")
	}
	check("(*db.DatabaseCollection).invalUserOrRoleChannels", 4, "changed-access-principal")
	check("(*db.DatabaseContext).invalUserRoles", 5, "changed-role-user")
	checkInvalidationPersisted(c, r, "C03-R3")
}

// c03UnconditionalInLoop: the call executes on every iteration — the block holding the `next` of the range loop is not reachable
// again from the loop body entry without passing the call.
func c03UnconditionalInLoop(fn *ssa.Function, call ssa.CallInstruction) bool {
	// find the range/next feeding the element
	var next *ssa.Next
	for _, a := range call.Common().Args {
		traceBack(a, func(v ssa.Value) bool {
			if n, ok := v.(*ssa.Next); ok {
				next = n
				return true
			}
			return false
		}, map[ssa.Value]bool{}, 0)
	}
	if next == nil {
		// index-based range over a slice: the element is loaded through an IndexAddr once per iteration; that load is the anchor
		var anchor ssa.Instruction
		for _, a := range call.Common().Args {
			traceBack(a, func(v ssa.Value) bool {
				if u, ok := v.(*ssa.UnOp); ok {
					if _, ok := u.X.(*ssa.IndexAddr); ok {
						anchor = u
						return true
					}
				}
				return false
			}, map[ssa.Value]bool{}, 0)
		}
		if anchor == nil {
			return false
		}
		return ReachAfter(anchor, func(in ssa.Instruction) bool { return in == anchor }, NewAvoid().AddInstr(call)) == nil
	}
	// after `next` (in the body), reaching `next` again must pass the call
	return ReachAfter(next, func(in ssa.Instruction) bool { return in == ssa.Instruction(next) }, NewAvoid().AddInstr(call)) == nil
}

func c03R4(c *Ctx, r *Report) {
	r.Rule("C03-R4", "E2 pathrules + strict failure-edge analysis", "getPrincipal rebuilds missing/invalidated channels and roles before returning the principal; every failure inside the rebuild functions propagates; rebuilt sets include explicit grants and the public channel", 6)
	gp := c.Func("(*auth.Authenticator).getPrincipal")
	if gp == nil {
		r.Fail("C03-R4", "anchor getPrincipal", "-", "function not found")
		return
	}
	// rebuild calls present in the load callback
	rc, rr := 0, 0
	for _, lit := range gp.AnonFuncs {
		rc += len(c.Calls(lit, false, nameIs("(*auth.Authenticator).RebuildChannels")))
		rr += len(c.Calls(lit, false, nameIs("(*auth.Authenticator).RebuildRoles")))
	}
	r.Check("C03-R4", "fn=(*auth.Authenticator).getPrincipal$load rebuilds=channels,roles", c.Pos(gp.Pos()), rc > 0 && rr > 0, "invalidated access is recomputed when the principal is loaded", "loading a principal no longer recomputes invalidated channels/roles")
	fe := newFailEdge(c)
	targets := []*ssa.Function{c.Func("(*auth.Authenticator).RebuildChannels"), c.Func("(*auth.Authenticator).rebuildCollectionChannels"), c.Func("(*auth.Authenticator).RebuildRoles")}
	targets = append(targets, gp.AnonFuncs...)
	n := 0
	for _, fn := range targets {
		if fn == nil {
			r.Fail("C03-R4", "anchor rebuild function", "-", "function not found")
			continue
		}
		for _, b := range fn.Blocks {
			for _, in := range b.Instrs {
				call, ok := in.(*ssa.Call)
				if !ok || !hasErrResult(call.Call.Signature()) {
					continue
				}
				nm := c.CalleeName(call)
				if nm == "base.JSONMarshal" || nm == "base.JSONUnmarshal" || nm == "github.com/pkg/errors.WithStack" || nm == "base.RedactErrorf" {
					continue
				}
				n++
				s := fe.classifyStrict(fn, call)
				r.Check("C03-R4", fmt.Sprintf("fn=%s call=%s #%d failure-propagates", c.FuncName(fn), CalleeIdent(call), n), c.Pos(call.Pos()), s.Verdict == "propagating",
					"a failed recomputation fails the load", "a failed access recomputation is swallowed: the principal is saved and returned with an empty/stale computed set and the invalidation marker cleared ("+s.Detail+")")
			}
		}
	}
	// rebuilt channel set includes explicit channels and the public channel; rebuilt roles include explicit roles
	if fn := c.Func("(*auth.Authenticator).rebuildCollectionChannels"); fn != nil {
		hasExplicit := len(c.Calls(fn, false, nameHasSuffix(".ExplicitChannels"))) > 0
		hasPublic := false
		for _, call := range c.Calls(fn, false, nameHasSuffix(".AddChannel")) {
			for _, a := range call.Common().Args {
				if g, ok := unwrapLoadFree(a).(*ssa.UnOp); ok {
					if gl, ok := g.X.(*ssa.Global); ok && gl.Name() == "DocumentPublicChannel" {
						hasPublic = true
					}
				}
				if s, ok := constString(a); ok && s == "!" {
					hasPublic = true
				}
			}
		}
		r.Check("C03-R4", "fn=(*auth.Authenticator).rebuildCollectionChannels includes=explicit+public", c.Pos(fn.Pos()), hasExplicit && hasPublic, "admin-assigned channels and the public channel are part of the recomputed set", "recomputed channels omit the admin-assigned channels or the public channel")
	}
	if fn := c.Func("(*auth.Authenticator).RebuildRoles"); fn != nil {
		hasExplicit := len(c.Calls(fn, false, nameHasSuffix(".ExplicitRoles"))) > 0
		r.Check("C03-R4", "fn=(*auth.Authenticator).RebuildRoles includes=explicit-roles", c.Pos(fn.Pos()), hasExplicit, "admin-assigned roles are part of the recomputed set", "recomputed roles omit the admin-assigned roles")
	}
}

// syncOutputRoles: which outputs of the sync-function evaluation (getChannelsAndAccess results: 0 channels, 1 access grants,
// 2 role grants) the value v carries, following the wrappers runSyncFn / recalculateSyncFnForActiveRev *positionally* (result j of a
// wrapper is traced to the definitions of that wrapper's j-th result), through phis and local cells.
func syncOutputRoles(c *Ctx, v ssa.Value, seen map[ssa.Value]bool, depth int, out map[int]bool) {
	if v == nil || seen[v] || depth > 12 {
		return
	}
	seen[v] = true
	v = unwrapLoadFree(v)
	switch x := v.(type) {
	case *ssa.Extract:
		call, ok := x.Tuple.(*ssa.Call)
		if !ok {
			return
		}
		name := c.CalleeName(call)
		switch name {
		case "(*db.DatabaseCollectionWithUser).getChannelsAndAccess":
			out[x.Index] = true
		case "(*db.DatabaseCollectionWithUser).runSyncFn", "(*db.DatabaseCollectionWithUser).recalculateSyncFnForActiveRev":
			if w := call.Call.StaticCallee(); w != nil {
				for _, d := range resultDefs(w, x.Index) {
					syncOutputRoles(c, d.Val, seen, depth+1, out)
				}
			}
		}
	case *ssa.Phi:
		for _, e := range x.Edges {
			syncOutputRoles(c, e, seen, depth+1, out)
		}
	case *ssa.UnOp:
		if ad, ok := loadOf(x); ok {
			for _, st := range storesInto(rootAddr(ad)) {
				syncOutputRoles(c, st.Val, seen, depth+1, out)
			}
		}
	case *ssa.ChangeType:
		syncOutputRoles(c, x.X, seen, depth+1, out)
	case *ssa.MakeInterface:
		syncOutputRoles(c, x.X, seen, depth+1, out)
	}
}

// C03-R5: the three outputs of the sync function keep their identity on the way to the document: channels feed updateChannels,
// access() grants feed Access.updateAccess, role() grants feed RoleAccess.updateAccess — also through the wrappers that re-evaluate
// the sync function for a promoted revision. (Both grant maps have the same Go type, so a swap compiles.)
func c03R5(c *Ctx, r *Report) {
	r.Rule("C03-R5", "E3 positional def-use through wrappers", "on the write path and in resync, updateChannels / Access.updateAccess / RoleAccess.updateAccess receive exactly the channels / access / role output of the sync-function evaluation (traced positionally through runSyncFn and recalculateSyncFnForActiveRev)", 6)
	accF := c.Field("db.SyncData", "Access")
	roleF := c.Field("db.SyncData", "RoleAccess")
	if accF == nil || roleF == nil {
		r.Fail("C03-R5", "anchor db.SyncData.Access/RoleAccess", "-", "fields not found")
		return
	}
	names := []string{"channels", "access", "roles"}
	for _, fnName := range []string{"(*db.DatabaseCollectionWithUser).documentUpdateFunc", "(*db.DatabaseCollectionWithUser).getResyncedDocument"} {
		top := c.Func(fnName)
		if top == nil {
			r.Fail("C03-R5", "anchor "+fnName, "-", "function not found")
			continue
		}
		for _, fn := range append([]*ssa.Function{top}, top.AnonFuncs...) {
			for _, call := range c.Calls(fn, false, nameIs("(*db.Document).updateChannels", "(*db.UserAccessMap).updateAccess")) {
				want := 0
				args := callArgs(call)
				arg := args[len(args)-1]
				if CalleeIdent(call) == "updateAccess" {
					fa, ok := call.Common().Args[0].(*ssa.FieldAddr)
					if !ok {
						r.Fail("C03-R5", fmt.Sprintf("fn=%s sink=updateAccess receiver", shortName(fnName)), c.Pos(call.Pos()), "receiver of updateAccess is not a field of the document (undecided)")
						continue
					}
					switch structField(fa.X.Type(), fa.Field) {
					case accF:
						want = 1
					case roleF:
						want = 2
					default:
						continue
					}
				}
				got := map[int]bool{}
				syncOutputRoles(c, arg, map[ssa.Value]bool{}, 0, got)
				ok := len(got) == 1 && got[want]
				var gs []string
				for i := 0; i < 3; i++ {
					if got[i] {
						gs = append(gs, names[i])
					}
				}
				r.Check("C03-R5", fmt.Sprintf("fn=%s sink=%s receives=sync-function-%s-output", shortName(fnName), names[want], names[want]), c.Pos(call.Pos()), ok,
					"traced positionally to result "+fmt.Sprint(want)+" of the evaluation", fmt.Sprintf("the document's %s are assigned from the sync function's %v output (the access and role grant maps have the same type, so a swapped position compiles): grantees get neither the channel nor the role the revision confers", names[want], gs))
			}
		}
	}
}

// C03-R6: per-collection invalidation slot. The default collection's channel invalidation lives in the principal's top-level
// channel_inval_seq, every other collection's under collection_access.<scope>.<collection>; the sub-document fast path of
// InvalidateChannels must choose between them exactly as base.IsDefaultCollection does (which the full-document path and every
// reader use). Decided by evaluating both decisions for every valuation of (scope is the default scope, collection is the default
// collection).
func c03R6(c *Ctx, r *Report) {
	r.Rule("C03-R6", "E6 cmpeval + feasible-edge walk (sibling agreement)", "InvalidateChannels' sub-document path selects the top-level invalidation slot iff base.IsDefaultCollection(scope, collection), for all four valuations", 2)
	isDef := c.Func("base.IsDefaultCollection")
	inv := c.Func("(*auth.Authenticator).InvalidateChannels")
	if isDef == nil || inv == nil {
		r.Fail("C03-R6", "anchor base.IsDefaultCollection / InvalidateChannels", "-", "function not found")
		return
	}
	defScope, defColl := "", ""
	if k, ok := c.SSAPkg["base"].Pkg.Scope().Lookup("DefaultScope").(*types.Const); ok {
		defScope = constantString(k)
	}
	if k, ok := c.SSAPkg["base"].Pkg.Scope().Lookup("DefaultCollection").(*types.Const); ok {
		defColl = constantString(k)
	}
	if defScope == "" || defColl == "" {
		r.Fail("C03-R6", "anchor base.DefaultScope/DefaultCollection", "-", "constants not found")
		return
	}
	// the path argument of SubdocInsert
	var pathPhi *ssa.Phi
	for _, call := range c.Calls(inv, false, nameHasSuffix(".SubdocInsert")) {
		a := call.Common().Args
		for _, x := range a {
			if p, ok := x.(*ssa.Phi); ok && types.Identical(p.Type().Underlying(), types.Typ[types.String]) {
				pathPhi = p
			}
		}
	}
	if pathPhi == nil {
		r.Fail("C03-R6", "fn=InvalidateChannels subdoc-path", c.Pos(inv.Pos()), "the sub-document path is no longer chosen between two forms (undecided)")
		return
	}
	derivesFromCall := func(v ssa.Value, suffix string) bool {
		return DependsOn(v, func(x ssa.Value) bool {
			cc, ok := x.(*ssa.Call)
			return ok && strings.HasSuffix(c.CalleeName(cc), suffix)
		})
	}
	bad := ""
	n := 0
	for _, sDef := range []bool{true, false} {
		for _, cDef := range []bool{true, false} {
			n++
			// ground truth
			const symD, symS, symC = 1, 2, 3
			rank := []int{0, 1, 2, 3}
			if sDef {
				rank[symS] = 1
			}
			if cDef {
				rank[symC] = 1
			}
			truth, left := evalWith(c, isDef, rank, func(ev *cmpEval) {
				ev.strSyms = map[string]aSym{defScope: {symD}, defColl: {symD}}
			}, aSym{symS}, aSym{symC})
			tb, isB := truth.(aBool)
			if left != "" || !isB {
				r.Fail("C03-R6", "fn=base.IsDefaultCollection evaluable", c.Pos(isDef.Pos()), "left the comparison-only fragment: "+left)
				return
			}
			if bool(tb) != (sDef && cDef) && bad == "" {
				bad = fmt.Sprintf("IsDefaultCollection(scopeIsDefault=%v, collectionIsDefault=%v) = %v", sDef, cDef, tb)
			}
			// the fast path's choice
			edges := FeasiblePhiEdges(inv, pathPhi, func(cond ssa.Value) (bool, bool) {
				b, ok := cond.(*ssa.BinOp)
				if !ok || (b.Op != token.EQL && b.Op != token.NEQ) {
					return false, false
				}
				var other ssa.Value
				if s, isK := constString(b.X); isK && (s == defScope || s == defColl) {
					other = b.Y
				} else if s, isK := constString(b.Y); isK && (s == defScope || s == defColl) {
					other = b.X
				} else {
					return false, false
				}
				var eq bool
				switch {
				case derivesFromCall(other, ".ScopeName"):
					eq = sDef
				case derivesFromCall(other, ".CollectionName"):
					eq = cDef
				default:
					return false, false
				}
				if b.Op == token.NEQ {
					return !eq, true
				}
				return eq, true
			})
			topLevel, nested := false, false
			for _, e := range edges {
				if _, isK := constString(e); isK {
					topLevel = true
				} else {
					nested = true
				}
			}
			want := sDef && cDef
			if (topLevel != want || nested == want) && bad == "" {
				bad = fmt.Sprintf("scope is default=%v, collection is default=%v: sub-document path top-level=%v per-collection=%v, IsDefaultCollection=%v", sDef, cDef, topLevel, nested, want)
			}
		}
	}
	r.Check("C03-R6", "fn=base.IsDefaultCollection = (scope and collection are the defaults)", c.Pos(isDef.Pos()), bad == "" || !strings.HasPrefix(bad, "IsDefaultCollection("), "holds for all 4 valuations", bad)
	r.Check("C03-R6", "fn=(*auth.Authenticator).InvalidateChannels subdoc-slot agrees-with=IsDefaultCollection", c.Pos(pathPhi.Pos()), bad == "", fmt.Sprintf("agrees for all %d valuations", n), "the sub-document fast path writes the invalidation marker to a slot the principal's readers do not consult for that collection: the cached channel set of that collection is never invalidated and grants/revocations from its documents never reach the principal: "+bad)
}

// C03-R7: a purge removes a document without writing a revision, so the write path's invalidation never runs for it: Purge itself must
// invalidate the principals the purged document granted access to, on every successful exit.
func c03R7(c *Ctx, r *Report) {
	r.Rule("C03-R7", "E2 pathrules (must-pass-through, helpers followed)", "every successful exit of Purge passes MarkPrincipalsChanged (directly or through a helper), fed from the purged document's Access and RoleAccess grants", 2)
	fn := c.Func("(*db.DatabaseCollectionWithUser).Purge")
	if fn == nil {
		r.Fail("C03-R7", "anchor (*db.DatabaseCollectionWithUser).Purge", "-", "function not found")
		return
	}
	isMark := func(in ssa.Instruction) bool {
		ci, ok := in.(ssa.CallInstruction)
		return ok && c.CalleeName(ci) == "(*db.DatabaseCollectionWithUser).MarkPrincipalsChanged"
	}
	marks := c.EffectSites(fn, isMark, 2)
	leak := false
	for _, ret := range Returns(fn) {
		if !isNilConst(unwrapLoadFree(ret.Results[0])) {
			continue
		}
		if ReachEntry(fn, ret, NewAvoid().AddInstr(marks...)) {
			leak = true
		}
	}
	r.Check("C03-R7", "fn=(*db.DatabaseCollectionWithUser).Purge success-exit passes=MarkPrincipalsChanged", c.Pos(fn.Pos()), len(marks) > 0 && !leak,
		"every successful purge invalidates the grantees", "a document can be purged without invalidating the users and roles its access()/role() calls granted: they keep the channels and roles of a document that no longer exists")
	// provenance of the invalidated names
	accF := c.Field("db.SyncData", "Access")
	roleF := c.Field("db.SyncData", "RoleAccess")
	okA, okR := false, false
	hosts := []*ssa.Function{fn}
	for _, m := range marks {
		if ci, ok := m.(ssa.CallInstruction); ok {
			if cal := ci.Common().StaticCallee(); cal != nil && !isMark(m) {
				hosts = append(hosts, cal)
			}
		}
	}
	for _, h := range hosts {
		for _, call := range c.Calls(h, false, nameIs("(*db.DatabaseCollectionWithUser).MarkPrincipalsChanged")) {
			a := callArgs(call)
			if len(a) < 6 {
				continue
			}
			if DependsOn(a[3], func(v ssa.Value) bool { f, _ := fieldRead(v); return f != nil && f == accF }) {
				okA = true
			}
			if DependsOn(a[4], func(v ssa.Value) bool { f, _ := fieldRead(v); return f != nil && f == roleF }) {
				okR = true
			}
		}
	}
	r.Check("C03-R7", "fn=(*db.DatabaseCollectionWithUser).Purge invalidated-names from=doc.Access,doc.RoleAccess", c.Pos(fn.Pos()), okA && okR,
		"the grantees of the purged document's access and role grants are invalidated", fmt.Sprintf("the principals invalidated by a purge do not come from the purged document's grants (access=%v roles=%v)", okA, okR))
}
