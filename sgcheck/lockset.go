package main

import (
	"fmt"
	"go/token"
	"go/types"
	"sort"
	"strings"

	"golang.org/x/tools/go/ssa"
)

// E1 guardedby — lockset analysis.
//
// Lock identity: the chain of struct fields leading to the mutex, rooted at the named struct type that owns
// the first field ("changeCache.lock", "changeListener.tapNotifier.L"). Instances are not distinguished
// (receiver-rooted assumption, DESIGN §2.3).
//
// State: map lockKey -> mode (1 = read-held, 2 = write-held). Join = pointwise minimum.
// Interprocedural: a function's entry lockset is the meet of the locksets at all of its in-scope static call
// sites (greatest fixpoint); functions with no in-scope static caller, `go` targets and deferred/escaping
// closures start with the empty lockset. Closures passed directly to a synchronous higher-order callee listed in
// syncHigherOrder inherit the call site's lockset.

type lockMode int

const (
	modeNone lockMode = 0
	modeR    lockMode = 1
	modeW    lockMode = 2
)

type lockset map[string]lockMode

func (l lockset) clone() lockset {
	o := make(lockset, len(l))
	for k, v := range l {
		o[k] = v
	}
	return o
}

func meet(a, b lockset) lockset {
	o := lockset{}
	for k, v := range a {
		if w, ok := b[k]; ok {
			if w < v {
				v = w
			}
			if v > 0 {
				o[k] = v
			}
		}
	}
	return o
}

func (l lockset) equal(o lockset) bool {
	if len(l) != len(o) {
		return false
	}
	for k, v := range l {
		if o[k] != v {
			return false
		}
	}
	return true
}

func (l lockset) String() string {
	var ks []string
	for k, v := range l {
		m := "R"
		if v == modeW {
			m = "W"
		}
		ks = append(ks, k+":"+m)
	}
	sort.Strings(ks)
	return "{" + strings.Join(ks, ",") + "}"
}

// GuardRow: fields of Struct must be accessed with Lock held.
type GuardRow struct {
	Struct string   // "db.changeCache"
	Fields []string // guarded fields
	Lock   string   // lock key, e.g. "changeCache.lock"
	// ReadsExempt: reads need no lock (write-once / atomically published) — reason mandatory.
	ReadsExempt       bool
	ReadsExemptReason string
}

// GuardExempt: function (short qualified name; literals match by their top-level function) allowed to touch the
// fields without the lock, with reason.
type GuardExempt struct {
	Func   string
	Field  string // "" = all fields of the row
	Reason string
}

var syncHigherOrder = map[string]bool{
	"sort.Slice": true, "sort.SliceStable": true, "sort.Search": true, "slices.SortFunc": true, "slices.IndexFunc": true, "slices.ContainsFunc": true,
	"slices.DeleteFunc": true, "maps.DeleteFunc": true,
	"(db.RevTree).forEachLeaf": true, "(db.RevTree).forEachAncestor": true,
	"(*container/list.List).Do": true,
}

type lockAnalysis struct {
	c       *Ctx
	keys    map[string]bool // lock keys of interest
	funcs   []*ssa.Function
	entry   map[*ssa.Function]lockset // nil = TOP
	hasCall map[*ssa.Function]bool    // has at least one in-scope static call site
	// per instruction lockset before it executes (filled by final pass)
	at map[ssa.Instruction]lockset
	// offending call sites per function (those that narrowed entry)
	sites map[*ssa.Function][]ssa.CallInstruction
	// EntryHeld: functions entered with a lock already held by protocol (cross-function hand-off), with reason.
	EntryHeld map[string]lockset
}

// lockKeyOf computes the lock key for the receiver value of a Lock/Unlock call.
func lockKeyOf(v ssa.Value) string {
	var parts []string
	for i := 0; i < 12; i++ {
		switch x := v.(type) {
		case *ssa.FieldAddr:
			f := structField(x.X.Type(), x.Field)
			if f == nil {
				return ""
			}
			parts = append([]string{f.Name()}, parts...)
			// owner type
			if next, ok := derefChain(x.X); ok {
				v = next
				continue
			}
			return namedOf(x.X.Type()) + "." + strings.Join(parts, ".")
		case *ssa.Field:
			f := structField(x.X.Type(), x.Field)
			if f == nil {
				return ""
			}
			parts = append([]string{f.Name()}, parts...)
			if next, ok := derefChain(x.X); ok {
				v = next
				continue
			}
			return namedOf(x.X.Type()) + "." + strings.Join(parts, ".")
		case *ssa.UnOp:
			if x.Op == token.MUL {
				v = x.X
				continue
			}
			return ""
		case *ssa.MakeInterface:
			v = x.X
			continue
		case *ssa.ChangeInterface:
			v = x.X
			continue
		default:
			return ""
		}
	}
	return ""
}

// derefChain: if v is (a load of) another field address, continue the chain from there.
func derefChain(v ssa.Value) (ssa.Value, bool) {
	switch x := v.(type) {
	case *ssa.FieldAddr, *ssa.Field:
		return v, true
	case *ssa.UnOp:
		if x.Op == token.MUL {
			switch x.X.(type) {
			case *ssa.FieldAddr, *ssa.Field:
				return x.X, true
			}
		}
	}
	return nil, false
}

func namedOf(t types.Type) string {
	for {
		if p, ok := t.(*types.Pointer); ok {
			t = p.Elem()
			continue
		}
		break
	}
	if n, ok := t.(*types.Named); ok {
		return n.Obj().Name()
	}
	if a, ok := t.(*types.Alias); ok {
		return a.Obj().Name()
	}
	return t.String()
}

// lockOp classifies a call as a lock operation: returns key, delta mode (+W,+R,-W,-R) .
func lockOp(call ssa.CallInstruction) (key string, acquire bool, mode lockMode, ok bool) {
	cc := call.Common()
	var name string
	var recv ssa.Value
	if cc.IsInvoke() {
		// sync.Locker
		if !strings.HasSuffix(cc.Method.FullName(), "(sync.Locker).Lock") && !strings.HasSuffix(cc.Method.FullName(), "(sync.Locker).Unlock") {
			return
		}
		name = cc.Method.Name()
		recv = cc.Value
	} else {
		f := cc.StaticCallee()
		if f == nil || f.Pkg == nil || f.Pkg.Pkg.Path() != "sync" || len(cc.Args) == 0 {
			return
		}
		rs := f.RelString(nil)
		if !strings.HasPrefix(rs, "(*sync.Mutex).") && !strings.HasPrefix(rs, "(*sync.RWMutex).") {
			return
		}
		name = f.Name()
		recv = cc.Args[0]
	}
	switch name {
	case "Lock":
		acquire, mode = true, modeW
	case "RLock":
		acquire, mode = true, modeR
	case "Unlock":
		acquire, mode = false, modeW
	case "RUnlock":
		acquire, mode = false, modeR
	default:
		return
	}
	key = lockKeyOf(recv)
	if key == "" {
		return
	}
	ok = true
	return
}

func newLockAnalysis(c *Ctx, keys []string, pkgs ...string) *lockAnalysis {
	la := &lockAnalysis{c: c, keys: map[string]bool{}, entry: map[*ssa.Function]lockset{}, hasCall: map[*ssa.Function]bool{}, at: map[ssa.Instruction]lockset{}, sites: map[*ssa.Function][]ssa.CallInstruction{}}
	for _, k := range keys {
		la.keys[k] = true
	}
	inPkg := map[string]bool{}
	for _, p := range pkgs {
		inPkg[p] = true
	}
	for _, f := range c.SrcFuncs {
		if f.Pkg != nil && inPkg[f.Pkg.Pkg.Name()] && c.InScope(f) && len(f.Blocks) > 0 {
			la.funcs = append(la.funcs, f)
		}
	}
	return la
}

func (la *lockAnalysis) top() lockset {
	t := lockset{}
	for k := range la.keys {
		t[k] = modeW
	}
	return t
}

// transfer through one function; calls visit(instr, locksetBefore) if visit != nil; records call-site locksets into callOut.
func (la *lockAnalysis) flow(fn *ssa.Function, entry lockset, visit func(in ssa.Instruction, ls lockset)) {
	in := make([]lockset, len(fn.Blocks))
	done := make([]bool, len(fn.Blocks))
	in[0] = entry.clone()
	done[0] = true
	work := []int{0}
	out := make([]lockset, len(fn.Blocks))
	for len(work) > 0 {
		bi := work[0]
		work = work[1:]
		b := fn.Blocks[bi]
		ls := in[bi].clone()
		for _, ins := range b.Instrs {
			if call, ok := ins.(ssa.CallInstruction); ok {
				if _, isDefer := ins.(*ssa.Defer); isDefer {
					continue // deferred unlocks keep the lock to function exit; other deferred calls handled as entries
				}
				if _, isGo := ins.(*ssa.Go); isGo {
					continue
				}
				if key, acq, mode, ok := lockOp(call); ok && la.keys[key] {
					if acq {
						ls[key] = mode
					} else {
						delete(ls, key)
					}
				}
			}
		}
		out[bi] = ls
		for _, s := range b.Succs {
			si := s.Index
			var n lockset
			if !done[si] {
				n = ls.clone()
			} else {
				n = meet(in[si], ls)
			}
			if !done[si] || !n.equal(in[si]) {
				in[si] = n
				done[si] = true
				work = append(work, si)
			}
		}
	}
	if visit == nil {
		return
	}
	for bi, b := range fn.Blocks {
		if !done[bi] {
			continue
		}
		ls := in[bi].clone()
		for _, ins := range b.Instrs {
			visit(ins, ls)
			if call, ok := ins.(ssa.CallInstruction); ok {
				if _, isDefer := ins.(*ssa.Defer); isDefer {
					continue
				}
				if _, isGo := ins.(*ssa.Go); isGo {
					continue
				}
				if key, acq, mode, ok := lockOp(call); ok && la.keys[key] {
					ls = ls.clone()
					if acq {
						ls[key] = mode
					} else {
						delete(ls, key)
					}
				}
			}
		}
	}
}

// Solve computes entry locksets to a fixpoint and fills la.at.
func (la *lockAnalysis) Solve() {
	inSet := map[*ssa.Function]bool{}
	for _, f := range la.funcs {
		inSet[f] = true
	}
	// discover which functions have in-scope synchronous static call sites
	type site struct {
		caller *ssa.Function
		call   ssa.CallInstruction
	}
	callSites := map[*ssa.Function][]site{}
	deferSites := map[*ssa.Function][]*ssa.Defer{}
	for _, f := range la.funcs {
		for _, b := range f.Blocks {
			for _, ins := range b.Instrs {
				if df, isDefer := ins.(*ssa.Defer); isDefer {
					// a deferred function literal runs while the locks held at the defer statement (by the caller, or taken with
					// an earlier `defer Unlock`) are still held
					var lit *ssa.Function
					if mc, ok := df.Call.Value.(*ssa.MakeClosure); ok {
						lit, _ = mc.Fn.(*ssa.Function)
					} else if f, ok := df.Call.Value.(*ssa.Function); ok && f.Parent() != nil {
						lit = f
					}
					if lit != nil && inSet[lit] {
						deferSites[lit] = append(deferSites[lit], df)
					}
					continue
				}
				call, ok := ins.(*ssa.Call)
				if !ok {
					continue
				}
				if cal := call.Call.StaticCallee(); cal != nil {
					if cal.Origin() != nil {
						cal = cal.Origin()
					}
					if inSet[cal] {
						callSites[cal] = append(callSites[cal], site{f, call})
					}
					// closures passed to synchronous higher-order functions
					if syncHigherOrder[la.c.FuncName(cal)] {
						for _, a := range call.Call.Args {
							if mc, ok := a.(*ssa.MakeClosure); ok {
								if lit, ok := mc.Fn.(*ssa.Function); ok && inSet[lit] {
									callSites[lit] = append(callSites[lit], site{f, call})
								}
							}
						}
					}
				}
			}
		}
	}
	for _, f := range la.funcs {
		if eh, ok := la.EntryHeld[la.c.FuncName(f)]; ok {
			la.entry[f] = eh.clone()
			continue
		}
		if len(callSites[f]) > 0 && !la.escapes(f) {
			la.entry[f] = nil // TOP
			la.hasCall[f] = true
		} else if len(deferSites[f]) > 0 {
			la.entry[f] = nil // TOP, narrowed by the defer sites below
			la.hasCall[f] = true
		} else {
			la.entry[f] = lockset{}
		}
	}
	get := func(f *ssa.Function) lockset {
		if e := la.entry[f]; e != nil {
			return e
		}
		return la.top()
	}
	for iter := 0; iter < 50; iter++ {
		changed := false
		// lockset at each call instruction per caller
		atCall := map[ssa.Instruction]lockset{}
		for _, f := range la.funcs {
			la.flow(f, get(f), func(in ssa.Instruction, ls lockset) {
				switch in.(type) {
				case *ssa.Call, *ssa.Defer:
					atCall[in] = ls.clone()
				}
			})
		}
		for _, f := range la.funcs {
			if !la.hasCall[f] {
				continue
			}
			var m lockset
			for _, s := range callSites[f] {
				ls, ok := atCall[s.call]
				if !ok {
					continue // unreachable call site
				}
				if m == nil {
					m = ls.clone()
				} else {
					m = meet(m, ls)
				}
			}
			for _, df := range deferSites[f] {
				ls, ok := atCall[df]
				if !ok {
					continue
				}
				if m == nil {
					m = ls.clone()
				} else {
					m = meet(m, ls)
				}
			}
			if m == nil {
				m = lockset{}
			}
			old := get(f)
			if !m.equal(old) {
				la.entry[f] = m
				changed = true
			}
		}
		if !changed {
			break
		}
	}
	for _, f := range la.funcs {
		la.flow(f, get(f), func(in ssa.Instruction, ls lockset) { la.at[in] = ls })
	}
	// remember narrowing call sites (diagnostics)
	for f, ss := range callSites {
		for _, s := range ss {
			la.sites[f] = append(la.sites[f], s.call)
		}
	}
}

// escapes: the function value is used other than as a direct callee / sync higher-order argument (method value,
// stored, passed as callback, go/defer target) — such functions may be entered with no lock held.
func (la *lockAnalysis) escapes(f *ssa.Function) bool {
	if f.Parent() == nil {
		// declared functions: method values / func values. Detect references other than in call position.
		// (cheap approximation: look for the function used as an operand that is not the call's Value)
		return la.referencedAsValue(f)
	}
	// literal: find its MakeClosure and check uses
	esc := false
	EachInstr(f.Parent(), false, func(in ssa.Instruction) {
		mc, ok := in.(*ssa.MakeClosure)
		if !ok || mc.Fn != f {
			return
		}
		refs := mc.Referrers()
		if refs == nil {
			return
		}
		for _, r := range *refs {
			switch u := r.(type) {
			case *ssa.Call:
				if u.Call.Value == mc {
					continue
				}
				if cal := u.Call.StaticCallee(); cal != nil && syncHigherOrder[la.c.FuncName(cal)] {
					continue
				}
				esc = true
			case *ssa.DebugRef:
			default:
				esc = true
			}
		}
	})
	if len(f.FreeVars) == 0 && f.Parent() != nil {
		// literal without free variables is referenced as a plain function value
		EachInstr(f.Parent(), false, func(in ssa.Instruction) {
			for _, op := range in.Operands(nil) {
				if *op == ssa.Value(f) {
					if call, ok := in.(*ssa.Call); ok && call.Call.Value == ssa.Value(f) {
						continue
					}
					if call, ok := in.(*ssa.Call); ok {
						if cal := call.Call.StaticCallee(); cal != nil && syncHigherOrder[la.c.FuncName(cal)] {
							continue
						}
					}
					esc = true
				}
			}
		})
	}
	return esc
}

var funcValueRefs map[*ssa.Function]bool

func (la *lockAnalysis) referencedAsValue(f *ssa.Function) bool {
	if funcValueRefs == nil {
		funcValueRefs = map[*ssa.Function]bool{}
		for _, g := range la.c.SrcFuncs {
			EachInstr(g, false, func(in ssa.Instruction) {
				for _, op := range in.Operands(nil) {
					if fv, ok := (*op).(*ssa.Function); ok {
						if call, ok := in.(ssa.CallInstruction); ok && call.Common().Value == *op {
							if _, isCall := in.(*ssa.Call); isCall {
								continue
							}
						}
						funcValueRefs[fv] = true
						if fv.Origin() != nil {
							funcValueRefs[fv.Origin()] = true
						}
					}
				}
			})
		}
	}
	return funcValueRefs[f]
}

// CheckGuards reports every access to a guarded field with its lockset.
type guardedAccess struct {
	Fn    *ssa.Function
	Instr ssa.Instruction
	Field *types.Var
	Write bool
	Held  lockMode
	LS    lockset
}

func (la *lockAnalysis) Accesses(row GuardRow) ([]guardedAccess, error) {
	T := la.c.NamedType(row.Struct)
	if T == nil {
		return nil, fmt.Errorf("guard table: type %s not found", row.Struct)
	}
	flds := map[*types.Var]bool{}
	for _, fname := range row.Fields {
		f := la.c.Field(row.Struct, fname)
		if f == nil {
			return nil, fmt.Errorf("guard table: field %s.%s not found", row.Struct, fname)
		}
		flds[f] = true
	}
	var out []guardedAccess
	for _, fn := range la.funcs {
		for _, b := range fn.Blocks {
			for _, ins := range b.Instrs {
				var fld *types.Var
				var isAddr bool
				switch x := ins.(type) {
				case *ssa.FieldAddr:
					fld = structField(x.X.Type(), x.Field)
					isAddr = true
					// fresh object (constructor): root is an allocation in this function
					if flds[fld] && isFreshAlloc(x.X) {
						fld = nil
					}
				case *ssa.Field:
					fld = structField(x.X.Type(), x.Field)
				}
				if fld == nil || !flds[fld] {
					continue
				}
				ls, reach := la.at[ins]
				if !reach {
					continue
				}
				write := false
				if isAddr {
					write = addrWritten(ins.(*ssa.FieldAddr))
				}
				out = append(out, guardedAccess{fn, ins, fld, write, ls[row.Lock], ls})
			}
		}
	}
	return out, nil
}

// isFreshAlloc: v is a struct allocated in this function (new(T) / &T{}) that has not been published yet —
// approximated as: the address comes straight from an Alloc instruction.
func isFreshAlloc(v ssa.Value) bool {
	v = unwrapLoadFree(v) // the variable may live in a cell because a closure captures it
	_, ok := v.(*ssa.Alloc)
	return ok
}

// addrWritten: the field address (or a nested address / the loaded map or slice header) is written through.
func addrWritten(fa ssa.Value) bool {
	refs := fa.Referrers()
	if refs == nil {
		return false
	}
	for _, r := range *refs {
		switch u := r.(type) {
		case *ssa.Store:
			if u.Addr == fa {
				return true
			}
			return true // address stored somewhere: escapes
		case *ssa.UnOp:
			if u.Op == token.MUL {
				// loaded value: map update / delete / element store through loaded pointer or slice
				if loadedValueMutated(u) {
					return true
				}
			}
		case *ssa.FieldAddr, *ssa.IndexAddr:
			if addrWritten(u.(ssa.Value)) {
				return true
			}
		case ssa.CallInstruction:
			// passed by address: atomic ops, heap.Push(&c.pendingLogs,..), pointer-receiver methods
			return true
		case *ssa.DebugRef:
		default:
		}
	}
	return false
}

func loadedValueMutated(v ssa.Value) bool {
	refs := v.Referrers()
	if refs == nil {
		return false
	}
	for _, r := range *refs {
		switch u := r.(type) {
		case *ssa.MapUpdate:
			if u.Map == v {
				return true
			}
		case *ssa.Call:
			if b, ok := u.Call.Value.(*ssa.Builtin); ok && (b.Name() == "delete" || b.Name() == "clear") && len(u.Call.Args) > 0 && u.Call.Args[0] == v {
				return true
			}
		case *ssa.IndexAddr:
			if u.X == v && addrWritten(u) {
				return true
			}
		}
	}
	return false
}

// runGuardRule evaluates a guard table and files obligations under ruleID.
func runGuardRule(c *Ctx, r *Report, ruleID string, la *lockAnalysis, rows []GuardRow, exempts []GuardExempt) {
	ex := map[string]GuardExempt{}
	for _, e := range exempts {
		ex[e.Func+"|"+e.Field] = e
	}
	usedEx := map[string]bool{}
	for _, row := range rows {
		accs, err := la.Accesses(row)
		if err != nil {
			r.Fail(ruleID, "guard-table "+row.Struct, "-", err.Error())
			continue
		}
		r.Examined(ruleID, len(accs))
		// group per (function, field, kind)
		type key struct {
			fn    string
			field string
			write bool
		}
		type agg struct {
			n     int
			bad   []guardedAccess
			first guardedAccess
		}
		groups := map[key]*agg{}
		var order []key
		for _, a := range accs {
			k := key{c.FuncName(a.Fn), a.Field.Name(), a.Write}
			g := groups[k]
			if g == nil {
				g = &agg{first: a}
				groups[k] = g
				order = append(order, k)
			}
			g.n++
			need := modeR
			if a.Write {
				need = modeW
			}
			if !a.Write && row.ReadsExempt {
				continue
			}
			if a.Held < need {
				g.bad = append(g.bad, a)
			}
		}
		sort.Slice(order, func(i, j int) bool {
			if order[i].fn != order[j].fn {
				return order[i].fn < order[j].fn
			}
			if order[i].field != order[j].field {
				return order[i].field < order[j].field
			}
			return !order[i].write && order[j].write
		})
		for _, k := range order {
			g := groups[k]
			kind := "read"
			if k.write {
				kind = "write"
			}
			construct := fmt.Sprintf("fn=%s field=%s.%s access=%s lock=%s", k.fn, namedShort(row.Struct), k.field, kind, row.Lock)
			pos := c.Pos(g.first.Instr.Pos())
			if len(g.bad) == 0 {
				d := fmt.Sprintf("%d access(es), lock held at each", g.n)
				if !k.write && row.ReadsExempt {
					d = fmt.Sprintf("%d read(s); reads exempt: %s", g.n, row.ReadsExemptReason)
				}
				r.Pass(ruleID, construct, pos, d)
				continue
			}
			top := c.FuncName(TopLevel(g.bad[0].Fn))
			var e GuardExempt
			var ok bool
			for _, cand := range []string{k.fn + "|" + k.field, k.fn + "|", top + "|" + k.field, top + "|"} {
				if e, ok = ex[cand]; ok {
					usedEx[cand] = true
					break
				}
			}
			if ok {
				r.Pass(ruleID, construct, c.Pos(g.bad[0].Instr.Pos()), "exempt: "+e.Reason)
				continue
			}
			b := g.bad[0]
			why := ""
			if la.hasCall[b.Fn] {
				why = " (function entered with lockset " + la.entryOf(b.Fn).String() + " = meet over its call sites: " + la.describeSites(b.Fn, row.Lock) + ")"
			}
			r.Fail(ruleID, construct, c.Pos(b.Instr.Pos()), fmt.Sprintf("%s of guarded field with lockset %s; %s requires %s%s", kind, b.LS, kind, needStr(k.write), why))
		}
	}
	for _, e := range exempts {
		if !usedEx[e.Func+"|"+e.Field] {
			// stale exemption rows are reported as passes with a note (not failures): the code may have gained the lock.
			r.Pass(ruleID, "exempt-row-unused fn="+e.Func+" field="+e.Field, "-", "exemption no longer needed")
		}
	}
}

func needStr(write bool) string {
	if write {
		return "the exclusive lock"
	}
	return "at least the read lock"
}

func namedShort(s string) string {
	if i := strings.Index(s, "."); i >= 0 {
		return s[i+1:]
	}
	return s
}

func (la *lockAnalysis) entryOf(f *ssa.Function) lockset {
	if e := la.entry[f]; e != nil {
		return e
	}
	return la.top()
}

func (la *lockAnalysis) describeSites(f *ssa.Function, key string) string {
	var bad []string
	for _, s := range la.sites[f] {
		ls, ok := la.at[s]
		if !ok {
			continue
		}
		if ls[key] == modeNone {
			bad = append(bad, la.c.FuncName(s.Parent())+"@"+la.c.Pos(s.Pos()))
		}
	}
	sort.Strings(bad)
	if len(bad) > 4 {
		bad = append(bad[:4], "…")
	}
	if len(bad) == 0 {
		return "all hold a weaker mode"
	}
	return "not held at " + strings.Join(bad, ", ")
}
