package main

import (
	"fmt"

	"golang.org/x/tools/go/ssa"
)

// c15NotDeletedEdges: edges of fn on which a registry entry is known NOT to be the marker of a deleted database
// (IsDeleted() == false, directly or through a comparison of Version with the deleted-version constant).
func c15NotDeletedEdges(c *Ctx, fn *ssa.Function) []Edge {
	return EdgesWhere(fn, func(cond ssa.Value) (bool, bool) {
		v, pos := BoolTest(cond)
		if c.IsCallTo(v, nameHasSuffix(".IsDeleted")) {
			return true, !pos
		}
		return false, false
	})
}

// C15-R7: a registry entry in the deleted state (version "0-0", no scopes — left by a delete that is in flight, or that died before
// its finalising step) owns no collections and is not the previous version of anything. Empty scopes are read as "the default
// collection" by both conflict checks, so an entry that is not excluded makes every create/update of a default-collection database
// fail with 409 until the deleted name happens to be reused; copied into PreviousVersion on a re-create it looks like an update in
// flight for ever. (Property clause: after an interrupted change, the same and other databases can still be created and updated.)
func c15R7(c *Ctx, r *Report) {
	r.Rule("C15-R7", "E2 pathrules", "registry entries in the deleted state take no part in collection-conflict checks and are not recorded as the previous version of a re-created database", 3)
	for _, name := range []string{"(*rest.GatewayRegistry).getCollectionConflicts", "(*rest.GatewayRegistry).getPreviousConflicts"} {
		fn := c.Func(name)
		if fn == nil {
			r.Fail("C15-R7", "anchor "+name, "-", "function not found")
			continue
		}
		calls := c.Calls(fn, false, nameIs("rest.findCollectionConflicts"))
		if len(calls) == 0 {
			r.Fail("C15-R7", "fn="+shortName(name)+" call=findCollectionConflicts", c.Pos(fn.Pos()), "conflict computation not found")
			continue
		}
		es := c15NotDeletedEdges(c, fn)
		for i, call := range calls {
			ok := len(es) > 0 && DominatedBy(fn, call, NewAvoid().AddEdge(es...))
			r.Check("C15-R7", fmt.Sprintf("fn=%s conflict-check #%d skips=deleted-entries", shortName(name), i+1), c.Pos(call.Pos()), ok, "dominated by !IsDeleted()", "the conflict check also runs for registry entries in the deleted state; their empty scopes are read as the default collection, so a delete that is in flight or was interrupted before its finalising step blocks every create/update of a database on the default collection with 409")
		}
	}
	up := c.Func("(*rest.GatewayRegistry).upsertDatabaseConfig")
	pv := c.Field("rest.RegistryDatabase", "PreviousVersion")
	if up == nil || pv == nil {
		r.Fail("C15-R7", "anchor upsertDatabaseConfig / RegistryDatabase.PreviousVersion", "-", "function or field not found")
		return
	}
	es := c15NotDeletedEdges(c, up)
	n := 0
	EachInstr(up, false, func(in ssa.Instruction) {
		st, ok := in.(*ssa.Store)
		if !ok {
			return
		}
		fa, ok := st.Addr.(*ssa.FieldAddr)
		if !ok || structField(fa.X.Type(), fa.Field) != pv || isNilConst(st.Val) {
			return
		}
		n++
		ok2 := len(es) > 0 && DominatedBy(up, st, NewAvoid().AddEdge(es...))
		r.Check("C15-R7", fmt.Sprintf("fn=upsertDatabaseConfig store=PreviousVersion #%d only-if=existing-entry-not-deleted", n), c.Pos(st.Pos()), ok2, "dominated by !IsDeleted()", "the marker of a deleted database is recorded as the previous version of the database re-created under that name: creation has no finalising step, so the entry looks like an update in flight for ever and blocks the default collection for other databases")
	})
	if n == 0 {
		r.Fail("C15-R7", "fn=upsertDatabaseConfig store=PreviousVersion", c.Pos(up.Pos()), "no store found")
	}
}

// C15-R8: an update that died after writing the config document but before its finalising registry write leaves PreviousVersion
// in the registry although the config already carries the registry's version. The load path is the only place every node passes
// through; if it hands out a version-matched config without even looking at PreviousVersion, nothing ever clears it and the
// collections the update released stay "in use by an update in progress".
func c15R8(c *Ctx, r *Report) {
	r.Rule("C15-R8", "E3 def-use (consults)", "the version-matched load path (getDatabaseConfig) consults the registry entry's PreviousVersion, so a previous version left by an update that died before finalising can be cleared", 1)
	fn := c.Func("(*rest.bootstrapContext).getDatabaseConfig")
	pv := c.Field("rest.RegistryDatabase", "PreviousVersion")
	if fn == nil || pv == nil {
		r.Fail("C15-R8", "anchor getDatabaseConfig / RegistryDatabase.PreviousVersion", "-", "function or field not found")
		return
	}
	reads := false
	for _, f := range c.PrivateHelpers(fn, 1) {
		if f != fn && c.FuncName(f) == "(*rest.GatewayRegistry).rollbackDatabaseConfig" {
			continue // the rollback handles the opposite interruption (registry written, config not)
		}
		EachInstr(f, false, func(in ssa.Instruction) {
			if fa, ok := in.(*ssa.FieldAddr); ok && structField(fa.X.Type(), fa.Field) == pv {
				reads = true
			}
		})
	}
	r.Check("C15-R8", "fn=(*rest.bootstrapContext).getDatabaseConfig version-matched-load consults=PreviousVersion", c.Pos(fn.Pos()), reads, "PreviousVersion is examined on the load path", "a config whose version matches the registry is handed out without looking at the entry's PreviousVersion: when an update died between writing the config document and its finalising registry write, no path ever removes the previous version, and every other database that wants a collection the update released is rejected with 409 'update in progress'")
}
