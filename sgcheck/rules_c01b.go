package main

import (
	"fmt"
	"go/token"
	"go/types"

	"golang.org/x/tools/go/ssa"
)

// C01-R8: discipline of a channel cache's validity point (singleChannelCacheImpl.validFrom: "the cache holds every entry of this
// channel from here on"). A feed that resumes at or above the validity point is answered from the cache alone, so the point must
// never claim more than the entry list holds:
//
//	(a) it is stored only by the cache's own maintenance functions (who-may-store);
//	(b) wherever entries are dropped from the FRONT of the entry list (pruning by length or age) the validity point is raised in
//	    the same step, to one past the Sequence of an entry of that list (the last one dropped);
//	(c) an entry arriving from the mutation feed is appended only on the edge where it is not older than the validity point — an
//	    older (late) entry put into an empty cache would drag the validity point down over sequences that were never cached.
func c01R8(c *Ctx, r *Report) {
	r.Rule("C01-R8", "E3 whomay + E2 pathrules + value shapes", "the cache's validity point is stored only by the cache's maintenance functions; dropping entries from the front of the entry list raises it, in the same step, to one past the Sequence of an entry of that list; an entry from the mutation feed is cached only if it is not older than the validity point", 7)
	vf := c.Field("db.singleChannelCacheImpl", "validFrom")
	logs := c.Field("db.singleChannelCacheImpl", "logs")
	seqF := c.Field("db.LogEntry", "Sequence")
	if vf == nil || logs == nil || seqF == nil {
		r.Fail("C01-R8", "anchor singleChannelCacheImpl.validFrom/logs, LogEntry.Sequence", "-", "field not found")
		return
	}
	// (a) who may store
	allowed := map[string]string{
		"(*db.singleChannelCacheImpl).prependChanges":    "back-fill (conditions decided by C01-R6)",
		"(*db.singleChannelCacheImpl)._pruneCacheLength": "pruning by length",
		"(*db.singleChannelCacheImpl).pruneCacheAge":     "pruning by age",
		"(*db.singleChannelCacheImpl)._adjustFirstSeq":   "first entry of an empty cache",
	}
	isLogsRead := func(v ssa.Value) bool { f, _ := fieldRead(v); return f == logs }
	// value is E.Sequence + 1 with E an element of the entry list
	prunedShape := func(v ssa.Value) bool {
		x, k, ok := plusConst(v)
		if !ok || k != 1 {
			return false
		}
		f, base := fieldRead(x)
		if f != seqF {
			return false
		}
		return DependsOn(base, func(w ssa.Value) bool {
			ia, ok := w.(*ssa.IndexAddr)
			return ok && isLogsRead(ia.X)
		})
	}
	n := map[string]int{}
	vfStores := map[*ssa.Function][]ssa.Instruction{}
	for _, st := range c.storesToField(vf) {
		fn := st.Parent()
		name := c.FuncName(fn)
		if isFreshAlloc(st.Addr.(*ssa.FieldAddr).X) {
			continue
		}
		n[name]++
		construct := fmt.Sprintf("fn=%s store=singleChannelCacheImpl.validFrom #%d", name, n[name])
		why, ok := allowed[name]
		if !ok {
			r.Fail("C01-R8", construct, c.Pos(st.Pos()), "the validity point of a channel cache is stored outside the cache's maintenance functions: nothing ties the new value to what the entry list holds")
			continue
		}
		vfStores[fn] = append(vfStores[fn], st)
		r.Pass("C01-R8", construct, c.Pos(st.Pos()), "listed writer: "+why)
	}
	// (b) front drops
	drops := 0
	for _, fn := range c.SrcFuncs {
		if !c.InScope(fn) {
			continue
		}
		k := 0
		EachInstr(fn, false, func(in ssa.Instruction) {
			st, ok := in.(*ssa.Store)
			if !ok {
				return
			}
			fa, ok := st.Addr.(*ssa.FieldAddr)
			if !ok || structField(fa.X.Type(), fa.Field) != logs {
				return
			}
			sl, ok := st.Val.(*ssa.Slice)
			if !ok || sl.Low == nil || !isLogsRead(sl.X) {
				return
			}
			if k0, isK := constInt(sl.Low); isK && k0 == 0 {
				return
			}
			k++
			drops++
			construct := fmt.Sprintf("fn=%s front-drop of entry list #%d raises validity point", c.FuncName(fn), k)
			// a validity-point store of the pruned shape on every path to the drop, or right after it before any return
			var shaped []ssa.Instruction
			for _, s := range vfStores[fn] {
				if prunedShape(s.(*ssa.Store).Val) {
					shaped = append(shaped, s)
				}
			}
			before := len(shaped) > 0 && DominatedBy(fn, st, NewAvoid().AddInstr(shaped...))
			after := false
			if !before && len(shaped) > 0 {
				isRet := func(i ssa.Instruction) bool { _, ok := i.(*ssa.Return); return ok }
				after = ReachAfter(st, isRet, NewAvoid().AddInstr(shaped...)) == nil
			}
			r.Check("C01-R8", construct, c.Pos(st.Pos()), before || after, "the validity point is stored as (entry of the list).Sequence+1 on every path through the drop", "entries are dropped from the front of a channel cache's entry list on a path that does not raise the validity point to one past a dropped entry: the cache then claims to hold sequences it has discarded and feeds resuming there skip them")
		})
	}
	if drops == 0 {
		r.Fail("C01-R8", "front-drop of entry list", "-", "no pruning of the entry list found")
	}
	// (c) the feed-side insertion is guarded by "not older than the validity point"
	add := c.Func("(*db.singleChannelCacheImpl).addToCache")
	if add == nil {
		r.Fail("C01-R8", "anchor (*db.singleChannelCacheImpl).addToCache", "-", "function not found")
		return
	}
	appends := c.Calls(add, false, nameHasSuffix("._appendChange"))
	if len(appends) == 0 {
		r.Fail("C01-R8", "fn=addToCache call=_appendChange", c.Pos(add.Pos()), "no insertion found")
	}
	entryParam := func(fn *ssa.Function) ssa.Value {
		for _, p := range fn.Params {
			if pt, ok := p.Type().(*types.Pointer); ok && namedOf(pt.Elem()) == "LogEntry" {
				return p
			}
		}
		return nil
	}
	// edges on which "entry.Sequence >= validFrom" holds, in fn, for fn's own entry parameter
	notOlderEdges := func(fn *ssa.Function) []Edge {
		ep := entryParam(fn)
		return EdgesWhere(fn, func(cond ssa.Value) (bool, bool) {
			b, ok := cond.(*ssa.BinOp)
			if !ok {
				return false, false
			}
			lf, lb := fieldRead(b.X)
			rf, rb := fieldRead(b.Y)
			switch {
			case lf == seqF && lb == ep && rf == vf:
				switch b.Op {
				case token.GEQ:
					return true, true
				case token.LSS:
					return true, false
				}
			case lf == vf && rf == seqF && rb == ep:
				switch b.Op {
				case token.LEQ:
					return true, true
				case token.GTR:
					return true, false
				}
			}
			return false, false
		})
	}
	for i, a := range appends {
		construct := fmt.Sprintf("fn=addToCache call=_appendChange #%d only-if=entry-not-older-than-validity-point", i+1)
		// direct comparison in addToCache
		if es := notOlderEdges(add); len(es) > 0 && DominatedBy(add, a, NewAvoid().AddEdge(es...)) {
			r.Pass("C01-R8", construct, c.Pos(a.Pos()), "dominated by entry.Sequence >= validFrom")
			continue
		}
		// through a boolean helper whose 'false' verdict is only returned on the not-older edge
		ok := false
		for _, h := range c.Calls(add, false, func(string) bool { return true }) {
			callee := h.Common().StaticCallee()
			hv := valueOfCall(h)
			if callee == nil || hv == nil || !c.InScope(callee) || !isBoolType(hv.Type()) {
				continue
			}
			es := notOlderEdges(callee)
			if len(es) == 0 {
				continue
			}
			// every return of 'false' (or of a non-constant) in the helper is dominated by the not-older edge
			helperOK := true
			for _, d := range resultDefs(callee, 0) {
				if k, isK := d.Val.(*ssa.Const); isK && k.Value != nil && k.Value.String() == "true" {
					continue
				}
				if !DominatedBy(callee, d.At, NewAvoid().AddEdge(es...)) {
					helperOK = false
				}
			}
			if !helperOK {
				continue
			}
			_, neg := EdgesOnValue(add, func(v ssa.Value) bool { return v == hv })
			if len(neg) > 0 && DominatedBy(add, a, NewAvoid().AddEdge(neg...)) {
				ok = true
			}
		}
		r.Check("C01-R8", construct, c.Pos(a.Pos()), ok, "only on the false verdict of a helper that answers false only when entry.Sequence >= validFrom", "an entry older than the cache's validity point can be inserted: in an empty cache it lowers the validity point over sequences that were never cached, in a non-empty one it is served in addition to the query result")
	}
}

// linTerm: v = base + k (k constant, possibly 0).
func linTerm(v ssa.Value) (ssa.Value, int64) {
	if x, k, ok := plusConst(v); ok {
		b, k2 := linTerm(x)
		return b, k + k2
	}
	return v, 0
}

// C01-R9: the per-channel read path decides "cache alone" vs "cache + query". (a) The cached entries are returned without a query
// only on the edge where the validity point reported together with those very entries is not above the first sequence the request
// needs (since+1); (b) the back-fill query starts at since+1 and ends at the validity point reported by the most recent cache read,
// and the cached entries appended to the query result come from that same read.
func c01R9(c *Ctx, r *Report) {
	r.Rule("C01-R9", "E2 pathrules + def-use", "singleChannelCacheImpl.GetChanges answers from the cache alone only when the validity point returned with those entries is <= since+1; the back-fill query covers [since+1, validity point of the latest cache read] and is joined with the entries of that read", 4)
	fn := c.Func("(*db.singleChannelCacheImpl).GetChanges")
	if fn == nil {
		r.Fail("C01-R9", "anchor (*db.singleChannelCacheImpl).GetChanges", "-", "function not found")
		return
	}
	reads := c.Calls(fn, false, nameHasSuffix(".GetCachedChanges"))
	if len(reads) == 0 {
		r.Fail("C01-R9", "fn=GetChanges call=GetCachedChanges", c.Pos(fn.Pos()), "no cache read found")
		return
	}
	readOf := func(v ssa.Value, idx int) ssa.CallInstruction {
		e, ok := v.(*ssa.Extract)
		if !ok || e.Index != idx {
			return nil
		}
		for _, rd := range reads {
			if valueOfCall(rd) == e.Tuple {
				return rd
			}
		}
		return nil
	}
	isSafeSeq := func(v ssa.Value) bool { return c.IsCallTo(v, nameHasSuffix(".SafeSequence")) }
	// edges on which validFrom(read) <= since+1 is implied
	completeEdges := func(rd ssa.CallInstruction) []Edge {
		return EdgesWhere(fn, func(cond ssa.Value) (bool, bool) {
			b, ok := cond.(*ssa.BinOp)
			if !ok {
				return false, false
			}
			lx, lk := linTerm(b.X)
			rx, rk := linTerm(b.Y)
			// normalise to: vf + a  OP  since + s
			var a, s int64
			op := b.Op
			switch {
			case readOf(lx, 0) == rd && isSafeSeq(rx):
				a, s = lk, rk
			case readOf(rx, 0) == rd && isSafeSeq(lx):
				a, s = rk, lk
				switch op { // mirror
				case token.LSS:
					op = token.GTR
				case token.LEQ:
					op = token.GEQ
				case token.GTR:
					op = token.LSS
				case token.GEQ:
					op = token.LEQ
				}
			default:
				return false, false
			}
			// vf <= since + (s-a) [LEQ] ; vf < since+(s-a) i.e. vf <= since+(s-a)-1 [LSS]; negations on the false edge
			d := s - a
			switch op {
			case token.LEQ:
				return d <= 1, true
			case token.LSS:
				return d-1 <= 1, true
			case token.GTR: // false edge: vf <= since+d
				return d <= 1, false
			case token.GEQ: // false edge: vf < since+d
				return d-1 <= 1, false
			}
			return false, false
		})
	}
	n := 0
	for _, d := range resultDefs(fn, 0) {
		rd := readOf(unwrapLoadFree(d.Val), 1)
		if rd == nil {
			continue
		}
		n++
		es := completeEdges(rd)
		ok := len(es) > 0 && DominatedBy(fn, d.At, NewAvoid().AddEdge(es...))
		r.Check("C01-R9", fmt.Sprintf("fn=GetChanges cache-only answer #%d only-if=validity-point<=since+1", n), c.Pos(d.At.Pos()), ok, "dominated by validFrom(of the same cache read) <= SafeSequence()+1", "the cached entries are returned without a back-fill query although the validity point reported with them may lie above the first sequence the request needs: entries between since and the validity point are never delivered")
	}
	if n == 0 {
		r.Fail("C01-R9", "fn=GetChanges cache-only answer", c.Pos(fn.Pos()), "no return of the cached entries found")
	}
	// (b) the query
	qs := c.Calls(fn, false, nameHasSuffix(".getChangesInChannelFromQuery"))
	if len(qs) == 0 {
		r.Fail("C01-R9", "fn=GetChanges call=getChangesInChannelFromQuery", c.Pos(fn.Pos()), "no back-fill query found")
		return
	}
	for i, q := range qs {
		args := callArgs(q) // (ctx, channelName, startSeq, endSeq, limit, activeOnly)
		construct := fmt.Sprintf("fn=GetChanges back-fill query #%d range=[since+1, validity point of the latest cache read]", i+1)
		if len(args) < 4 {
			r.Fail("C01-R9", construct, c.Pos(q.Pos()), "unexpected argument list")
			continue
		}
		sx, sk := linTerm(args[2])
		startOK := isSafeSeq(sx) && sk == 1
		rd := readOf(args[3], 0)
		latest := false
		if rd != nil {
			// no other cache read between rd and the query
			var others []ssa.Instruction
			for _, o := range reads {
				if o != rd {
					others = append(others, o)
				}
			}
			isQ := func(in ssa.Instruction) bool { return in == ssa.Instruction(q) }
			latest = ReachAfter(rd, isQ, nil) != nil
			for _, o := range others {
				if ReachAfter(rd, func(in ssa.Instruction) bool { return in == o }, nil) != nil && ReachAfter(o, isQ, nil) != nil {
					latest = false
				}
			}
		}
		r.Check("C01-R9", construct, c.Pos(q.Pos()), startOK && latest, "start = SafeSequence()+1, end = validity point of the last cache read before the query", "the back-fill query does not cover exactly the span between the request's position and the validity point of the latest cache read: a gap between query result and cached entries is skipped, or entries are delivered twice")
		// the cached entries joined to the query result come from the same read
		joined := 0
		EachInstr(fn, false, func(in ssa.Instruction) {
			call, ok := in.(*ssa.Call)
			if !ok {
				return
			}
			if b, isB := call.Call.Value.(*ssa.Builtin); !isB || b.Name() != "append" || len(call.Call.Args) < 2 {
				return
			}
			if !DependsOn(call.Call.Args[0], func(v ssa.Value) bool { return v == valueOfCall(q) }) {
				return
			}
			joined++
			same := true
			found := false
			DependsOn(call.Call.Args[1], func(v ssa.Value) bool {
				if e, isE := v.(*ssa.Extract); isE && e.Index == 1 {
					for _, o := range reads {
						if valueOfCall(o) == e.Tuple {
							found = true
							if o != rd {
								same = false
							}
						}
					}
				}
				return false
			})
			r.Check("C01-R9", fmt.Sprintf("fn=GetChanges join #%d cached entries come from the read that bounded the query", joined), c.Pos(call.Pos()), found && same, "appended entries = result of the cache read whose validity point ended the query", "the entries appended to the query result come from a different cache read than the one whose validity point bounded the query: the cache may have been pruned in between and the gap is skipped")
		})
		if joined == 0 {
			// the concatenation may live in a helper: a call that receives both the query result and the cached entries of a read
			for _, hc := range c.Calls(fn, false, func(string) bool { return true }) {
				callee := hc.Common().StaticCallee()
				if callee == nil || !c.InScope(callee) || hc == q {
					continue
				}
				hasQ, found, same := false, false, true
				for _, a := range hc.Common().Args {
					if DependsOn(a, func(v ssa.Value) bool { return v == valueOfCall(q) }) {
						hasQ = true
					}
					DependsOn(a, func(v ssa.Value) bool {
						if e, isE := v.(*ssa.Extract); isE && e.Index == 1 {
							for _, o := range reads {
								if valueOfCall(o) == e.Tuple {
									found = true
									if o != rd {
										same = false
									}
								}
							}
						}
						return false
					})
				}
				if hasQ && found {
					joined++
					r.Check("C01-R9", fmt.Sprintf("fn=GetChanges join #%d cached entries come from the read that bounded the query", joined), c.Pos(hc.Pos()), same, "the helper "+c.FuncName(callee)+" receives the query result and the entries of the cache read whose validity point ended the query", "the entries handed to the joining helper come from a different cache read than the one whose validity point bounded the query")
				}
			}
		}
		if joined == 0 {
			r.Fail("C01-R9", fmt.Sprintf("fn=GetChanges join of query #%d with cached entries", i+1), c.Pos(q.Pos()), "no concatenation of query result and cached entries found")
		}
	}
}
