package main

import (
	"fmt"
	"go/token"

	"golang.org/x/tools/go/ssa"
)

func init() { registry["C08"] = checkC08 }

// changeCacheGuards is shared with C01 (R4) and C16.
var changeCacheGuardRows = []GuardRow{
	{Struct: "db.changeCache", Fields: []string{"nextSequence", "pendingLogs", "receivedSeqs", "internalStats", "logsDisabled"}, Lock: "changeCache.lock"},
	{Struct: "db.changeCache", Fields: []string{"initialSequence"}, Lock: "changeCache.lock", ReadsExempt: true,
		ReadsExemptReason: "start-up value; the feed callbacks read it without the lock on today's tree and it only filters mutations older than start-up, so unlocked reads do not bear on buffering order (writes stay guarded)"},
}

// changeCache.Init acquires the lock and returns with it held; Start releases it (documented in the source as the fix
// for the DCP start-up race, SG #3558). The hand-off is modelled as an entry lockset for Start and verified on Init's side.
var changeCacheEntryHeld = map[string]lockset{"(*db.changeCache).Start": {"changeCache.lock": modeW}}

var changeCacheGuardExempt = []GuardExempt{
	{Func: "(*db.changeCache).Init", Reason: "initialisation before the cache is registered with the feed; no other goroutine holds a reference"},
}

func checkC08(c *Ctx, r *Report) {
	r.Explain = "Decides structural necessary conditions of sequence buffering: (R1) every access to the change cache's buffering state happens under its lock (lockset analysis over all functions of package db, entry locksets = meet over call sites); (R2) the contiguous high-water mark is stored only by the three buffering helpers, only to one past a sequence carried by the entry being added, or to the oldest pending sequence immediately after recording exactly the jumped range as skipped; (R3) a late arrival is added to the channel caches before it is removed from the skipped set; (R4) entries are buffered or cached only after the duplicate checks; (R5) the low sequence stamped on every emitted entry is derived from the oldest skipped sequence minus one, and the per-channel feeds resume from SafeSequence.; (R6) entries leave the pending heap only through _popPendingLog (which truncates unused ranges at the next buffered document); (R7) an unused-sequence range keeps its two bounds, positionally, from the parsed key to the pending entry and to the skipped-set removal, is buffered only when it starts at or above the high-water mark and is removed from the skipped set only when it ends below it. Not decided: exactly-once delivery over all arrival permutations, equality of the skipped set with the missing set, thresholds and timing."
	la := newLockAnalysis(c, []string{"changeCache.lock"}, "db")
	la.EntryHeld = changeCacheEntryHeld
	la.Solve()

	r.Rule("C08-R1", "E1 guardedby", "changeCache{nextSequence,pendingLogs,receivedSeqs,initialSequence,internalStats,logsDisabled} are read under at least the read lock and written under the exclusive lock", 25)
	runGuardRule(c, r, "C08-R1", la, changeCacheGuardRows, changeCacheGuardExempt)
	checkInitHandsOverLock(c, r, "C08-R1", la)

	c08R2(c, r)
	c08R3R4(c, r)
	c08R5(c, r)
	c08R6(c, r)
	c08R7(c, r)
}

func c08R2(c *Ctx, r *Report) {
	r.Rule("C08-R2", "E3 whomay + E2 pathrules", "nextSequence is stored only by _addToCache/_addPendingLogs/_setInitialSequence; each stored value is X.Sequence+1 or X.EndSequence+1 of the entry being added (guarded by entry.Sequence >= nextSequence), initial+1, or the oldest pending Sequence preceded by PushSkipped(old nextSequence, that Sequence-1)", 5)
	fld := c.Field("db.changeCache", "nextSequence")
	if fld == nil {
		r.Fail("C08-R2", "anchor db.changeCache.nextSequence", "-", "field not found")
		return
	}
	seqF := c.Field("db.LogEntry", "Sequence")
	endF := c.Field("db.LogEntry", "EndSequence")
	if seqF == nil || endF == nil {
		r.Fail("C08-R2", "anchor db.LogEntry.Sequence/EndSequence", "-", "field not found")
		return
	}
	allowed := map[string]bool{"(*db.changeCache)._addToCache": true, "(*db.changeCache)._addPendingLogs": true, "(*db.changeCache)._setInitialSequence": true}
	stores := c.storesToField(fld)
	r.Examined("C08-R2", len(stores))
	n := map[string]int{}
	for _, st := range stores {
		fn := st.Parent()
		name := c.FuncName(fn)
		if isFreshAlloc(st.Addr.(*ssa.FieldAddr).X) {
			continue
		}
		n[name]++
		construct := fmt.Sprintf("fn=%s store=changeCache.nextSequence #%d", name, n[name])
		pos := c.Pos(st.Pos())
		if !allowed[name] {
			r.Fail("C08-R2", construct, pos, "store to the contiguous high-water mark outside the three buffering helpers")
			continue
		}
		val := st.Val
		// shape 1: X.Sequence+1 / X.EndSequence+1
		if x, k, ok := plusConst(val); ok && k == 1 {
			if f, base := fieldRead(x); f == seqF || f == endF {
				what := "entry." + f.Name() + "+1"
				// In _addToCache the Sequence+1 store must be guarded by entry.Sequence >= nextSequence.
				if f == seqF && name == "(*db.changeCache)._addToCache" {
					ok := c08GuardedByGEQ(fn, st, seqF, base, fld)
					r.Check("C08-R2", construct, pos, ok, what+" under entry.Sequence >= nextSequence", "store of entry.Sequence+1 is not control-dependent on entry.Sequence >= nextSequence: the mark could move backwards")
					continue
				}
				if f == endF && name == "(*db.changeCache)._addPendingLogs" {
					// must be guarded by EndSequence >= nextSequence
					ok := c08GuardedByGEQ(fn, st, endF, base, fld)
					r.Check("C08-R2", construct, pos, ok, what+" under entry.EndSequence >= nextSequence", "store of EndSequence+1 for an ignored pending range is not guarded by EndSequence >= nextSequence")
					continue
				}
				r.Pass("C08-R2", construct, pos, what)
				continue
			}
			if p, ok := x.(*ssa.Parameter); ok && name == "(*db.changeCache)._setInitialSequence" {
				_ = p
				r.Pass("C08-R2", construct, pos, "initialSequence+1")
				continue
			}
		}
		// shape 2: Y.Sequence preceded by PushSkipped(load nextSequence, Y.Sequence-1)
		if f, base := fieldRead(val); f == seqF {
			ok, why := c08SkipRecorded(c, fn, st, base, seqF, fld)
			r.Check("C08-R2", construct, pos, ok, "jump to oldest pending sequence after PushSkipped(nextSequence, oldest.Sequence-1)", why)
			continue
		}
		r.Fail("C08-R2", construct, pos, "stored value has none of the admitted shapes (entry.Sequence+1, entry.EndSequence+1, initial+1, oldest.Sequence after PushSkipped): "+val.String())
	}
}

// c08GuardedByGEQ: store is dominated by the edge on which base.f >= c.nextSequence holds.
func c08GuardedByGEQ(fn *ssa.Function, st *ssa.Store, f interface{ Name() string }, base ssa.Value, next interface{ Name() string }) bool {
	edges := EdgesWhere(fn, func(cond ssa.Value) (bool, bool) {
		b, ok := cond.(*ssa.BinOp)
		if !ok {
			return false, false
		}
		lf, lb := fieldRead(b.X)
		rf, _ := fieldRead(b.Y)
		if lf == nil || rf == nil {
			return false, false
		}
		// entry.f OP c.nextSequence
		if lf.Name() == f.Name() && lb == base && rf.Name() == next.Name() {
			switch b.Op {
			case token.GEQ:
				return true, true
			case token.LSS:
				return true, false
			}
		}
		// c.nextSequence OP entry.f
		rf2, rb2 := fieldRead(b.Y)
		if lf.Name() == next.Name() && rf2 != nil && rf2.Name() == f.Name() && rb2 == base {
			switch b.Op {
			case token.LEQ:
				return true, true
			case token.GTR:
				return true, false
			}
		}
		return false, false
	})
	if len(edges) == 0 {
		return false
	}
	return DominatedBy(fn, st, NewAvoid().AddEdge(edges...))
}

// c08SkipRecorded: every path to the store passes a PushSkipped(load(c.nextSequence), base.Sequence - 1) call with
// no other store to nextSequence in between.
func c08SkipRecorded(c *Ctx, fn *ssa.Function, st *ssa.Store, base ssa.Value, seqF, next interface{ Name() string }) (bool, string) {
	var good []ssa.Instruction
	for _, call := range c.Calls(fn, false, nameIs("(*db.changeCache).PushSkipped")) {
		args := callArgs(call)
		if len(args) < 3 {
			continue
		}
		// args: ctx, startSeq, endSeq
		sf, _ := fieldRead(args[1])
		if sf == nil || sf.Name() != next.Name() {
			continue
		}
		x, k, ok := plusConst(args[2])
		if !ok || k != -1 {
			continue
		}
		ef, eb := fieldRead(x)
		if ef == nil || ef.Name() != seqF.Name() || eb != base {
			continue
		}
		good = append(good, call)
	}
	if len(good) == 0 {
		return false, "no PushSkipped(nextSequence, oldest.Sequence-1) call found for this jump: the jumped range would not be recorded as skipped"
	}
	if !DominatedBy(fn, st, NewAvoid().AddInstr(good...)) {
		return false, "a path reaches the jump of nextSequence without recording the jumped range via PushSkipped(nextSequence, oldest.Sequence-1)"
	}
	// no intervening store to nextSequence between the PushSkipped and this store
	for _, g := range good {
		hit := ReachAfter(g, func(in ssa.Instruction) bool {
			if in == ssa.Instruction(st) {
				return false
			}
			s2, ok := in.(*ssa.Store)
			if !ok {
				return false
			}
			fa, ok := s2.Addr.(*ssa.FieldAddr)
			return ok && structField(fa.X.Type(), fa.Field).Name() == next.Name() && s2 != st
		}, NewAvoid().AddInstr(st))
		if hit != nil {
			return false, "nextSequence is modified between PushSkipped and the jump"
		}
	}
	return true, ""
}

func c08R3R4(c *Ctx, r *Report) {
	r.Rule("C08-R3", "E2 pathrules", "in processEntry every RemoveSkipped(sequence) is dominated by _addToCache(change): a late arrival is visible in the channel caches before the low sequence may advance", 1)
	r.Rule("C08-R4", "E2 pathrules", "in processEntry every _addToCache / push onto pendingLogs is dominated by the insertion into receivedSeqs, itself dominated by the miss edge of the receivedSeqs membership test; a below-nextSequence duplicate is ignored only on the !WasSkipped edge", 4)
	fn := c.Func("(*db.changeCache).processEntry")
	if fn == nil {
		r.Fail("C08-R3", "anchor (*db.changeCache).processEntry", "-", "function not found")
		r.Fail("C08-R4", "anchor (*db.changeCache).processEntry", "-", "function not found")
		return
	}
	adds := c.Calls(fn, false, nameIs("(*db.changeCache)._addToCache"))
	var addIns []ssa.Instruction
	for _, a := range adds {
		// argument must be the function's `change` parameter
		args := callArgs(a)
		if len(args) >= 2 && isParam(args[1], 2) {
			addIns = append(addIns, a)
		}
	}
	rem := c.Calls(fn, false, nameIs("(*db.changeCache).RemoveSkipped"))
	for i, rm := range rem {
		ok := len(addIns) > 0 && DominatedBy(fn, rm, NewAvoid().AddInstr(addIns...))
		r.Check("C08-R3", fmt.Sprintf("fn=(*db.changeCache).processEntry call=RemoveSkipped #%d after=_addToCache(change)", i+1), c.Pos(rm.Pos()), ok,
			"dominated by _addToCache(change)", "RemoveSkipped is reachable without first adding the late entry to the cache: a reader could observe the low sequence advanced past an entry that is not yet cached")
	}

	// R4 — the duplicate check may live in processEntry itself or in a boolean helper it calls (a helper that reports 'duplicate';
	// the rule then checks the helper's verdicts and that processEntry honours them)
	recvF := c.Field("db.changeCache", "receivedSeqs")
	find := func(f *ssa.Function) (ins []ssa.Instruction, lks []*ssa.Lookup) {
		EachInstr(f, false, func(in ssa.Instruction) {
			switch x := in.(type) {
			case *ssa.MapUpdate:
				if fl, _ := fieldRead(x.Map); fl != nil && fl == recvF {
					ins = append(ins, x)
				}
			case *ssa.Lookup:
				if fl, _ := fieldRead(x.X); fl != nil && fl == recvF && x.CommaOk {
					lks = append(lks, x)
				}
			}
		})
		return
	}
	host := fn
	inserts, lookups := find(fn)
	var notDup []Edge // edges of processEntry on which the helper said 'not a duplicate'
	if len(inserts) == 0 && len(lookups) == 0 {
		EachInstr(fn, false, func(in ssa.Instruction) {
			call, ok := in.(*ssa.Call)
			if !ok || host != fn {
				return
			}
			cal := call.Call.StaticCallee()
			if cal == nil || cal.Parent() != nil || !c.InScope(cal) || cal.Signature.Results().Len() != 1 || !isBoolType(cal.Signature.Results().At(0).Type()) {
				return
			}
			if i2, l2 := find(cal); len(i2) > 0 && len(l2) > 0 {
				host, inserts, lookups = cal, i2, l2
				_, neg := EdgesOnValue(fn, func(v ssa.Value) bool { return v == ssa.Value(call) })
				notDup = neg
			}
		})
	}
	if len(inserts) == 0 || len(lookups) == 0 {
		r.Fail("C08-R4", "fn=(*db.changeCache).processEntry receivedSeqs membership+insert", c.Pos(fn.Pos()), "the pending-duplicate check (lookup + insert on receivedSeqs) was not found")
		return
	}
	// miss edges of lookup's ok (in the host of the check)
	missEdges := EdgesWhere(host, func(cond ssa.Value) (bool, bool) {
		v, pos := BoolTest(cond)
		if e, ok := v.(*ssa.Extract); ok && e.Index == 1 {
			for _, l := range lookups {
				if e.Tuple == ssa.Value(l) {
					return true, !pos // fact "not found" holds on true edge iff cond is negated
				}
			}
		}
		return false, false
	})
	for i, ins := range inserts {
		ok := len(missEdges) > 0 && DominatedBy(host, ins, NewAvoid().AddEdge(missEdges...))
		r.Check("C08-R4", fmt.Sprintf("fn=(*db.changeCache).processEntry insert=receivedSeqs #%d on=miss-edge", i+1), c.Pos(ins.Pos()), ok, "insert only when not already received", "insertion into receivedSeqs is not restricted to the not-found edge of the membership test")
	}
	isConstBool := func(v ssa.Value, want bool) bool {
		k, ok := unwrapLoadFree(v).(*ssa.Const)
		return ok && k.Value != nil && k.Value.String() == fmt.Sprint(want)
	}
	var sinks []ssa.CallInstruction
	sinks = append(sinks, adds...)
	pend := c.Field("db.changeCache", "pendingLogs")
	for _, hp := range c.Calls(fn, false, nameIs("container/heap.Push")) {
		if len(hp.Common().Args) > 0 {
			if mi, ok := hp.Common().Args[0].(*ssa.MakeInterface); ok {
				if fa, ok := mi.X.(*ssa.FieldAddr); ok && structField(fa.X.Type(), fa.Field) == pend {
					sinks = append(sinks, hp)
				}
			}
		}
	}
	for i, s := range sinks {
		var ok bool
		if host == fn {
			ok = DominatedBy(fn, s, NewAvoid().AddInstr(inserts...)) && DominatedBy(fn, s, NewAvoid().AddEdge(missEdges...))
		} else {
			// honoured verdict: the sink is reached only on the helper's 'not a duplicate' edge, and the helper says so only after
			// the miss edge and the insertion
			ok = len(notDup) > 0 && DominatedBy(fn, s, NewAvoid().AddEdge(notDup...))
			for _, ret := range Returns(host) {
				if isConstBool(ret.Results[0], true) {
					continue
				}
				if !(DominatedBy(host, ret, NewAvoid().AddInstr(inserts...)) && DominatedBy(host, ret, NewAvoid().AddEdge(missEdges...))) {
					ok = false
				}
			}
		}
		r.Check("C08-R4", fmt.Sprintf("fn=(*db.changeCache).processEntry sink=%s #%d after=dup-check", CalleeIdent(s), i+1), c.Pos(s.Pos()), ok,
			"dominated by receivedSeqs miss-edge and insert", "an entry can be cached or buffered without passing the duplicate check: a redelivered sequence would be forwarded twice")
	}
	// WasSkipped edge
	ws := c.Calls(host, false, nameIs("(*db.changeCache).WasSkipped"))
	if len(ws) == 0 {
		r.Fail("C08-R4", "fn=(*db.changeCache).processEntry call=WasSkipped", c.Pos(fn.Pos()), "below-nextSequence duplicates are no longer distinguished from late arrivals (WasSkipped check missing)")
	}
	for i, w := range ws {
		wv := valueOfCall(w)
		pos, neg := EdgesOnValue(host, func(v ssa.Value) bool { return v == wv })
		construct := fmt.Sprintf("fn=(*db.changeCache).processEntry call=WasSkipped #%d", i+1)
		if len(pos) == 0 {
			r.Fail("C08-R4", construct, c.Pos(w.Pos()), "result of WasSkipped does not decide a branch")
			continue
		}
		// "goes on to be processed": reaches a sink (check in processEntry) or reaches a 'not a duplicate' verdict (check in a helper)
		goesOn := func(in ssa.Instruction) bool {
			if host == fn {
				for _, s := range sinks {
					if in == ssa.Instruction(s) {
						return true
					}
				}
				return false
			}
			ret, ok := in.(*ssa.Return)
			return ok && !isConstBool(ret.Results[0], true)
		}
		// skipped (true) edge must be able to go on; not-skipped (false) edge must not.
		okPos := ReachFrom(pos[0].To(), 0, goesOn, nil) != nil
		okNeg := ReachFrom(neg[0].To(), 0, goesOn, nil) == nil
		r.Check("C08-R4", construct, c.Pos(w.Pos()), okPos && okNeg, "skipped ⇒ processed as late arrival; not skipped ⇒ ignored as duplicate",
			fmt.Sprintf("late-arrival/duplicate split is wrong: skipped-edge reaches cache=%v, not-skipped-edge avoids cache=%v", okPos, okNeg))
	}
}

// C08-R6: entries leave the pending heap only through _popPendingLog, which truncates an unused-sequence range at the next pending
// document; a bare pop of an overlapping range would let the contiguous high-water mark jump over that document, which is then
// discarded as already cached — delivered zero times and never recorded as skipped.
func c08R6(c *Ctx, r *Report) {
	r.Rule("C08-R6", "E3 whomay", "changeCache.pendingLogs is popped only inside _popPendingLog; pushes happen only in processEntry and the unused-range handlers", 2)
	pend := c.Field("db.changeCache", "pendingLogs")
	if pend == nil {
		r.Fail("C08-R6", "anchor db.changeCache.pendingLogs", "-", "field not found")
		return
	}
	allowedPop := map[string]bool{"(*db.changeCache)._popPendingLog": true}
	allowedPush := map[string]bool{"(*db.changeCache).processEntry": true, "(*db.changeCache).processUnusedRange": true, "(*db.changeCache)._pushRangeToPending": true, "(*db.changeCache).processUnusedSequenceRange": true, "(*db.changeCache).releaseUnusedSequenceRange": true}
	// helpers extracted from a listed owner (called by nothing else) count as that owner
	for _, set := range []map[string]bool{allowedPop, allowedPush} {
		var names []string
		for k := range set {
			names = append(names, k)
		}
		for _, k := range names {
			if f := c.Func(k); f != nil {
				for _, h := range c.PrivateHelpers(f, 2) {
					set[c.FuncName(h)] = true
				}
			}
		}
	}
	n := 0
	for _, fn := range c.ScopeFuncs() {
		for _, call := range c.Calls(fn, false, nameIs("container/heap.Pop", "container/heap.Push", "container/heap.Remove")) {
			a := call.Common().Args
			if len(a) == 0 {
				continue
			}
			mi, ok := a[0].(*ssa.MakeInterface)
			if !ok {
				continue
			}
			fa, ok := mi.X.(*ssa.FieldAddr)
			if !ok || structField(fa.X.Type(), fa.Field) != pend {
				continue
			}
			n++
			top := c.FuncName(TopLevel(fn))
			op := CalleeIdent(call)
			okSite := (op == "Pop" && allowedPop[top]) || (op == "Push" && allowedPush[top])
			why := "an entry is taken off the pending heap outside _popPendingLog, i.e. without truncating an unused range at the next pending document: the high-water mark can jump over a buffered document, which is then dropped as already cached"
			if op == "Push" {
				why = "entries are pushed onto the pending heap from an unlisted function (the duplicate bookkeeping in processEntry / the range handlers would be bypassed)"
			}
			r.Check("C08-R6", fmt.Sprintf("fn=%s pendingLogs-%s", top, op), c.Pos(call.Pos()), okSite, "listed owner of the pending heap", why)
		}
	}
	if n < 2 {
		r.Fail("C08-R6", "pending heap operations", "-", fmt.Sprintf("only %d heap operations on pendingLogs found", n))
	}
}

func c08R5(c *Ctx, r *Report) {
	r.Rule("C08-R5", "E2 def-use", "every entry sent by the multi-channel changes feed is stamped with LowSeq derived from getOldestSkippedSequence()-1 (or 0 when nothing is skipped); channel caches resume from SafeSequence()", 2)
	top := c.Func("(*db.DatabaseCollectionWithUser).SimpleMultiChangesFeed")
	if top == nil {
		r.Fail("C08-R5", "anchor (*db.DatabaseCollectionWithUser).SimpleMultiChangesFeed", "-", "function not found")
		return
	}
	lowF := c.Field("db.SequenceID", "LowSeq")
	seqFld := c.Field("db.ChangeEntry", "Seq")
	found := 0
	for _, fn := range append([]*ssa.Function{top}, top.AnonFuncs...) {
		EachInstr(fn, false, func(in ssa.Instruction) {
			st, ok := in.(*ssa.Store)
			if !ok {
				return
			}
			fa, ok := st.Addr.(*ssa.FieldAddr)
			if !ok || structField(fa.X.Type(), fa.Field) != lowF {
				return
			}
			// only stores into <entry>.Seq.LowSeq
			inner, ok := fa.X.(*ssa.FieldAddr)
			if !ok || structField(inner.X.Type(), inner.Field) != seqFld {
				return
			}
			found++
			// value must derive from getOldestSkippedSequence result minus one, or const 0
			okv := valueOnlyFrom(st.Val, func(v ssa.Value) (bool, bool) {
				if k, ok := constInt(v); ok && k == 0 {
					return true, true
				}
				if x, k, ok := plusConst(v); ok && k == -1 {
					if c.IsCallTo(x, nameIs("(*db.changeCache).getOldestSkippedSequence")) {
						return true, true
					}
					return true, false
				}
				return false, false
			})
			r.Check("C08-R5", fmt.Sprintf("fn=%s store=ChangeEntry.Seq.LowSeq #%d", c.FuncName(fn), found), c.Pos(st.Pos()), okv,
				"value ∈ {getOldestSkippedSequence()-1, 0}", "LowSeq stamped on an emitted entry is not (oldest skipped sequence - 1): a client resuming from it could miss a late arrival")
			// the send of the entry must come after this store: the store must dominate the channel send of the same entry
		})
	}
	if found == 0 {
		r.Fail("C08-R5", "fn=SimpleMultiChangesFeed store=ChangeEntry.Seq.LowSeq", c.Pos(top.Pos()), "emitted entries are no longer stamped with the low sequence")
	}
	// the request's own low sequence: every store to options.Since.LowSeq writes 0 or the value the request arrived with
	sinceF := c.Field("db.ChangesOptions", "Since")
	nreq := 0
	for _, fn := range append([]*ssa.Function{top}, top.AnonFuncs...) {
		EachInstr(fn, false, func(in ssa.Instruction) {
			st, ok := in.(*ssa.Store)
			if !ok {
				return
			}
			fa, ok := st.Addr.(*ssa.FieldAddr)
			if !ok || structField(fa.X.Type(), fa.Field) != lowF {
				return
			}
			inner, ok := fa.X.(*ssa.FieldAddr)
			if !ok || structField(inner.X.Type(), inner.Field) != sinceF {
				return
			}
			// only the feed's own options (the parameter cell), not per-channel copies
			root := rootAddr(inner.X)
			if al, isAlloc := root.(*ssa.Alloc); !isAlloc || al.Parent() != top || namedOf(al.Type()) != "ChangesOptions" {
				return
			}
			nreq++
			if k, isK := constInt(st.Val); isK && k == 0 {
				// clearing is allowed only where the request's low sequence equals the current low sequence (nothing new can be missed)
				eq := EdgesWhere(fn, func(cond ssa.Value) (bool, bool) {
					b, ok := cond.(*ssa.BinOp)
					if !ok || (b.Op != token.EQL && b.Op != token.NEQ) {
						return false, false
					}
					isReq := func(v ssa.Value) bool {
						f, base := fieldRead(v)
						if f != lowF {
							return false
						}
						in2, ok := base.(*ssa.FieldAddr)
						return ok && structField(in2.X.Type(), in2.Field) == sinceF && rootAddr(in2.X) == root
					}
					if (isReq(b.X) && !isNilOrZero(b.Y)) || (isReq(b.Y) && !isNilOrZero(b.X)) {
						return true, b.Op == token.EQL
					}
					return false, false
				})
				okz := len(eq) > 0 && DominatedBy(fn, st, NewAvoid().AddEdge(eq...))
				r.Check("C08-R5", fmt.Sprintf("fn=%s store=options.Since.LowSeq #%d", c.FuncName(fn), nreq), c.Pos(st.Pos()), okz,
					"cleared only when equal to the current low sequence", "the request's low sequence is cleared unconditionally: a waiting (longpoll) request would resume past a still-missing sequence")
				return
			}
			ok2 := valueOnlyFrom(st.Val, func(v ssa.Value) (bool, bool) {
				if _, ok := constInt(v); ok {
					return true, false
				}
				if f, base := fieldRead(v); f == lowF {
					if in2, ok := base.(*ssa.FieldAddr); ok && structField(in2.X.Type(), in2.Field) == sinceF && rootAddr(in2.X) == root {
						return true, true
					}
					return true, false
				}
				if _, isPhi := v.(*ssa.Phi); isPhi {
					return false, false
				}
				if u, ok := v.(*ssa.UnOp); ok && u.Op == token.MUL {
					return false, false
				}
				return true, false
			})
			r.Check("C08-R5", fmt.Sprintf("fn=%s store=options.Since.LowSeq #%d", c.FuncName(fn), nreq), c.Pos(st.Pos()), ok2,
				"value ∈ {0, the low sequence the request arrived with}", "the request's low sequence is overwritten with a value that is neither 0 nor the low sequence it arrived with: a waiting (longpoll) request would resume past a still-missing sequence")
		})
	}
	if _, worker := c01Worker(c); worker != nil {
		c01RestoreBeforeWait(c, r, worker, "C08-R5")
	}
	// SafeSequence used by channel cache reads
	for _, name := range []string{"(*db.singleChannelCacheImpl).GetChanges", "(*db.singleChannelCacheImpl).GetCachedChanges"} {
		fn := c.Func(name)
		if fn == nil {
			continue
		}
		calls := c.Calls(fn, false, nameIs("(db.SequenceID).SafeSequence"))
		r.Check("C08-R5", "fn="+name+" resumes-from=SafeSequence", c.Pos(fn.Pos()), len(calls) > 0, "start sequence taken from SafeSequence()", "channel cache read no longer starts from options.Since.SafeSequence(): entries between the low sequence and Seq would be skipped on resume")
	}
}

// valueOnlyFrom: every leaf reaching v through phis and local-cell loads satisfies leaf (returns (isLeaf, ok)).
func valueOnlyFrom(v ssa.Value, leaf func(ssa.Value) (bool, bool)) bool {
	seen := map[ssa.Value]bool{}
	var walk func(v ssa.Value, d int) bool
	walk = func(v ssa.Value, d int) bool {
		if d > 30 {
			return false
		}
		if seen[v] {
			return true
		}
		seen[v] = true
		if isLeaf, ok := leaf(v); isLeaf {
			return ok
		}
		switch x := v.(type) {
		case *ssa.Phi:
			for _, e := range x.Edges {
				if !walk(e, d+1) {
					return false
				}
			}
			return true
		case *ssa.UnOp:
			if x.Op == token.MUL {
				sts := storesInto(x.X)
				if len(sts) == 0 {
					return false
				}
				for _, s := range sts {
					if !walk(s.Val, d+1) {
						return false
					}
				}
				return true
			}
		case *ssa.ChangeType:
			return walk(x.X, d+1)
		case *ssa.Convert:
			return walk(x.X, d+1)
		}
		return false
	}
	return walk(v, 0)
}

// checkInitHandsOverLock verifies the Init side of the Init→Start lock hand-off: every nil-error return of Init
// holds the exclusive lock (otherwise Start's deferred Unlock and the entry assumption would be wrong).
func checkInitHandsOverLock(c *Ctx, r *Report, rule string, la *lockAnalysis) {
	fn := c.Func("(*db.changeCache).Init")
	if fn == nil {
		r.Fail(rule, "anchor (*db.changeCache).Init", "-", "function not found")
		return
	}
	ok, n := true, 0
	for _, ret := range Returns(fn) {
		if len(ret.Results) == 1 && isNilConst(ret.Results[0]) {
			n++
			if la.at[ret]["changeCache.lock"] != modeW {
				ok = false
			}
		}
	}
	r.Check(rule, "fn=(*db.changeCache).Init success-returns hold lock=changeCache.lock (hand-off to Start)", c.Pos(fn.Pos()), ok && n > 0,
		fmt.Sprintf("%d success return(s), lock held at each", n), "Init can return successfully without holding the cache lock: feed callbacks could run before Start sets the initial sequence")
}

func isNilOrZero(v ssa.Value) bool {
	if isNilConst(v) {
		return true
	}
	k, ok := constInt(v)
	return ok && k == 0
}
