package main

import (
	"fmt"

	"golang.org/x/tools/go/ssa"
)

// C17-R8: sibling agreement with the pull side (R4). AddAlreadyKnownSeq registers a sequence as expected AND processed in one step;
// the sequences of the same batch that are being sent are registered as expected by a separate call. Each call takes the
// checkpointer's lock on its own, so a checkpoint can be computed between them. If the already-known sequences go first, the list
// momentarily contains only sequences that are complete — e.g. known 5 and 7 while 6 is in flight — and the checkpoint persists 7;
// a restart then never pushes 6. The pull handler registers the expected sequences first; the push handler must do the same.
func c17R8(c *Ctx, r *Report) {
	r.Rule("C17-R8", "E2 pathrules (sibling agreement with R4)", "in the push changes-response handler the already-known sequences of a batch are reported only after the batch's sent (expected) sequences were registered, as on the pull side", 1)
	fn := c.Func("(*db.BlipSyncContext).handleChangesResponse")
	if fn == nil {
		r.Fail("C17-R8", "anchor (*db.BlipSyncContext).handleChangesResponse", "-", "function not found")
		return
	}
	var expCalls, knownCalls []ssa.Instruction
	EachInstr(fn, false, func(in ssa.Instruction) {
		if call, ok := in.(ssa.CallInstruction); ok {
			switch {
			case c.invokesFieldCallback(call, "sgr2PushAddExpectedSeqsCallback", 0):
				expCalls = append(expCalls, call)
			case c.invokesFieldCallback(call, "sgr2PushAlreadyKnownSeqsCallback", 0):
				knownCalls = append(knownCalls, call)
			}
		}
	})
	if len(knownCalls) == 0 || len(expCalls) == 0 {
		r.Fail("C17-R8", "fn=(*db.BlipSyncContext).handleChangesResponse checkpoint-callbacks", c.Pos(fn.Pos()), "expected / already-known callbacks not invoked")
		return
	}
	// "nothing to register" edges: the expected callback is nil, or the guard directly around the registration is false
	skip := EdgesWhere(fn, func(cond ssa.Value) (bool, bool) {
		if x, trueMeansNil, ok := NilTest(cond); ok {
			if f, _ := fieldRead(x); f != nil && f.Name() == "sgr2PushAddExpectedSeqsCallback" {
				return true, trueMeansNil
			}
		}
		return false, false
	})
	for _, i := range Ifs(fn) {
		// an If whose true edge leads to the registration and nowhere else before the join: its false edge means nothing was sent
		tb := i.Block().Succs[0]
		guards := false
		for _, e := range expCalls {
			if tb.Dominates(e.Block()) {
				guards = true
			}
		}
		if guards {
			if _, _, isNil := NilTest(i.Cond); !isNil {
				skip = append(skip, Edge{i.Block(), 1})
			}
		}
	}
	for i, k := range knownCalls {
		ok := DominatedBy(fn, k, NewAvoid().AddInstr(expCalls...).AddEdge(skip...))
		r.Check("C17-R8", fmt.Sprintf("fn=(*db.BlipSyncContext).handleChangesResponse already-known #%d after=expected-registered", i+1), c.Pos(k.Pos()), ok,
			"already-known sequences reported after the batch's sent sequences", "the already-known sequences of a pushed batch are reported before the batch's sent sequences are registered as expected (two separate critical sections of the checkpointer): a checkpoint computed in between sees only completed sequences — known 5 and 7 while 6 is still in flight — and persists 7; after a restart 6 is never pushed. The pull handler registers the expected sequences first")
	}
}
