package main

import (
	"fmt"
	"os"
	"go/token"
	"go/types"

	"golang.org/x/tools/go/ssa"
)

func init() { registry["C13"] = checkC13 }

func checkC13(c *Ctx, r *Report) {
	r.Explain = "Decides structural necessary conditions of 'a pulling client's copy matches the user's current access': (R1) a revocation entry is sent only for a document the user can no longer see (UserHasDocAccess false edge) and, when the entry is newer than the client's position, only if the document was in the channel while the user had it (wasDocInChannelPriorToRevocation true edge); every failure of those checks ends the feed with an error entry rather than skipping silently; (R2) revocation feeds are built exactly for the channels RevokedCollectionChannels reports, only when revocations were requested for a user and not in active-only mode, and that computation looks up lost roles through the accessor that still returns deleted roles; (R3) the deleted / revoked / removed indicators reach the replication client one-to-one and revocation entries are marked revoked; (R4) paging of a revocation feed counts only entries actually sent, and resumes after the last entry examined; (R5) grant history (channel and role history on principals) is written only by the rebuild functions. (R7, shared with C02-R5) a long-lived replication connection that reloads its user also re-subscribes to the user's current roles, so that a role granted while the connection is open is watched and its later loss of a channel produces revocations. 'A revoked document can no longer be fetched' is C02.; (R6) every grant-history scan of RevokedCollectionChannels applies both disjuncts of the function's own resume test. Not decided: completeness of revocations and back-fill over arbitrary grant histories, triggered-by resumption arithmetic, interval bookkeeping."
	c13R1R4(c, r)
	c13R2(c, r)
	c13R3(c, r)
	c13R5(c, r)
	c13R6(c, r)
	r.Rule("C13-R7", "E2 pathrules (shared with C02-R5)", "a replication connection that reloads its user refreshes the keys it watches (the user's current roles) on every success path, so a later change of a newly granted role is noticed and its revocations are computed", 1)
	c02RefreshKeysFor(c, r, "C13-R7")
}

func c13R1R4(c *Ctx, r *Report) {
	r.Rule("C13-R1", "E2 pathrules", "a revocation entry is sent only on UserHasDocAccess==false and (entry not newer than since, or wasDocInChannelPriorToRevocation==true); check failures terminate the feed with an error entry", 3)
	r.Rule("C13-R4", "E2 def-use", "revocation feed paging: the request limit is consumed only by entries actually sent; the next page starts after the last entry examined", 2)
	top := c.Func("(*db.DatabaseCollectionWithUser).buildRevokedFeed")
	if top == nil {
		r.Fail("C13-R1", "anchor buildRevokedFeed", "-", "function not found")
		return
	}
	var lit *ssa.Function
	for _, l := range top.AnonFuncs {
		if len(c.Calls(l, false, nameIs("db.UserHasDocAccess"))) > 0 {
			lit = l
		}
	}
	if lit == nil {
		r.Fail("C13-R1", "fn=buildRevokedFeed worker", c.Pos(top.Pos()), "worker literal with the access check not found")
		return
	}
	mk := c.Calls(lit, false, nameIs("db.makeRevocationChangeEntry"))
	if len(mk) == 0 {
		r.Fail("C13-R1", "fn=buildRevokedFeed$worker makeRevocationChangeEntry", c.Pos(lit.Pos()), "revocation entries are no longer produced")
		return
	}
	// UserHasDocAccess false edges
	var noAccess []Edge
	for _, call := range c.Calls(lit, false, nameIs("db.UserHasDocAccess")) {
		for _, e := range resultValues(call.(*ssa.Call), 0) {
			_, neg := EdgesOnValue(lit, func(v ssa.Value) bool { return v == e })
			noAccess = append(noAccess, neg...)
		}
	}
	var needs []Edge
	for _, call := range c.Calls(lit, false, nameIs("(*db.DatabaseCollectionWithUser).wasDocInChannelPriorToRevocation")) {
		for _, e := range resultValues(call.(*ssa.Call), 0) {
			pos, _ := EdgesOnValue(lit, func(v ssa.Value) bool { return v == e })
			needs = append(needs, pos...)
		}
	}
	seqF := c.Field("db.LogEntry", "Sequence")
	notNewer := EdgesWhere(lit, func(cond ssa.Value) (bool, bool) {
		b, ok := cond.(*ssa.BinOp)
		if !ok {
			return false, false
		}
		if f, _ := fieldRead(b.X); f != seqF {
			return false, false
		}
		switch b.Op {
		case token.GTR:
			return true, false
		case token.LEQ:
			return true, true
		}
		return false, false
	})
	for i, m := range mk {
		ok1 := len(noAccess) > 0 && DominatedBy(lit, m, NewAvoid().AddEdge(noAccess...))
		r.Check("C13-R1", fmt.Sprintf("fn=buildRevokedFeed$worker revocation #%d only-if=user-cannot-see-doc", i+1), c.Pos(m.Pos()), ok1, "dominated by UserHasDocAccess == false", "a revocation can be sent for a document the user can still see through another channel")
		ok2 := len(needs) > 0 && len(notNewer) > 0 && DominatedBy(lit, m, NewAvoid().AddEdge(needs...).AddEdge(notNewer...))
		r.Check("C13-R1", fmt.Sprintf("fn=buildRevokedFeed$worker revocation #%d newer-than-since-requires=was-in-channel-while-granted", i+1), c.Pos(m.Pos()), ok2, "for entries newer than the client's position the grant-history check must hold", "a revocation can be sent for a document that entered the channel only after the user lost it (the client never had it)")
	}
	// check failures: error entry sent
	fe := newFailEdge(c)
	_ = fe
	for _, nm := range []string{"db.UserHasDocAccess", "(*db.DatabaseCollectionWithUser).wasDocInChannelPriorToRevocation"} {
		for i, call := range c.Calls(lit, false, nameIs(nm)) {
			ev := errValueOf(call.(*ssa.Call))
			pos, _ := EdgesOnValue(lit, func(v ssa.Value) bool { return unwrapLoadFree(v) == ev })
			ok := len(pos) > 0
			for _, e := range pos {
				// every path from the failure edge to return passes a channel send
				leak := ReachFrom(e.To(), 0, func(in ssa.Instruction) bool { _, ok := in.(*ssa.Return); return ok }, NewAvoid().AddInstr(sendsIn(lit)...))
				if leak != nil {
					ok = false
				}
				// and does not continue the loop: the check call is not reachable again
				if ReachFrom(e.To(), 0, func(in ssa.Instruction) bool { return in == ssa.Instruction(call) }, nil) != nil {
					ok = false
				}
			}
			r.Check("C13-R1", fmt.Sprintf("fn=buildRevokedFeed$worker %s #%d failure=error-entry-and-stop", CalleeIdent(call), i+1), c.Pos(call.Pos()), ok, "a failed check ends the feed with an error entry", "a failed access/history check is skipped silently: documents that should be revoked would be dropped without notice")
		}
	}
	// R4 paging
	// (a) the value added to itemsSent is a counter incremented only in the send arm of the select
	var itemsCell, sentCell ssa.Value
	_ = itemsCell
	okCount := false
	EachInstr(lit, false, func(in ssa.Instruction) {
		b, ok := in.(*ssa.BinOp)
		if !ok || b.Op != token.ADD {
			return
		}
		// itemsSent + sentChanges : both phis / locals of int type; identify by one operand being a phi that is also compared with requestLimit
		xphi, xok := b.X.(*ssa.Phi)
		yphi, yok := b.Y.(*ssa.Phi)
		if !xok || !yok {
			return
		}
		// the accumulator is the operand whose phi is fed by this very sum (acc = φ(…, acc + n)); the other operand is the
		// per-page counter (identified by that role, not by name)
		switch {
		case phiFedBy(xphi, b) && !phiFedBy(yphi, b):
			sentCell = yphi
			okCount = c13CounterOnlyAfterSend(lit, yphi)
		case phiFedBy(yphi, b) && !phiFedBy(xphi, b):
			sentCell = xphi
			okCount = c13CounterOnlyAfterSend(lit, xphi)
		}
	})
	r.Check("C13-R4", "fn=buildRevokedFeed$worker limit-consumed-by=entries-sent", c.Pos(lit.Pos()), sentCell != nil && okCount, "itemsSent grows by a counter that is incremented only when an entry was sent", "entries that were examined but skipped (still visible / never held) consume the request limit: a page can end without sending anything and the remaining revocations are never delivered")
	// (b) next page since = lastSeq (sequence of last examined entry)
	okNext := false
	sinceF := c.Field("db.ChangesOptions", "Since")
	EachInstr(lit, false, func(in ssa.Instruction) {
		st, ok := in.(*ssa.Store)
		if !ok {
			return
		}
		fa, ok := st.Addr.(*ssa.FieldAddr)
		if !ok {
			return
		}
		f := structField(fa.X.Type(), fa.Field)
		if f == nil || f.Name() != "Seq" {
			return
		}
		inner, ok := fa.X.(*ssa.FieldAddr)
		if !ok || structField(inner.X.Type(), inner.Field) != sinceF {
			return
		}
		if valueOnlyFrom(st.Val, func(v ssa.Value) (bool, bool) {
			if f2, _ := fieldRead(v); f2 == seqF {
				return true, true
			}
			if k, isK := constInt(v); isK {
				return true, k == 0
			}
			if _, isPhi := v.(*ssa.Phi); isPhi {
				return false, false
			}
			return true, false
		}) {
			okNext = true
		}
	})
	r.Check("C13-R4", "fn=buildRevokedFeed$worker next-page-since=last-examined-sequence", c.Pos(lit.Pos()), okNext, "pagination resumes after the last log entry examined", "pagination no longer resumes after the last examined entry")
}

func sendsIn(fn *ssa.Function) []ssa.Instruction {
	var out []ssa.Instruction
	EachInstr(fn, false, func(in ssa.Instruction) {
		switch x := in.(type) {
		case *ssa.Send:
			out = append(out, x)
		case *ssa.Select:
			for _, st := range x.States {
				if st.Dir == types.SendOnly {
					out = append(out, x)
				}
			}
		}
	})
	return out
}

// c13CounterOnlyAfterSend: every +1 feeding the counter phi is in a block dominated by the send arm of a select (index == k edge
// where state k is a send).
func c13CounterOnlyAfterSend(fn *ssa.Function, phi *ssa.Phi) bool {
	seen := map[ssa.Value]bool{}
	okAll := true
	found := false
	var walk func(v ssa.Value)
	walk = func(v ssa.Value) {
		if seen[v] {
			return
		}
		seen[v] = true
		switch x := v.(type) {
		case *ssa.Phi:
			for _, e := range x.Edges {
				walk(e)
			}
		case *ssa.BinOp:
			if x.Op == token.ADD {
				if k, ok := constInt(x.Y); ok && k == 1 {
					found = true
					if !blockAfterSelectSend(fn, x.Block()) {
						okAll = false
					}
					walk(x.X)
					return
				}
			}
			okAll = false
		case *ssa.Const:
		default:
			okAll = false
		}
	}
	walk(phi)
	return found && okAll
}

func blockAfterSelectSend(fn *ssa.Function, b *ssa.BasicBlock) bool {
	for _, i := range Ifs(fn) {
		bo, ok := i.Cond.(*ssa.BinOp)
		if !ok || bo.Op != token.EQL {
			continue
		}
		ex, ok := bo.X.(*ssa.Extract)
		if !ok || ex.Index != 0 {
			continue
		}
		sel, ok := ex.Tuple.(*ssa.Select)
		if !ok {
			continue
		}
		k, ok := constInt(bo.Y)
		if !ok || int(k) >= len(sel.States) || sel.States[k].Dir != types.SendOnly {
			continue
		}
		t := i.Block().Succs[0]
		if t == b || t.Dominates(b) {
			return true
		}
	}
	return false
}

func c13R2(c *Ctx, r *Report) {
	r.Rule("C13-R2", "E2 def-use + pathrules", "revocation feeds are built for the channels RevokedCollectionChannels returns, under Revocations && user != nil && !ActiveOnly; lost roles are looked up including deleted roles", 3)
	top := c.Func("(*db.DatabaseCollectionWithUser).SimpleMultiChangesFeed")
	if top == nil {
		r.Fail("C13-R2", "anchor SimpleMultiChangesFeed", "-", "function not found")
		return
	}
	found := false
	for _, lit := range top.AnonFuncs {
		calls := c.Calls(lit, false, nameIs("(*db.DatabaseCollectionWithUser).buildRevokedFeed"))
		if len(calls) == 0 {
			continue
		}
		found = true
		revF := c.Field("db.ChangesOptions", "Revocations")
		actF := c.Field("db.ChangesOptions", "ActiveOnly")
		revOn := EdgesWhere(lit, func(cond ssa.Value) (bool, bool) {
			v, pos := BoolTest(cond)
			if f, _ := fieldRead(v); f == revF {
				return true, pos
			}
			return false, false
		})
		notActive := EdgesWhere(lit, func(cond ssa.Value) (bool, bool) {
			v, pos := BoolTest(cond)
			if f, _ := fieldRead(v); f == actF {
				return true, !pos
			}
			return false, false
		})
		for i, call := range calls {
			chArg := callArgs(call)[1]
			if os.Getenv("SGDEBUG") != "" {
				var dump func(v ssa.Value, d int)
				dump = func(v ssa.Value, d int) {
					if d > 6 {
						return
					}
					fmt.Printf("%*s%s = %s (%T)\n", d*2, "", v.Name(), v.String(), v)
					if in, ok := v.(ssa.Instruction); ok {
						for _, op := range in.Operands(nil) {
							if *op != nil {
								dump(*op, d+1)
							}
						}
					}
				}
				dump(chArg, 0)
			}
			fromRevoked := DependsOn(chArg, c.ResultOf(0, nameHasSuffix(".RevokedCollectionChannels")))
			r.Check("C13-R2", fmt.Sprintf("fn=SimpleMultiChangesFeed$worker buildRevokedFeed #%d channel-from=RevokedCollectionChannels", i+1), c.Pos(call.Pos()), fromRevoked, "revocation feeds iterate the revoked-channel set", "revocation feeds are built for channels other than those the user lost")
			okGate := len(revOn) > 0 && DominatedBy(lit, call, NewAvoid().AddEdge(revOn...))
			// the ActiveOnly test dominating the call must be on its false side (the flag may be tested elsewhere too)
			okAct := false
			for _, e := range notActive {
				if DominatedBy(lit, call, NewAvoid().AddEdge(e)) {
					okAct = true
				}
			}
			r.Check("C13-R2", fmt.Sprintf("fn=SimpleMultiChangesFeed$worker buildRevokedFeed #%d only-if=revocations-requested-and-not-active-only", i+1), c.Pos(call.Pos()), okGate && okAct, "dominated by options.Revocations and !options.ActiveOnly", "revocation feeds are built although revocations were not requested (or in active-only mode)")
		}
	}
	if !found {
		r.Fail("C13-R2", "fn=SimpleMultiChangesFeed$worker buildRevokedFeed", c.Pos(top.Pos()), "revocation feeds are no longer built")
	}
	rc := c.Func("(*auth.userImpl).RevokedCollectionChannels")
	if rc == nil {
		r.Fail("C13-R2", "anchor RevokedCollectionChannels", "-", "function not found")
		return
	}
	inc := len(c.Calls(rc, true, nameIs("(*auth.Authenticator).GetRoleIncDeleted")))
	plain := len(c.Calls(rc, true, nameIs("(*auth.Authenticator).GetRole")))
	incAll := len(c.Calls(rc, true, func(n string) bool { return n == "(*auth.userImpl).GetRolesIncDeleted" || n == "(auth.User).GetRolesIncDeleted" }))
	r.Check("C13-R2", "fn=(*auth.userImpl).RevokedCollectionChannels lost-roles looked-up-including-deleted", c.Pos(rc.Pos()), inc > 0 && plain == 0 && incAll > 0, "roles are fetched with the accessors that return deleted roles", "roles the user lost are looked up with an accessor that hides deleted roles: channels seen through a role that was unassigned and then deleted are never revoked")
}

func c13R3(c *Ctx, r *Report) {
	r.Rule("C13-R3", "E7 tables", "Deleted / Revoked / allRemoved map one-to-one onto the three deleted-flag bits sent to the replication client; revocation entries are marked Revoked", 2)
	// find the function that ORs the flags
	names := []string{"changesDeletedFlagDeleted", "changesDeletedFlagRevoked", "changesDeletedFlagRemoved"}
	vals := map[int64]string{}
	for _, nm := range names {
		obj := c.SSAPkg["db"].Pkg.Scope().Lookup(nm)
		k, ok := obj.(*types.Const)
		if !ok {
			r.Fail("C13-R3", "anchor db."+nm, "-", "constant not found")
			return
		}
		v, _ := constantInt64(k)
		vals[v] = nm
	}
	want := map[string]string{"changesDeletedFlagDeleted": "Deleted", "changesDeletedFlagRevoked": "Revoked", "changesDeletedFlagRemoved": "allRemoved"}
	got := map[string]string{}
	for _, fn := range c.ScopeFuncs() {
		if fn.Pkg == nil || fn.Pkg.Pkg.Name() != "db" {
			continue
		}
		EachInstr(fn, false, func(in ssa.Instruction) {
			b, ok := in.(*ssa.BinOp)
			if !ok || b.Op != token.OR {
				return
			}
			k, ok := constInt(b.Y)
			if !ok {
				return
			}
			flag, ok := vals[k]
			if !ok || namedOf(b.Type()) != "changesDeletedFlag" {
				return
			}
			// controlling condition: the nearest If whose true edge dominates this block, reading a ChangeEntry field
			for _, i := range Ifs(fn) {
				v, pos := BoolTest(i.Cond)
				f, _ := fieldRead(v)
				if f == nil || !pos {
					continue
				}
				t := i.Block().Succs[0]
				if t == b.Block() {
					got[flag] = f.Name()
				}
			}
		})
	}
	ok := true
	for flag, field := range want {
		if got[flag] != field {
			ok = false
		}
	}
	r.Check("C13-R3", "flags Deleted→0b001 Revoked→0b010 allRemoved→0b100", "-", ok, fmt.Sprintf("%v", got), fmt.Sprintf("indicator-to-bit mapping changed: %v (want %v)", got, want))
	mk := c.Func("db.makeRevocationChangeEntry")
	if mk == nil {
		r.Fail("C13-R3", "anchor db.makeRevocationChangeEntry", "-", "function not found")
		return
	}
	revF := c.Field("db.ChangeEntry", "Revoked")
	okRev := false
	EachInstr(mk, false, func(in ssa.Instruction) {
		if st, ok := in.(*ssa.Store); ok {
			if fa, ok := st.Addr.(*ssa.FieldAddr); ok && structField(fa.X.Type(), fa.Field) == revF {
				if k, ok := st.Val.(*ssa.Const); ok && k.Value != nil && k.Value.String() == "true" {
					okRev = true
				}
			}
		}
	})
	r.Check("C13-R3", "fn=db.makeRevocationChangeEntry sets=Revoked", c.Pos(mk.Pos()), okRev, "revocation entries carry Revoked=true", "revocation entries are not marked as revoked")
}

func c13R5(c *Ctx, r *Report) {
	r.Rule("C13-R5", "E3 whomay", "channel / role grant history on principals is written only through the rebuild functions and principal decoding", 2)
	allowed := func(top string) bool {
		switch top {
		case "(*auth.Authenticator).rebuildCollectionChannels", "(*auth.Authenticator).rebuildRoles", "(*auth.Authenticator).RebuildRoles", "(*auth.Authenticator).RebuildCollectionChannels", "(*auth.Authenticator).RebuildChannels",
			"(*auth.roleImpl).SetChannelHistory", "(*auth.userImpl).SetRoleHistory", "(*auth.CollectionAccess).SetChannelHistory", "(*auth.roleImpl).SetCollectionChannelHistory",
			"(*auth.roleImpl).UnmarshalJSON", "(*auth.userImpl).UnmarshalJSON", "(*auth.Authenticator).DeleteRole",
			"(*auth.Authenticator).NewRoleNoChannels", "(*auth.Authenticator).NewRole": // re-creating a deleted role carries its grant history over
			return true
		}
		return false
	}
	for _, spec := range []struct{ typ, field string }{{"auth.roleImpl", "ChannelHistory_"}, {"auth.userImplBody", "RoleHistory_"}, {"auth.CollectionAccess", "ChannelHistory_"}} {
		fld := c.Field(spec.typ, spec.field)
		if fld == nil {
			r.Fail("C13-R5", "anchor "+spec.typ+"."+spec.field, "-", "field not found")
			continue
		}
		bad := ""
		n := 0
		for _, fn := range c.ScopeFuncs() {
			EachInstr(fn, false, func(in ssa.Instruction) {
				fa, ok := in.(*ssa.FieldAddr)
				if !ok || structField(fa.X.Type(), fa.Field) != fld || !addrWritten(fa) || isFreshAlloc(fa.X) {
					return
				}
				n++
				if !allowed(c.FuncName(TopLevel(fn))) {
					bad = c.FuncName(TopLevel(fn)) + "@" + c.Pos(fa.Pos())
				}
			})
		}
		r.Check("C13-R5", "field="+spec.typ+"."+spec.field+" writers=setters-used-by-rebuild", "-", bad == "", fmt.Sprintf("%d write site(s)", n), "grant history written outside the rebuild path: "+bad)
	}
	// the setters are called only from the rebuild functions
	for _, setter := range []string{"SetChannelHistory", "SetRoleHistory", "SetCollectionChannelHistory"} {
		bad := ""
		n := 0
		for _, fn := range c.ScopeFuncs() {
			for _, call := range c.Calls(fn, false, func(nm string) bool { return CalleeIdentOf(nm) == setter }) {
				n++
				top := c.FuncName(TopLevel(fn))
				if !allowed(top) {
					bad = top + "@" + c.Pos(call.Pos())
				}
			}
		}
		r.Check("C13-R5", "setter="+setter+" callers=rebuild-functions", "-", bad == "", fmt.Sprintf("%d call site(s)", n), "grant history set from outside the rebuild path: "+bad)
	}
}

// CalleeIdentOf extracts the identifier after the last dot of a callee name.
func CalleeIdentOf(name string) string {
	for i := len(name) - 1; i >= 0; i-- {
		if name[i] == '.' {
			return name[i+1:]
		}
	}
	return name
}

// phiFedBy: value v reaches phi p through phi edges only.
func phiFedBy(p *ssa.Phi, v ssa.Value) bool {
	seen := map[*ssa.Phi]bool{}
	var walk func(q *ssa.Phi) bool
	walk = func(q *ssa.Phi) bool {
		if seen[q] {
			return false
		}
		seen[q] = true
		for _, e := range q.Edges {
			if e == v {
				return true
			}
			if pe, ok := e.(*ssa.Phi); ok && walk(pe) {
				return true
			}
		}
		return false
	}
	return walk(p)
}

// C13-R6: sibling agreement inside RevokedCollectionChannels. The function scans three kinds of grant history (the user's role
// history, the channel history of a revoked role, the channel history of the user and of the roles still held) with one and the same
// test, stated in its own comment: an entry counts if it ended after the position the client is resuming from, OR exactly at the
// sequence that triggered an interrupted revocation back-fill. Every scan must apply both disjuncts; dropping the second from one of
// them leaves the documents of that kind un-revoked when a client resumes in the middle of a revocation.
func c13R6(c *Ctx, r *Report) {
	r.Rule("C13-R6", "E2 pathrules (sibling agreement)", "every history scan in RevokedCollectionChannels tests `entry.EndSeq > checkSeq || entry.EndSeq == triggeredBy`: each EndSeq > … test is followed on its false edge by the == triggeredBy test of the same entry", 3)
	top := c.Func("(*auth.userImpl).RevokedCollectionChannels")
	if top == nil || len(top.Params) < 6 {
		r.Fail("C13-R6", "anchor (*auth.userImpl).RevokedCollectionChannels", "-", "function not found")
		return
	}
	trig := top.Params[len(top.Params)-1]
	isTrig := func(fn *ssa.Function) func(v ssa.Value) bool {
		return func(v ssa.Value) bool {
			v = unwrapLoadFree(v)
			if v == ssa.Value(trig) {
				return true
			}
			// captured by a closure: a load of the free variable bound to the parameter's cell, or a cell holding the parameter
			if ad, ok := loadOf(v); ok {
				for _, st := range storesInto(rootAddr(ad)) {
					if st.Val == ssa.Value(trig) {
						return true
					}
				}
				if fv, isFV := ad.(*ssa.FreeVar); isFV {
					if b := freeVarBinding(fv); b != nil {
						for _, st := range storesInto(b) {
							if st.Val == ssa.Value(trig) {
								return true
							}
						}
					}
				}
			}
			if fv, isFV := v.(*ssa.FreeVar); isFV {
				if b := freeVarBinding(fv); b == ssa.Value(trig) {
					return true
				}
			}
			return false
		}
	}
	isEndSeq := func(v ssa.Value) (ssa.Value, bool) {
		f, b := fieldRead(v)
		if f != nil && f.Name() == "EndSeq" {
			return b, true
		}
		return nil, false
	}
	// hosts: the function, its literals, and helpers extracted from it (called by nothing else) — in a helper the triggering
	// sequence is the parameter that receives it at the call site
	trigOf := map[*ssa.Function]ssa.Value{}
	var hosts []*ssa.Function
	for _, h := range c.PrivateHelpers(top, 2) {
		hosts = append(hosts, h)
		hosts = append(hosts, c15Lits(h)...)
		if h == top {
			continue
		}
		for _, g := range append([]*ssa.Function{top}, c15Lits(top)...) {
			for _, call := range c.Calls(g, false, nameIs(c.FuncName(h))) {
				for j, a := range call.Common().Args {
					if isTrig(g)(a) && j < len(h.Params) {
						trigOf[h] = h.Params[j]
					}
				}
			}
		}
	}
	n := 0
	for _, fn := range hosts {
		it := isTrig(fn)
		if tp, ok := trigOf[TopLevel(fn)]; ok {
			base := it
			it = func(v ssa.Value) bool {
				v2 := unwrapLoadFree(v)
				if v2 == tp {
					return true
				}
				if ad, isLoad := loadOf(v2); isLoad {
					for _, st := range storesInto(rootAddr(ad)) {
						if st.Val == tp {
							return true
						}
					}
				}
				return base(v)
			}
		}
		k := 0
		for _, i := range Ifs(fn) {
			b, ok := i.Cond.(*ssa.BinOp)
			if !ok || b.Op != token.GTR {
				continue
			}
			entry, isE := isEndSeq(b.X)
			if !isE {
				continue
			}
			if _, alsoEnd := isEndSeq(b.Y); alsoEnd {
				continue // comparison of two history entries
			}
			if it(b.Y) {
				continue
			}
			// only the scans' "after the resume position" tests: the right-hand side is the diff position (not the role's revocation sequence)
			if DependsOn(b.Y, func(v ssa.Value) bool { _, isLookup := v.(*ssa.Lookup); return isLookup }) {
				continue
			}
			if DependsOn(b.Y, func(v ssa.Value) bool { _, isNext := v.(*ssa.Next); return isNext }) {
				continue
			}
			n++
			k++
			// the false successor must test EndSeq == triggeredBy on the same entry
			fb := i.Block().Succs[1]
			ok2 := false
			if len(fb.Instrs) > 0 {
				if i2, isIf := fb.Instrs[len(fb.Instrs)-1].(*ssa.If); isIf {
					if b2, isB := i2.Cond.(*ssa.BinOp); isB && b2.Op == token.EQL {
						e2, isE2 := isEndSeq(b2.X)
						if isE2 && sameEntry(e2, entry) && it(b2.Y) {
							ok2 = true
						}
						e3, isE3 := isEndSeq(b2.Y)
						if isE3 && sameEntry(e3, entry) && it(b2.X) {
							ok2 = true
						}
					}
				}
			}
			r.Check("C13-R6", fmt.Sprintf("fn=%s history-scan #%d accepts=ended-after-resume-position|ended-at-triggering-sequence", c.FuncName(fn), k), c.Pos(b.Pos()), ok2,
				"both disjuncts are applied", "this history scan only accepts entries that ended after the resume position and not those that ended exactly at the sequence that triggered an interrupted revocation: a client that resumes in the middle of that revocation never receives the remaining removals")
		}
	}
	if n < 3 {
		r.Fail("C13-R6", "fn=RevokedCollectionChannels history scans", c.Pos(top.Pos()), fmt.Sprintf("found %d history scans, expected the role-history, revoked-role and principal scans", n))
	}
}

// sameEntry: two struct bases denote the same history entry (same value, or loads of the same element address).
func sameEntry(a, b ssa.Value) bool {
	if a == b {
		return true
	}
	la, oka := loadOf(a)
	lb, okb := loadOf(b)
	if oka && okb && la == lb {
		return true
	}
	fa, oka2 := a.(*ssa.FieldAddr)
	fb, okb2 := b.(*ssa.FieldAddr)
	if oka2 && okb2 && fa.X == fb.X && fa.Field == fb.Field {
		return true
	}
	return false
}
