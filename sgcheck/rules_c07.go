package main

import (
	"fmt"
	"go/token"
	"go/types"
	"strings"

	"golang.org/x/tools/go/ssa"
)

func init() { registry["C07"] = checkC07 }

var seqAllocGuardRows = []GuardRow{
	{Struct: "db.sequenceAllocator", Fields: []string{"last", "max", "sequenceBatchSize"}, Lock: "sequenceAllocator.mutex"},
}

// mutating datastore methods (by method identifier on the storage interfaces)
var storeMutators = map[string]bool{
	"Incr": true, "WriteCas": true, "Set": true, "SetRaw": true, "Add": true, "AddRaw": true, "Delete": true, "Remove": true, "Update": true,
	"WriteUpdate": true, "WriteWithXattrs": true, "WriteUpdateWithXattrs": true, "UpdateXattrs": true, "SetXattrs": true, "RemoveXattrs": true, "DeleteXattrs": true,
	"DeleteWithXattrs": true, "WriteTombstoneWithXattrs": true, "WriteResurrectionWithXattrs": true, "DeleteSubDocPaths": true, "Touch": true, "Expire": true,
	"InsertMetadataDocument": true, "WriteMetadataDocument": true, "DeleteMetadataDocument": true, "TouchMetadataDocument": true, "SetSubDocPath": true, "RemoveSubDocPath": true, "SubdocInsert": true, "WriteSubDoc": true,
}

func isStorageIface(call ssa.CallInstruction) bool {
	cc := call.Common()
	if !cc.IsInvoke() {
		return false
	}
	full := cc.Method.FullName()
	return strings.Contains(full, "sg-bucket.") || strings.Contains(full, "/base.DataStore") || strings.Contains(full, "/base.BootstrapConnection") || strings.Contains(full, "/base.Bucket") || strings.Contains(full, "/base.WrappingDatastore")
}

func checkC07(c *Ctx, r *Report) {
	r.Explain = "Decides structural necessary conditions of sequence allocation: (R1) the allocator's window state {last,max,sequenceBatchSize} is only touched under its mutex, `_`-helpers only called with it held (lockset analysis); (R2) only _incrementSequence and _fixSyncSeqRollback mutate the shared counter document, and only sequenceAllocator methods write last/max; (R3) every store to last/max has one of the admitted shapes that keep hand-outs inside the reserved window (increment only after a has-room check or a successful reservation; values derived from the counter increment just performed); (R4) allocation/release pairing: a failed document write releases the carried sequence and every sequence carried across CAS retries except on a storage timeout, the retry path moves a superseded sequence to the unused list, and each principal-sequence allocation site releases on failure of the write that was to carry it; (R5) the unused-sequence keys written by the allocator have the prefix/slot grammar the change cache parses; (R6) after an attempt to release the allocator's whole remaining window no hand-out and no success return is reachable on the failure edge before the window is abandoned. Not decided: uniqueness across nodes (relies on the server's atomic increment), batch-size arithmetic, idle-release timing."
	la := newLockAnalysis(c, []string{"sequenceAllocator.mutex"}, "db")
	la.Solve()
	r.Rule("C07-R1", "E1 guardedby", "sequenceAllocator{last,max,sequenceBatchSize} accessed only under sequenceAllocator.mutex (callers of _nextSequence/_reserveSequenceBatch/_incrementSequence/_releaseCurrentBatch/_fixSyncSeqRollback hold it)", 20)
	runGuardRule(c, r, "C07-R1", la, seqAllocGuardRows, nil)
	// requires-held helpers: each static call site holds the mutex
	for _, h := range []string{"_nextSequence", "_reserveSequenceBatch", "_incrementSequence", "_releaseCurrentBatch", "_fixSyncSeqRollback"} {
		name := "(*db.sequenceAllocator)." + h
		fn := c.Func(name)
		if fn == nil {
			r.Fail("C07-R1", "anchor "+name, "-", "requires-held helper not found")
			continue
		}
		n, bad := 0, ""
		for _, caller := range c.ScopeFuncs() {
			for _, call := range c.Calls(caller, false, nameIs(name)) {
				n++
				if ls, ok := la.at[call]; ok && ls["sequenceAllocator.mutex"] != modeW {
					bad = c.FuncName(caller) + "@" + c.Pos(call.Pos())
				}
			}
		}
		r.Check("C07-R1", "helper="+name+" requires-held=sequenceAllocator.mutex", c.Pos(fn.Pos()), bad == "" && n > 0, fmt.Sprintf("%d call site(s), mutex held at each", n), "called without the allocator mutex at "+bad)
	}
	c07R2(c, r)
	c07R3(c, r)
	c07R4(c, r)
	c07R5(c, r)
	c07R6(c, r)
}

func c07R2(c *Ctx, r *Report) {
	r.Rule("C07-R2", "E3 whomay", "the shared counter document (key from MetadataKeys.SyncSeqKey) is mutated only inside _incrementSequence and _fixSyncSeqRollback; last/max are stored only by sequenceAllocator methods", 4)
	allowed := map[string]string{
		"(*db.sequenceAllocator)._incrementSequence":  "the allocator's atomic reservation",
		"(*db.sequenceAllocator)._fixSyncSeqRollback": "rollback correction (CAS-guarded)",
		"db.migrateSeqCounter":                        "metadata migration copies the counter while the database is offline (exemption row)",
		"rest.(*ServerContext).setSyncSeqForMetadataID": "",
	}
	isSeqKey := c.ResultOf(-1, nameIs("(*base.MetadataKeys).SyncSeqKey"))
	n := 0
	for _, fn := range c.ScopeFuncs() {
		EachInstr(fn, false, func(in ssa.Instruction) {
			call, ok := in.(ssa.CallInstruction)
			if !ok || !isStorageIface(call) || !storeMutators[CalleeIdent(call)] {
				return
			}
			dep := false
			for _, a := range call.Common().Args {
				if types.Identical(a.Type(), types.Typ[types.String]) && DependsOn(a, isSeqKey) {
					dep = true
				}
			}
			if !dep {
				return
			}
			n++
			top := c.FuncName(TopLevel(fn))
			reason, ok := allowed[top]
			construct := fmt.Sprintf("fn=%s mutates=sync-seq-counter via=%s", top, CalleeIdent(call))
			r.Check("C07-R2", construct, c.Pos(call.Pos()), ok && reason != "", reason, "a second writer of the shared sequence counter: sequences handed out by other allocators could be re-issued")
		})
	}
	r.Examined("C07-R2", n)
	for _, fname := range []string{"last", "max"} {
		fld := c.Field("db.sequenceAllocator", fname)
		if fld == nil {
			r.Fail("C07-R2", "anchor db.sequenceAllocator."+fname, "-", "field not found")
			continue
		}
		owners := map[string]int{}
		bad := ""
		for _, st := range c.storesToField(fld) {
			top := TopLevel(st.Parent())
			if recv := top.Signature.Recv(); recv != nil && namedOf(recv.Type()) == "sequenceAllocator" {
				owners[c.FuncName(top)]++
			} else {
				bad = c.FuncName(top) + "@" + c.Pos(st.Pos())
			}
		}
		r.Check("C07-R2", "field=sequenceAllocator."+fname+" writers=methods-of-sequenceAllocator", "-", bad == "" && len(owners) > 0, fmt.Sprintf("%d writer method(s)", len(owners)), "stored outside the allocator's methods at "+bad)
	}
}

func c07R3(c *Ctx, r *Report) {
	r.Rule("C07-R3", "E2 pathrules + value shapes", "every store to last/max keeps hand-outs inside the reserved window: last++ only after has-room or successful reservation; last=max; last=target on target<=max; last/max derived from the counter value just reserved", 8)
	lastF := c.Field("db.sequenceAllocator", "last")
	maxF := c.Field("db.sequenceAllocator", "max")
	bsF := c.Field("db.sequenceAllocator", "sequenceBatchSize")
	if lastF == nil || maxF == nil || bsF == nil {
		r.Fail("C07-R3", "anchor db.sequenceAllocator fields", "-", "field not found")
		return
	}
	fromReserve := func(v ssa.Value) bool {
		return DependsOn(v, c.ResultOf(0, nameIs("(*db.sequenceAllocator)._incrementSequence", "(*db.sequenceAllocator)._fixSyncSeqRollback")))
	}
	cnt := map[string]int{}
	for _, fld := range []*types.Var{lastF, maxF} {
		for _, st := range c.storesToField(fld) {
			fn := st.Parent()
			if isFreshAlloc(st.Addr.(*ssa.FieldAddr).X) {
				continue
			}
			name := c.FuncName(fn)
			cnt[name+fld.Name()]++
			construct := fmt.Sprintf("fn=%s store=sequenceAllocator.%s #%d", name, fld.Name(), cnt[name+fld.Name()])
			pos := c.Pos(st.Pos())
			v := st.Val
			if fld == maxF {
				// max only from a reservation result, and not modified arithmetically
				ok := c.ResultOf(0, nameIs("(*db.sequenceAllocator)._incrementSequence", "(*db.sequenceAllocator)._fixSyncSeqRollback"))
				good := valueOnlyFrom(v, func(x ssa.Value) (bool, bool) {
					if ok(x) {
						return true, true
					}
					if _, isPhi := x.(*ssa.Phi); isPhi {
						return false, false
					}
					return true, false
				})
				r.Check("C07-R3", construct, pos, good, "max = value returned by the counter reservation", "max is not exactly the value returned by the counter reservation: the window could extend over numbers this node never reserved")
				continue
			}
			// last:
			// (a) last++ : load(last)+1
			if x, k, ok := plusConst(v); ok && k == 1 {
				if f, _ := fieldRead(x); f == lastF {
					ok := c07IncrementGuarded(c, fn, st, lastF, maxF)
					r.Check("C07-R3", construct, pos, ok, "last++ dominated by has-room edge (last < max) or successful _reserveSequenceBatch", "last is incremented on a path with neither room in the window nor a successful reservation: a number outside the reserved window would be handed out")
					continue
				}
			}
			// (b) last = max
			if f, _ := fieldRead(v); f == maxF {
				r.Pass("C07-R3", construct, pos, "last = max (window closed)")
				continue
			}
			// (c) last = targetSequence on target <= max edge
			if x, k, ok := plusConst(v); ok && k == 1 && isParamAny(x) {
				edges := EdgesWhere(fn, func(cond ssa.Value) (bool, bool) {
					b, ok := cond.(*ssa.BinOp)
					if !ok || b.X != v {
						return false, false
					}
					if f, _ := fieldRead(b.Y); f != maxF {
						return false, false
					}
					switch b.Op {
					case token.LEQ:
						return true, true
					case token.GTR:
						return true, false
					}
					return false, false
				})
				// and not already allocated: target <= last false edge
				edges2 := EdgesWhere(fn, func(cond ssa.Value) (bool, bool) {
					b, ok := cond.(*ssa.BinOp)
					if !ok || b.X != v {
						return false, false
					}
					if f, _ := fieldRead(b.Y); f != lastF {
						return false, false
					}
					switch b.Op {
					case token.LEQ:
						return true, false
					case token.GTR:
						return true, true
					}
					return false, false
				})
				ok := len(edges) > 0 && len(edges2) > 0 && DominatedBy(fn, st, NewAvoid().AddEdge(edges...)) && DominatedBy(fn, st, NewAvoid().AddEdge(edges2...))
				r.Check("C07-R3", construct, pos, ok, "last = target only when last < target <= max", "last jumps to the requested floor without both window checks (last < target <= max)")
				continue
			}
			// (d) derived from reservation result: reserved - batch (+1)
			if fromReserve(v) {
				ok, why := c07ReservedShape(c, v, bsF)
				r.Check("C07-R3", construct, pos, ok, why, "last is computed from the reserved counter value with an unexpected offset: "+why)
				continue
			}
			r.Fail("C07-R3", construct, pos, "store to last has none of the admitted shapes")
		}
	}
	c07ReleaseShapes(c, r, lastF, maxF, bsF)
}

// c07ReleaseShapes: every releaseSequenceRange call inside the allocator releases numbers this allocator owns:
//   (last+1, max)                       the unused tail of the current window
//   (oldLast+1, target-1)               the part of the window skipped when jumping to a floor inside it
//   (to-N+1, to) with to = R-B          the surplus N of an increment by N+B whose result is R (B = batch kept)
func c07ReleaseShapes(c *Ctx, r *Report, lastF, maxF, bsF *types.Var) {
	isR := c.ResultOf(0, nameIs("(*db.sequenceAllocator)._incrementSequence"))
	n := 0
	for _, fn := range c.ScopeFuncs() {
		recv := TopLevel(fn).Signature.Recv()
		if recv == nil || namedOf(recv.Type()) != "sequenceAllocator" {
			continue
		}
		for _, call := range c.Calls(fn, false, nameIs("(*db.sequenceAllocator).releaseSequenceRange")) {
			n++
			a := callArgs(call)
			construct := fmt.Sprintf("fn=%s release-range #%d owned-by-this-allocator", c.FuncName(fn), n)
			pos := c.Pos(call.Pos())
			if len(a) < 3 {
				r.Fail("C07-R3", construct, pos, "unexpected arity")
				continue
			}
			from, to := a[1], a[2]
			// shape 1
			if x, k, ok := plusConst(from); ok && k == 1 {
				if f, _ := fieldRead(x); f == lastF {
					if g, _ := fieldRead(to); g == maxF {
						r.Pass("C07-R3", construct, pos, "(last+1, max)")
						continue
					}
					// shape 2: (oldLast+1, target-1)
					if y, k2, ok := plusConst(to); ok && k2 == -1 {
						if z, k3, ok := plusConst(y); ok && k3 == 1 && isParamAny(z) {
							r.Pass("C07-R3", construct, pos, "(last+1, floor) below a floor inside the window")
							continue
						}
					}
				}
			}
			// shape 3: to = R - B ; from = to - N + 1 ; incr arg = N + B
			ok3, why := func() (bool, string) {
				tb, ok := to.(*ssa.BinOp)
				if !ok || tb.Op != token.SUB {
					return false, "upper bound is not reserved - batch"
				}
				if !isR(unwrapLoadFree(tb.X)) {
					return false, "upper bound is not derived from this allocator's own increment result"
				}
				B := tb.Y
				x, k, ok := plusConst(from)
				if !ok || k != 1 {
					return false, "lower bound is not (upper - surplus + 1)"
				}
				fb, ok := x.(*ssa.BinOp)
				if !ok || fb.Op != token.SUB || fb.X != to {
					return false, "lower bound is not computed from the upper bound of this allocator's own increment"
				}
				N := fb.Y
				// the increment amount
				var incr *ssa.Call
				if e, ok := unwrapLoadFree(tb.X).(*ssa.Extract); ok {
					incr, _ = e.Tuple.(*ssa.Call)
				}
				if incr == nil {
					return false, "increment call not found"
				}
				amt := callArgs(incr)[1]
				ab, ok := amt.(*ssa.BinOp)
				if !ok || ab.Op != token.ADD || !((ab.X == N && ab.Y == B) || (ab.X == B && ab.Y == N)) {
					return false, "the released surplus and kept batch do not add up to the amount the counter was incremented by"
				}
				if f, _ := fieldRead(B); f != bsF {
					return false, "kept batch is not sequenceBatchSize"
				}
				return true, "(to-N+1, to) with to = R-B, counter incremented by N+B"
			}()
			r.Check("C07-R3", construct, pos, ok3, why, "released range is not provably inside this allocator's own reservation: "+why+" (numbers reserved by another node could be published as unused)")
		}
	}
}

func isParamAny(v ssa.Value) bool { _, ok := v.(*ssa.Parameter); return ok }

// c07IncrementGuarded: every path to the increment passes the has-room edge of a (last >= max) test or the nil-error edge of _reserveSequenceBatch.
func c07IncrementGuarded(c *Ctx, fn *ssa.Function, st *ssa.Store, lastF, maxF *types.Var) bool {
	room := EdgesWhere(fn, func(cond ssa.Value) (bool, bool) {
		b, ok := cond.(*ssa.BinOp)
		if !ok {
			return false, false
		}
		lf, _ := fieldRead(b.X)
		rf, _ := fieldRead(b.Y)
		if lf == lastF && rf == maxF {
			switch b.Op {
			case token.GEQ:
				return true, false // room on false edge
			case token.LSS:
				return true, true
			}
		}
		if lf == maxF && rf == lastF {
			switch b.Op {
			case token.LEQ:
				return true, false
			case token.GTR:
				return true, true
			}
		}
		return false, false
	})
	var okEdges []Edge
	for _, call := range c.Calls(fn, false, nameIs("(*db.sequenceAllocator)._reserveSequenceBatch")) {
		cv := valueOfCall(call)
		_, neg := EdgesOnValue(fn, func(v ssa.Value) bool { return unwrapLoadFree(v) == cv })
		okEdges = append(okEdges, neg...)
	}
	if len(room) == 0 || len(okEdges) == 0 {
		return false
	}
	return DominatedBy(fn, st, NewAvoid().AddEdge(room...).AddEdge(okEdges...))
}

// c07ReservedShape: v == R - B or R - B + 1 where R is the reservation result and B is the batch size passed to the reservation
// (sequenceBatchSize, or the local numberToAllocate loaded from it).
func c07ReservedShape(c *Ctx, v ssa.Value, bsF *types.Var) (bool, string) {
	isR := c.ResultOf(0, nameIs("(*db.sequenceAllocator)._incrementSequence", "(*db.sequenceAllocator)._fixSyncSeqRollback"))
	isRes := func(x ssa.Value) bool {
		return valueOnlyFrom(x, func(y ssa.Value) (bool, bool) {
			if isR(y) {
				return true, true
			}
			if _, isPhi := y.(*ssa.Phi); isPhi {
				return false, false
			}
			return true, false
		})
	}
	isBatch := func(x ssa.Value) bool { f, _ := fieldRead(x); return f == bsF }
	plus := int64(0)
	if x, k, ok := plusConst(v); ok {
		v, plus = x, k
	}
	b, ok := v.(*ssa.BinOp)
	if !ok || b.Op != token.SUB || !isRes(b.X) || !isBatch(b.Y) {
		return false, "expected reserved - sequenceBatchSize [+1]"
	}
	if plus == 0 {
		return true, "last = reserved - batchSize (next hand-out is reserved-batchSize+1, the first number of this node's batch)"
	}
	if plus == 1 {
		return true, "last = reserved - batchSize + 1 (first number of the batch handed out directly)"
	}
	return false, fmt.Sprintf("offset %+d from reserved - batchSize", plus)
}

// ---- R4 pairing ----

func c07R4(c *Ctx, r *Report) {
	r.Rule("C07-R4", "E2 pathrules (acquire/release pairing)", "a sequence that was allocated is released on every failure path of the write that was to carry it (storage timeout excepted); the CAS-retry path moves a superseded sequence to the unused list", 6)
	c07WriteFailureRelease(c, r, "C07-R4")
	c07AssignSequence(c, r)
	c07CarriedAcrossRetries(c, r)
	// principal sequence sites: (function, allocation, carrying write)
	sites := []struct{ fn, write string }{
		{"(*db.DatabaseContext).UpdatePrincipal", "(*auth.Authenticator).Save"},
		{"(*db.DatabaseContext).regeneratePrincipalSequences", "(*auth.Authenticator).UpdateSequenceNumberForResync"},
		{"(*db.DatabaseContext).DeleteRole", "(*auth.Authenticator).DeleteRole"},
	}
	for _, s := range sites {
		c07PrincipalSite(c, r, s.fn, s.write)
	}
	c07ResyncRelease(c, r)
	// any other allocation site must be known
	known := map[string]bool{
		"(*db.DatabaseContext).UpdatePrincipal": true, "(*db.DatabaseContext).regeneratePrincipalSequences": true, "(*db.DatabaseContext).DeleteRole": true,
		"(*db.DatabaseContext).assignSequence": true, "(*db.sequenceAllocator).nextSequence": true, "(*db.sequenceAllocator).nextSequenceGreaterThan": true,
	}
	for _, fn := range c.ScopeFuncs() {
		for _, call := range c.Calls(fn, false, nameIs("(*db.sequenceAllocator).nextSequence", "(*db.sequenceAllocator).nextSequenceGreaterThan")) {
			top := c.FuncName(TopLevel(fn))
			if known[top] {
				continue
			}
			// pure pass-through wrappers (return the allocation result directly) are transparent
			if c07IsPassThrough(call) {
				// then the wrapper's callers are allocation sites
				for _, g := range c.ScopeFuncs() {
					for _, cc := range c.Calls(g, false, nameIs(c.FuncName(fn))) {
						r.Fail("C07-R4", fmt.Sprintf("fn=%s allocation-via=%s unaccounted", c.FuncName(TopLevel(g)), c.FuncName(fn)), c.Pos(cc.Pos()), "new allocation site without a release rule: add release-on-failure and register the site")
					}
				}
				continue
			}
			// a number allocated only to be used as a stamp and given back at once: on the allocation's success edge every path to the
			// function's exit passes releaseSequence(that number)
			if cv, isCall := call.(*ssa.Call); isCall {
				var seqV ssa.Value
				for _, e := range resultValues(cv, 0) {
					seqV = e
				}
				ev := errValueOf(cv)
				_, okE := EdgesOnValue(fn, func(v ssa.Value) bool { return unwrapLoadFree(v) == ev })
				var rels []ssa.Instruction
				for _, rc := range c.Calls(fn, false, nameIs("(*db.sequenceAllocator).releaseSequence")) {
					a := callArgs(rc)
					if seqV != nil && len(a) > 0 && DependsOn(a[len(a)-1], func(v ssa.Value) bool { return v == seqV }) {
						rels = append(rels, rc)
					}
				}
				released := len(okE) > 0 && len(rels) > 0
				for _, e := range okE {
					if ReachFrom(e.To(), 0, func(in ssa.Instruction) bool { _, isRet := in.(*ssa.Return); return isRet }, NewAvoid().AddInstr(rels...)) != nil {
						released = false
					}
				}
				if released {
					r.Pass("C07-R4", fmt.Sprintf("fn=%s allocation released-at-once", top), c.Pos(call.Pos()), "the number is only used as a stamp: on the allocation's success edge every path to the exit releases it")
					continue
				}
			}
			r.Fail("C07-R4", fmt.Sprintf("fn=%s allocation unaccounted", top), c.Pos(call.Pos()), "new sequence allocation site: every allocated number must be carried by a write or released; no pairing rule covers this site")
		}
	}
}

func c07IsPassThrough(call ssa.CallInstruction) bool {
	v := valueOfCall(call)
	if v == nil {
		return false
	}
	refs := v.Referrers()
	if refs == nil {
		return false
	}
	for _, rf := range *refs {
		switch x := rf.(type) {
		case *ssa.Return:
		case *ssa.Extract:
			if er := x.Referrers(); er != nil {
				for _, u := range *er {
					if _, ok := u.(*ssa.Return); !ok {
						if _, ok := u.(*ssa.DebugRef); !ok {
							return false
						}
					}
				}
			}
		case *ssa.DebugRef:
		default:
			return false
		}
	}
	return true
}

// In updateAndReturnDoc: from the failure edge after the CAS write, every path to a return passes IsTimeoutError; on its false edge
// releaseSequence(docSequence) is reached unless docSequence == 0, and the loop over unusedSequences releases each element.
func c07WriteFailureRelease(c *Ctx, r *Report, rule string) {
	name := "(*db.DatabaseCollectionWithUser).updateAndReturnDoc"
	fn := c.Func(name)
	if fn == nil {
		r.Fail(rule, "anchor "+name, "-", "function not found")
		return
	}
	writes := c.Calls(fn, false, nameHasSuffix(".WriteUpdateWithXattrs"))
	if len(writes) != 1 {
		r.Fail(rule, "fn="+name+" commit-call=WriteUpdateWithXattrs", c.Pos(fn.Pos()), fmt.Sprintf("expected exactly one CAS write, found %d", len(writes)))
		return
	}
	w := writes[0]
	// identify the docSequence cell and unusedSequences cell: allocs passed to documentUpdateFunc inside the literal
	var docSeqCell, unusedCell ssa.Value
	for _, lit := range fn.AnonFuncs {
		for _, call := range c.Calls(lit, false, nameIs("(*db.DatabaseCollectionWithUser).documentUpdateFunc")) {
			args := callArgs(call)
			if len(args) >= 6 {
				if a, ok := loadOf(args[4]); ok {
					docSeqCell = rootAddr(a)
				}
				if a, ok := loadOf(args[5]); ok {
					unusedCell = rootAddr(a)
				}
			}
		}
	}
	if docSeqCell == nil || unusedCell == nil {
		r.Fail(rule, "fn="+name+" retry-state cells", c.Pos(fn.Pos()), "docSequence/unusedSequences are not variables of updateAndReturnDoc passed into documentUpdateFunc (retry state must outlive the CAS callback)")
		return
	}
	r.Pass(rule, "fn="+name+" retry-state=docSequence,unusedSequences declared-outside-CAS-literal", c.Pos(fn.Pos()), "both are cells of the enclosing function")

	// The release block lives in updateAndReturnDoc itself or in a helper that is handed the write's error, docSequence and
	// unusedSequences (host). isDocSeq / isUnused recognise the two values in the host.
	host := fn
	isDocSeq := func(v ssa.Value) bool { ad, ok := loadOf(v); return ok && rootAddr(ad) == docSeqCell }
	isUnused := func(v ssa.Value) bool { ad, ok := loadOf(v); return ok && rootAddr(ad) == unusedCell }
	var helperCall ssa.Instruction
	if len(c.Calls(fn, false, nameIs("base.IsTimeoutError"))) == 0 {
		EachInstr(fn, false, func(in ssa.Instruction) {
			ci, ok := in.(ssa.CallInstruction)
			if !ok || helperCall != nil {
				return
			}
			cal := ci.Common().StaticCallee()
			if cal == nil || cal.Parent() != nil || !c.InScope(cal) || len(c.Calls(cal, false, nameIs("base.IsTimeoutError"))) == 0 {
				return
			}
			di, ui := -1, -1
			for i, a := range ci.Common().Args {
				if isDocSeq(a) {
					di = i
				}
				if isUnused(a) {
					ui = i
				}
			}
			if di >= 0 && ui >= 0 && di < len(cal.Params) && ui < len(cal.Params) {
				helperCall = in
				host = cal
				pd, pu := cal.Params[di], cal.Params[ui]
				isDocSeq = func(v ssa.Value) bool { return v == ssa.Value(pd) }
				isUnused = func(v ssa.Value) bool { return v == ssa.Value(pu) }
			}
		})
	}
	rels := c.Calls(host, false, nameIs("(*db.sequenceAllocator).releaseSequence"))
	tos := c.Calls(host, false, nameIs("base.IsTimeoutError"))
	if len(tos) == 0 {
		r.Fail(rule, "fn="+name+" timeout-exemption", c.Pos(w.Pos()), "IsTimeoutError test not found on the write-failure path")
		return
	}
	var relDoc, relUnused []ssa.Instruction
	for _, rel := range rels {
		a := callArgs(rel)
		if len(a) < 2 {
			continue
		}
		if isDocSeq(a[1]) {
			relDoc = append(relDoc, rel)
			continue
		}
		// element of a range over unusedSequences
		if DependsOn(a[1], isUnused) {
			relUnused = append(relUnused, rel)
		}
	}
	// error value of the write
	wv := valueOfCall(w)
	errVals := map[ssa.Value]bool{}
	for _, e := range resultValues(wv.(*ssa.Call), 1) {
		errVals[e] = true
	}
	// Timeout test false edges (in the host)
	var notTimeout []Edge
	for _, t := range tos {
		tv := valueOfCall(t)
		_, neg := EdgesOnValue(host, func(v ssa.Value) bool { return v == tv })
		notTimeout = append(notTimeout, neg...)
	}
	if len(notTimeout) == 0 {
		r.Fail(rule, "fn="+name+" timeout-exemption", c.Pos(w.Pos()), "IsTimeoutError result does not decide a branch")
		return
	}
	isRet := func(in ssa.Instruction) bool { _, ok := in.(*ssa.Return); return ok }
	for i, e := range notTimeout {
		// docSequence: every path from the not-timeout edge to a return passes releaseSequence(docSequence) or the docSequence<=0 edge
		zeroEdges := EdgesWhere(host, func(cond ssa.Value) (bool, bool) {
			b, ok := cond.(*ssa.BinOp)
			if !ok {
				return false, false
			}
			if isDocSeq(b.X) {
				if k, ok := constInt(b.Y); ok && k == 0 {
					switch b.Op {
					case token.GTR, token.NEQ:
						return true, false
					case token.EQL, token.LEQ:
						return true, true
					}
				}
			}
			return false, false
		})
		av := NewAvoid().AddInstr(relDoc...).AddEdge(zeroEdges...)
		leak := ReachFrom(e.To(), 0, isRet, av)
		r.Check(rule, fmt.Sprintf("fn=%s failed-write releases=docSequence #%d", name, i+1), c.Pos(w.Pos()), len(relDoc) > 0 && leak == nil,
			"every non-timeout failure path releases docSequence (or it is 0)", "a non-timeout failure path returns without releasing the sequence allocated for this write")
		// unused sequences: the range loop over unusedSequences is on every path
		var rangeHeads []ssa.Instruction
		EachInstr(host, false, func(in ssa.Instruction) {
			v, isVal := in.(ssa.Value)
			uses := false
			if isVal && isUnused(v) {
				uses = true // load of the cell
			}
			if ops := in.Operands(nil); !uses {
				for _, op := range ops {
					if op != nil && *op != nil && isUnused(*op) {
						if _, isParam := (*op).(*ssa.Parameter); isParam {
							uses = true // direct use of the helper's parameter (len / index at the loop head)
						}
					}
				}
			}
			if !uses {
				return
			}
			for _, rel := range relUnused {
				if in.Block().Dominates(rel.Block()) {
					rangeHeads = append(rangeHeads, in)
				}
			}
		})
		leak2 := ReachFrom(e.To(), 0, isRet, NewAvoid().AddInstr(rangeHeads...))
		r.Check(rule, fmt.Sprintf("fn=%s failed-write releases=each-unusedSequences #%d", name, i+1), c.Pos(w.Pos()), len(relUnused) > 0 && leak2 == nil,
			"every non-timeout failure path iterates unusedSequences releasing each", "a non-timeout failure path skips releasing the sequences carried across CAS retries")
	}
	// release calls must not be reachable on success or timeout: each release is dominated by a not-timeout edge
	for i, rel := range append(append([]ssa.Instruction{}, relDoc...), relUnused...) {
		ok := DominatedBy(host, rel, NewAvoid().AddEdge(notTimeout...))
		r.Check(rule, fmt.Sprintf("fn=%s release #%d only-on=non-timeout-failure", name, i+1), c.Pos(rel.Pos()), ok, "dominated by the !IsTimeoutError edge", "a sequence can be released although the write may have succeeded (success or timeout path): the number could be both stored and published as unused")
	}
	// every path from a failed write to a function exit evaluates the timeout test / enters the release helper (no early exit before it)
	{
		var ev ssa.Value
		for e := range errVals {
			ev = e
		}
		_, nilEdges := EdgesOnValue(fn, func(v ssa.Value) bool { return unwrapLoadFree(v) == ev })
		var barrier []ssa.Instruction
		if helperCall != nil {
			barrier = append(barrier, helperCall)
		} else {
			for _, t := range tos {
				barrier = append(barrier, t)
			}
		}
		early := ReachAfter(w, isRet, NewAvoid().AddEdge(nilEdges...).AddInstr(barrier...))
		where := ""
		if early != nil {
			where = c.Pos(early.Pos())
		}
		r.Check(rule, "fn="+name+" failed-write every-exit-after=timeout-test", c.Pos(w.Pos()), ev != nil && len(nilEdges) > 0 && early == nil,
			"no exit between a failed write and the release block", "a failed (or cancelled) write can return at "+where+" before the release block runs: sequences reserved in earlier CAS attempts are neither stored nor released")
	}
	// and the timeout test (or the helper that performs it) must be on the failure edge of the write, judging the write's error
	errEdges := EdgesWhere(fn, func(cond ssa.Value) (bool, bool) {
		x, trueMeansNil, ok := NilTest(cond)
		if !ok || !isErrorType(x.Type()) {
			return false, false
		}
		return true, !trueMeansNil
	})
	if helperCall != nil {
		ok := DominatedBy(fn, helperCall, NewAvoid().AddEdge(errEdges...))
		r.Check(rule, fmt.Sprintf("fn=%s timeout-test #1 on=failure-edge", name), c.Pos(helperCall.Pos()), ok, "the release helper is entered under err != nil", "timeout exemption evaluated outside the failure branch")
		// the helper's timeout test judges the error it was handed
		okArg := false
		for _, t := range tos {
			if a := t.Common().Args; len(a) > 0 {
				if _, isParam := a[0].(*ssa.Parameter); isParam {
					okArg = true
				}
			}
		}
		r.Check(rule, fmt.Sprintf("fn=%s release-helper judges=the-write-error", name), c.Pos(helperCall.Pos()), okArg, "IsTimeoutError is applied to the error parameter", "the release helper's timeout test does not judge the error of the failed write")
	} else {
		for i, t := range tos {
			ok := DominatedBy(fn, t, NewAvoid().AddEdge(errEdges...))
			r.Check(rule, fmt.Sprintf("fn=%s timeout-test #%d on=failure-edge", name, i+1), c.Pos(t.Pos()), ok, "under err != nil", "timeout exemption evaluated outside the failure branch")
		}
	}
}

// assignSequence: on the re-allocation edge (docSequence > 0 and unusable) the previous docSequence is appended to the unused list before allocating;
// a fresh allocation that is still <= doc.Sequence is released before nextSequenceGreaterThan.
func c07AssignSequence(c *Ctx, r *Report) {
	name := "(*db.DatabaseContext).assignSequence"
	fn := c.Func(name)
	if fn == nil {
		r.Fail("C07-R4", "anchor "+name, "-", "function not found")
		return
	}
	allocs := c.Calls(fn, false, nameIs("(*db.sequenceAllocator).nextSequence"))
	gts := c.Calls(fn, false, nameIs("(*db.sequenceAllocator).nextSequenceGreaterThan"))
	rels := c.Calls(fn, false, nameIs("(*db.sequenceAllocator).releaseSequence"))
	if len(allocs) == 0 || len(gts) == 0 {
		r.Fail("C07-R4", "fn="+name+" allocation calls", c.Pos(fn.Pos()), "nextSequence / nextSequenceGreaterThan calls not found")
		return
	}
	// (a) append(unusedSequences, docSequence) dominates nextSequence on paths where docSequence > 0
	var appends []ssa.Instruction
	EachInstr(fn, false, func(in ssa.Instruction) {
		if call, ok := in.(*ssa.Call); ok {
			if b, ok := call.Call.Value.(*ssa.Builtin); ok && b.Name() == "append" && len(call.Call.Args) == 2 {
				if isParam(call.Call.Args[0], 4) || DependsOn(call.Call.Args[0], func(v ssa.Value) bool { return isParam(v, 4) }) {
					// second arg is a slice literal containing docSequence param (index 2)
					if DependsOn(call.Call.Args[1], func(v ssa.Value) bool { return isParam(v, 2) }) {
						appends = append(appends, call)
					}
				}
			}
		}
	})
	zeroEdges := EdgesWhere(fn, func(cond ssa.Value) (bool, bool) {
		b, ok := cond.(*ssa.BinOp)
		if !ok || !isParam(b.X, 2) {
			return false, false
		}
		if k, ok := constInt(b.Y); ok && k == 0 {
			switch b.Op {
			case token.GTR, token.NEQ:
				return true, false
			case token.EQL, token.LEQ:
				return true, true
			}
		}
		return false, false
	})
	for i, a := range allocs {
		ok := len(appends) > 0 && DominatedBy(fn, a, NewAvoid().AddInstr(appends...).AddEdge(zeroEdges...))
		r.Check("C07-R4", fmt.Sprintf("fn=%s realloc #%d supersedes=docSequence→unusedSequences", name, i+1), c.Pos(a.Pos()), ok,
			"the superseded sequence is appended to the unused list (or was 0) before a new one is allocated", "a CAS retry allocates a new sequence without recording the superseded one as unused")
	}
	// (b) nextSequenceGreaterThan dominated by releaseSequence(result of nextSequence)
	for i, g := range gts {
		var good []ssa.Instruction
		for _, rel := range rels {
			a := callArgs(rel)
			if len(a) >= 2 && DependsOn(a[1], c.ResultOf(0, nameIs("(*db.sequenceAllocator).nextSequence"))) {
				good = append(good, rel)
			}
		}
		ok := len(good) > 0 && DominatedBy(fn, g, NewAvoid().AddInstr(good...))
		r.Check("C07-R4", fmt.Sprintf("fn=%s greater-than #%d after=release-of-too-low-sequence", name, i+1), c.Pos(g.Pos()), ok,
			"the too-low sequence is released before allocating above the document's sequence", "a freshly allocated sequence that is not above the document's sequence is dropped without release")
	}
	// (c) doc.Sequence is assigned from the (possibly re-allocated) docSequence on the success path
	seqF := c.Field("db.SyncData", "Sequence")
	okStore := false
	for _, st := range c.storesToField(seqF) {
		if st.Parent() == fn {
			okStore = true
		}
	}
	r.Check("C07-R4", "fn="+name+" carries=doc.Sequence", c.Pos(fn.Pos()), okStore, "doc.Sequence assigned", "the allocated sequence is not stored on the document")
}

// The callback result docSequence = doc.Sequence is recorded after a successful documentUpdateFunc; documentUpdateFunc must not fail
// after assignSequence has succeeded without handing the new number back (today it can: known findings).
func c07CarriedAcrossRetries(c *Ctx, r *Report) {
	name := "(*db.DatabaseCollectionWithUser).documentUpdateFunc"
	fn := c.Func(name)
	if fn == nil {
		r.Fail("C07-R4", "anchor "+name, "-", "function not found")
		return
	}
	as := c.Calls(fn, false, nameIs("(*db.DatabaseCollectionWithUser).assignSequence"))
	if len(as) != 1 {
		r.Fail("C07-R4", "fn="+name+" call=assignSequence", c.Pos(fn.Pos()), fmt.Sprintf("expected one assignSequence call, found %d", len(as)))
		return
	}
	a := as[0].(*ssa.Call)
	// success edge of assignSequence
	var errv ssa.Value
	for _, e := range resultValues(a, 1) {
		errv = e
	}
	_, okEdges := EdgesOnValue(fn, func(v ssa.Value) bool { return unwrapLoadFree(v) == errv })
	if errv == nil || len(okEdges) == 0 {
		r.Fail("C07-R4", "fn="+name+" assignSequence error check", c.Pos(a.Pos()), "error result of assignSequence is not tested")
		return
	}
	// failure exits after that edge: calls whose error result leads to a return on the non-nil edge
	later := map[string]ssa.CallInstruction{}
	for _, b := range fn.Blocks {
		for _, in := range b.Instrs {
			call, ok := in.(*ssa.Call)
			if !ok || call == a {
				continue
			}
			res := call.Call.Signature().Results()
			if res.Len() == 0 || !isErrorType(res.At(res.Len()-1).Type()) {
				continue
			}
			// reachable after success edge?
			reach := false
			for _, e := range okEdges {
				if ReachFrom(e.To(), 0, func(x ssa.Instruction) bool { return x == ssa.Instruction(call) }, nil) != nil {
					reach = true
				}
			}
			if !reach {
				continue
			}
			// does its non-nil error edge reach a return?
			var ev ssa.Value = call
			if res.Len() > 1 {
				ev = nil
				for _, e := range resultValues(call, res.Len()-1) {
					ev = e
				}
			}
			if ev == nil {
				continue
			}
			pos, _ := EdgesOnValue(fn, func(v ssa.Value) bool { return unwrapLoadFree(v) == ev })
			for _, pe := range pos {
				if ReachFrom(pe.To(), 0, func(x ssa.Instruction) bool { _, ok := x.(*ssa.Return); return ok }, NewAvoid().AddEdge(okEdgesOf(fn, ev)...)) != nil {
					later[c.CalleeName(call)] = call
				}
			}
		}
	}
	// the caller may record the assigned sequence regardless of the outcome (store docSequence ← doc.Sequence executed on
	// every path after the call, before the error is examined)
	callerRecords := c07CallerRecordsSequence(c)
	if len(later) == 0 {
		r.Pass("C07-R4", "fn="+name+" no-failure-exit-after=assignSequence", c.Pos(a.Pos()), "no error exit between sequence assignment and return")
	}
	for cal, call := range later {
		r.Check("C07-R4", fmt.Sprintf("fn=%s failure-exit-after=assignSequence via=%s", name, cal), c.Pos(call.Pos()), callerRecords,
			"the CAS callback records the assigned sequence on every path after documentUpdateFunc returns, so a later failure still releases it",
			"documentUpdateFunc can fail after assignSequence succeeded; the caller records docSequence only on success, so the freshly allocated number is neither stored nor released")
	}
	// named result retUnusedSequences on error exits: bare return yields nil => carried sequences dropped
	top := c.Func("(*db.DatabaseCollectionWithUser).updateAndReturnDoc")
	if top != nil {
		for _, lit := range top.AnonFuncs {
			for _, call := range c.Calls(lit, false, nameIs(name)) {
				// the unusedSequences cell is overwritten from result 4 unconditionally (before the error check)
				cv := call.(*ssa.Call)
				over := false
				for _, e := range resultValues(cv, 4) {
					if refs := e.Referrers(); refs != nil {
						for _, u := range *refs {
							if st, ok := u.(*ssa.Store); ok && st.Block() == cv.Block() {
								over = true
							}
						}
					}
				}
				// does documentUpdateFunc return a nil unused list on some failure exit?
				dropsOnErr := false
				for _, ret := range Returns(fn) {
					if len(ret.Results) >= 9 {
						uv := unwrapLoadFree(ret.Results[4])
						ev := unwrapLoadFree(ret.Results[8])
						if !isNilConst(ev) && (isNilConst(uv) || isZeroLoad(uv)) {
							dropsOnErr = true
						}
					}
				}
				if over && dropsOnErr {
					r.Fail("C07-R4", "fn="+name+" failure-exit drops=carried-unusedSequences", c.Pos(call.Pos()),
						"on a failure exit documentUpdateFunc returns a nil unused-sequence list and the CAS callback overwrites the carried list with it before checking the error: sequences superseded in earlier CAS retries are never released")
				} else {
					r.Pass("C07-R4", "fn="+name+" failure-exit keeps=carried-unusedSequences", c.Pos(call.Pos()), "carried list preserved on failure exits")
				}
			}
		}
	}
}

// c07CallerRecordsSequence: in the CAS callback of updateAndReturnDoc, every return reachable after the documentUpdateFunc call
// is preceded by a store of doc.Sequence into the docSequence retry cell.
func c07CallerRecordsSequence(c *Ctx) bool {
	top := c.Func("(*db.DatabaseCollectionWithUser).updateAndReturnDoc")
	if top == nil {
		return false
	}
	seqF := c.Field("db.SyncData", "Sequence")
	for _, lit := range top.AnonFuncs {
		for _, call := range c.Calls(lit, false, nameIs("(*db.DatabaseCollectionWithUser).documentUpdateFunc")) {
			args := callArgs(call)
			if len(args) < 6 {
				return false
			}
			ad, ok := loadOf(args[4])
			if !ok {
				return false
			}
			cell := rootAddr(ad)
			var recs []ssa.Instruction
			EachInstr(lit, false, func(in ssa.Instruction) {
				if st, ok := in.(*ssa.Store); ok && rootAddr(st.Addr) == cell {
					if f, _ := fieldRead(st.Val); f == seqF {
						recs = append(recs, st)
					}
				}
			})
			if len(recs) == 0 {
				return false
			}
			// guards of the form `if doc.Sequence != existing { docSequence = doc.Sequence }` are accepted: the skipped edge is the
			// one on which no new sequence was assigned. Edges comparing doc.Sequence with a value read before the call:
			same := EdgesWhere(lit, func(cond ssa.Value) (bool, bool) {
				b, ok := cond.(*ssa.BinOp)
				if !ok || (b.Op != token.EQL && b.Op != token.NEQ) {
					return false, false
				}
				fx, _ := fieldRead(b.X)
				fy, _ := fieldRead(b.Y)
				if fx == seqF || fy == seqF {
					return true, b.Op == token.EQL
				}
				return false, false
			})
			leak := ReachAfter(call, func(in ssa.Instruction) bool { _, ok := in.(*ssa.Return); return ok }, NewAvoid().AddInstr(recs...).AddEdge(same...))
			return leak == nil
		}
	}
	return false
}

// isZeroLoad: a load of a named-result cell that has not been stored to on this path is indistinguishable here; approximate: value is a load of an Alloc.
func isZeroLoad(v ssa.Value) bool {
	if ad, ok := loadOf(v); ok {
		_, isAlloc := rootAddr(ad).(*ssa.Alloc)
		return isAlloc
	}
	return false
}

func okEdgesOf(fn *ssa.Function, ev ssa.Value) []Edge {
	_, neg := EdgesOnValue(fn, func(v ssa.Value) bool { return unwrapLoadFree(v) == ev })
	return neg
}

// c07PrincipalSite: in fn, the sequence from nextSequence must be released on every failure path of `write` (timeout excepted).
func c07PrincipalSite(c *Ctx, r *Report, fname, write string) {
	fn := c.Func(fname)
	if fn == nil {
		r.Fail("C07-R4", "anchor "+fname, "-", "function not found")
		return
	}
	allocs := c.Calls(fn, false, nameIs("(*db.sequenceAllocator).nextSequence"))
	ws := c.Calls(fn, false, nameIs(write))
	if len(allocs) == 0 || len(ws) == 0 {
		r.Fail("C07-R4", fmt.Sprintf("fn=%s allocation→%s", fname, write), c.Pos(fn.Pos()), "allocation or carrying write not found")
		return
	}
	isSeq := c.ResultOf(0, nameIs("(*db.sequenceAllocator).nextSequence"))
	var rels []ssa.Instruction
	for _, rel := range c.Calls(fn, false, nameIs("(*db.sequenceAllocator).releaseSequence")) {
		a := callArgs(rel)
		if len(a) >= 2 && DependsOn(a[1], isSeq) {
			rels = append(rels, rel)
		}
	}
	var timeoutEdges []Edge
	for _, t := range c.Calls(fn, false, nameIs("base.IsTimeoutError")) {
		tv := valueOfCall(t)
		pos, _ := EdgesOnValue(fn, func(v ssa.Value) bool { return v == tv })
		timeoutEdges = append(timeoutEdges, pos...)
	}
	for i, w := range ws {
		wc, ok := w.(*ssa.Call)
		if !ok {
			continue
		}
		// only writes that can follow an allocation carry a sequence
		after := false
		for _, al := range allocs {
			if ReachAfter(al, func(in ssa.Instruction) bool { return in == ssa.Instruction(wc) }, nil) != nil {
				after = true
			}
		}
		if !after {
			r.Pass("C07-R4", fmt.Sprintf("fn=%s write=%s #%d no-allocation-precedes", fname, write, i+1), c.Pos(w.Pos()), "no sequence is allocated on the paths to this write")
			continue
		}
		var ev ssa.Value = wc
		n := wc.Call.Signature().Results().Len()
		if n > 1 {
			for _, e := range resultValues(wc, n-1) {
				ev = e
			}
		}
		// failure edges: branches where the write's error is known non-nil, or where a predicate of it (IsCasMismatch) is true;
		// if the error is returned directly (tail position), the failure path is the return itself.
		construct := fmt.Sprintf("fn=%s failed-write=%s #%d releases=allocated-sequence", fname, write, i+1)
		leak := c07FailureLeak(c, fn, wc, ev, rels, timeoutEdges)
		r.Check("C07-R4", construct, c.Pos(w.Pos()), leak == "", "every non-timeout failure path of the carrying write releases the sequence", leak)
	}
}

// c07FailureLeak explores from the write call forward; a path that reaches a return carrying the write's error (possibly non-nil)
// without passing a release (or a timeout edge) is a leak. Returns "" if none.
func c07FailureLeak(c *Ctx, fn *ssa.Function, w *ssa.Call, ev ssa.Value, rels []ssa.Instruction, timeoutEdges []Edge) string {
	isEv := func(v ssa.Value) bool { return unwrapLoadFree(v) == ev }
	// edges on which the error is known nil are not failure paths
	_, nilEdges := EdgesOnValue(fn, isEv)
	av := NewAvoid().AddInstr(rels...).AddEdge(nilEdges...).AddEdge(timeoutEdges...)
	hit := ReachAfter(w, func(in ssa.Instruction) bool {
		ret, ok := in.(*ssa.Return)
		if !ok {
			return false
		}
		// a return whose error operand may be the write's error (or any non-nil error) on a path where err was not known nil
		for _, res := range ret.Results {
			if isErrorType(res.Type()) {
				if isNilConst(res) {
					return false
				}
				return true
			}
		}
		return false
	}, av)
	if hit != nil {
		return fmt.Sprintf("the sequence allocated before %s is not released when that write fails with a non-CAS, non-timeout error (failure path reaches the return at %s without releaseSequence)", c.CalleeName(w), c.Pos(hit.Pos()))
	}
	return ""
}

// ---- R5 key grammar ----

func c07R5(c *Ctx, r *Report) {
	r.Rule("C07-R5", "E7 tables", "unused-sequence notices are written under the key grammar the change cache parses: single = UnusedSeqPrefix + decimal; range = UnusedSeqRangeKey(from,to) = prefix + from ':' to, parsed by trimming the same prefix and splitting on ':' into exactly (from,to)", 4)
	// writer single
	rel := c.Func("(*db.sequenceAllocator).releaseSequence")
	proc := c.Func("(*db.changeCache).processUnusedSequence")
	relR := c.Func("(*db.sequenceAllocator).releaseSequenceRange")
	procR := c.Func("(*db.changeCache).processUnusedSequenceRange")
	keyR := c.Func("(*base.MetadataKeys).UnusedSeqRangeKey")
	for n, f := range map[string]*ssa.Function{"releaseSequence": rel, "processUnusedSequence": proc, "releaseSequenceRange": relR, "processUnusedSequenceRange": procR, "UnusedSeqRangeKey": keyR} {
		if f == nil {
			r.Fail("C07-R5", "anchor "+n, "-", "function not found")
			return
		}
	}
	usesPrefix := func(fn *ssa.Function, prefix string) bool {
		return len(c.Calls(fn, false, nameIs("(*base.MetadataKeys)."+prefix))) > 0
	}
	r.Check("C07-R5", "single writer/reader prefix=UnusedSeqPrefix", c.Pos(rel.Pos()), usesPrefix(rel, "UnusedSeqPrefix") && usesPrefix(proc, "UnusedSeqPrefix"), "both sides use MetadataKeys.UnusedSeqPrefix", "writer and reader of single unused-sequence notices use different prefixes")
	// writer formats "%s%d" with the sequence parameter; reader parses base 10
	fmtOK := false
	for _, call := range c.Calls(rel, false, nameIs("fmt.Sprintf")) {
		if s, ok := constString(call.Common().Args[0]); ok && s == "%s%d" {
			fmtOK = true
		}
	}
	parseOK := false
	for _, call := range c.Calls(proc, false, nameIs("strconv.ParseUint")) {
		if k, ok := constInt(call.Common().Args[1]); ok && k == 10 {
			parseOK = true
		}
	}
	r.Check("C07-R5", "single writer=decimal reader=ParseUint(base10)", c.Pos(proc.Pos()), fmtOK && parseOK, "writer %s%d / reader base-10", "single unused-sequence key number format differs between writer and reader")
	// range: writer uses UnusedSeqRangeKey(from,to) with its own parameters in order
	okOrder := false
	for _, call := range c.Calls(relR, false, nameIs("(*base.MetadataKeys).UnusedSeqRangeKey")) {
		a := callArgs(call)
		if len(a) == 2 && isParam(a[0], 2) && isParam(a[1], 3) {
			okOrder = true
		}
	}
	r.Check("C07-R5", "range writer key=UnusedSeqRangeKey(from,to)", c.Pos(relR.Pos()), okOrder, "from,to passed in order", "range key built with swapped or different bounds")
	// key function: prefix field + FormatUint(from) + ":" + FormatUint(to)
	var parts []string
	var walk func(v ssa.Value)
	walk = func(v ssa.Value) {
		if b, ok := v.(*ssa.BinOp); ok && b.Op == token.ADD {
			walk(b.X)
			walk(b.Y)
			return
		}
		if s, ok := constString(v); ok {
			parts = append(parts, "lit:"+s)
			return
		}
		if call, ok := v.(*ssa.Call); ok && c.CalleeName(call) == "strconv.FormatUint" {
			if p, ok := call.Call.Args[0].(*ssa.Parameter); ok {
				parts = append(parts, "param:"+p.Name())
				return
			}
		}
		if f, _ := fieldRead(v); f != nil {
			parts = append(parts, "field:"+f.Name())
			return
		}
		parts = append(parts, "?")
	}
	for _, ret := range Returns(keyR) {
		walk(ret.Results[0])
	}
	got := strings.Join(parts, " ")
	r.Check("C07-R5", "range key grammar=prefix from ':' to", c.Pos(keyR.Pos()), got == "field:unusedSeqRangePrefix param:fromSeq lit:: param:toSeq", got, "range key grammar changed: "+got)
	// reader: TrimPrefix(UnusedSeqRangePrefix), Split ":", len==2, [0]->from [1]->to passed in order to releaseUnusedSequenceRange
	splitOK := false
	for _, call := range c.Calls(procR, false, nameIs("strings.Split")) {
		if s, ok := constString(call.Common().Args[1]); ok && s == ":" {
			splitOK = true
		}
	}
	orderOK := false
	for _, call := range c.Calls(procR, false, nameIs("(*db.changeCache).releaseUnusedSequenceRange")) {
		a := callArgs(call)
		if len(a) >= 3 {
			i0 := idxOfParsed(c, a[1])
			i1 := idxOfParsed(c, a[2])
			orderOK = i0 == 0 && i1 == 1
		}
	}
	r.Check("C07-R5", "range reader splits ':' into (from,to)", c.Pos(procR.Pos()), usesPrefix(procR, "UnusedSeqRangePrefix") && splitOK && orderOK, "component 0 → from, component 1 → to", "range reader does not map key components (from,to) in the writer's order")
}

// idxOfParsed: v is result 0 of strconv.ParseUint(x[i], ...) → i, else -1
func idxOfParsed(c *Ctx, v ssa.Value) int {
	v = unwrapLoadFree(v)
	e, ok := v.(*ssa.Extract)
	if !ok {
		return -1
	}
	call, ok := e.Tuple.(*ssa.Call)
	if !ok || c.CalleeName(call) != "strconv.ParseUint" {
		return -1
	}
	ld, ok := call.Call.Args[0].(*ssa.UnOp)
	if !ok {
		return -1
	}
	ia, ok := ld.X.(*ssa.IndexAddr)
	if !ok {
		return -1
	}
	k, ok := constInt(ia.Index)
	if !ok {
		return -1
	}
	return int(k)
}

// c07ResyncRelease: ResyncDocument (regenerate-sequences mode) allocates inside the CAS callback through getResyncedDocument →
// assignSequence; the sequences it reports as unused can only be known after the CAS write has run, so the release must come
// after it.
func c07ResyncRelease(c *Ctx, r *Report) {
	name := "(*db.DatabaseCollectionWithUser).ResyncDocument"
	fn := c.Func(name)
	if fn == nil {
		r.Fail("C07-R4", "anchor "+name, "-", "function not found")
		return
	}
	var writes []ssa.Instruction
	for _, w := range c.Calls(fn, false, nameHasSuffix(".WriteUpdateWithXattrs")) {
		writes = append(writes, w)
	}
	rels := c.Calls(fn, false, nameIs("(*db.DatabaseCollection).releaseSequences"))
	if len(writes) == 0 || len(rels) == 0 {
		r.Fail("C07-R4", "fn="+name+" release-of-resync-sequences", c.Pos(fn.Pos()), "CAS write or release of unused sequences not found")
		return
	}
	for i, rel := range rels {
		ok := DominatedBy(fn, rel, NewAvoid().AddInstr(writes...))
		r.Check("C07-R4", fmt.Sprintf("fn=%s releaseSequences #%d after=CAS-write", name, i+1), c.Pos(rel.Pos()), ok,
			"the unused sequences are released after the CAS write that determines them", "releaseSequences(unusedSequences) runs before the CAS write whose callback assigns that list (dead release): sequences superseded or left over when resync regenerates sequences are never published as unused")
	}
}
