package main

import (
	"fmt"
	"go/constant"
	"go/token"
	"go/types"
	"sort"
	"strings"

	"golang.org/x/tools/go/ssa"
)

func init() { registry["C04"] = checkC04 }

func checkC04(c *Ctx, r *Report) {
	r.Explain = "Decides structural necessary conditions of well-formed revision trees with a deterministic winner: (R1) compareRevIDs is, for all generations and digests, the lexicographic order on (generation, digest) — evaluated abstractly over every weak ordering of the two generations and two digests; (R2) the winner fold replaces the incumbent exactly when (not deleted, revID) is lexicographically greater, for all combinations, and reports branched/conflict as leaf counts > 1 — together with R1 (a total order) this makes the winner independent of leaf iteration order; (R3) a revision enters the tree only after the duplicate check, the parent-exists check and the strictly-higher-generation check; (R4) the document's current revision and deleted/conflict/branched flags are assigned from the winner computation only; (R5) the stored form is symmetric: every field of the wire struct the encoder fills is consumed by the decoder, every RevInfo field the encoder reads the decoder restores, and the revs/parents length validation precedes tree construction; (R6) pruning snips dangling parent links after every deletion pass; (R7) a failure to store a displaced revision body aborts the update, so the tree never points at a body that was not written; (R8) the leaf-derived indicators are recomputed after the write path's last tree-changing step (pruning). Not decided: forest shape after arbitrary histories, leaf-set equality across insertion orders, pruning depth arithmetic, digest determinism."
	c04R1R2(c, r)
	c04R3(c, r)
	c04R4(c, r)
	c04R5(c, r)
	c04R6(c, r)
	c04R7(c, r)
	c04R8(c, r)
}

func c04R1R2(c *Ctx, r *Report) {
	r.Rule("C04-R1", "E6 cmpeval", "compareRevIDs(id1,id2) = sign of lexicographic comparison of (generation, digest), for every weak ordering of the generations and digests", 1)
	r.Rule("C04-R2", "E6 cmpeval", "the winner fold replaces the incumbent iff (exists, revID) > (winnerExists, winner) lexicographically; branched = leaves>1, inConflict = active leaves>1", 2)
	cmp := c.Func("db.compareRevIDs")
	win := c.Func("(db.RevTree).winningRevision")
	if cmp == nil || win == nil {
		r.Fail("C04-R1", "anchor compareRevIDs/winningRevision", "-", "function not found")
		return
	}
	// symbols: 1=gen1 2=gen2 3=sha1 4=sha2
	bad := ""
	n := forEachWeakOrdering(4, func(rank []int) bool {
		v, left := evalWith(c, cmp, rank, func(ev *cmpEval) {
			ev.uninterp["db.ParseRevID"] = func(ev *cmpEval, a []aval) aval {
				id, _ := a[1].(aOpaque)
				if id.what == "id1" {
					return aTuple{aSym{1}, aSym{3}}
				}
				return aTuple{aSym{2}, aSym{4}}
			}
		}, aOpaque{"ctx"}, aOpaque{"id1"}, aOpaque{"id2"})
		if left != "" {
			bad = "left the comparison-only fragment: " + left
			return false
		}
		got, ok := asInt(v)
		if !ok {
			bad = fmt.Sprintf("non-integer result %v", v)
			return false
		}
		want := int64(0)
		switch {
		case rank[1] > rank[2]:
			want = 1
		case rank[1] < rank[2]:
			want = -1
		case rank[3] > rank[4]:
			want = 1
		case rank[3] < rank[4]:
			want = -1
		}
		if got != want && bad == "" {
			bad = fmt.Sprintf("gen1=%d gen2=%d digest1=%d digest2=%d: got %d, want %d", rank[1], rank[2], rank[3], rank[4], got, want)
		}
		return true
	})
	r.Check("C04-R1", "fn=db.compareRevIDs = lexicographic(generation, digest)", c.Pos(cmp.Pos()), bad == "", fmt.Sprintf("holds under all %d order types", n), "revision comparison is not generation-first-then-digest: "+bad)

	// R2: the literal passed to forEachLeaf
	var lit *ssa.Function
	var litMC *ssa.MakeClosure
	for _, call := range c.Calls(win, false, nameIs("(db.RevTree).forEachLeaf")) {
		for _, a := range call.Common().Args {
			if mc, ok := unwrap(a).(*ssa.MakeClosure); ok {
				lit, _ = mc.Fn.(*ssa.Function)
				litMC = mc
			}
		}
	}
	if lit == nil {
		r.Fail("C04-R2", "fn=(db.RevTree).winningRevision leaf-fold", c.Pos(win.Pos()), "the winner is no longer computed by a fold over the leaves")
		return
	}
	// fold state, identified by role (not by name): the cell returned as the winner, the cells whose '> 1' tests are returned as
	// branched / inConflict, and the one captured boolean (does the incumbent exist)
	cellIdx := map[ssa.Value]int{}
	for i, b := range litMC.Bindings {
		cellIdx[b] = i
	}
	cellOfLoad := func(v ssa.Value) ssa.Value {
		if ad, ok := loadOf(v); ok {
			return rootAddr(ad)
		}
		return nil
	}
	countCell := func(v ssa.Value) ssa.Value {
		b, ok := unwrapLoadFree(v).(*ssa.BinOp)
		if !ok || b.Op != token.GTR {
			return nil
		}
		if k, ok := constInt(b.Y); !ok || k != 1 {
			return nil
		}
		return cellOfLoad(b.X)
	}
	fvIdx := map[string]int{}
	for _, ret := range Returns(win) {
		if len(ret.Results) != 3 {
			continue
		}
		if cl := cellOfLoad(ret.Results[0]); cl != nil {
			if i, ok := cellIdx[cl]; ok {
				fvIdx["winner"] = i
			}
		}
		if cl := countCell(ret.Results[1]); cl != nil {
			if i, ok := cellIdx[cl]; ok {
				fvIdx["leafCount"] = i
			}
		}
		if cl := countCell(ret.Results[2]); cl != nil {
			if i, ok := cellIdx[cl]; ok {
				fvIdx["activeLeafCount"] = i
			}
		}
	}
	nBool := 0
	for i, fv := range lit.FreeVars {
		if pt, ok := fv.Type().(*types.Pointer); ok && isBoolType(pt.Elem()) {
			fvIdx["winnerExists"] = i
			nBool++
		}
		if pt, ok := fv.Type().(*types.Pointer); !ok || namedOf(pt.Elem()) == "Context" {
			if _, isPtr := fv.Type().(*types.Pointer); !isPtr {
				fvIdx["ctx"] = i
			}
		}
	}
	if a, b := fvIdx["leafCount"], fvIdx["activeLeafCount"]; a == b {
		delete(fvIdx, "activeLeafCount")
	}
	for _, need := range []string{"winner", "winnerExists", "leafCount", "activeLeafCount"} {
		if _, ok := fvIdx[need]; !ok || (need == "winnerExists" && nBool != 1) {
			r.Fail("C04-R2", "fn=(db.RevTree).winningRevision$fold state="+need, c.Pos(lit.Pos()), "fold state could not be identified by role (returned winner cell / '>1' count cells / single captured boolean); rule must be re-confirmed")
			return
		}
	}
	riT := c.NamedType("db.RevInfo")
	if riT == nil {
		r.Fail("C04-R2", "anchor db.RevInfo", "-", "type not found")
		return
	}
	st := riT.Underlying().(*types.Struct)
	fIdx := map[string]int{}
	for i := 0; i < st.NumFields(); i++ {
		fIdx[st.Field(i).Name()] = i
	}
	bad2 := ""
	cases := 0
	for _, exists := range []bool{true, false} {
		for _, winnerExists := range []bool{true, false} {
			for _, sign := range []int64{-1, 0, 1} {
				cases++
				info := zeroOf(riT).(*aStruct)
				var idv aval = aOpaque{"leaf"}
				*info.cells[fIdx["ID"]] = idv
				var dv aval = aBool(!exists)
				*info.cells[fIdx["Deleted"]] = dv
				cells := make([]*aval, len(lit.FreeVars))
				bind := make([]aval, len(lit.FreeVars))
				for i := range cells {
					cells[i] = new(aval)
					*cells[i] = aOpaque{"unset"}
					bind[i] = aPtr{cell: cells[i]}
				}
				*cells[fvIdx["winner"]] = aOpaque{"incumbent"}
				*cells[fvIdx["winnerExists"]] = aBool(winnerExists)
				*cells[fvIdx["leafCount"]] = aSym{0}
				*cells[fvIdx["activeLeafCount"]] = aSym{0}
				for i, fv := range lit.FreeVars {
					if _, isPtr := fv.Type().(*types.Pointer); !isPtr {
						bind[i] = aOpaque{"captured " + fv.Type().String()}
					}
				}
				left := func() (left string) {
					defer func() {
						if p := recover(); p != nil {
							if e, ok := p.(errLeftFragment); ok {
								left = e.msg
								return
							}
							panic(p)
						}
					}()
					ev := newCmpEval(c, &ordering{rank: []int{0}})
					ev.uninterp["db.compareRevIDs"] = func(ev *cmpEval, a []aval) aval {
						// must compare (leaf, incumbent) in this order
						x, _ := a[1].(aOpaque)
						y, _ := a[2].(aOpaque)
						if x.what == "leaf" && y.what == "incumbent" {
							return mkInt(sign)
						}
						if x.what == "incumbent" && y.what == "leaf" {
							return mkInt(-sign)
						}
						leave("compareRevIDs called on unexpected operands %v %v", a[1], a[2])
						return nil
					}
					ev.Call(lit, []aval{aPtr{str: info}}, bind)
					return ""
				}()
				if left != "" {
					bad2 = "fold left the fragment: " + left
					break
				}
				w, _ := (*cells[fvIdx["winner"]]).(aOpaque)
				replaced := w.what == "leaf"
				want := (exists && !winnerExists) || (exists == winnerExists && sign > 0)
				we, _ := (*cells[fvIdx["winnerExists"]]).(aBool)
				lc, _ := asInt(*cells[fvIdx["leafCount"]])
				ac, _ := asInt(*cells[fvIdx["activeLeafCount"]])
				wantAC := int64(0)
				if exists {
					wantAC = 1
				}
				if replaced != want || (replaced && bool(we) != exists) || (!replaced && bool(we) != winnerExists) || lc != 1 || ac != wantAC {
					if bad2 == "" {
						bad2 = fmt.Sprintf("leaf exists=%v incumbent exists=%v compare=%d: replaced=%v (want %v) winnerExists=%v leafCount+=%d activeLeafCount+=%d", exists, winnerExists, sign, replaced, want, we, lc, ac)
					}
				}
			}
		}
	}
	r.Check("C04-R2", "fn=(db.RevTree).winningRevision$fold replace-iff=(exists,revID)>(winnerExists,winner)", c.Pos(lit.Pos()), bad2 == "", fmt.Sprintf("holds for all %d abstract cases", cases), "winner selection is not 'maximise (not deleted, generation, digest)': "+bad2)
	// branched / inConflict derive from counts > 1
	okB := false
	okC := false
	for _, ret := range Returns(win) {
		if len(ret.Results) == 3 {
			cb, cc := countCell(ret.Results[1]), countCell(ret.Results[2])
			okB = cb != nil
			okC = cc != nil && cc != cb
		}
	}
	r.Check("C04-R2", "fn=(db.RevTree).winningRevision branched=leafCount>1 inConflict=activeLeafCount>1", c.Pos(win.Pos()), okB && okC, "flags are the leaf counts compared with 1", "branched/conflict indicators no longer derive from the leaf counts")
}

func c04R3(c *Ctx, r *Report) {
	r.Rule("C04-R3", "E2 pathrules", "addRevision stores tree[revid] only after: not-already-contained; if a parent is named, it exists and the new generation is strictly greater than the parent's (or a revID failed to parse)", 3)
	fn := c.Func("(db.RevTree).addRevision")
	if fn == nil {
		r.Fail("C04-R3", "anchor (db.RevTree).addRevision", "-", "function not found")
		return
	}
	var stores []ssa.Instruction
	EachInstr(fn, false, func(in ssa.Instruction) {
		if mu, ok := in.(*ssa.MapUpdate); ok && isParam(mu.Map, 0) {
			stores = append(stores, mu)
		}
	})
	if len(stores) != 1 {
		r.Fail("C04-R3", "fn=(db.RevTree).addRevision insert", c.Pos(fn.Pos()), fmt.Sprintf("expected one insertion into the tree, found %d", len(stores)))
		return
	}
	ins := stores[0]
	// (a) duplicate check
	var notContained []Edge
	for _, call := range c.Calls(fn, false, nameIs("(db.RevTree).contains")) {
		cv := valueOfCall(call)
		_, neg := EdgesOnValue(fn, func(v ssa.Value) bool { return v == cv })
		notContained = append(notContained, neg...)
	}
	r.Check("C04-R3", "fn=(db.RevTree).addRevision insert after=not-contained", c.Pos(ins.Pos()), len(notContained) > 0 && DominatedBy(fn, ins, NewAvoid().AddEdge(notContained...)),
		"dominated by !contains(revid)", "a revision can be inserted over an existing one")
	// (b) parent exists: lookup commaok on tree[p]
	var parentOK, noParent []Edge
	for _, i := range Ifs(fn) {
		v, pos := BoolTest(i.Cond)
		if e, ok := v.(*ssa.Extract); ok && e.Index == 1 {
			if lk, ok := e.Tuple.(*ssa.Lookup); ok && lk.CommaOk && isParam(lk.X, 0) {
				if pos {
					parentOK = append(parentOK, Edge{i.Block(), 0})
				} else {
					parentOK = append(parentOK, Edge{i.Block(), 1})
				}
			}
		}
		// p != "" test
		if b, ok := i.Cond.(*ssa.BinOp); ok && (b.Op == token.NEQ || b.Op == token.EQL) {
			if s, ok := constString(b.Y); ok && s == "" {
				if f, _ := fieldRead(b.X); f != nil && f.Name() == "Parent" {
					if b.Op == token.NEQ {
						noParent = append(noParent, Edge{i.Block(), 1})
					} else {
						noParent = append(noParent, Edge{i.Block(), 0})
					}
				}
			}
		}
	}
	r.Check("C04-R3", "fn=(db.RevTree).addRevision insert after=parent-exists|no-parent", c.Pos(ins.Pos()), len(parentOK) > 0 && len(noParent) > 0 && DominatedBy(fn, ins, NewAvoid().AddEdge(parentOK...).AddEdge(noParent...)),
		"dominated by tree[parent] present, or no parent named", "a revision can be inserted under a parent that is not in the tree")
	// (c) strictly higher generation
	isGen := func(v ssa.Value) bool {
		e, ok := v.(*ssa.Extract)
		if !ok || e.Index != 0 {
			return false
		}
		call, ok := e.Tuple.(*ssa.Call)
		return ok && c.CalleeName(call) == "db.parseRevID"
	}
	var strict, parseFail []Edge
	for _, i := range Ifs(fn) {
		if b, ok := i.Cond.(*ssa.BinOp); ok && isGen(b.X) && isGen(b.Y) {
			// generation OP parentGeneration — identify which side is the child: the one parsed from the revid (info.ID)
			childLeft := DependsOn(b.X.(*ssa.Extract).Tuple.(*ssa.Call).Call.Args[0], func(v ssa.Value) bool { f, _ := fieldRead(v); return f != nil && f.Name() == "ID" })
			op := b.Op
			if !childLeft {
				switch op {
				case token.LSS:
					op = token.GTR
				case token.GTR:
					op = token.LSS
				case token.LEQ:
					op = token.GEQ
				case token.GEQ:
					op = token.LEQ
				}
			}
			switch op {
			case token.GTR:
				strict = append(strict, Edge{i.Block(), 0})
			case token.LEQ:
				strict = append(strict, Edge{i.Block(), 1})
			}
		}
		// parse error edges: err != nil of parseRevID
		if x, trueMeansNil, ok := NilTest(i.Cond); ok {
			if e, ok := x.(*ssa.Extract); ok && e.Index == 2 {
				if call, ok := e.Tuple.(*ssa.Call); ok && c.CalleeName(call) == "db.parseRevID" {
					if trueMeansNil {
						parseFail = append(parseFail, Edge{i.Block(), 1})
					} else {
						parseFail = append(parseFail, Edge{i.Block(), 0})
					}
				}
			}
		}
	}
	ok := len(strict) > 0 && DominatedBy(fn, ins, NewAvoid().AddEdge(strict...).AddEdge(parseFail...).AddEdge(noParent...))
	r.Check("C04-R3", "fn=(db.RevTree).addRevision insert after=generation>parent-generation", c.Pos(ins.Pos()), ok,
		"every path with a parent passes (generation > parent generation) or an unparsable revID", "a child whose generation is not strictly higher than its parent's can be inserted: the tree stops being generation-increasing and the branch cannot be encoded as a _revisions list")
}

func c04R4(c *Ctx, r *Report) {
	r.Rule("C04-R4", "E3 whomay + def-use", "updateWinningRevAndSetDocFlags derives current revision and the Deleted/Conflict/Branched flags from winningRevision", 2)
	fn := c.Func("(*db.Document).updateWinningRevAndSetDocFlags")
	if fn == nil {
		r.Fail("C04-R4", "anchor (*db.Document).updateWinningRevAndSetDocFlags", "-", "function not found")
		return
	}
	ws := c.Calls(fn, false, nameIs("(db.RevTree).winningRevision"))
	r.Check("C04-R4", "fn=(*db.Document).updateWinningRevAndSetDocFlags uses=winningRevision", c.Pos(fn.Pos()), len(ws) == 1, "one winner computation", "flags are no longer computed from the winner fold")
	if len(ws) != 1 {
		return
	}
	// the revision id set as current derives from result 0
	okSet := false
	EachInstr(fn, false, func(in ssa.Instruction) {
		if call, ok := in.(ssa.CallInstruction); ok {
			n := CalleeIdent(call)
			if strings.HasPrefix(n, "SetRevTreeID") || n == "setRevTreeID" {
				for _, a := range call.Common().Args {
					if DependsOn(a, c.ResultOf(0, nameIs("(db.RevTree).winningRevision"))) {
						okSet = true
					}
				}
			}
		}
		if st, ok := in.(*ssa.Store); ok {
			if fa, ok := st.Addr.(*ssa.FieldAddr); ok {
				f := structField(fa.X.Type(), fa.Field)
				if f != nil && (f.Name() == "RevTreeID" || f.Name() == "CurrentRev") && DependsOn(st.Val, c.ResultOf(0, nameIs("(db.RevTree).winningRevision"))) {
					okSet = true
				}
			}
		}
	})
	r.Check("C04-R4", "fn=(*db.Document).updateWinningRevAndSetDocFlags current-rev=winner", c.Pos(fn.Pos()), okSet, "current revision assigned from the winner", "the document's current revision is not the computed winner")
	// flags: setFlag(channels.X, value) with value from the fold
	flagConst := func(name string) (int64, bool) {
		sp := c.SSAPkg["channels"]
		if sp == nil {
			return 0, false
		}
		obj := sp.Pkg.Scope().Lookup(name)
		k, ok := obj.(*types.Const)
		if !ok {
			return 0, false
		}
		v, exact := constantInt64(k)
		return v, exact
	}
	want := map[string]func(v ssa.Value) bool{
		"Branched": func(v ssa.Value) bool { return c.ResultOf(1, nameIs("(db.RevTree).winningRevision"))(unwrapLoadFree(v)) },
		"Conflict": func(v ssa.Value) bool { return c.ResultOf(2, nameIs("(db.RevTree).winningRevision"))(unwrapLoadFree(v)) },
		"Deleted": func(v ssa.Value) bool {
			f, _ := fieldRead(v)
			return f != nil && f.Name() == "Deleted" && DependsOn(v, c.ResultOf(0, nameIs("(db.RevTree).winningRevision")))
		},
	}
	for _, flag := range []string{"Branched", "Conflict", "Deleted"} {
		kv, ok := flagConst(flag)
		if !ok {
			r.Fail("C04-R4", "anchor channels."+flag, "-", "flag constant not found")
			continue
		}
		found, good := false, false
		for _, call := range c.Calls(fn, false, nameIs("(*db.Document).setFlag")) {
			a := callArgs(call)
			if k, isK := constInt(a[0]); isK && k == kv {
				found = true
				good = want[flag](a[1])
			}
		}
		r.Check("C04-R4", "fn=(*db.Document).updateWinningRevAndSetDocFlags flag="+flag+" from=winner-fold", c.Pos(fn.Pos()), found && good, "flag value taken from the fold's result", flag+" indicator is not assigned from the winner computation")
	}
}

// fieldsTouched returns the names of fields of struct type T that fn reads (write=false) or writes (write=true), deep.
func fieldsTouched(c *Ctx, fn *ssa.Function, T *types.Named, write bool) map[string]bool {
	out := map[string]bool{}
	st, ok := T.Underlying().(*types.Struct)
	if !ok {
		return out
	}
	isT := func(t types.Type) bool {
		if p, ok := t.Underlying().(*types.Pointer); ok {
			t = p.Elem()
		}
		return types.Identical(t, T)
	}
	EachInstr(fn, true, func(in ssa.Instruction) {
		switch x := in.(type) {
		case *ssa.FieldAddr:
			if !isT(x.X.Type()) {
				return
			}
			name := st.Field(x.Field).Name()
			w := addrWritten(x)
			if write && w {
				out[name] = true
			}
			if !write {
				// read if loaded anywhere
				if refs := x.Referrers(); refs != nil {
					for _, rf := range *refs {
						if u, ok := rf.(*ssa.UnOp); ok && u.Op == token.MUL {
							out[name] = true
						}
					}
				}
			}
		case *ssa.Field:
			if isT(x.X.Type()) && !write {
				out[st.Field(x.Field).Name()] = true
			}
		}
	})
	return out
}

func c04R5(c *Ctx, r *Report) {
	r.Rule("C04-R5", "E7 tables", "revision tree codec symmetry: wire fields written by MarshalJSON ⊆ wire fields read by UnmarshalJSON; RevInfo fields read by the encoder = RevInfo fields restored by the decoder; length validation precedes construction", 3)
	enc := c.Func("(db.RevTree).MarshalJSON")
	dec := c.Func("(*db.RevTree).UnmarshalJSON")
	wire := c.NamedType("db.revTreeList")
	ri := c.NamedType("db.RevInfo")
	if enc == nil || dec == nil || wire == nil || ri == nil {
		r.Fail("C04-R5", "anchor RevTree codec", "-", "function or type not found")
		return
	}
	// composite literal initialisation of rep counts as writes (stores through FieldAddr of the Alloc)
	w := fieldsTouched(c, enc, wire, true)
	rd := fieldsTouched(c, dec, wire, false)
	var missing []string
	for f := range w {
		if !rd[f] {
			missing = append(missing, f)
		}
	}
	sort.Strings(missing)
	r.Check("C04-R5", "wire=revTreeList encoder-writes⊆decoder-reads", c.Pos(enc.Pos()), len(missing) == 0 && len(w) >= 5, fmt.Sprintf("encoder fills %v", keys(w)), "fields stored by the encoder but never read back by the decoder: "+strings.Join(missing, ","))
	er := fieldsTouched(c, enc, ri, false)
	dw := fieldsTouched(c, dec, ri, true)
	// fields written via composite literal RevInfo{ID: revid}: stores into Alloc — covered by addrWritten
	var lost []string
	for f := range er {
		if !dw[f] {
			lost = append(lost, f)
		}
	}
	sort.Strings(lost)
	r.Check("C04-R5", "struct=RevInfo encoder-reads⊆decoder-restores", c.Pos(dec.Pos()), len(lost) == 0 && len(er) >= 5, fmt.Sprintf("encoder persists %v", keys(er)), "revision properties persisted by the encoder but not restored by the decoder: "+strings.Join(lost, ","))
	// validation: len(rep.Revs)==len(rep.Parents) dominates the make(RevTree)
	var mk []ssa.Instruction
	EachInstr(dec, false, func(in ssa.Instruction) {
		if m, ok := in.(*ssa.MakeMap); ok && namedOf(m.Type()) == "RevTree" {
			mk = append(mk, m)
		}
	})
	eq := EdgesWhere(dec, func(cond ssa.Value) (bool, bool) {
		v, pos := BoolTest(cond)
		b, ok := v.(*ssa.BinOp)
		if !ok || (b.Op != token.EQL && b.Op != token.NEQ) {
			return false, false
		}
		isLenOf := func(x ssa.Value, field string) bool {
			call, ok := x.(*ssa.Call)
			if !ok {
				return false
			}
			if bi, ok := call.Call.Value.(*ssa.Builtin); !ok || bi.Name() != "len" {
				return false
			}
			f, _ := fieldRead(call.Call.Args[0])
			return f != nil && f.Name() == field
		}
		if (isLenOf(b.X, "Revs") && isLenOf(b.Y, "Parents")) || (isLenOf(b.X, "Parents") && isLenOf(b.Y, "Revs")) {
			onTrue := b.Op == token.EQL
			if !pos {
				onTrue = !onTrue
			}
			return true, onTrue
		}
		return false, false
	})
	ok := len(mk) > 0 && len(eq) > 0
	for _, m := range mk {
		if !DominatedBy(dec, m, NewAvoid().AddEdge(eq...)) {
			ok = false
		}
	}
	r.Check("C04-R5", "fn=(*db.RevTree).UnmarshalJSON construct after=len(revs)==len(parents)", c.Pos(dec.Pos()), ok, "tree built only from consistent arrays", "a stored tree with inconsistent revs/parents arrays would be decoded (index panic or wrong parents)")
}

func constantInt64(k *types.Const) (int64, bool) {
	return constant.Int64Val(constant.ToInt(k.Val()))
}

func keys(m map[string]bool) []string {
	var out []string
	for k := range m {
		out = append(out, k)
	}
	sort.Strings(out)
	return out
}

func c04R6(c *Ctx, r *Report) {
	r.Rule("C04-R6", "E2 pathrules", "pruneRevisions: after every deletion pass (depth pruning, tombstoned-branch deletion) every path to return passes the dangling-parent snip", 2)
	fn := c.Func("(db.RevTree).pruneRevisions")
	if fn == nil {
		r.Fail("C04-R6", "anchor (db.RevTree).pruneRevisions", "-", "function not found")
		return
	}
	// snip sites: Parent = "" stores, or calls of helpers that contain them
	isSnip := func(in ssa.Instruction) bool {
		if st, ok := in.(*ssa.Store); ok {
			if fa, ok := st.Addr.(*ssa.FieldAddr); ok {
				if f := structField(fa.X.Type(), fa.Field); f != nil && f.Name() == "Parent" && namedOf(fa.X.Type()) == "RevInfo" {
					if s, ok := constString(st.Val); ok && s == "" {
						return true
					}
				}
			}
		}
		return false
	}
	snips := c.EffectSites(fn, isSnip, 2)
	if len(snips) == 0 {
		r.Fail("C04-R6", "fn=(db.RevTree).pruneRevisions snip", c.Pos(fn.Pos()), "dangling parent links are no longer snipped after pruning")
		return
	}
	// the guard test `pruned > 0` whose true side reaches the snip: take the If blocks that dominate a snip and test a counter > 0
	var guards []ssa.Instruction
	for _, i := range Ifs(fn) {
		if b, ok := i.Cond.(*ssa.BinOp); ok && b.Op == token.GTR {
			if k, ok := constInt(b.Y); ok && k == 0 {
				for _, s := range snips {
					if i.Block().Dominates(s.Block()) {
						guards = append(guards, i)
					}
				}
			}
		}
	}
	if len(guards) == 0 {
		// unconditional snip loop: use the loop-head block that dominates the snip
		for _, s := range snips {
			guards = append(guards, s)
		}
	}
	isRet := func(in ssa.Instruction) bool { _, ok := in.(*ssa.Return); return ok }
	isDel := func(in ssa.Instruction) bool {
		if call, ok := in.(*ssa.Call); ok {
			if bi, ok := call.Call.Value.(*ssa.Builtin); ok && bi.Name() == "delete" && len(call.Call.Args) > 0 && namedOf(call.Call.Args[0].Type()) == "RevTree" {
				return true
			}
			if c.CalleeName(call) == "(db.RevTree).DeleteBranch" {
				return true
			}
		}
		return false
	}
	dels := c.EffectSites(fn, isDel, 2)
	for i, d := range dels {
		leak := ReachAfter(d, isRet, NewAvoid().AddInstr(guards...))
		r.Check("C04-R6", fmt.Sprintf("fn=(db.RevTree).pruneRevisions deletion #%d followed-by=dangling-parent-snip", i+1), c.Pos(d.Pos()), leak == nil,
			"every path from this deletion to return passes the snip", "revisions can be deleted on a path that returns without snipping dangling parent links: survivors keep a parent that is no longer in the tree")
	}
	if len(dels) < 2 {
		r.Fail("C04-R6", "fn=(db.RevTree).pruneRevisions deletion-sites", c.Pos(fn.Pos()), "expected depth pruning and tombstoned-branch deletion sites")
	}
}

// C04-R7: a revision whose body is moved out of the document (a displaced, non-winning leaf) must not be committed pointing at
// a body that was never stored: every failure of storing such a body aborts the update. Otherwise a later promotion of that leaf
// finds no body and the document carries another branch's content under the promoted revision id.
func c04R7(c *Ctx, r *Report) {
	r.Rule("C04-R7", "E5 failedge (strict)", "failures of persisting displaced revision bodies propagate out of the write path (persistRevisionBody in persistModifiedRevisionBodies, persistModifiedRevisionBodies in documentUpdateFunc)", 2)
	fe := newFailEdge(c)
	for _, s := range []struct{ fn, callee string }{
		{"(*db.DatabaseCollectionWithUser).documentUpdateFunc", "(*db.Document).persistModifiedRevisionBodies"},
		{"(*db.Document).persistModifiedRevisionBodies", "(*db.Document).persistRevisionBody"},
	} {
		fn := c.Func(s.fn)
		if fn == nil {
			r.Fail("C04-R7", "anchor "+s.fn, "-", "function not found")
			continue
		}
		calls := c.Calls(fn, false, nameIs(s.callee))
		if len(calls) == 0 {
			r.Fail("C04-R7", "fn="+s.fn+" call="+CalleeIdentOf(s.callee), c.Pos(fn.Pos()), "the call that stores displaced revision bodies was not found")
		}
		for i, call := range calls {
			cv, ok := call.(*ssa.Call)
			if !ok {
				r.Fail("C04-R7", fmt.Sprintf("fn=%s call=%s #%d", s.fn, CalleeIdentOf(s.callee), i+1), c.Pos(call.Pos()), "invoked via go/defer: failure unobservable")
				continue
			}
			v := fe.classifyStrict(fn, cv)
			r.Check("C04-R7", fmt.Sprintf("fn=%s call=%s #%d failure-aborts-update", s.fn, CalleeIdentOf(s.callee), i+1), c.Pos(call.Pos()), v.Verdict == "propagating",
				"a body that could not be stored aborts the write", "a failed store of a displaced revision body does not abort the update: the revision tree is committed pointing at a body key that was never written; when that leaf is later promoted the document carries another branch's content under its revision id ("+v.Detail+")")
		}
	}
}

// C04-R8: the deleted / conflict / branched indicators are derived from the leaves, so they have to be (re)computed after the last
// operation of the write that can change the set of leaves: pruning can delete whole tombstoned branches.
func c04R8(c *Ctx, r *Report) {
	r.Rule("C04-R8", "E2 pathrules (must-follow)", "in documentUpdateFunc every pruning of the revision tree is followed, on every path to the function's exit, by a recomputation of the leaf-derived indicators (winningRevision → setFlag / updateWinningRevAndSetDocFlags)", 1)
	fn := c.Func("(*db.DatabaseCollectionWithUser).documentUpdateFunc")
	if fn == nil {
		r.Fail("C04-R8", "anchor documentUpdateFunc", "-", "function not found")
		return
	}
	prunes := c.EffectSites(fn, func(in ssa.Instruction) bool {
		ci, ok := in.(ssa.CallInstruction)
		return ok && (c.CalleeName(ci) == "(*db.Document).pruneRevisions" || c.CalleeName(ci) == "(db.RevTree).pruneRevisions")
	}, 2)
	recompute := c.EffectSites(fn, func(in ssa.Instruction) bool {
		ci, ok := in.(ssa.CallInstruction)
		if !ok {
			return false
		}
		n := c.CalleeName(ci)
		return n == "(*db.Document).updateWinningRevAndSetDocFlags" || n == "(db.RevTree).winningRevision"
	}, 2)
	if len(prunes) == 0 {
		r.Fail("C04-R8", "fn=documentUpdateFunc prune-site", c.Pos(fn.Pos()), "the write path no longer prunes the revision tree (anchor lost)")
		return
	}
	isRet := func(in ssa.Instruction) bool { _, ok := in.(*ssa.Return); return ok }
	for i, p := range prunes {
		// a path on which the pruning reported that nothing was removed needs no recomputation
		var nothingPruned []Edge
		if pv := valueOfCall(p.(ssa.CallInstruction)); pv != nil {
			nothingPruned = EdgesWhere(fn, func(cond ssa.Value) (bool, bool) {
				b, ok := cond.(*ssa.BinOp)
				if !ok || b.X != pv {
					return false, false
				}
				if k, isK := constInt(b.Y); !isK || k != 0 {
					return false, false
				}
				switch b.Op {
				case token.GTR, token.NEQ:
					return true, false
				case token.EQL, token.LEQ:
					return true, true
				}
				return false, false
			})
		}
		leak := ReachAfter(p, isRet, NewAvoid().AddInstr(recompute...).AddEdge(nothingPruned...))
		r.Check("C04-R8", fmt.Sprintf("fn=documentUpdateFunc prune #%d followed-by=indicator-recomputation", i+1), c.Pos(p.Pos()), leak == nil,
			"the indicators are recomputed from the leaves that remain after pruning", "the revision tree is pruned after the deleted/conflict/branched indicators were computed and they are not recomputed: when pruning removes a whole tombstoned branch the stored document says 'branched' although it has a single leaf")
	}
}
