package main

import (
	"os"
	"fmt"
	"go/constant"
	"go/token"
	"go/types"

	"golang.org/x/tools/go/ssa"
)

// E6 cmpeval — abstract interpretation of comparison-only code over order types.
//
// Integer (and string) inputs are *symbols*. The evaluator accepts a function only if symbols are never combined
// arithmetically: they may be copied, stored in struct fields, passed to in-fragment callees and compared with
// == != < <= > >= against other symbols or the constants occurring in the code. For such code two concrete inputs that
// induce the same weak ordering of the symbols (together with the constants) take the same path and produce the same
// comparison outcomes — so evaluating the function once per weak ordering decides it for ALL values of the input type,
// not for a sample. A weak ordering is represented by the rank of each symbol; rank 0 is reserved for the unsigned
// constant 0 (every unsigned symbol has rank >= 0). No sync_gateway code is executed: the evaluator walks the SSA form.
//
// Anything outside the fragment (arithmetic on a symbol, an unknown callee, a conversion that is not the identity on the
// order) raises errLeftFragment and the obligation is reported as undischarged (fail closed).

type aval interface{}

type aSym struct{ id int } // symbol id; 0 = the constant zero
type aBool bool
type aInt struct{ v int64 } // a concrete small integer constant (result codes, counters); arithmetic on these is allowed
type aNil struct{}
type aOpaque struct{ what string } // value the fragment may carry around but never inspect
type aStruct struct{ cells []*aval }
type aPtr struct {
	cell *aval
	str  *aStruct // pointer to a struct (Alloc of struct)
}
type aTuple []aval
type aClosure struct {
	fn   *ssa.Function
	bind []aval
}

type errLeftFragment struct{ msg string }

func (e errLeftFragment) Error() string { return e.msg }

func leave(format string, args ...any) { panic(errLeftFragment{fmt.Sprintf(format, args...)}) }

// ordering: rank[id] for every symbol id (rank[0] == 0 always).
type ordering struct {
	rank []int
}

func (o *ordering) cmp(a, b aSym) int {
	ra, rb := o.rank[a.id], o.rank[b.id]
	switch {
	case ra < rb:
		return -1
	case ra > rb:
		return 1
	}
	return 0
}

type cmpEval struct {
	c     *Ctx
	ord   *ordering
	depth int
	steps int
	// uninterpreted functions: name -> handler
	uninterp map[string]func(ev *cmpEval, args []aval) aval
	// strSyms: string constants that take part in comparisons, mapped to symbols of the ordering
	strSyms map[string]aSym
	// callbacks invoked via closures are evaluated inline
}

func newCmpEval(c *Ctx, ord *ordering) *cmpEval {
	return &cmpEval{c: c, ord: ord, uninterp: map[string]func(*cmpEval, []aval) aval{}}
}

func zeroOf(t types.Type) aval {
	switch u := t.Underlying().(type) {
	case *types.Basic:
		if u.Info()&types.IsBoolean != 0 {
			return aBool(false)
		}
		if u.Info()&types.IsInteger != 0 {
			return aSym{0}
		}
		if u.Info()&types.IsString != 0 {
			return aSym{0}
		}
		return aOpaque{"zero " + t.String()}
	case *types.Struct:
		st := &aStruct{}
		for i := 0; i < u.NumFields(); i++ {
			v := zeroOf(u.Field(i).Type())
			st.cells = append(st.cells, &v)
		}
		return st
	case *types.Array:
		st := &aStruct{}
		for i := int64(0); i < u.Len(); i++ {
			v := zeroOf(u.Elem())
			st.cells = append(st.cells, &v)
		}
		return st
	case *types.Pointer, *types.Interface, *types.Slice, *types.Map, *types.Signature, *types.Chan:
		return aNil{}
	}
	return aOpaque{"zero " + t.String()}
}

func copyStruct(s *aStruct) *aStruct {
	n := &aStruct{}
	for _, c := range s.cells {
		v := *c
		if ss, ok := v.(*aStruct); ok {
			v = copyStruct(ss)
		}
		n.cells = append(n.cells, &v)
	}
	return n
}

// Call evaluates fn on abstract arguments.
func (ev *cmpEval) Call(fn *ssa.Function, args []aval, bind []aval) aval {
	if len(fn.Blocks) == 0 {
		leave("call to %s: no body available", ev.c.FuncName(fn))
	}
	ev.depth++
	if os.Getenv("SGDEBUG") != "" {
		fmt.Fprintf(os.Stderr, "%*seval %s\n", ev.depth, "", ev.c.FuncName(fn))
	}
	if ev.depth > 40 {
		leave("recursion depth exceeded in %s", ev.c.FuncName(fn))
	}
	defer func() { ev.depth-- }()
	env := map[ssa.Value]aval{}
	for i, p := range fn.Params {
		v := args[i]
		if s, ok := v.(*aStruct); ok {
			v = copyStruct(s) // value semantics
		}
		env[p] = v
	}
	for i, fv := range fn.FreeVars {
		env[fv] = bind[i]
	}
	get := func(v ssa.Value) aval {
		switch x := v.(type) {
		case *ssa.Const:
			return ev.constVal(x)
		case *ssa.Function:
			return aClosure{fn: x}
		case *ssa.Global:
			return aOpaque{"global " + x.Name()}
		case *ssa.Builtin:
			return aOpaque{"builtin " + x.Name()}
		}
		a, ok := env[v]
		if !ok {
			leave("%s: value %s (%T) used before definition", ev.c.FuncName(fn), v.Name(), v)
		}
		return a
	}
	blk := fn.Blocks[0]
	var prev *ssa.BasicBlock
	for {
		// phis first (parallel)
		var phiVals []aval
		var phis []*ssa.Phi
		for _, in := range blk.Instrs {
			phi, ok := in.(*ssa.Phi)
			if !ok {
				break
			}
			for pi, p := range blk.Preds {
				if p == prev {
					phiVals = append(phiVals, get(phi.Edges[pi]))
					phis = append(phis, phi)
					break
				}
			}
		}
		for i, p := range phis {
			env[p] = phiVals[i]
		}
		var next *ssa.BasicBlock
		for _, in := range blk.Instrs {
			ev.steps++
			if ev.steps > 200000 {
				leave("step budget exceeded (non-terminating loop?) in %s", ev.c.FuncName(fn))
			}
			switch x := in.(type) {
			case *ssa.Phi:
				continue
			case *ssa.DebugRef:
				continue
			case *ssa.BinOp:
				env[x] = ev.binop(fn, x, get(x.X), get(x.Y))
			case *ssa.UnOp:
				a := get(x.X)
				switch x.Op {
				case token.NOT:
					b, ok := a.(aBool)
					if !ok {
						leave("%s: ! on non-boolean", ev.c.FuncName(fn))
					}
					env[x] = aBool(!bool(b))
				case token.MUL:
					p, ok := a.(aPtr)
					if !ok {
						if op, isOp := a.(aOpaque); isOp {
							env[x] = aOpaque{"*" + op.what}
							continue
						}
						leave("%s: load through non-pointer %T at %s", ev.c.FuncName(fn), a, ev.c.Pos(x.Pos()))
					}
					if p.str != nil {
						env[x] = copyStruct(p.str)
					} else {
						v := *p.cell
						if s, ok := v.(*aStruct); ok {
							v = copyStruct(s)
						}
						env[x] = v
					}
				default:
					leave("%s: unary %s on symbol (arithmetic leaves the comparison-only fragment) at %s", ev.c.FuncName(fn), x.Op, ev.c.Pos(x.Pos()))
				}
			case *ssa.Alloc:
				el := x.Type().(*types.Pointer).Elem()
				z := zeroOf(el)
				if s, ok := z.(*aStruct); ok {
					env[x] = aPtr{str: s}
				} else {
					cell := new(aval)
					*cell = z
					env[x] = aPtr{cell: cell}
				}
			case *ssa.FieldAddr:
				p, ok := get(x.X).(aPtr)
				if !ok || p.str == nil {
					// pointer to struct held in a cell
					if ok && p.cell != nil {
						if s, ok2 := (*p.cell).(*aStruct); ok2 {
							env[x] = cellPtr(s.cells[x.Field])
							continue
						}
					}
					if op, isOp := get(x.X).(aOpaque); isOp {
						fname := "?"
						if f := structField(x.X.Type(), x.Field); f != nil {
							fname = f.Name()
						}
						env[x] = aOpaque{op.what + "." + fname}
						continue
					}
					leave("%s: field address of non-struct pointer at %s", ev.c.FuncName(fn), ev.c.Pos(x.Pos()))
				}
				env[x] = cellPtr(p.str.cells[x.Field])
			case *ssa.IndexAddr:
				p, ok := get(x.X).(aPtr)
				k, isConst := constInt(x.Index)
				if !ok || p.str == nil || !isConst || int(k) >= len(p.str.cells) {
					leave("%s: indexing outside the fragment at %s", ev.c.FuncName(fn), ev.c.Pos(x.Pos()))
				}
				env[x] = cellPtr(p.str.cells[k])
			case *ssa.Slice:
				// slicing a whole local array (variadic argument packs): keep the aggregate
				if x.Low != nil || x.High != nil {
					leave("%s: partial slice outside the fragment at %s", ev.c.FuncName(fn), ev.c.Pos(x.Pos()))
				}
				env[x] = get(x.X)
			case *ssa.Field:
				s, ok := get(x.X).(*aStruct)
				if !ok {
					leave("%s: field of non-struct at %s", ev.c.FuncName(fn), ev.c.Pos(x.Pos()))
				}
				v := *s.cells[x.Field]
				if ss, ok := v.(*aStruct); ok {
					v = copyStruct(ss)
				}
				env[x] = v
			case *ssa.Store:
				p, ok := get(x.Addr).(aPtr)
				if !ok {
					if _, isOp := get(x.Addr).(aOpaque); isOp {
						continue
					}
					leave("%s: store through non-pointer at %s", ev.c.FuncName(fn), ev.c.Pos(x.Pos()))
				}
				v := get(x.Val)
				if s, ok := v.(*aStruct); ok {
					v = copyStruct(s)
				}
				if p.str != nil {
					sv, ok := v.(*aStruct)
					if !ok {
						leave("%s: struct store of non-struct", ev.c.FuncName(fn))
					}
					for i := range p.str.cells {
						*p.str.cells[i] = *sv.cells[i]
					}
				} else {
					*p.cell = v
				}
			case *ssa.If:
				b, ok := get(x.Cond).(aBool)
				if !ok {
					leave("%s: branch on non-boolean (%T) at %s", ev.c.FuncName(fn), get(x.Cond), ev.c.Pos(x.Pos()))
				}
				if b {
					next = blk.Succs[0]
				} else {
					next = blk.Succs[1]
				}
			case *ssa.Jump:
				next = blk.Succs[0]
			case *ssa.Return:
				if len(x.Results) == 0 {
					return aTuple{}
				}
				if len(x.Results) == 1 {
					return get(x.Results[0])
				}
				t := aTuple{}
				for _, r := range x.Results {
					t = append(t, get(r))
				}
				return t
			case *ssa.Extract:
				t, ok := get(x.Tuple).(aTuple)
				if !ok {
					leave("%s: extract from non-tuple", ev.c.FuncName(fn))
				}
				env[x] = t[x.Index]
			case *ssa.Call:
				env[x] = ev.call(fn, x, get)
			case *ssa.MakeClosure:
				cl := aClosure{fn: x.Fn.(*ssa.Function)}
				for _, b := range x.Bindings {
					cl.bind = append(cl.bind, get(b))
				}
				env[x] = cl
			case *ssa.ChangeType:
				env[x] = get(x.X)
			case *ssa.Convert:
				// integer-to-integer conversions that preserve order on the symbol domain are the identity here only when both are
				// unsigned of the same size; anything else leaves the fragment.
				if types.Identical(x.X.Type().Underlying(), x.Type().Underlying()) {
					env[x] = get(x.X)
				} else if _, ok := get(x.X).(aSym); ok {
					leave("%s: conversion of a symbol between different types at %s", ev.c.FuncName(fn), ev.c.Pos(x.Pos()))
				} else {
					env[x] = get(x.X)
				}
			case *ssa.MakeInterface:
				env[x] = get(x.X)
			case *ssa.ChangeInterface:
				env[x] = get(x.X)
			case *ssa.Panic:
				leave("%s: panic reached at %s", ev.c.FuncName(fn), ev.c.Pos(x.Pos()))
			default:
				leave("%s: instruction %T outside the comparison-only fragment at %s", ev.c.FuncName(fn), in, ev.c.Pos(in.Pos()))
			}
		}
		if next == nil {
			leave("%s: fell off block", ev.c.FuncName(fn))
		}
		prev, blk = blk, next
	}
}

func cellPtr(c *aval) aPtr {
	if s, ok := (*c).(*aStruct); ok {
		return aPtr{str: s}
	}
	return aPtr{cell: c}
}

func (ev *cmpEval) constVal(k *ssa.Const) aval {
	if k.Value == nil {
		if _, ok := k.Type().Underlying().(*types.Struct); ok {
			return zeroOf(k.Type())
		}
		return zeroOf(k.Type())
	}
	switch k.Value.Kind() {
	case constant.Bool:
		return aBool(constant.BoolVal(k.Value))
	case constant.Int:
		if v, ok := constant.Int64Val(k.Value); ok {
			if v == 0 {
				return aSym{0}
			}
			return aInt{v}
		}
		return aOpaque{"int const " + k.Value.String()}
	case constant.String:
		if constant.StringVal(k.Value) == "" {
			return aSym{0}
		}
		if s, ok := ev.strSyms[constant.StringVal(k.Value)]; ok {
			return s
		}
		return aOpaque{"str:" + constant.StringVal(k.Value)}
	}
	return aOpaque{"const"}
}

func (ev *cmpEval) binop(fn *ssa.Function, x *ssa.BinOp, a, b aval) aval {
	// concrete integers: the symbol 0 doubles as the integer 0
	ai, aok := asInt(a)
	bi, bok := asInt(b)
	_, aIsInt := a.(aInt)
	_, bIsInt := b.(aInt)
	if aok && bok && (aIsInt || bIsInt) {
		switch x.Op {
		case token.EQL:
			return aBool(ai == bi)
		case token.NEQ:
			return aBool(ai != bi)
		case token.LSS:
			return aBool(ai < bi)
		case token.LEQ:
			return aBool(ai <= bi)
		case token.GTR:
			return aBool(ai > bi)
		case token.GEQ:
			return aBool(ai >= bi)
		case token.ADD:
			return mkInt(ai + bi)
		case token.SUB:
			return mkInt(ai - bi)
		}
	}
	switch av := a.(type) {
	case aSym:
		bv, ok := b.(aSym)
		if !ok {
			leave("%s: symbol compared/combined with %T at %s", ev.c.FuncName(fn), b, ev.c.Pos(x.Pos()))
		}
		c := ev.ord.cmp(av, bv)
		switch x.Op {
		case token.EQL:
			return aBool(c == 0)
		case token.NEQ:
			return aBool(c != 0)
		case token.LSS:
			return aBool(c < 0)
		case token.LEQ:
			return aBool(c <= 0)
		case token.GTR:
			return aBool(c > 0)
		case token.GEQ:
			return aBool(c >= 0)
		}
		leave("%s: arithmetic %s on symbols leaves the comparison-only fragment at %s", ev.c.FuncName(fn), x.Op, ev.c.Pos(x.Pos()))
	case aBool:
		bv, ok := b.(aBool)
		if !ok {
			leave("%s: bool op with %T", ev.c.FuncName(fn), b)
		}
		switch x.Op {
		case token.EQL:
			return aBool(av == bv)
		case token.NEQ:
			return aBool(av != bv)
		case token.AND:
			return aBool(bool(av) && bool(bv))
		case token.OR:
			return aBool(bool(av) || bool(bv))
		}
	case aNil:
		switch x.Op {
		case token.EQL:
			_, isNil := b.(aNil)
			return aBool(isNil)
		case token.NEQ:
			_, isNil := b.(aNil)
			return aBool(!isNil)
		}
	case *aStruct:
		bs, ok := b.(*aStruct)
		if ok && (x.Op == token.EQL || x.Op == token.NEQ) {
			eq := ev.structEq(av, bs)
			if x.Op == token.NEQ {
				eq = !eq
			}
			return aBool(eq)
		}
	default:
		if _, isNil := b.(aNil); isNil {
			switch x.Op {
			case token.EQL:
				return aBool(false)
			case token.NEQ:
				return aBool(true)
			}
		}
	}
	leave("%s: operator %s on %T/%T outside the fragment at %s", ev.c.FuncName(fn), x.Op, a, b, ev.c.Pos(x.Pos()))
	return nil
}

func asInt(v aval) (int64, bool) {
	switch x := v.(type) {
	case aInt:
		return x.v, true
	case aSym:
		if x.id == 0 {
			return 0, true
		}
	}
	return 0, false
}

func mkInt(v int64) aval {
	if v == 0 {
		return aSym{0}
	}
	return aInt{v}
}

func (ev *cmpEval) structEq(a, b *aStruct) bool {
	for i := range a.cells {
		x, y := *a.cells[i], *b.cells[i]
		switch xv := x.(type) {
		case aSym:
			if ev.ord.cmp(xv, y.(aSym)) != 0 {
				return false
			}
		case aBool:
			if xv != y.(aBool) {
				return false
			}
		case *aStruct:
			if !ev.structEq(xv, y.(*aStruct)) {
				return false
			}
		default:
			leave("struct equality over %T", x)
		}
	}
	return true
}

func (ev *cmpEval) call(fn *ssa.Function, x *ssa.Call, get func(ssa.Value) aval) aval {
	cc := x.Call
	var args []aval
	for _, a := range cc.Args {
		args = append(args, get(a))
	}
	if cc.IsInvoke() {
		name := shortName(cc.Method.FullName())
		if h, ok := ev.uninterp[name]; ok {
			return h(ev, append([]aval{get(cc.Value)}, args...))
		}
		leave("%s: dynamic call of %s at %s", ev.c.FuncName(fn), name, ev.c.Pos(x.Pos()))
	}
	if b, ok := cc.Value.(*ssa.Builtin); ok {
		switch b.Name() {
		case "min", "max":
			best := args[0].(aSym)
			for _, a := range args[1:] {
				s := a.(aSym)
				c := ev.ord.cmp(s, best)
				if (b.Name() == "min" && c < 0) || (b.Name() == "max" && c > 0) {
					best = s
				}
			}
			return best
		}
		if h, ok := ev.uninterp["builtin."+b.Name()]; ok {
			return h(ev, args)
		}
		leave("%s: builtin %s outside the fragment", ev.c.FuncName(fn), b.Name())
	}
	if cal := cc.StaticCallee(); cal != nil {
		name := ev.c.FuncName(cal)
		if cal.Origin() != nil {
			name = ev.c.FuncName(cal.Origin())
		}
		if h, ok := ev.uninterp[name]; ok {
			return h(ev, args)
		}
		var bind []aval
		if mc, ok := cc.Value.(*ssa.MakeClosure); ok {
			for _, b := range mc.Bindings {
				bind = append(bind, get(b))
			}
		}
		if cal.Pkg != nil && ev.c.SSAPkg[cal.Pkg.Pkg.Name()] == cal.Pkg && len(cal.Blocks) > 0 {
			return ev.Call(cal, args, bind)
		}
		leave("%s: call to %s which is neither in the fragment nor declared uninterpreted, at %s", ev.c.FuncName(fn), name, ev.c.Pos(x.Pos()))
	}
	// call of a closure value
	if cl, ok := get(cc.Value).(aClosure); ok {
		return ev.Call(cl.fn, args, cl.bind)
	}
	leave("%s: unresolved call at %s", ev.c.FuncName(fn), ev.c.Pos(x.Pos()))
	return nil
}

// ---- enumeration of weak orderings ----

// weakOrderings enumerates every weak ordering of the symbols 1..n together with the constant 0, which is the minimum
// (unsigned domain): an ordered partition whose first block contains 0. Symbols are inserted one at a time into an existing
// block or into a new block at any position after the zero block. f receives rank[0..n] (rank[0]==0); the slice is reused.
// If prefix is non-nil the enumeration is restricted to orderings extending the given block structure of symbols
// 1..len(prefix-assigned) (used to split the work across goroutines).
type woState struct {
	blocks [][]int // blocks[0] contains 0
}

func (w *woState) clone() *woState {
	n := &woState{}
	for _, b := range w.blocks {
		n.blocks = append(n.blocks, append([]int(nil), b...))
	}
	return n
}

func (w *woState) extend(sym int, each func(*woState)) {
	// into existing blocks
	for bi := range w.blocks {
		w.blocks[bi] = append(w.blocks[bi], sym)
		each(w)
		w.blocks[bi] = w.blocks[bi][:len(w.blocks[bi])-1]
	}
	// new block at position 1..len
	for pos := 1; pos <= len(w.blocks); pos++ {
		w.blocks = append(w.blocks, nil)
		copy(w.blocks[pos+1:], w.blocks[pos:])
		w.blocks[pos] = []int{sym}
		each(w)
		copy(w.blocks[pos:], w.blocks[pos+1:])
		w.blocks = w.blocks[:len(w.blocks)-1]
	}
}

func (w *woState) ranks(n int, rank []int) {
	for bi, b := range w.blocks {
		for _, s := range b {
			rank[s] = bi
		}
	}
}

func forEachWeakOrderingFrom(start *woState, from, n int, f func(rank []int) bool) (count int, completed bool) {
	rank := make([]int, n+1)
	completed = true
	var rec func(w *woState, sym int) bool
	rec = func(w *woState, sym int) bool {
		if sym > n {
			w.ranks(n, rank)
			count++
			return f(rank)
		}
		ok := true
		w.extend(sym, func(w2 *woState) {
			if ok && !rec(w2, sym+1) {
				ok = false
			}
		})
		return ok
	}
	if !rec(start, from) {
		completed = false
	}
	return
}

func forEachWeakOrdering(n int, f func(rank []int) bool) int {
	c, _ := forEachWeakOrderingFrom(&woState{blocks: [][]int{{0}}}, 1, n, f)
	return c
}

// weakOrderingPrefixes returns all block structures over symbols 1..k (for splitting work).
func weakOrderingPrefixes(k int) []*woState {
	var out []*woState
	var rec func(w *woState, sym int)
	rec = func(w *woState, sym int) {
		if sym > k {
			out = append(out, w.clone())
			return
		}
		w.extend(sym, func(w2 *woState) { rec(w2, sym+1) })
	}
	rec(&woState{blocks: [][]int{{0}}}, 1)
	return out
}
