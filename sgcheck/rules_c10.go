package main

import (
	"fmt"
	"go/token"
	"go/types"
	"reflect"
	"sort"
	"strings"

	"golang.org/x/tools/go/ssa"
)

func init() { registry["C10"] = checkC10 }

func checkC10(c *Ctx, r *Report) {
	r.Explain = "Decides structural necessary conditions of sound version-vector ordering: (R1) 'has seen' — DominatesSource(v) is, for all values, found(v.source) ∧ stored ≥ v.value (abstract evaluation over every order type), with the lookup consulting the current version before merge versions before previous versions; (R2) the conflict decision is the table the property states — known iff the local vector has seen the incoming current version, else accept iff the incoming vector has seen the local current version or both record the same non-empty merge, else conflict — for all 64 valuations of its atoms (don't-care: mutual domination with different current versions, which per-source monotonicity excludes); (R3) locally generated versions are floored by the maximum value already recorded for this source and AddVersion refuses to lower a source; (R4) ownership: vector fields are written only by the vector's own methods, every insertion into the merge versions of an existing vector removes that source from the previous versions (the non-clearing setter has no production caller), an equal merge version is never classified as older; (R5) stored form: encoder and decoder declare the same persisted field set, fill/consume it one-to-one through paired value codecs, and the wire separators written are the ones the parser splits on.; (R6) UpdateHistory tests AddVersionToPV's verdict for the other vector's current version and merge versions and invalidates its own merge versions when a newer version was refused, so that version is recorded.; (R3, extended) a version generated while merging two documents' vectors is floored by both vectors; (R7, shared with C06-R1) conflict resolution never overwrites the incoming vector in place and carries no state across compare-and-swap retries — a retry would otherwise see its own product as the incoming vector, report the incoming version as already present and never record it. Not decided: nothing-lost/nothing-invented over arbitrary merge histories (in particular a newer version found only in the other vector's previous versions), delta arithmetic, round-trip equality for all vectors."
	c10R1(c, r)
	c10R2(c, r)
	c10R3(c, r)
	c10R4(c, r)
	c10R5(c, r)
	c10R6(c, r)
	c06R1For(c, r, "C10-R7")
}

func c10R1(c *Ctx, r *Report) {
	r.Rule("C10-R1", "E6 cmpeval + E2", "DominatesSource(v) ≡ found ∧ stored ≥ v.Value for all values; GetValue consults CV, then MV, then PV", 2)
	fn := c.Func("(*db.HybridLogicalVector).DominatesSource")
	if fn == nil {
		r.Fail("C10-R1", "anchor DominatesSource", "-", "function not found")
		return
	}
	bad := ""
	// symbols: 1 = stored value, 2 = v.Value ; 3 = v.SourceID (opaque to ordering)
	n := 0
	for _, found := range []bool{true, false} {
		n += forEachWeakOrdering(2, func(rank []int) bool {
			ver := &aStruct{}
			var sid aval = aOpaque{"src"}
			var val aval = aSym{2}
			ver.cells = []*aval{&sid, &val}
			v, left := evalWith(c, fn, rank, func(ev *cmpEval) {
				ev.uninterp["(*db.HybridLogicalVector).GetValue"] = func(ev *cmpEval, a []aval) aval {
					return aTuple{aSym{1}, aBool(found)}
				}
			}, aOpaque{"hlv"}, ver)
			if left != "" {
				bad = "left the fragment: " + left
				return false
			}
			got, _ := v.(aBool)
			want := found && rank[1] >= rank[2]
			if bool(got) != want && bad == "" {
				bad = fmt.Sprintf("found=%v stored=%d value=%d: got %v", found, rank[1], rank[2], got)
			}
			return true
		})
	}
	r.Check("C10-R1", "fn=(*db.HybridLogicalVector).DominatesSource = found ∧ stored>=value", c.Pos(fn.Pos()), bad == "", fmt.Sprintf("holds for all %d abstract cases", n), "'has seen' is not 'source present with an equal or newer value': "+bad)
	// lookup order in GetValue: the MV lookup is dominated by the (sourceID == hlv.SourceID) false edge; the PV lookup by the MV miss edge
	gv := c.Func("(*db.HybridLogicalVector).GetValue")
	if gv == nil {
		r.Fail("C10-R1", "anchor GetValue", "-", "function not found")
		return
	}
	var order []string
	EachInstr(gv, false, func(in ssa.Instruction) {
		if lk, ok := in.(*ssa.Lookup); ok {
			if f, _ := fieldRead(lk.X); f != nil {
				order = append(order, f.Name())
			}
		}
	})
	// first returned candidate must be the current version when the source matches
	cvFirst := false
	for _, i := range Ifs(gv) {
		if b, ok := i.Cond.(*ssa.BinOp); ok && b.Op == token.EQL {
			if f, _ := fieldRead(b.Y); f != nil && f.Name() == "SourceID" && isParam(b.X, 1) {
				// true edge leads directly to a return of hlv.Version
				if ret, ok := i.Block().Succs[0].Instrs[len(i.Block().Succs[0].Instrs)-1].(*ssa.Return); ok {
					if f2, _ := fieldRead(ret.Results[0]); f2 != nil && f2.Name() == "Version" {
						cvFirst = true
					}
				}
			}
		}
	}
	okOrder := len(order) == 2 && order[0] == "MergeVersions" && order[1] == "PreviousVersions"
	r.Check("C10-R1", "fn=(*db.HybridLogicalVector).GetValue lookup-order=CV,MV,PV", c.Pos(gv.Pos()), cvFirst && okOrder, "current version, then merge versions, then previous versions", fmt.Sprintf("lookup order changed (cv-first=%v maps=%v): a stale previous-version entry could shadow the merge/current value", cvFirst, order))
}

func c10R2(c *Ctx, r *Report) {
	r.Rule("C10-R2", "E6 cmpeval", "IsInConflict equals the decision table of the property for all valuations of {equal CV, incoming has seen local CV, local has seen incoming CV, incoming MV non-empty, local MV non-empty, MVs equal}", 1)
	fn := c.Func("db.IsInConflict")
	if fn == nil {
		r.Fail("C10-R2", "anchor db.IsInConflict", "-", "function not found")
		return
	}
	codes := map[string]int64{}
	for _, name := range []string{"HLVNoConflict", "HLVConflict", "HLVNoConflictRevAlreadyPresent"} {
		obj := c.SSAPkg["db"].Pkg.Scope().Lookup(name)
		k, ok := obj.(*types.Const)
		if !ok {
			r.Fail("C10-R2", "anchor db."+name, "-", "constant not found")
			return
		}
		v, _ := constantInt64(k)
		codes[name] = v
	}
	bad := ""
	cases, dontcare := 0, 0
	for mask := 0; mask < 64; mask++ {
		eqCV := mask&1 != 0
		incDomLoc := mask&2 != 0
		locDomInc := mask&4 != 0
		incMV := mask&8 != 0
		locMV := mask&16 != 0
		mvEq := mask&32 != 0
		// consistency: equal CVs imply each side has seen the other's CV
		if eqCV && !(incDomLoc && locDomInc) {
			dontcare++
			continue
		}
		var want int64
		switch {
		case eqCV:
			want = codes["HLVNoConflictRevAlreadyPresent"]
		case incDomLoc && locDomInc:
			dontcare++
			continue // mutual domination with different CVs: excluded by per-source monotonicity
		case locDomInc:
			want = codes["HLVNoConflictRevAlreadyPresent"]
		case incDomLoc:
			want = codes["HLVNoConflict"]
		case incMV && locMV && mvEq:
			want = codes["HLVNoConflict"]
		default:
			want = codes["HLVConflict"]
		}
		cases++
		v, left := evalWith(c, fn, []int{0}, func(ev *cmpEval) {
			ev.uninterp["(*db.HybridLogicalVector).ExtractCurrentVersionFromHLV"] = func(ev *cmpEval, a []aval) aval {
				o, _ := a[0].(aOpaque)
				return aOpaque{"cv(" + o.what + ")"}
			}
			ev.uninterp["(*db.HybridLogicalVector).EqualCV"] = func(ev *cmpEval, a []aval) aval { return aBool(eqCV) }
			ev.uninterp["(*db.HybridLogicalVector).DominatesSource"] = func(ev *cmpEval, a []aval) aval {
				recv, _ := a[0].(aOpaque)
				arg, _ := a[1].(aOpaque)
				switch {
				case recv.what == "incoming" && strings.Contains(arg.what, "cv(local)"):
					return aBool(incDomLoc)
				case recv.what == "local" && strings.Contains(arg.what, "cv(incoming)"):
					return aBool(locDomInc)
				}
				leave("DominatesSource called with unexpected operands %q %q", recv.what, arg.what)
				return nil
			}
			ev.uninterp["builtin.len"] = func(ev *cmpEval, a []aval) aval {
				o, _ := a[0].(aOpaque)
				switch {
				case strings.Contains(o.what, "incoming.MergeVersions"):
					if incMV {
						return aInt{1}
					}
					return aSym{0}
				case strings.Contains(o.what, "local.MergeVersions"):
					if locMV {
						return aInt{1}
					}
					return aSym{0}
				}
				leave("len of unexpected operand %q", o.what)
				return nil
			}
			ev.uninterp["maps.Equal"] = func(ev *cmpEval, a []aval) aval { return aBool(mvEq) }
		}, aOpaque{"ctx"}, aOpaque{"local"}, aOpaque{"incoming"})
		if left != "" {
			bad = "left the fragment: " + left
			break
		}
		got, ok := asInt(v)
		if (!ok || got != want) && bad == "" {
			bad = fmt.Sprintf("equalCV=%v incomingSeenLocal=%v localSeenIncoming=%v incMV=%v locMV=%v mvEqual=%v: got %v want %d", eqCV, incDomLoc, locDomInc, incMV, locMV, mvEq, v, want)
		}
	}
	r.Check("C10-R2", "fn=db.IsInConflict = decision-table(known / accept / conflict)", c.Pos(fn.Pos()), bad == "" && cases > 20, fmt.Sprintf("holds for %d valuations (%d don't-care)", cases, dontcare), "conflict decision deviates from the property's table: "+bad)
}

func c10R3(c *Ctx, r *Report) {
	r.Rule("C10-R3", "E2 def-use + pathrules", "every hlc.Now floor derives from maxValueForSource of the vectors involved; AddVersion stores a version only if it does not lower the stored value for that source", 3)
	n := 0
	for _, fn := range c.ScopeFuncs() {
		for _, call := range c.Calls(fn, false, func(nm string) bool { return strings.HasSuffix(nm, ".Now") && strings.Contains(nm, "HybridLogicalClock") }) {
			n++
			a := callArgs(call)
			ok := len(a) == 1 && valueOnlyFrom(a[0], func(v ssa.Value) (bool, bool) {
				if k, isK := constInt(v); isK {
					return true, k == 0
				}
				if cc, isCall := v.(*ssa.Call); isCall {
					nm := c.CalleeName(cc)
					if nm == "(*db.HybridLogicalVector).maxValueForSource" {
						return true, true
					}
					if nm == "builtin.max" {
						for _, x := range cc.Call.Args {
							if xc, ok := x.(*ssa.Call); !ok || c.CalleeName(xc) != "(*db.HybridLogicalVector).maxValueForSource" {
								return true, false
							}
						}
						return true, true
					}
					return true, false
				}
				return false, false
			})
			r.Check("C10-R3", fmt.Sprintf("fn=%s hlc.Now #%d floor=maxValueForSource", c.FuncName(fn), n), c.Pos(call.Pos()), ok, "floor is the maximum already recorded for this source (or 0 for a new vector)", "a locally generated version is not floored by the values already recorded for this source: versions could repeat or go backwards")
			// a version generated while merging two documents' vectors must be floored by BOTH of them: the incoming vector can
			// remember a version of our own source that the local copy no longer records
			var docParams []*ssa.Parameter
			for _, prm := range fn.Params {
				if pt, isPtr := prm.Type().(*types.Pointer); isPtr && namedOf(pt.Elem()) == "Document" {
					docParams = append(docParams, prm)
				}
			}
			if len(docParams) >= 2 && len(a) == 1 {
				for _, prm := range docParams {
					covered := DependsOn(a[0], func(v ssa.Value) bool {
						cc, isCall := v.(*ssa.Call)
						if !isCall || c.CalleeName(cc) != "(*db.HybridLogicalVector).maxValueForSource" {
							return false
						}
						return DependsOn(cc.Call.Args[0], func(w ssa.Value) bool { return w == ssa.Value(prm) })
					})
					r.Check("C10-R3", fmt.Sprintf("fn=%s hlc.Now #%d floor covers vector of parameter %s", c.FuncName(fn), n, prm.Name()), c.Pos(call.Pos()), covered, "maxValueForSource of this document's vector contributes to the floor", "the version generated for a merge is not floored by the vector of '"+prm.Name()+"': when that vector remembers a newer version of this database's own source than the other one, the merged vector lowers our source's value and locally generated versions stop increasing")
				}
			}
		}
	}
	av := c.Func("(*db.HybridLogicalVector).AddVersion")
	if av == nil {
		r.Fail("C10-R3", "anchor AddVersion", "-", "function not found")
		return
	}
	// edges on which (found && existing > new) is refuted: found false-edge, or (existing > new) false-edge
	var okEdges []Edge
	gvCalls := c.Calls(av, false, nameIs("(*db.HybridLogicalVector).GetValue"))
	for _, call := range gvCalls {
		cv := call.(*ssa.Call)
		var foundV, valV ssa.Value
		for _, e := range resultValues(cv, 1) {
			foundV = e
		}
		for _, e := range resultValues(cv, 0) {
			valV = e
		}
		_, neg := EdgesOnValue(av, func(v ssa.Value) bool { return v == foundV })
		okEdges = append(okEdges, neg...)
		okEdges = append(okEdges, EdgesWhere(av, func(cond ssa.Value) (bool, bool) {
			b, ok := cond.(*ssa.BinOp)
			if !ok {
				return false, false
			}
			newV := func(v ssa.Value) bool { f, _ := fieldRead(v); return f != nil && f.Name() == "Value" }
			if b.X == valV && newV(b.Y) {
				switch b.Op {
				case token.GTR:
					return true, false
				case token.LEQ:
					return true, true
				}
			}
			if newV(b.X) && b.Y == valV {
				switch b.Op {
				case token.LSS:
					return true, false
				case token.GEQ:
					return true, true
				}
			}
			return false, false
		})...)
	}
	verF := c.Field("db.HybridLogicalVector", "Version")
	srcF := c.Field("db.HybridLogicalVector", "SourceID")
	// first-source edge: hlv.SourceID == ""
	first := EdgesWhere(av, func(cond ssa.Value) (bool, bool) {
		b, ok := cond.(*ssa.BinOp)
		if !ok || (b.Op != token.EQL && b.Op != token.NEQ) {
			return false, false
		}
		if f, _ := fieldRead(b.X); f == srcF {
			if s, ok := constString(b.Y); ok && s == "" {
				return true, b.Op == token.EQL
			}
		}
		return false, false
	})
	k := 0
	for _, st := range c.storesToField(verF) {
		if st.Parent() != av {
			continue
		}
		k++
		ok := len(okEdges) > 0 && DominatedBy(av, st, NewAvoid().AddEdge(okEdges...).AddEdge(first...))
		r.Check("C10-R3", fmt.Sprintf("fn=(*db.HybridLogicalVector).AddVersion store=Version #%d not-lowering", k), c.Pos(st.Pos()), ok, "reached only when the source is new or the stored value is not greater", "AddVersion can replace a source's value with a lower one")
	}
}

func c10R4(c *Ctx, r *Report) {
	r.Rule("C10-R4", "E3 whomay + E2", "vector fields are written only by HybridLogicalVector methods; merge-version insertions into an existing vector clear the source from previous versions; an equal merge version is not 'older'", 5)
	for _, fname := range []string{"SourceID", "Version", "MergeVersions", "PreviousVersions"} {
		fld := c.Field("db.HybridLogicalVector", fname)
		if fld == nil {
			r.Fail("C10-R4", "anchor db.HybridLogicalVector."+fname, "-", "field not found")
			continue
		}
		bad := ""
		n := 0
		for _, fn := range c.ScopeFuncs() {
			EachInstr(fn, false, func(in ssa.Instruction) {
				fa, ok := in.(*ssa.FieldAddr)
				if !ok || structField(fa.X.Type(), fa.Field) != fld || !addrWritten(fa) || isFreshAlloc(fa.X) {
					return
				}
				n++
				top := TopLevel(fn)
				recv := top.Signature.Recv()
				isMethod := recv != nil && namedOf(recv.Type()) == "HybridLogicalVector"
				isParser := c.FuncName(top) == "db.extractHLVFromBlipString"
				if !isMethod && !isParser {
					bad = c.FuncName(top) + "@" + c.Pos(fa.Pos())
				}
			})
		}
		r.Check("C10-R4", "field=HybridLogicalVector."+fname+" writers=own-methods", "-", bad == "" && n > 0, fmt.Sprintf("%d write site(s)", n), "vector state modified outside the vector's methods: "+bad)
	}
	// MV insertion pairing
	mvF := c.Field("db.HybridLogicalVector", "MergeVersions")
	pvF := c.Field("db.HybridLogicalVector", "PreviousVersions")
	for _, fn := range c.ScopeFuncs() {
		var inserts []*ssa.MapUpdate
		EachInstr(fn, false, func(in ssa.Instruction) {
			if mu, ok := in.(*ssa.MapUpdate); ok {
				if f, _ := fieldRead(mu.Map); f == mvF {
					inserts = append(inserts, mu)
				}
			}
		})
		for i, mu := range inserts {
			name := c.FuncName(fn)
			construct := fmt.Sprintf("fn=%s insert=MergeVersions #%d clears=PreviousVersions[source]", name, i+1)
			// paired delete(PV, sameKey) on every path after, or a dominating PV-membership rejection (parser)
			var dels []ssa.Instruction
			EachInstr(fn, false, func(in ssa.Instruction) {
				if call, ok := in.(*ssa.Call); ok {
					if b, ok := call.Call.Value.(*ssa.Builtin); ok && b.Name() == "delete" {
						if f, _ := fieldRead(call.Call.Args[0]); f == pvF && call.Call.Args[1] == mu.Key {
							dels = append(dels, call)
						}
					}
				}
			})
			paired := len(dels) > 0 && ReachAfter(mu, func(in ssa.Instruction) bool { _, ok := in.(*ssa.Return); return ok }, NewAvoid().AddInstr(dels...)) == nil
			if paired {
				r.Pass("C10-R4", construct, c.Pos(mu.Pos()), "delete(PreviousVersions, source) follows on every path")
				continue
			}
			if name == "db.extractHLVFromBlipString" {
				// parser builds a fresh vector: PV entries are added afterwards and each is rejected if present in MV
				rej := false
				EachInstr(fn, false, func(in ssa.Instruction) {
					if lk, ok := in.(*ssa.Lookup); ok && lk.CommaOk {
						if f, _ := fieldRead(lk.X); f == mvF {
							rej = true
						}
					}
				})
				r.Check("C10-R4", construct, c.Pos(mu.Pos()), rej, "parser rejects a previous-version source that is also a merge version", "wire parser accepts a source listed in both pv and mv")
				continue
			}
			// non-clearing setter: must have no production caller
			callers := 0
			for _, g := range c.ScopeFuncs() {
				callers += len(c.Calls(g, false, nameIs(name)))
			}
			r.Check("C10-R4", construct, c.Pos(mu.Pos()), callers == 0, "non-clearing setter has no production caller", fmt.Sprintf("a merge version is inserted into an existing vector without removing that source from the previous versions (%d production caller(s) of %s): the source would be listed twice and the wire parser rejects such a vector", callers, name))
		}
	}
	// AddVersionToPV: 'older' only when mv < version
	fn := c.Func("(*db.HybridLogicalVector).AddVersionToPV")
	if fn == nil {
		r.Fail("C10-R4", "anchor AddVersionToPV", "-", "function not found")
		return
	}
	obj := c.SSAPkg["db"].Pkg.Scope().Lookup("versionInMVOlder")
	kc, ok := obj.(*types.Const)
	if !ok {
		r.Fail("C10-R4", "anchor db.versionInMVOlder", "-", "constant not found")
		return
	}
	older, _ := constantInt64(kc)
	lt := EdgesWhere(fn, func(cond ssa.Value) (bool, bool) {
		b, ok := cond.(*ssa.BinOp)
		if !ok {
			return false, false
		}
		// mvVersion (range value) vs version (parameter 2)
		if isParam(b.Y, 2) && !isParamAny(b.X) {
			switch b.Op {
			case token.LSS:
				return true, true
			case token.GEQ:
				return true, false
			}
		}
		if isParam(b.X, 2) && !isParamAny(b.Y) {
			switch b.Op {
			case token.GTR:
				return true, true
			case token.LEQ:
				return true, false
			}
		}
		return false, false
	})
	n := 0
	for _, ret := range Returns(fn) {
		if k, isK := constInt(ret.Results[0]); isK && k == older {
			n++
			okr := len(lt) > 0 && DominatedBy(fn, ret, NewAvoid().AddEdge(lt...))
			r.Check("C10-R4", fmt.Sprintf("fn=(*db.HybridLogicalVector).AddVersionToPV result=versionInMVOlder #%d only-if=mv<version", n), c.Pos(ret.Pos()), okr, "reported only when the stored merge version is strictly lower", "an equal merge version is classified as older: accepting a revision that records the same merge would invalidate the merge versions and later report that merge as a conflict")
		}
	}
	if n == 0 {
		r.Fail("C10-R4", "fn=(*db.HybridLogicalVector).AddVersionToPV result=versionInMVOlder", c.Pos(fn.Pos()), "outcome no longer produced")
	}
}

func structTags(st *types.Struct) map[string]string {
	out := map[string]string{}
	for i := 0; i < st.NumFields(); i++ {
		tag := reflect.StructTag(st.Tag(i)).Get("json")
		if j := strings.Index(tag, ","); j >= 0 {
			tag = tag[:j]
		}
		out[st.Field(i).Name()] = tag
	}
	return out
}

func c10R5(c *Ctx, r *Report) {
	r.Rule("C10-R5", "E7 tables", "persisted form: encoder and decoder declare identical (field, json tag) sets; every field the encoder fills the decoder consumes; value codecs pair up; wire separators written = separators parsed", 4)
	enc := c.Func("(db.HybridLogicalVector).MarshalJSON")
	dec := c.Func("(*db.HybridLogicalVector).UnmarshalJSON")
	if enc == nil || dec == nil {
		r.Fail("C10-R5", "anchor HLV codec", "-", "function not found")
		return
	}
	localStruct := func(fn *ssa.Function) (*types.Named, *types.Struct) {
		var T *types.Named
		EachInstr(fn, false, func(in ssa.Instruction) {
			if al, ok := in.(*ssa.Alloc); ok {
				if n, ok := al.Type().(*types.Pointer).Elem().(*types.Named); ok && n.Obj().Name() == "BucketVector" {
					T = n
				}
			}
		})
		if T == nil {
			return nil, nil
		}
		st, _ := T.Underlying().(*types.Struct)
		return T, st
	}
	eT, eS := localStruct(enc)
	dT, dS := localStruct(dec)
	if eS == nil || dS == nil {
		r.Fail("C10-R5", "anchor BucketVector wire structs", c.Pos(enc.Pos()), "local wire struct not found in encoder/decoder")
		return
	}
	et, dt := structTags(eS), structTags(dS)
	r.Check("C10-R5", "wire=BucketVector encoder-tags=decoder-tags", c.Pos(enc.Pos()), reflect.DeepEqual(et, dt) && len(et) >= 5, fmt.Sprintf("%v", et), fmt.Sprintf("encoder persists %v but decoder expects %v", et, dt))
	w := fieldsTouched(c, enc, eT, true)
	rd := fieldsTouched(c, dec, dT, false)
	var missing []string
	for f := range w {
		if !rd[f] {
			missing = append(missing, f)
		}
	}
	sort.Strings(missing)
	r.Check("C10-R5", "wire=BucketVector encoder-writes⊆decoder-reads", c.Pos(dec.Pos()), len(missing) == 0 && len(w) >= 5, fmt.Sprintf("encoder fills %v", keys(w)), "persisted but never read back: "+strings.Join(missing, ","))
	// value codec pairing
	encCalls := map[string]bool{}
	EachInstr(enc, false, func(in ssa.Instruction) {
		if call, ok := in.(ssa.CallInstruction); ok {
			encCalls[c.CalleeName(call)] = true
		}
	})
	decCalls := map[string]bool{}
	EachInstr(dec, false, func(in ssa.Instruction) {
		if call, ok := in.(ssa.CallInstruction); ok {
			decCalls[c.CalleeName(call)] = true
		}
	})
	pairs := [][2]string{{"base.CasToString", "base.HexCasToUint64"}, {"db.VersionsToDeltas", "db.PersistedDeltasToMap"}}
	okPairs := true
	for _, p := range pairs {
		if !encCalls[p[0]] || !decCalls[p[1]] {
			okPairs = false
		}
	}
	r.Check("C10-R5", "value-codecs CasToString↔HexCasToUint64, VersionsToDeltas↔PersistedDeltasToMap", c.Pos(enc.Pos()), okPairs, "encoder and decoder use the paired codecs", "encoder/decoder no longer use the matching value codecs")
	// wire separators
	wr := c.Func("(*db.HybridLogicalVector).toHistoryForHLV")
	ps := c.Func("db.extractHLVFromBlipString")
	pv := c.Func("db.parseVectorValues")
	if wr == nil || ps == nil || pv == nil {
		r.Fail("C10-R5", "anchor wire form functions", "-", "function not found")
		return
	}
	written := map[string]bool{}
	for _, call := range c.CallsThroughHelpers(wr, 2, nameIs("(*strings.Builder).WriteString")) {
		if s, ok := constString(call.Common().Args[1]); ok {
			written[s] = true
		}
	}
	split := map[string]bool{}
	for _, f := range []*ssa.Function{ps, pv} {
		for _, call := range c.Calls(f, false, nameIs("strings.Split")) {
			if s, ok := constString(call.Common().Args[1]); ok {
				split[s] = true
			}
		}
	}
	r.Check("C10-R5", "wire separators written={',',';'} = separators parsed", c.Pos(wr.Pos()), written[","] && written[";"] && split[","] && split[";"] && len(written) == 2, fmt.Sprintf("written %v parsed %v", keys(written), keys(split)), fmt.Sprintf("wire form separators differ: written %v, parsed %v", keys(written), keys(split)))
}

// C10-R6: UpdateHistory must not silently drop a version that AddVersionToPV refused to record. AddVersionToPV does not record a
// version whose source sits in the merge versions; when it reports that the refused version is NEWER than that merge version
// (versionInMVOlder) the caller has to invalidate the merge versions and add the version again — otherwise the newer version is
// recorded nowhere and a revision the replica has seen is later reported as a conflict or accepted again.
func c10R6(c *Ctx, r *Report) {
	r.Rule("C10-R6", "E2 def-use + pathrules", "in UpdateHistory the verdict of AddVersionToPV for the other vector's current version and merge versions is tested against versionInMVOlder and that edge reaches InvalidateMV", 2)
	fn := c.Func("(*db.HybridLogicalVector).UpdateHistory")
	if fn == nil || len(fn.Params) < 2 {
		r.Fail("C10-R6", "anchor (*db.HybridLogicalVector).UpdateHistory", "-", "function not found")
		return
	}
	other := fn.Params[1]
	older := int64(-1)
	if k, ok := c.SSAPkg["db"].Pkg.Scope().Lookup("versionInMVOlder").(*types.Const); ok {
		older, _ = constantInt64(k)
	}
	if older < 0 {
		r.Fail("C10-R6", "anchor db.versionInMVOlder", "-", "constant not found")
		return
	}
	invalidates := c.Calls(fn, false, nameIs("(*db.HybridLogicalVector).InvalidateMV"))
	n := map[string]int{}
	for _, call := range c.Calls(fn, false, nameIs("(*db.HybridLogicalVector).AddVersionToPV")) {
		a := callArgs(call)
		if len(a) < 2 {
			continue
		}
		fromField := func(name string) bool {
			return DependsOn(a[1], func(v ssa.Value) bool {
				f, b := fieldRead(v)
				return f != nil && f.Name() == name && b == ssa.Value(other)
			})
		}
		kind := ""
		switch {
		case fromField("Version"):
			kind = "current-version"
		case fromField("MergeVersions"):
			kind = "merge-versions"
		case fromField("PreviousVersions"):
			kind = "previous-versions"
		default:
			kind = "other"
		}
		n[kind]++
		construct := fmt.Sprintf("fn=UpdateHistory AddVersionToPV(%s) #%d verdict=tested-against-versionInMVOlder", kind, n[kind])
		// a re-add after the merge versions were invalidated cannot meet a merge version any more
		if len(invalidates) > 0 && DominatedBy(fn, call, NewAvoid().AddInstr(instrs(invalidates)...)) {
			r.Pass("C10-R6", construct, c.Pos(call.Pos()), "re-add after InvalidateMV (no merge version left to refuse it)")
			continue
		}
		if kind == "previous-versions" {
			r.Pass("C10-R6", construct, c.Pos(call.Pos()), "exempt: a version in the other vector's previous versions that is newer than one of this vector's merge versions is an inconsistent input (the existing suite documents the drop)")
			continue
		}
		cv := valueOfCall(call)
		ok := false
		if cv != nil && cv.Referrers() != nil {
			for _, rf := range *cv.Referrers() {
				b, isB := rf.(*ssa.BinOp)
				if !isB || (b.Op != token.EQL && b.Op != token.NEQ) {
					continue
				}
				k, isK := constInt(b.Y)
				if !isK {
					k, isK = constInt(b.X)
				}
				if !isK || k != older {
					continue
				}
				pos, neg := EdgesOnValue(fn, func(v ssa.Value) bool { return v == ssa.Value(b) })
				edges := pos
				if b.Op == token.NEQ {
					edges = neg
				}
				for _, e := range edges {
					if ReachFrom(e.To(), 0, func(in ssa.Instruction) bool {
						for _, iv := range invalidates {
							if in == ssa.Instruction(iv) {
								return true
							}
						}
						return false
					}, nil) != nil {
						ok = true
					}
				}
			}
		}
		r.Check("C10-R6", construct, c.Pos(call.Pos()), ok, "a refused newer version leads to InvalidateMV and is added again", "the verdict of AddVersionToPV is ignored here: when the other vector's "+kind+" is newer than this vector's merge version for the same source it is recorded nowhere — a revision the replica has seen is later reported as a conflict (or accepted again) and the source's recorded value can decrease")
	}
	if n["current-version"] == 0 || n["merge-versions"] == 0 {
		r.Fail("C10-R6", "fn=UpdateHistory AddVersionToPV sites", c.Pos(fn.Pos()), fmt.Sprintf("expected calls for the other vector's current version and merge versions, found %v", n))
	}
}
