package main

import (
	"fmt"

	"golang.org/x/tools/go/ssa"
)

// C07-R6: a release of the allocator's whole remaining window (last+1 .. max) — directly, or through a helper that performs it and
// returns its error — must leave the window unusable on EVERY continuation that goes on to hand out a sequence or to return success:
// after a successful release the numbers are published as unused; after a failed one they may have been published all the same (a
// timeout), and on the catch-up path of nextSequenceGreaterThan they are all below the sequence the caller must exceed. So on the
// failure edge of such a release no hand-out (_nextSequence) and no success return may be reached before last is set to max.
func c07R6(c *Ctx, r *Report) { c07R6For(c, r, "C07-R6") }

func c07R6For(c *Ctx, r *Report, rule string) {
	r.Rule(rule, "E2 pathrules (failure edge)", "after a release of the allocator's whole remaining window (releaseSequenceRange(last+1, max), directly or through _releaseCurrentBatch) no hand-out and no success return is reachable on the failure edge before the window is abandoned (last = max)", 3)
	last := c.Field("db.sequenceAllocator", "last")
	max := c.Field("db.sequenceAllocator", "max")
	if last == nil || max == nil {
		r.Fail(rule, "anchor db.sequenceAllocator.last/max", "-", "field not found")
		return
	}
	isLoadOf := func(v ssa.Value, f interface{ Name() string }) bool {
		g, _ := fieldRead(v)
		return g != nil && g == f
	}
	wholeWindow := func(call ssa.CallInstruction) bool {
		if !nameHasSuffix(".releaseSequenceRange")(c.CalleeName(call)) {
			return false
		}
		a := callArgs(call)
		if len(a) < 3 {
			return false
		}
		x, k, ok := plusConst(a[len(a)-2])
		return ok && k == 1 && isLoadOf(x, last) && isLoadOf(a[len(a)-1], max)
	}
	// helpers that perform a whole-window release and return its error
	helpers := map[*ssa.Function]bool{}
	for _, fn := range c.ScopeFuncs() {
		if errResultIndex(fn) < 0 {
			continue
		}
		for _, call := range c.Calls(fn, false, func(string) bool { return true }) {
			if wholeWindow(call) {
				helpers[fn] = true
			}
		}
	}
	n := 0
	for _, fn := range c.ScopeFuncs() {
		k := 0
		for _, call := range c.Calls(fn, false, func(string) bool { return true }) {
			callee := call.Common().StaticCallee()
			if !wholeWindow(call) && !(callee != nil && helpers[callee]) {
				continue
			}
			cv, isCall := call.(*ssa.Call)
			if !isCall {
				continue
			}
			n++
			k++
			construct := fmt.Sprintf("fn=%s window-release=%s #%d failure-edge abandons window before hand-out/success", c.FuncName(fn), CalleeIdent(call), k)
			errV := errValueOf(cv)
			abandon := NewAvoid()
			EachInstr(fn, false, func(in ssa.Instruction) {
				if st, ok := in.(*ssa.Store); ok {
					if fa, ok := st.Addr.(*ssa.FieldAddr); ok && structField(fa.X.Type(), fa.Field) == last && isLoadOf(st.Val, max) {
						abandon.AddInstr(st)
					}
				}
			})
			ei := errResultIndex(fn)
			target := func(in ssa.Instruction) bool {
				if cc, ok := in.(ssa.CallInstruction); ok && nameHasSuffix("._nextSequence")(c.CalleeName(cc)) {
					return true
				}
				if ret, ok := in.(*ssa.Return); ok {
					if ei < 0 {
						return true
					}
					// a return that reports this very failure (or any non-nil error) delegates the decision to the caller
					v := ret.Results[ei]
					if isNilConst(v) {
						return true
					}
					if errV != nil && derivedFromErr(unwrapLoadFree(v), errV) {
						return false
					}
					for _, d := range resultDefs(fn, ei) {
						if d.At == ssa.Instruction(ret) && isNilConst(d.Val) {
							return true
						}
					}
					return false
				}
				return false
			}
			var hit ssa.Instruction
			var pos []Edge
			if errV != nil {
				pos, _ = EdgesOnValue(fn, func(v ssa.Value) bool { return v == errV })
			}
			if len(pos) == 0 {
				// the error is never tested: every continuation is a possible failure continuation
				hit = ReachAfter(call, target, abandon)
			} else {
				for _, e := range pos {
					if h := ReachFrom(e.To(), 0, target, abandon); h != nil {
						hit = h
					}
				}
			}
			detail := ""
			if hit != nil {
				detail = "reaches " + c.Pos(hit.Pos()) + " with the window still open: a sequence of a batch whose release failed (and may have been applied) is handed out — on the catch-up path a number not greater than the one the caller must exceed, so the document's sequence goes backwards and feeds resuming above it never deliver the update"
			}
			r.Check(rule, construct, c.Pos(call.Pos()), hit == nil, "every failure continuation stores last = max, or returns the error", detail)
		}
	}
	if n == 0 {
		r.Fail(rule, "window-release sites", "-", "no release of the allocator's remaining window found")
	}
}
