package main

import (
	"fmt"
	"go/ast"
	"go/token"
	"go/types"
	"os"
	"path/filepath"
	"sort"
	"strings"

	"golang.org/x/tools/go/packages"
	"golang.org/x/tools/go/ssa"
	"golang.org/x/tools/go/ssa/ssautil"
)

const modPath = "github.com/couchbase/sync_gateway"

// Ctx is the loaded, type-checked program plus indexes used by the rules.
type Ctx struct {
	RepoDir string
	Tier    string
	callerCount map[*ssa.Function]map[*ssa.Function]bool
	Fset    *token.FileSet
	Pkgs    []*packages.Package // root packages
	AllPkgs map[string]*packages.Package
	Prog    *ssa.Program
	SSAPkg  map[string]*ssa.Package // by short name: db, rest, auth, base, channels

	funcs    map[string]*ssa.Function // by short qualified name, source functions only (incl. anon as parent$N)
	SrcFuncs []*ssa.Function          // all functions (incl. anonymous) of the root packages, non-test-helper files

	NumFiles int

	callersIdx map[*ssa.Function][]ssa.CallInstruction // static callers index (lazy)
	fieldStoreIdx map[*types.Var][]*FieldAccess
	fieldIdxBuilt bool
}

var rootPatterns = []string{"./db", "./rest", "./auth", "./base", "./channels"}

// isHelperFile reports whether a source file is test support code shipped in a non-test package
// (excluded from rule scope; still loaded so references resolve).
func isHelperFile(name string) bool {
	b := filepath.Base(name)
	if strings.HasSuffix(b, "_test.go") {
		return true
	}
	if strings.Contains(b, "_testing") || strings.HasPrefix(b, "util_testing") || b == "api_test_helpers.go" ||
		strings.Contains(b, "test_helper") || b == "leaky_datastore.go" || b == "leaky_bucket.go" || strings.HasPrefix(b, "main_test_") ||
		strings.Contains(b, "testing_") || b == "user_api_test_helpers.go" {
		return true
	}
	return false
}

func loadProgram(repo, tier string, overlay map[string][]byte, tags string) (*Ctx, error) {
	env := append(os.Environ(), "GOFLAGS=-mod=mod", "GOPROXY=off", "GOSUMDB=off", "GOTOOLCHAIN=local", "GOWORK=off")
	cfg := &packages.Config{
		Mode:    packages.LoadSyntax,
		Dir:     repo,
		Env:     env,
		Tests:   false,
		Overlay: overlay,
	}
	if tags != "" {
		cfg.BuildFlags = []string{"-tags=" + tags}
	}
	pkgs, err := packages.Load(cfg, rootPatterns...)
	if err != nil {
		return nil, fmt.Errorf("packages.Load: %w", err)
	}
	if len(pkgs) != len(rootPatterns) {
		return nil, fmt.Errorf("expected %d root packages, loaded %d", len(rootPatterns), len(pkgs))
	}
	c := &Ctx{RepoDir: repo, Tier: tier, Pkgs: pkgs, AllPkgs: map[string]*packages.Package{}, SSAPkg: map[string]*ssa.Package{}, funcs: map[string]*ssa.Function{}}
	var errs []string
	packages.Visit(pkgs, nil, func(p *packages.Package) {
		c.AllPkgs[p.PkgPath] = p
		for _, e := range p.Errors {
			errs = append(errs, fmt.Sprintf("%s: %s", p.PkgPath, e.Msg))
		}
	})
	if len(errs) > 0 {
		sort.Strings(errs)
		if len(errs) > 8 {
			errs = errs[:8]
		}
		return nil, fmt.Errorf("type/load errors (analysis refused): %s", strings.Join(errs, " | "))
	}
	if len(c.AllPkgs) < 5 {
		return nil, fmt.Errorf("implausibly few packages loaded: %d", len(c.AllPkgs))
	}
	c.Fset = pkgs[0].Fset
	prog, spkgs := ssautil.Packages(pkgs, ssa.BuilderMode(0))
	prog.Build()
	c.Prog = prog
	for i, p := range pkgs {
		if spkgs[i] == nil {
			return nil, fmt.Errorf("no SSA for %s", p.PkgPath)
		}
		c.SSAPkg[p.Name] = spkgs[i]
		c.NumFiles += len(p.Syntax)
	}
	// Index source functions.
	for _, sp := range c.SSAPkg {
		for _, m := range sp.Members {
			switch m := m.(type) {
			case *ssa.Function:
				c.addFunc(m)
			case *ssa.Type:
				for _, T := range []types.Type{m.Type(), types.NewPointer(m.Type())} {
					ms := prog.MethodSets.MethodSet(T)
					for i := 0; i < ms.Len(); i++ {
						fn := prog.MethodValue(ms.At(i))
						if fn != nil && fn.Synthetic == "" {
							c.addFunc(fn)
						}
					}
				}
			}
		}
	}
	sort.Slice(c.SrcFuncs, func(i, j int) bool { return c.SrcFuncs[i].Pos() < c.SrcFuncs[j].Pos() })
	if len(c.SrcFuncs) < 3000 {
		return nil, fmt.Errorf("implausibly few source functions: %d", len(c.SrcFuncs))
	}
	return c, nil
}

func (c *Ctx) addFunc(fn *ssa.Function) {
	if fn.Pkg == nil || fn.Blocks == nil && fn.Syntax() == nil {
		return
	}
	name := c.FuncName(fn)
	if _, dup := c.funcs[name]; dup {
		return
	}
	c.funcs[name] = fn
	c.SrcFuncs = append(c.SrcFuncs, fn)
	for _, a := range fn.AnonFuncs {
		c.addAnon(a)
	}
}

func (c *Ctx) addAnon(fn *ssa.Function) {
	name := c.FuncName(fn)
	c.funcs[name] = fn
	c.SrcFuncs = append(c.SrcFuncs, fn)
	for _, a := range fn.AnonFuncs {
		c.addAnon(a)
	}
}

// FuncName gives the short qualified name: "(*db.DatabaseCollection).updateAndReturnDoc", "db.ParseRevID".
func (c *Ctx) FuncName(fn *ssa.Function) string {
	if fn == nil {
		return "<nil>"
	}
	s := fn.RelString(nil)
	return strings.ReplaceAll(s, modPath+"/", "")
}

// Func resolves a short qualified name; nil if absent.
func (c *Ctx) Func(name string) *ssa.Function { return c.funcs[name] }

// InScope: source function of a root package, not in a test-helper file.
func (c *Ctx) InScope(fn *ssa.Function) bool {
	if fn == nil || fn.Pkg == nil {
		return false
	}
	p := fn.Pos()
	if !p.IsValid() {
		if fn.Parent() != nil {
			return c.InScope(fn.Parent())
		}
		return false
	}
	return !isHelperFile(c.Fset.Position(p).Filename)
}

func (c *Ctx) ScopeFuncs() []*ssa.Function {
	var out []*ssa.Function
	for _, f := range c.SrcFuncs {
		if c.InScope(f) {
			out = append(out, f)
		}
	}
	return out
}

func (c *Ctx) Pos(p token.Pos) string {
	if !p.IsValid() {
		return "?"
	}
	pos := c.Fset.Position(p)
	rel, err := filepath.Rel(c.RepoDir, pos.Filename)
	if err != nil {
		rel = pos.Filename
	}
	return fmt.Sprintf("%s:%d", rel, pos.Line)
}

func (c *Ctx) File(p token.Pos) string {
	if !p.IsValid() {
		return ""
	}
	pos := c.Fset.Position(p)
	rel, err := filepath.Rel(c.RepoDir, pos.Filename)
	if err != nil {
		rel = pos.Filename
	}
	return rel
}

// TopLevel returns the outermost enclosing declared function of fn.
func TopLevel(fn *ssa.Function) *ssa.Function {
	for fn.Parent() != nil {
		fn = fn.Parent()
	}
	return fn
}

// Struct field lookup: "db.sequenceAllocator" "last" -> *types.Var
func (c *Ctx) Field(typeName, field string) *types.Var {
	T := c.NamedType(typeName)
	if T == nil {
		return nil
	}
	st, ok := T.Underlying().(*types.Struct)
	if !ok {
		return nil
	}
	for i := 0; i < st.NumFields(); i++ {
		if st.Field(i).Name() == field {
			return st.Field(i)
		}
	}
	return nil
}

// NamedType resolves "db.sequenceAllocator".
func (c *Ctx) NamedType(q string) *types.Named {
	i := strings.Index(q, ".")
	if i < 0 {
		return nil
	}
	sp := c.SSAPkg[q[:i]]
	if sp == nil {
		return nil
	}
	obj := sp.Pkg.Scope().Lookup(q[i+1:])
	if obj == nil {
		return nil
	}
	tn, ok := obj.(*types.TypeName)
	if !ok {
		return nil
	}
	n, _ := types.Unalias(tn.Type()).(*types.Named)
	return n
}

// enclosingFuncDecl finds the syntax of a function (for AST-level rules).
func (c *Ctx) Syntax(fn *ssa.Function) ast.Node { return fn.Syntax() }
