package main

import (
	"fmt"
	"strings"

	"golang.org/x/tools/go/ssa"
)

func init() { registry["C11"] = checkC11 }

var c11Files = []string{"db/crud.go", "db/document.go", "db/attachment.go", "db/revision.go", "db/import.go", "db/users.go", "auth/auth.go", "auth/session.go", "db/sequence_allocator.go"}

// read paths declared in the scoped files: a failed read is reported as "missing"/absent to the requester and no write is
// reported successful, so these functions are outside C11 (they are inside C02's scope).
var c11ReadPaths = map[string]string{
	"(*db.DatabaseCollectionWithUser).CheckChangeVersion":         "replication read path: a failed lookup reports the revision as missing",
	"(*db.DatabaseCollectionWithUser).CheckProposedRev":           "replication read path: a failed lookup is answered with an error status code",
	"(*db.DatabaseCollectionWithUser).CheckProposedVersion":       "replication read path",
	"(*db.DatabaseCollectionWithUser).RevDiff":                    "read path: a failed lookup reports the revision as missing",
	"(*db.DatabaseCollectionWithUser).Get1xRevAndChannels":        "read path (all-docs / include_docs)",
	"(*db.DatabaseCollectionWithUser).getAvailableRev":            "read helper: walks ancestors until a stored body is found",
	"(*db.DatabaseCollectionWithUser).getAvailableRevAttachments": "read helper",
}

const relNote = "a failed unused-sequence notice falls back to skipped-sequence handling (second fault after the first; the number is abandoned after the skipped-sequence timeout)"

var c11BestEffort = []BestEffort{
	{Func: "(*auth.Authenticator).DeleteUser", Callee: "Delete", ArgFrom: "(*base.MetadataKeys).UserEmailKey", Reason: "secondary e-mail lookup document; its removal is advisory and logged, the user document delete that follows is propagated"},
	{Func: "(*auth.Authenticator).RegisterNewUser", Callee: "Save", HandledPredicate: "base.IsCasMismatch", Reason: "CAS mismatch on create means the user was registered concurrently; the stored user is re-read and returned (other failures propagate)"},
	{Func: "(*db.DatabaseCollectionWithUser).MarkPrincipalsChanged", Callee: "GetUser", Reason: "post-commit refresh of the requester's in-memory user object; on failure the old object is kept and the condition is logged"},
	{Func: "(*db.DatabaseCollectionWithUser).Purge", Callee: "Delete", Reason: "attachment blobs of a purged document; an orphan is reclaimed by attachment compaction"},
	{Func: "(*db.DatabaseCollectionWithUser).backupRevisionJSON", Callee: "refreshOldRevisionJSON", Reason: "optimistic temporary backup of the previous revision body for in-flight replications (documented best effort)"},
	{Func: "(*db.DatabaseCollectionWithUser).correctVersionAheadOfCAS", Callee: "restampVersionCAS", Reason: "post-commit CAS re-stamp for XDCR; on failure the committed document is returned unchanged and the condition is logged"},
	{Func: "(*db.DatabaseCollectionWithUser).importDoc", Callee: "backupPreImportRevision", Reason: "optimistic backup of the pre-import revision from the revision cache"},
	{Func: "(*db.DatabaseCollectionWithUser).migrateMetadata", Callee: "migrateRevisionBodies", Reason: "externalising large inline bodies during metadata migration; on failure they stay inline"},
	{Func: "(*db.Document).migrateRevisionBodies", Callee: "persistRevisionBody", Reason: "a body that cannot be externalised stays inline (BodyKey is only set after a successful store)"},
	{Func: "(*db.DatabaseCollectionWithUser).postWriteUpdateHLV", Callee: "setOldRevisionJSON", Reason: "delta-sync backup copy written after the commit point"},
	{Func: "(*db.DatabaseCollectionWithUser).postWriteUpdateHLV", Callee: "setOldRevisionJSONPtr", Reason: "legacy revtree pointer to the backup copy, written after the commit point"},
	{Func: "(*db.DatabaseCollectionWithUser).tombstoneActiveRevision", Callee: "setOldRevisionJSON", Reason: "backup of the body being tombstoned, before the tombstone is written by the caller"},
	{Func: "(*db.DatabaseCollectionWithUser).updateAndReturnDoc", Callee: "Delete", Reason: "obsolete attachment removal after the commit point; failure cannot un-commit, the orphan is reclaimed by attachment compaction"},
	{Func: "(*db.DatabaseCollectionWithUser).updateAndReturnDoc", Callee: "getAttachmentIDsForLeafRevisions", Reason: "failure only disables obsolete-attachment removal for this write (skipObsoleteAttachmentsRemoval)"},
	{Func: "(*db.DatabaseCollectionWithUser).invalidatePurgedDocGrantees", Callee: "nextSequence", Reason: "post-commit (the purge has happened) stamp for the grantees' invalidation; on failure the purged document's own sequence is used instead and the condition is logged"},
	{Func: "*", Callee: "releaseSequence", Reason: relNote},
	{Func: "(*db.sequenceAllocator).nextSequenceGreaterThan", Callee: "releaseSequenceRange", Reason: relNote},
	{Func: "(*db.sequenceAllocator).nextSequenceGreaterThan", Callee: "_releaseCurrentBatch", Reason: relNote},
	{Func: "(*db.sequenceAllocator).releaseUnusedSequences", Callee: "releaseSequenceRange", Reason: relNote},
	{Func: "(*db.Document).deleteRemovedRevisionBodies", Callee: "Delete", Reason: "obsolete non-winning revision bodies, deleted after the commit point"},
}

func checkC11(c *Ctx, r *Report) {
	r.Explain = "Decides structural necessary conditions of write atomicity/durability reporting: (R1) on the write, principal and session paths no error that may carry a storage failure is swallowed — for every call site whose error can originate in the storage layer (directly or through in-repo callees, computed to a fixpoint) every path from the failure reaches a return carrying that error (or a fresh error), a panic, or a retry of the same operation; sites that deliberately continue are one-symbol rows of a best-effort table with reasons; (R2) side effects are ordered around the commit point: attachment bodies, ancestor backups and non-winning revision bodies are written only from the CAS callback (before the commit), while obsolete-attachment deletion, deletion of removed revision bodies, principal invalidation and revision-cache insertion are dominated by the success edge of the CAS write; (R3) a failed write gives back its reserved sequences (shared with C07-R4); (R4) principal writes are CAS-guarded with the CAS the principal was loaded with. Not decided: equality of bucket state before/after a rejected write, pairs of faults, visibility to subsequent reads."
	fe := newFailEdge(c)
	r.Rule("C11-R1", "E5 failedge", "no storage failure is swallowed on the write, principal and session paths: every storage-call site propagates its error to every exit, retries, or is a listed best-effort site", 60)
	runFailEdge(c, r, "C11-R1", fe, fileScope(c, c11ReadPaths, c11Files...), c11BestEffort)
	c11R2(c, r)
	r.Rule("C11-R3", "E2 pathrules", "a failed document write releases the sequence reserved for it and every sequence carried across CAS retries (storage timeout excepted)", 4)
	c07WriteFailureRelease(c, r, "C11-R3")
	c11R4(c, r)
}

func c11R2(c *Ctx, r *Report) {
	r.Rule("C11-R2", "E2 pathrules + E3 whomay", "pre-commit side effects happen only inside the CAS callback; post-commit side effects are dominated by the success edge of the CAS write", 7)
	name := "(*db.DatabaseCollectionWithUser).updateAndReturnDoc"
	fn := c.Func(name)
	if fn == nil {
		r.Fail("C11-R2", "anchor "+name, "-", "function not found")
		return
	}
	writes := c.Calls(fn, false, nameHasSuffix(".WriteUpdateWithXattrs"))
	if len(writes) != 1 {
		r.Fail("C11-R2", "fn="+name+" commit-call", c.Pos(fn.Pos()), "expected exactly one CAS write")
		return
	}
	w := writes[0].(*ssa.Call)
	e := errValueOf(w)
	_, nilEdges := EdgesOnValue(fn, func(v ssa.Value) bool { return unwrapLoadFree(v) == e })
	post := []string{"(*db.Document).deleteRemovedRevisionBodies", "(*db.DatabaseCollectionWithUser).MarkPrincipalsChanged", "(db.RevisionCache).Put", "(db.RevisionCache).Upsert", "(*db.revisionCacheWrapper).Put", "(*db.collectionRevisionCache).Put", "(*db.collectionRevisionCache).Upsert", "(sgbucket.KVStore).Delete", "(*db.eventManager).RaiseDocumentChangeEvent"}
	n := 0
	for _, call := range c.Calls(fn, false, func(nm string) bool {
		for _, p := range post {
			if nm == p {
				return true
			}
		}
		return strings.HasSuffix(nm, ".Delete") && strings.Contains(nm, "sgbucket")
	}) {
		n++
		// all nil-edges removed => unreachable, and the last test before it is a success edge: use "dominated by union of nil-edges
		// that themselves are not followed by a failure edge": every path to the call crosses a nil-edge after which no non-nil edge is crossed.
		ok := len(nilEdges) > 0 && c11AfterSuccess(fn, call, e, nilEdges)
		r.Check("C11-R2", fmt.Sprintf("fn=%s post-commit=%s #%d after=write-success", name, CalleeIdent(call), n), c.Pos(call.Pos()), ok,
			"reachable only when the CAS write returned no error", "a post-commit side effect (cleanup / invalidation / cache insert) is reachable on a path where the CAS write failed: a rejected or failed write would alter state")
	}
	// post-commit effects must not be issued from inside the CAS callback (it runs before the commit, possibly several times)
	isPost := func(nm string) bool {
		for _, p := range post {
			if nm == p {
				return true
			}
		}
		return false
	}
	inner := append([]*ssa.Function{}, fn.AnonFuncs...)
	if duf := c.Func("(*db.DatabaseCollectionWithUser).documentUpdateFunc"); duf != nil {
		inner = append(inner, duf)
	}
	for _, lit := range inner {
		bad := ""
		for _, call := range c.Calls(lit, true, isPost) {
			if CalleeIdent(call) == "Delete" {
				continue // KV deletes inside the callback path are judged by R1/C14, not here
			}
			bad = CalleeIdent(call) + "@" + c.Pos(call.Pos())
		}
		r.Check("C11-R2", "fn="+c.FuncName(lit)+" no-post-commit-effects-before-commit", c.Pos(lit.Pos()), bad == "", "no invalidation / cache insert / cleanup inside the pre-commit callback", "post-commit effect issued before the commit point: "+bad+" (would take effect even if the write is then rejected or loses the CAS race)")
	}
	// a rejected write leaves nothing behind: inside documentUpdateFunc every storage-mutating step is dominated by the
	// success edge of every rejection point (existing-doc validation, the update callback with its conflict checks,
	// body validation/preparation, the sync function)
	if duf := c.Func("(*db.DatabaseCollectionWithUser).documentUpdateFunc"); duf == nil {
		r.Fail("C11-R2", "anchor documentUpdateFunc", "-", "function not found")
	} else {
		gates := []string{"db.validateExistingDoc", "(*db.DatabaseCollectionWithUser).prepareSyncFn", "(*db.DatabaseCollectionWithUser).runSyncFn"}
		gateEdges := map[string][]Edge{}
		for _, g := range gates {
			for _, call := range c.Calls(duf, false, nameIs(g)) {
				ev := errValueOf(call.(*ssa.Call))
				_, neg := EdgesOnValue(duf, func(v ssa.Value) bool { return unwrapLoadFree(v) == ev })
				gateEdges[g] = append(gateEdges[g], neg...)
			}
		}
		// the update callback is a dynamic call of the callback parameter
		for _, b := range duf.Blocks {
			for _, in := range b.Instrs {
				if call, ok := in.(*ssa.Call); ok {
					if p, ok := call.Call.Value.(*ssa.Parameter); ok && namedOf(p.Type()) == "updateAndReturnDocCallback" {
						ev := errValueOf(call)
						_, neg := EdgesOnValue(duf, func(v ssa.Value) bool { return unwrapLoadFree(v) == ev })
						gateEdges["callback(doc)"] = append(gateEdges["callback(doc)"], neg...)
					}
				}
			}
		}
		gates = append(gates, "callback(doc)")
		effects := []string{"(*db.DatabaseCollectionWithUser).addAttachments", "(*db.DatabaseCollectionWithUser).backupAncestorRevs", "(*db.Document).persistModifiedRevisionBodies", "(*db.DatabaseCollectionWithUser).assignSequence"}
		for _, ef := range effects {
			for _, call := range c.Calls(duf, false, nameIs(ef)) {
				for _, g := range gates {
					ok := len(gateEdges[g]) > 0 && DominatedBy(duf, call, NewAvoid().AddEdge(gateEdges[g]...))
					r.Check("C11-R2", fmt.Sprintf("fn=documentUpdateFunc effect=%s after-accepted-by=%s", CalleeIdent(call), g), c.Pos(call.Pos()), ok,
						"dominated by the acceptance edge", "a storage side effect of the write ("+CalleeIdent(call)+") can happen before "+g+" has accepted it: a rejected write would leave attachments, backups or a consumed sequence behind")
				}
			}
		}
	}
	// pre-commit side effects: who may call
	pre := map[string]map[string]bool{
		"(*db.DatabaseCollectionWithUser).addAttachments":    {"(*db.DatabaseCollectionWithUser).documentUpdateFunc": true},
		"(*db.DatabaseCollectionWithUser).backupAncestorRevs": {"(*db.DatabaseCollectionWithUser).documentUpdateFunc": true},
		"(*db.Document).persistModifiedRevisionBodies":       {"(*db.DatabaseCollectionWithUser).documentUpdateFunc": true},
		"(*db.DatabaseCollectionWithUser).documentUpdateFunc": {name: true},
	}
	for callee, allowed := range pre {
		if c.Func(callee) == nil {
			r.Fail("C11-R2", "anchor "+callee, "-", "function not found")
			continue
		}
		cnt, bad := 0, ""
		for _, g := range c.ScopeFuncs() {
			for _, call := range c.Calls(g, false, nameIs(callee)) {
				cnt++
				top := c.FuncName(TopLevel(g))
				if !allowed[top] {
					bad = top + "@" + c.Pos(call.Pos())
				}
				if callee == "(*db.DatabaseCollectionWithUser).documentUpdateFunc" && g.Parent() == nil {
					bad = "called outside the CAS callback literal at " + c.Pos(call.Pos())
				}
			}
		}
		r.Check("C11-R2", "pre-commit="+callee+" callers", "-", bad == "" && cnt > 0, fmt.Sprintf("%d call site(s), all inside the CAS callback path", cnt), "pre-commit side effect invoked from "+bad)
	}
}

// c11AfterSuccess: every path from entry to target crosses an edge on which the write's error is known nil, and does not
// afterwards cross an edge on which it is known non-nil (trivially true in straight-line code; guards against a side effect
// placed between the tests).
func c11AfterSuccess(fn *ssa.Function, target ssa.Instruction, e ssa.Value, nilEdges []Edge) bool {
	// the last nil-edge: one whose target dominates the call's block
	var last []Edge
	for _, ed := range nilEdges {
		if ed.To() == target.Block() || ed.To().Dominates(target.Block()) {
			last = append(last, ed)
		}
	}
	if len(last) == 0 {
		return false
	}
	return DominatedBy(fn, target, NewAvoid().AddEdge(last...))
}

func c11R4(c *Ctx, r *Report) {
	r.Rule("C11-R4", "E2 def-use", "principal documents are written with WriteCas carrying the CAS the principal value was loaded with (never a constant)", 2)
	n := 0
	for _, fn := range c.ScopeFuncs() {
		if fn.Pkg == nil || fn.Pkg.Pkg.Name() != "auth" {
			continue
		}
		for _, call := range c.Calls(fn, false, nameHasSuffix(".WriteCas")) {
			a := call.Common().Args
			if len(a) < 5 {
				continue
			}
			n++
			casArg, val := a[3], a[4]
			ok := false
			if cv, isCall := casArg.(*ssa.Call); isCall && cv.Call.IsInvoke() && cv.Call.Method.Name() == "Cas" {
				// same principal value written
				ok = DependsOn(val, func(v ssa.Value) bool { return v == cv.Call.Value })
			}
			r.Check("C11-R4", fmt.Sprintf("fn=%s WriteCas #%d cas=principal.Cas()", c.FuncName(fn), n), c.Pos(call.Pos()), ok, "cas argument is p.Cas() of the value written", "principal written without the CAS it was loaded with: a concurrent update would be overwritten silently")
		}
	}
}
