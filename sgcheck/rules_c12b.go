package main

import (
	"fmt"
	"go/token"
	"strings"

	"golang.org/x/tools/go/ssa"
)

// C12-R7: "expired sessions never authenticate" rests entirely on the bucket: the authenticators do not look at
// LoginSession.Expiration ("Couchbase will have nuked the document"). So every write of a session document must carry a document
// expiry computed from the session's time-to-live — a write with expiry 0 makes the session immortal — and CreateSession must refuse a
// non-positive time-to-live before it writes.
func c12R7(c *Ctx, r *Report) {
	r.Rule("C12-R7", "E3 whomay + def-use + E2 pathrules", "every write of a session document passes a document expiry computed by the duration-to-expiry conversion (never a constant); CreateSession writes only on the edge where the requested time-to-live is positive", 3)
	n := 0
	isExpiryConv := func(name string) bool { return strings.Contains(name, "CbsExpiry") }
	for _, fn := range c.ScopeFuncs() {
		if fn.Pkg == nil || fn.Pkg.Pkg.Name() != "auth" {
			continue
		}
		for _, call := range c.Calls(fn, false, func(string) bool { return true }) {
			cc := call.Common()
			if !cc.IsInvoke() {
				continue
			}
			args := cc.Args
			if len(args) < 3 || !DependsOn(args[1], c.ResultOf(0, nameHasSuffix(".DocIDForSession"))) {
				continue
			}
			op := cc.Method.Name()
			switch op {
			case "Set", "SetRaw", "Add", "AddRaw", "Update", "WriteCas", "Touch", "GetAndTouchRaw":
			default:
				continue
			}
			if args[2].Type().String() != "uint32" {
				continue
			}
			n++
			top := c.FuncName(TopLevel(fn))
			_, isConst := args[2].(*ssa.Const)
			ok := !isConst && DependsOn(args[2], func(v ssa.Value) bool { return c.IsCallTo(v, isExpiryConv) })
			r.Check("C12-R7", fmt.Sprintf("fn=%s session-doc op=%s expiry=from-time-to-live", top, op), c.Pos(call.Pos()), ok, "expiry derives from the duration-to-expiry conversion", "a session document is written with an expiry that is not computed from the session's time-to-live (a constant, e.g. 0 = never expires): the authenticators never compare LoginSession.Expiration, so such a session authenticates for ever")
		}
	}
	if n == 0 {
		r.Fail("C12-R7", "session-doc writes", "-", "no write of a session document found")
	}
	// CreateSession: the write is dominated by ttl > 0
	cs := c.Func("(*auth.Authenticator).CreateSession")
	if cs == nil {
		r.Fail("C12-R7", "anchor (*auth.Authenticator).CreateSession", "-", "function not found")
		return
	}
	var ttl ssa.Value
	for _, p := range cs.Params {
		if p.Type().String() == "time.Duration" {
			ttl = p
		}
	}
	positive := EdgesWhere(cs, func(cond ssa.Value) (bool, bool) {
		b, ok := cond.(*ssa.BinOp)
		if !ok || ttl == nil {
			return false, false
		}
		k, isK := constInt(b.Y)
		if !isK || k != 0 || !DependsOn(b.X, func(v ssa.Value) bool { return v == ttl }) {
			return false, false
		}
		switch b.Op {
		case token.GTR:
			return true, true
		case token.LEQ:
			return true, false
		}
		return false, false
	})
	w := 0
	for _, call := range c.Calls(cs, false, func(string) bool { return true }) {
		cc := call.Common()
		if !cc.IsInvoke() || len(cc.Args) < 3 || !DependsOn(cc.Args[1], c.ResultOf(0, nameHasSuffix(".DocIDForSession"))) {
			continue
		}
		w++
		ok := len(positive) > 0 && DominatedBy(cs, call, NewAvoid().AddEdge(positive...))
		r.Check("C12-R7", fmt.Sprintf("fn=CreateSession session-doc write #%d only-if=time-to-live>0", w), c.Pos(call.Pos()), ok, "dominated by ttl > 0", "CreateSession can write a session for a non-positive time-to-live: the expiry conversion of 0 means 'never expires'")
	}
	if w == 0 {
		r.Fail("C12-R7", "fn=CreateSession session-doc write", c.Pos(cs.Pos()), "no session write found")
	}
}
