package main

import (
	"go/constant"
	"go/token"
	"go/types"

	"golang.org/x/tools/go/ssa"
)

// fieldRead: v reads a struct field (load of FieldAddr, or Field); returns the field and the struct base value.
func fieldRead(v ssa.Value) (*types.Var, ssa.Value) {
	switch x := v.(type) {
	case *ssa.UnOp:
		if x.Op == token.MUL {
			if fa, ok := x.X.(*ssa.FieldAddr); ok {
				return structField(fa.X.Type(), fa.Field), fa.X
			}
		}
	case *ssa.Field:
		return structField(x.X.Type(), x.Field), x.X
	}
	return nil, nil
}

// plusConst decomposes v as x + k (k may be negative for x - k); ok=false otherwise.
func plusConst(v ssa.Value) (ssa.Value, int64, bool) {
	b, ok := v.(*ssa.BinOp)
	if !ok || (b.Op != token.ADD && b.Op != token.SUB) {
		return nil, 0, false
	}
	if k, ok := constInt(b.Y); ok {
		if b.Op == token.SUB {
			k = -k
		}
		return b.X, k, true
	}
	if b.Op == token.ADD {
		if k, ok := constInt(b.X); ok {
			return b.Y, k, true
		}
	}
	return nil, 0, false
}

func constInt(v ssa.Value) (int64, bool) {
	c, ok := v.(*ssa.Const)
	if !ok || c.Value == nil {
		return 0, false
	}
	if c.Value.Kind() != constant.Int {
		return 0, false
	}
	i, exact := constant.Int64Val(c.Value)
	if !exact {
		return 0, false
	}
	return i, true
}

func constString(v ssa.Value) (string, bool) {
	c, ok := v.(*ssa.Const)
	if !ok || c.Value == nil || c.Value.Kind() != constant.String {
		return "", false
	}
	return constant.StringVal(c.Value), true
}

// storesToField lists Store instructions (across scope functions) whose address is field fld.
func (c *Ctx) storesToField(fld *types.Var) []*ssa.Store {
	var out []*ssa.Store
	for _, fn := range c.SrcFuncs {
		if !c.InScope(fn) {
			continue
		}
		for _, b := range fn.Blocks {
			for _, in := range b.Instrs {
				st, ok := in.(*ssa.Store)
				if !ok {
					continue
				}
				if fa, ok := st.Addr.(*ssa.FieldAddr); ok && structField(fa.X.Type(), fa.Field) == fld {
					out = append(out, st)
				}
			}
		}
	}
	return out
}

// sameFieldRead: two values read the same field of the same base value.
func sameFieldRead(a, b ssa.Value) bool {
	fa, ba := fieldRead(a)
	fb, bb := fieldRead(b)
	return fa != nil && fa == fb && ba == bb
}

// isParam: v is parameter number i (0 = receiver for methods) of its function.
func isParam(v ssa.Value, i int) bool {
	p, ok := v.(*ssa.Parameter)
	if !ok {
		return false
	}
	ps := p.Parent().Params
	return i < len(ps) && ps[i] == p
}

// loadOf: v is a load (*addr); returns addr.
func loadOf(v ssa.Value) (ssa.Value, bool) {
	u, ok := v.(*ssa.UnOp)
	if ok && u.Op == token.MUL {
		return u.X, true
	}
	return nil, false
}

// callArgs returns the argument list excluding the receiver for static method calls.
func callArgs(call ssa.CallInstruction) []ssa.Value {
	cc := call.Common()
	if cc.IsInvoke() {
		return cc.Args
	}
	if f := cc.StaticCallee(); f != nil && f.Signature.Recv() != nil && len(cc.Args) > 0 {
		return cc.Args[1:]
	}
	return cc.Args
}

// valueOfCall returns the call as a value (nil for go/defer).
func valueOfCall(call ssa.CallInstruction) ssa.Value {
	if c, ok := call.(*ssa.Call); ok {
		return c
	}
	return nil
}

// extractOf returns the Extract instructions for component idx of a tuple-valued call; for single-valued calls and idx==0 the call itself.
func resultValues(call *ssa.Call, idx int) []ssa.Value {
	if call.Call.Signature().Results().Len() <= 1 {
		if idx == 0 {
			return []ssa.Value{call}
		}
		return nil
	}
	var out []ssa.Value
	if refs := call.Referrers(); refs != nil {
		for _, r := range *refs {
			if e, ok := r.(*ssa.Extract); ok && e.Index == idx {
				out = append(out, e)
			}
		}
	}
	return out
}

// condTestsValue: the If condition is a test on value v (nil test or bool test); returns which successor index
// corresponds to "v is nil"/"v is false" (negIdx) and "v non-nil"/"true" (posIdx).
func condOnValue(cond ssa.Value, isV func(ssa.Value) bool) (posSucc int, ok bool) {
	if x, trueMeansNil, isNil := NilTest(cond); isNil && isV(unwrapLoadFree(x)) {
		if trueMeansNil {
			return 1, true
		}
		return 0, true
	}
	x, pos := BoolTest(cond)
	if isV(x) {
		if pos {
			return 0, true
		}
		return 1, true
	}
	return 0, false
}

// unwrapLoadFree forwards a load of a local cell (a variable that lives in an Alloc because it is captured or
// address-taken) to the unique Store that reaches it: walking the CFG backwards from the load, the first Store to the
// cell met on every path must be one and the same instruction, and no call that receives a closure capturing the cell
// (which could assign it) may be met first. Other values are returned unchanged.
func unwrapLoadFree(v ssa.Value) ssa.Value {
	for i := 0; i < 4; i++ {
		u, ok := v.(*ssa.UnOp)
		if !ok || u.Op != token.MUL {
			return v
		}
		al, ok := rootAddr(u.X).(*ssa.Alloc)
		if !ok || al.Parent() != u.Parent() {
			return v
		}
		st := reachingStore(u, al)
		if st == nil {
			return v
		}
		v = st.Val
	}
	return v
}

// mayAssignCell: the instruction could assign the cell other than by a direct Store: a call that is handed a closure
// capturing the cell, or the cell's address.
func mayAssignCell(in ssa.Instruction, al *ssa.Alloc) bool {
	call, ok := in.(ssa.CallInstruction)
	if !ok {
		return false
	}
	cc := call.Common()
	args := cc.Args
	if !cc.IsInvoke() {
		args = append([]ssa.Value{cc.Value}, args...)
	}
	for _, a := range args {
		if a == ssa.Value(al) {
			return true
		}
		if mc, ok := a.(*ssa.MakeClosure); ok {
			for _, b := range mc.Bindings {
				if rootAddr(b) == ssa.Value(al) {
					return true
				}
			}
		}
	}
	return false
}

func reachingStore(load *ssa.UnOp, al *ssa.Alloc) *ssa.Store {
	var found *ssa.Store
	fail := false
	visited := map[*ssa.BasicBlock]bool{}
	var scan func(b *ssa.BasicBlock, from int)
	scan = func(b *ssa.BasicBlock, from int) {
		if fail {
			return
		}
		for k := from; k >= 0; k-- {
			in := b.Instrs[k]
			if st, ok := in.(*ssa.Store); ok && rootAddr(st.Addr) == ssa.Value(al) {
				if found != nil && found != st {
					fail = true
				}
				found = st
				return
			}
			if mayAssignCell(in, al) {
				fail = true
				return
			}
		}
		if len(b.Preds) == 0 {
			fail = true // reaches function entry without a store: zero value
			return
		}
		for _, p := range b.Preds {
			if visited[p] {
				continue
			}
			visited[p] = true
			scan(p, len(p.Instrs)-1)
		}
	}
	scan(load.Block(), instrIndex(load)-1)
	if fail {
		return nil
	}
	return found
}

// EdgesOnValue returns (posEdges, negEdges): branch edges in fn where value matching isV is known
// non-nil/true (pos) or nil/false (neg).
func EdgesOnValue(fn *ssa.Function, isV func(ssa.Value) bool) (pos, neg []Edge) {
	for _, i := range Ifs(fn) {
		if ps, ok := condOnValue(i.Cond, isV); ok {
			pos = append(pos, Edge{i.Block(), ps})
			neg = append(neg, Edge{i.Block(), 1 - ps})
		}
	}
	return
}

// resultDef: one definition of a function result: either the operand of a Return, or — for named results returned through
// their cell (bare return / defer-spilled return) — a Store into the result cell.
type resultDef struct {
	At  ssa.Instruction // the Return or the Store
	Val ssa.Value
}

// resultDefs lists every definition of result idx of fn. For a return whose operand is a load of a local cell with no unique
// reaching store, all stores into that cell are listed (plus the zero value if the cell may be returned unassigned: reported as a
// nil Val at the Return).
func resultDefs(fn *ssa.Function, idx int) []resultDef {
	var out []resultDef
	seenStore := map[*ssa.Store]bool{}
	for _, ret := range Returns(fn) {
		if idx >= len(ret.Results) {
			continue
		}
		v := unwrapLoadFree(ret.Results[idx])
		if ad, ok := loadOf(v); ok {
			if al, ok := rootAddr(ad).(*ssa.Alloc); ok && al == ad {
				for _, st := range storesInto(al) {
					if !seenStore[st] {
						seenStore[st] = true
						out = append(out, resultDef{st, st.Val})
					}
				}
				continue
			}
		}
		out = append(out, resultDef{ret, v})
	}
	return out
}
