package main

import (
	"fmt"
	"go/token"
	"go/types"
	"sort"
	"strings"

	"golang.org/x/tools/go/ssa"
)

// E5 failedge — storage-error discipline.
//
// A *storage site* is a call whose error result may carry a storage failure: an invoke of a method of the storage
// interfaces (sgbucket.*, base.DataStore, base.BootstrapConnection), or a static call to an in-repo function that returns
// an error and transitively contains a storage site (computed to a fixpoint over packages base, auth, db, rest).
//
// Classification of a site with error value e, by exploring forward from the call and never crossing an edge on which e is
// known nil (success) or on which an *absence predicate* of e (IsDocNotFoundError, …) is known true:
//   propagating  every reachable function exit is a panic, a re-execution of the same call (retry loop), or a return whose
//                error operand is derived from e (copy, phi, wrap) or is a freshly constructed non-nil error;
//   swallowed    some reachable return carries no error derived from e (nil, an unrelated value, or the function has no
//                error result). Swallowed sites must be rows of the property's best-effort table, one symbol + reason each.

var absencePredicates = map[string]bool{
	"base.IsDocNotFoundError": true, "base.IsKeyNotFoundError": true, "base.IsXattrNotFoundError": true, "base.IsSubDocPathNotFound": true,
	"base.IsIndexNotFoundError": true,
}

// handledSentinels are error values that callbacks or the storage layer use to signal "nothing to do / already there /
// not there": an edge on which the error equals one of them is not a failure path.
var handledSentinels = map[string]bool{
	"ErrUpdateCancel": true, "ErrAlreadyExists": true, "ErrPathExists": true, "ErrPathNotFound": true, "ErrNotFound": true,
	"ErrImportCancelledFilter": true, "ErrImportCancelled": true, "ErrAlreadyImported": true, "ErrDocumentMigrated": true, "ErrImportCasFailure": true,
	"ErrXattrNotFound": true, "ErrXattrPartialFound": true,
}

func isHandledSentinel(v ssa.Value) bool {
	v = unwrap(v)
	if u, ok := v.(*ssa.UnOp); ok && u.Op == token.MUL {
		if g, ok := u.X.(*ssa.Global); ok && g.Pkg != nil && g.Pkg.Pkg.Name() == "base" {
			return handledSentinels[g.Name()]
		}
	}
	return false
}

// errorConstructors produce a fresh non-nil error.
var errorConstructors = map[string]bool{
	"errors.New": true, "fmt.Errorf": true, "base.HTTPErrorf": true, "base.RedactErrorf": true,
	"github.com/pkg/errors.Wrap": true, "github.com/pkg/errors.Wrapf": true, "github.com/pkg/errors.WithStack": true, "github.com/pkg/errors.New": true, "github.com/pkg/errors.Errorf": true,
	"base.NewHTTPError": true, "errors.Join": true,
}

type failSite struct {
	Fn      *ssa.Function
	Call    *ssa.Call
	Callee  string
	Direct  bool // direct storage-interface call
	Verdict string // propagating | swallowed
	Detail  string
	Exit    ssa.Instruction
}

type failEdge struct {
	c *Ctx
	// may[f]: f returns an error that may carry a storage failure
	may map[*ssa.Function]bool
}

func newFailEdge(c *Ctx) *failEdge {
	fe := &failEdge{c: c, may: map[*ssa.Function]bool{}}
	fe.computeMay()
	return fe
}

func hasErrResult(sig *types.Signature) bool {
	r := sig.Results()
	return r.Len() > 0 && isErrorType(r.At(r.Len()-1).Type())
}

func (fe *failEdge) isDirectStorage(call ssa.CallInstruction) bool {
	cc := call.Common()
	if !cc.IsInvoke() || !hasErrResult(cc.Signature()) {
		return false
	}
	full := cc.Method.FullName()
	if strings.Contains(full, "sg-bucket.") {
		// sgbucket.DataStore & friends (KVStore, XattrStore, SubdocStore, ...)
		return !strings.Contains(full, "FeedEvent") && !strings.Contains(full, "JSServer")
	}
	return strings.Contains(full, "/base.DataStore") || strings.Contains(full, "/base.BootstrapConnection") || strings.Contains(full, "/base.WrappingDatastore") ||
		strings.Contains(full, "/base.N1QLStore") || strings.Contains(full, "/base.sgbucket")
}

func (fe *failEdge) computeMay() {
	c := fe.c
	changed := true
	for changed {
		changed = false
		for _, fn := range c.SrcFuncs {
			if fe.may[fn] || !hasErrResult(fn.Signature) || !c.InScope(fn) {
				continue
			}
			found := false
			EachInstr(fn, true, func(in ssa.Instruction) {
				if found {
					return
				}
				call, ok := in.(ssa.CallInstruction)
				if !ok {
					return
				}
				if fe.isDirectStorage(call) {
					found = true
					return
				}
				if cal := call.Common().StaticCallee(); cal != nil {
					if cal.Origin() != nil {
						cal = cal.Origin()
					}
					if fe.may[cal] {
						found = true
					}
				}
			})
			if found {
				fe.may[fn] = true
				changed = true
			}
		}
	}
}

// IsSite: the call's error may carry a storage failure.
func (fe *failEdge) IsSite(call ssa.CallInstruction) (bool, bool) {
	if fe.isDirectStorage(call) {
		return true, true
	}
	if cal := call.Common().StaticCallee(); cal != nil {
		if cal.Origin() != nil {
			cal = cal.Origin()
		}
		if fe.may[cal] {
			return true, false
		}
	}
	// interface methods of in-repo interfaces that wrap storage (e.g. RevisionCache loaders) are not sites.
	return false, false
}

// errValueOf returns the SSA value of the call's error result (nil if discarded entirely).
func errValueOf(call *ssa.Call) ssa.Value {
	n := call.Call.Signature().Results().Len()
	if n == 1 {
		return call
	}
	for _, e := range resultValues(call, n-1) {
		return e
	}
	return nil
}

// derivedFromErr: v depends on e through copies, phis, local cells, wrapping calls.
func derivedFromErr(v ssa.Value, e ssa.Value) bool {
	return DependsOn(v, func(x ssa.Value) bool { return x == e })
}

func (fe *failEdge) isFreshError(v ssa.Value) bool {
	v = unwrapLoadFree(v)
	switch x := v.(type) {
	case *ssa.Call:
		n := fe.c.CalleeName(x)
		if errorConstructors[n] || errorConstructors[strings.TrimPrefix(n, "vendor/")] {
			return true
		}
		// in-repo constructor returning error only and containing no storage call: e.g. missingError(), ErrXxx wrappers
		if cal := x.Call.StaticCallee(); cal != nil && !fe.may[cal] && x.Call.Signature().Results().Len() == 1 && isErrorType(x.Call.Signature().Results().At(0).Type()) {
			return true
		}
	case *ssa.MakeInterface:
		// concrete error value: &HTTPError{...}, sgbucket.CasMismatchErr{...}
		if _, isConst := x.X.(*ssa.Const); !isConst {
			if _, isCall := x.X.(*ssa.Call); !isCall {
				return true
			}
			return true
		}
	case *ssa.UnOp:
		if x.Op == token.MUL {
			if g, ok := x.X.(*ssa.Global); ok && strings.HasPrefix(g.Name(), "Err") {
				return true
			}
			if g, ok := x.X.(*ssa.Global); ok && strings.HasPrefix(strings.ToLower(g.Name()), "err") {
				return true
			}
		}
	case *ssa.Phi:
		for _, ed := range x.Edges {
			if !fe.isFreshError(ed) {
				return false
			}
		}
		return true
	}
	return false
}

// Classify analyses one site.
func (fe *failEdge) Classify(fn *ssa.Function, call *ssa.Call, direct bool) failSite {
	return fe.classify(fn, call, direct, "")
}

func (fe *failEdge) classify(fn *ssa.Function, call *ssa.Call, direct bool, extraPredicate string) failSite {
	c := fe.c
	s := failSite{Fn: fn, Call: call, Callee: c.CalleeName(call), Direct: direct}
	e := errValueOf(call)
	if e == nil {
		s.Verdict, s.Detail = "swallowed", "error result discarded"
		return s
	}
	var isE func(v ssa.Value) bool
	isE = func(v ssa.Value) bool {
		v = unwrapLoadFree(v)
		if v == e {
			return true
		}
		// a merge of several error results tested together (switch arms assigning the same variable): on any path
		// from this call the merged value is e
		if phi, ok := v.(*ssa.Phi); ok {
			for _, ed := range phi.Edges {
				if ed == e {
					return true
				}
			}
		}
		return false
	}
	av := NewAvoid()
	// success edges (e known nil) and absence edges
	_, nilEdges := EdgesOnValue(fn, isE)
	av.AddEdge(nilEdges...)
	for _, i := range Ifs(fn) {
		v, pos := BoolTest(i.Cond)
		if pc, ok := v.(*ssa.Call); ok && (absencePredicates[c.CalleeName(pc)] || (extraPredicate != "" && c.CalleeName(pc) == extraPredicate)) && len(pc.Call.Args) > 0 && isE(pc.Call.Args[0]) {
			if pos {
				av.AddEdge(Edge{i.Block(), 0})
			} else {
				av.AddEdge(Edge{i.Block(), 1})
			}
		}
		// CAS-mismatch retry idiom: the edge on which IsCasMismatch(e) holds is handled when it leads back to a
		// re-execution of the same operation (reload-and-retry loop).
		if pc, ok := v.(*ssa.Call); ok && c.CalleeName(pc) == "base.IsCasMismatch" && len(pc.Call.Args) > 0 && isE(pc.Call.Args[0]) {
			ed := Edge{i.Block(), 0}
			if !pos {
				ed = Edge{i.Block(), 1}
			}
			if ReachFrom(ed.To(), 0, func(in ssa.Instruction) bool { return in == ssa.Instruction(call) }, nil) != nil {
				av.AddEdge(ed)
			}
		}
		// comparison with a cancellation/absence sentinel: e == base.ErrUpdateCancel, errors.Is(e, base.ErrAlreadyExists) …
		if b, ok := i.Cond.(*ssa.BinOp); ok && (b.Op == token.EQL || b.Op == token.NEQ) {
			var other ssa.Value
			if isE(b.X) {
				other = b.Y
			} else if isE(b.Y) {
				other = b.X
			}
			if other != nil && isHandledSentinel(other) {
				if b.Op == token.EQL {
					av.AddEdge(Edge{i.Block(), 0})
				} else {
					av.AddEdge(Edge{i.Block(), 1})
				}
			}
		}
		if pc, ok := v.(*ssa.Call); ok && c.CalleeName(pc) == "errors.Is" && len(pc.Call.Args) == 2 && isE(pc.Call.Args[0]) && isHandledSentinel(pc.Call.Args[1]) {
			if pos {
				av.AddEdge(Edge{i.Block(), 0})
			} else {
				av.AddEdge(Edge{i.Block(), 1})
			}
		}
	}
	errIdx := errResultIndex(fn)
	// explore
	var bad ssa.Instruction
	var badWhy string
	visited := map[*ssa.BasicBlock]bool{}
	type item struct {
		b    *ssa.BasicBlock
		i    int
		from *ssa.BasicBlock
	}
	work := []item{{call.Block(), instrIndex(call) + 1, nil}}
	for len(work) > 0 && bad == nil {
		it := work[len(work)-1]
		work = work[:len(work)-1]
		stop := false
		for k := it.i; k < len(it.b.Instrs); k++ {
			in := it.b.Instrs[k]
			if in == ssa.Instruction(call) {
				// The operation is executed again without the earlier failure having been returned: its error value is
				// overwritten (loop over items assigning the same variable). Legitimate reload-and-retry loops are
				// recognised by the CAS-mismatch idiom above (that edge is blocked), so arriving here means the failure is dropped.
				stop = true
				bad, badWhy = in, "the operation is executed again (next loop iteration) before the failure is returned: the error is overwritten"
				break
			}
			if _, ok := in.(*ssa.Panic); ok {
				stop = true
				break
			}
			if cl, ok := in.(*ssa.Call); ok {
				// calls that never return normally
				n := c.CalleeName(cl)
				if n == "base.FatalfCtx" || n == "base.PanicfCtx" || n == "os.Exit" || n == "log.Fatalf" {
					stop = true
					break
				}
			}
			if ret, ok := in.(*ssa.Return); ok {
				stop = true
				if errIdx < 0 {
					bad, badWhy = ret, "function has no error result: the failure cannot be reported to the caller"
					break
				}
				rv := ret.Results[errIdx]
				// resolve a phi in the return's own block through the edge we arrived by
				if phi, ok := rv.(*ssa.Phi); ok && phi.Block() == it.b && it.from != nil && it.i == 0 {
					for pi, p := range it.b.Preds {
						if p == it.from {
							rv = phi.Edges[pi]
						}
					}
				}
				rvu := unwrapLoadFree(rv)
				if isNilConst(rvu) {
					bad, badWhy = ret, "returns a nil error on a path where the storage operation failed"
					break
				}
				if derivedFromErr(rv, e) || derivedFromErr(rvu, e) || fe.isFreshError(rvu) {
					break
				}
				// named result cell written on this path? (stores to the cell between call and return are followed by unwrapLoadFree only in-block)
				if cellDerived(rv, e, fe) {
					break
				}
				bad, badWhy = ret, "returns an error value that is not derived from the failed operation's error ("+shortVal(rvu)+")"
				break
			}
		}
		if stop {
			continue
		}
		for si, sblk := range it.b.Succs {
			if av.Edges[Edge{it.b, si}] {
				continue
			}
			if !visited[sblk] {
				visited[sblk] = true
				work = append(work, item{sblk, 0, it.b})
			}
		}
	}
	if bad != nil {
		s.Verdict, s.Detail, s.Exit = "swallowed", badWhy+" (exit at "+c.Pos(bad.Pos())+")", bad
	} else {
		s.Verdict = "propagating"
	}
	return s
}

// cellDerived: rv is a load of a local cell all of whose stores (in this function) are derived from e, fresh errors or nil…
// used for named results assigned then returned by bare `return`: accept when at least one store derived from e dominates nothing else — conservative: some store of e into the cell exists.
func cellDerived(rv ssa.Value, e ssa.Value, fe *failEdge) bool {
	ad, ok := loadOf(rv)
	if !ok {
		return false
	}
	for _, st := range storesInto(ad) {
		if derivedFromErr(st.Val, e) {
			return true
		}
	}
	return false
}

func shortVal(v ssa.Value) string {
	s := v.String()
	if len(s) > 60 {
		s = s[:60] + "…"
	}
	return v.Name() + " = " + s
}

// BestEffort: a swallowed site that is acceptable, keyed by enclosing top-level function + callee identifier.
type BestEffort struct {
	Func   string // top-level function (short qualified); "*" = the callee is best-effort wherever it is called (the reason must be about the callee itself)
	Callee string // callee identifier (method/function name)
	Reason string
	// ArgFrom narrows the row to sites one of whose arguments derives from a call to this function (discriminates two
	// calls of the same method in one function).
	ArgFrom string
	// HandledPredicate narrows the row to failures on which this predicate of the error holds (e.g. base.IsCasMismatch):
	// the site passes only if it is propagating once that predicate's true-edge is treated as handled.
	HandledPredicate string
}

// runFailEdge files one obligation per storage site in the functions selected by inScope.
func runFailEdge(c *Ctx, r *Report, rule string, fe *failEdge, inScope func(fn *ssa.Function) bool, table []BestEffort) (sites int) {
	return runFailEdgeFiltered(c, r, rule, fe, inScope, table, nil)
}

// siteFilter: restrict sites (nil = all storage sites).
func runFailEdgeFiltered(c *Ctx, r *Report, rule string, fe *failEdge, inScope func(fn *ssa.Function) bool, table []BestEffort, siteFilter func(call ssa.CallInstruction, direct bool) bool) (sites int) {
	tbl := map[string][]BestEffort{}
	for _, b := range table {
		tbl[b.Func+"|"+b.Callee] = append(tbl[b.Func+"|"+b.Callee], b)
	}
	usedRow := map[string]bool{}
	type key struct{ fn, callee string }
	counts := map[key]int{}
	var all []failSite
	for _, fn := range c.SrcFuncs {
		if !c.InScope(fn) || !inScope(fn) {
			continue
		}
		for _, b := range fn.Blocks {
			for _, in := range b.Instrs {
				call, ok := in.(*ssa.Call)
				if !ok {
					// go/defer of a storage call: error unobservable
					if ci, ok := in.(ssa.CallInstruction); ok {
						if is, direct := fe.IsSite(ci); is {
							all = append(all, failSite{Fn: fn, Call: nil, Callee: c.CalleeName(ci), Direct: direct, Verdict: "swallowed", Detail: "invoked via go/defer: error result unobservable", Exit: in})
						}
					}
					continue
				}
				is, direct := fe.IsSite(call)
				if !is || (siteFilter != nil && !siteFilter(call, direct)) {
					continue
				}
				all = append(all, fe.Classify(fn, call, direct))
			}
		}
	}
	sort.SliceStable(all, func(i, j int) bool {
		pi, pj := token.NoPos, token.NoPos
		if all[i].Call != nil {
			pi = all[i].Call.Pos()
		} else {
			pi = all[i].Exit.Pos()
		}
		if all[j].Call != nil {
			pj = all[j].Call.Pos()
		} else {
			pj = all[j].Exit.Pos()
		}
		return pi < pj
	})
	for _, s := range all {
		sites++
		top := c.FuncName(TopLevel(s.Fn))
		ident := s.Callee
		if i := strings.LastIndex(ident, "."); i >= 0 {
			ident = ident[i+1:]
		}
		k := key{c.FuncName(s.Fn), ident}
		counts[k]++
		construct := fmt.Sprintf("fn=%s storage-call=%s #%d", k.fn, ident, counts[k])
		var pos string
		if s.Call != nil {
			pos = c.Pos(s.Call.Pos())
		} else {
			pos = c.Pos(s.Exit.Pos())
		}
		if s.Verdict == "propagating" {
			r.Pass(rule, construct, pos, "failure propagates to every exit (or retries)")
			continue
		}
		matched := false
		for _, row := range append(append([]BestEffort{}, tbl[top+"|"+ident]...), tbl["*|"+ident]...) {
			if row.ArgFrom != "" {
				if s.Call == nil {
					continue
				}
				dep := false
				for _, a := range s.Call.Call.Args {
					if DependsOn(a, c.ResultOf(-1, nameIs(row.ArgFrom))) {
						dep = true
					}
				}
				if !dep {
					continue
				}
			}
			if row.HandledPredicate != "" {
				if s.Call == nil || fe.classify(s.Fn, s.Call, s.Direct, row.HandledPredicate).Verdict != "propagating" {
					continue
				}
			}
			usedRow[row.Func+"|"+row.Callee+"|"+row.ArgFrom] = true
			r.Pass(rule, construct, pos, "best-effort (table): "+row.Reason)
			matched = true
			break
		}
		if matched {
			continue
		}
		r.Fail(rule, construct, pos, "storage failure swallowed: "+s.Detail)
	}
	for _, row := range table {
		if !usedRow[row.Func+"|"+row.Callee+"|"+row.ArgFrom] {
			r.Pass(rule, "best-effort-row-unused fn="+row.Func+" callee="+row.Callee, "-", "row no longer needed (site now propagates or is gone)")
		}
	}
	r.Examined(rule, sites)
	return sites
}

// fileScope selects functions declared in the given files, except those in the exclusion table (symbol → reason).
func fileScope(c *Ctx, excluded map[string]string, files ...string) func(fn *ssa.Function) bool {
	set := map[string]bool{}
	for _, f := range files {
		set[f] = true
	}
	return func(fn *ssa.Function) bool {
		t := TopLevel(fn)
		if _, ex := excluded[c.FuncName(t)]; ex {
			return false
		}
		return set[c.File(t.Pos())]
	}
}
