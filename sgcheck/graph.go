package main

import (
	"go/token"
	"go/types"
	"strings"

	"golang.org/x/tools/go/ssa"
)

// ---------- naming of callees ----------

// CalleeName names the resolved callee of a call: static callee by short qualified name,
// interface method as "(pkg.Iface).Method" (short), dynamic calls as "".
func (c *Ctx) CalleeName(call ssa.CallInstruction) string {
	cc := call.Common()
	if cc.IsInvoke() {
		return shortName(cc.Method.FullName())
	}
	if f := cc.StaticCallee(); f != nil {
		if f.Origin() != nil {
			f = f.Origin()
		}
		return c.FuncName(f)
	}
	if b, ok := cc.Value.(*ssa.Builtin); ok {
		return "builtin." + b.Name()
	}
	return ""
}

func shortName(s string) string {
	s = strings.ReplaceAll(s, modPath+"/", "")
	s = strings.ReplaceAll(s, "github.com/couchbase/sg-bucket.", "sgbucket.")
	return s
}

// MethodName returns just the method/function identifier of the callee ("" if dynamic).
func CalleeIdent(call ssa.CallInstruction) string {
	cc := call.Common()
	if cc.IsInvoke() {
		return cc.Method.Name()
	}
	if f := cc.StaticCallee(); f != nil {
		return f.Name()
	}
	return ""
}

// CalleeFunc returns the types.Func of the callee when resolvable (static or interface method).
func CalleeObj(call ssa.CallInstruction) *types.Func {
	cc := call.Common()
	if cc.IsInvoke() {
		return cc.Method
	}
	if f := cc.StaticCallee(); f != nil {
		if o, ok := f.Object().(*types.Func); ok {
			return o
		}
	}
	return nil
}

// ---------- instruction iteration ----------

func instrIndex(in ssa.Instruction) int {
	for i, x := range in.Block().Instrs {
		if x == in {
			return i
		}
	}
	return -1
}

// EachInstr visits all instructions of fn; if deep, also of nested function literals.
func EachInstr(fn *ssa.Function, deep bool, f func(in ssa.Instruction)) {
	for _, b := range fn.Blocks {
		for _, in := range b.Instrs {
			f(in)
		}
	}
	if deep {
		for _, a := range fn.AnonFuncs {
			EachInstr(a, true, f)
		}
	}
}

// Calls returns the call instructions (call/go/defer) of fn whose callee name satisfies match.
func (c *Ctx) Calls(fn *ssa.Function, deep bool, match func(name string) bool) []ssa.CallInstruction {
	var out []ssa.CallInstruction
	EachInstr(fn, deep, func(in ssa.Instruction) {
		if ci, ok := in.(ssa.CallInstruction); ok {
			if match(c.CalleeName(ci)) {
				out = append(out, ci)
			}
		}
	})
	return out
}

func nameIs(names ...string) func(string) bool {
	return func(n string) bool {
		for _, x := range names {
			if n == x {
				return true
			}
		}
		return false
	}
}

func nameHasSuffix(suffixes ...string) func(string) bool {
	return func(n string) bool {
		for _, x := range suffixes {
			if strings.HasSuffix(n, x) {
				return true
			}
		}
		return false
	}
}

// ---------- reachability with avoidance ----------

type Edge struct {
	From *ssa.BasicBlock
	Succ int
}

func (e Edge) To() *ssa.BasicBlock { return e.From.Succs[e.Succ] }

type Avoid struct {
	Instrs map[ssa.Instruction]bool
	Edges  map[Edge]bool
}

func NewAvoid() *Avoid { return &Avoid{Instrs: map[ssa.Instruction]bool{}, Edges: map[Edge]bool{}} }
func (a *Avoid) AddInstr(ins ...ssa.Instruction) *Avoid {
	for _, i := range ins {
		a.Instrs[i] = true
	}
	return a
}
func (a *Avoid) AddEdge(es ...Edge) *Avoid {
	for _, e := range es {
		a.Edges[e] = true
	}
	return a
}

// ReachFrom explores forward from just before instruction index i of block b, never passing through an
// avoided instruction or edge, and returns the first instruction satisfying target (nil if none reachable).
func ReachFrom(b *ssa.BasicBlock, i int, target func(ssa.Instruction) bool, av *Avoid) ssa.Instruction {
	visited := map[*ssa.BasicBlock]bool{}
	type item struct {
		b *ssa.BasicBlock
		i int
	}
	work := []item{{b, i}}
	for len(work) > 0 {
		it := work[len(work)-1]
		work = work[:len(work)-1]
		blocked := false
		for k := it.i; k < len(it.b.Instrs); k++ {
			in := it.b.Instrs[k]
			if av != nil && av.Instrs[in] {
				blocked = true
				break
			}
			if target(in) {
				return in
			}
			// a panic terminates the path
			if _, ok := in.(*ssa.Panic); ok {
				blocked = true
				break
			}
		}
		if blocked {
			continue
		}
		for si, s := range it.b.Succs {
			if av != nil && av.Edges[Edge{it.b, si}] {
				continue
			}
			if !visited[s] {
				visited[s] = true
				work = append(work, item{s, 0})
			}
		}
	}
	return nil
}

// ReachEntry: is the target instruction reachable from function entry avoiding av?
func ReachEntry(fn *ssa.Function, target ssa.Instruction, av *Avoid) bool {
	if len(fn.Blocks) == 0 {
		return false
	}
	return ReachFrom(fn.Blocks[0], 0, func(in ssa.Instruction) bool { return in == target }, av) != nil
}

// After: explore from just after instruction `from`.
func ReachAfter(from ssa.Instruction, target func(ssa.Instruction) bool, av *Avoid) ssa.Instruction {
	return ReachFrom(from.Block(), instrIndex(from)+1, target, av)
}

// DominatedBy: every path from entry to target passes through one of the guards (instructions or edges).
// Also requires target to be reachable at all.
func DominatedBy(fn *ssa.Function, target ssa.Instruction, av *Avoid) bool {
	if !ReachEntry(fn, target, nil) {
		return false
	}
	return !ReachEntry(fn, target, av)
}

// ---------- returns ----------

func Returns(fn *ssa.Function) []*ssa.Return {
	var out []*ssa.Return
	for _, b := range fn.Blocks {
		if len(b.Instrs) == 0 {
			continue
		}
		if r, ok := b.Instrs[len(b.Instrs)-1].(*ssa.Return); ok {
			out = append(out, r)
		}
	}
	return out
}

var errorType = types.Universe.Lookup("error").Type()

func isErrorType(t types.Type) bool { return types.Identical(t, errorType) }

func isNilConst(v ssa.Value) bool {
	c, ok := v.(*ssa.Const)
	return ok && c.Value == nil
}

// errResultIndex returns the index of the last error-typed result, or -1.
func errResultIndex(fn *ssa.Function) int {
	res := fn.Signature.Results()
	for i := res.Len() - 1; i >= 0; i-- {
		if isErrorType(res.At(i).Type()) {
			return i
		}
	}
	return -1
}

// ---------- conditions ----------

// unwrap strips conversions that do not change identity.
func unwrap(v ssa.Value) ssa.Value {
	for {
		switch x := v.(type) {
		case *ssa.ChangeType:
			v = x.X
		case *ssa.ChangeInterface:
			v = x.X
		case *ssa.MakeInterface:
			v = x.X
		default:
			return v
		}
	}
}

// NilTest decomposes cond as a nil comparison of some value: returns (value, trueMeansNil, ok).
func NilTest(cond ssa.Value) (ssa.Value, bool, bool) {
	neg := false
	for {
		if u, ok := cond.(*ssa.UnOp); ok && u.Op == token.NOT {
			neg = !neg
			cond = u.X
			continue
		}
		break
	}
	b, ok := cond.(*ssa.BinOp)
	if !ok || (b.Op != token.EQL && b.Op != token.NEQ) {
		return nil, false, false
	}
	var v ssa.Value
	if isNilConst(b.Y) {
		v = b.X
	} else if isNilConst(b.X) {
		v = b.Y
	} else {
		return nil, false, false
	}
	trueMeansNil := b.Op == token.EQL
	if neg {
		trueMeansNil = !trueMeansNil
	}
	return v, trueMeansNil, true
}

// BoolTest decomposes cond as (possibly negated) boolean value: returns (value, trueMeansTrue).
func BoolTest(cond ssa.Value) (ssa.Value, bool) {
	pos := true
	for {
		if u, ok := cond.(*ssa.UnOp); ok && u.Op == token.NOT {
			pos = !pos
			cond = u.X
			continue
		}
		if b, ok := cond.(*ssa.BinOp); ok && (b.Op == token.EQL || b.Op == token.NEQ) {
			// x == true / x != false etc.
			if k, ok := b.Y.(*ssa.Const); ok && k.Value != nil && isBoolType(k.Type()) {
				kv := k.Value.String() == "true"
				eq := b.Op == token.EQL
				if kv != eq {
					pos = !pos
				}
				cond = b.X
				continue
			}
		}
		break
	}
	return cond, pos
}

func isBoolType(t types.Type) bool {
	b, ok := t.Underlying().(*types.Basic)
	return ok && b.Info()&types.IsBoolean != 0
}

// Ifs lists the If instructions of fn.
func Ifs(fn *ssa.Function) []*ssa.If {
	var out []*ssa.If
	for _, b := range fn.Blocks {
		if len(b.Instrs) == 0 {
			continue
		}
		if i, ok := b.Instrs[len(b.Instrs)-1].(*ssa.If); ok {
			out = append(out, i)
		}
	}
	return out
}

// EdgesWhere returns the branch edges of fn on which pred says the tested fact holds.
// pred receives the If condition and returns (matches, factHoldsOnTrueEdge).
func EdgesWhere(fn *ssa.Function, pred func(cond ssa.Value) (bool, bool)) []Edge {
	var out []Edge
	for _, i := range Ifs(fn) {
		if m, onTrue := pred(i.Cond); m {
			if onTrue {
				out = append(out, Edge{i.Block(), 0})
			} else {
				out = append(out, Edge{i.Block(), 1})
			}
		}
	}
	return out
}

// ---------- value provenance ----------

// sameValue: v is (after transparent conversions / extract / phi-free) the same SSA value as w.
func traceBack(v ssa.Value, visit func(ssa.Value) bool, seen map[ssa.Value]bool, depth int) bool {
	if v == nil || depth > 40 {
		return false
	}
	if seen[v] {
		return false
	}
	seen[v] = true
	if visit(v) {
		return true
	}
	switch x := v.(type) {
	case *ssa.Phi:
		for _, e := range x.Edges {
			if traceBack(e, visit, seen, depth+1) {
				return true
			}
		}
	case *ssa.Extract:
		return traceBack(x.Tuple, visit, seen, depth+1)
	case *ssa.ChangeType:
		return traceBack(x.X, visit, seen, depth+1)
	case *ssa.ChangeInterface:
		return traceBack(x.X, visit, seen, depth+1)
	case *ssa.MakeInterface:
		return traceBack(x.X, visit, seen, depth+1)
	case *ssa.Convert:
		return traceBack(x.X, visit, seen, depth+1)
	case *ssa.TypeAssert:
		return traceBack(x.X, visit, seen, depth+1)
	case *ssa.Slice:
		return traceBack(x.X, visit, seen, depth+1)
	case *ssa.Field:
		return traceBack(x.X, visit, seen, depth+1)
	case *ssa.FieldAddr:
		return traceBack(x.X, visit, seen, depth+1)
	case *ssa.IndexAddr:
		return traceBack(x.X, visit, seen, depth+1)
	case *ssa.Index:
		return traceBack(x.X, visit, seen, depth+1)
	case *ssa.Lookup:
		return traceBack(x.X, visit, seen, depth+1) || traceBack(x.Index, visit, seen, depth+1)
	case *ssa.Next:
		return traceBack(x.Iter, visit, seen, depth+1)
	case *ssa.Range:
		return traceBack(x.X, visit, seen, depth+1)
	case *ssa.BinOp:
		return traceBack(x.X, visit, seen, depth+1) || traceBack(x.Y, visit, seen, depth+1)
	case *ssa.UnOp:
		if x.Op == token.MUL { // load: follow stores into the address
			if traceBack(x.X, visit, seen, depth+1) {
				return true
			}
			for _, st := range storesInto(x.X) {
				if traceBack(st.Val, visit, seen, depth+1) {
					return true
				}
			}
			return false
		}
		return traceBack(x.X, visit, seen, depth+1)
	case *ssa.Call:
		// flows through call arguments (conservative data dependence)
		for _, a := range x.Call.Args {
			if traceBack(a, visit, seen, depth+1) {
				return true
			}
		}
		if x.Call.IsInvoke() {
			return traceBack(x.Call.Value, visit, seen, depth+1)
		}
	case *ssa.FreeVar:
		if b := freeVarBinding(x); b != nil {
			return traceBack(b, visit, seen, depth+1)
		}
	case *ssa.Alloc:
		// array backing a variadic/composite literal: follow the element stores
		if refs := x.Referrers(); refs != nil {
			for _, r := range *refs {
				if st, ok := r.(*ssa.Store); ok && st.Addr == ssa.Value(x) {
					if traceBack(st.Val, visit, seen, depth+1) {
						return true
					}
				}
				if ia, ok := r.(*ssa.IndexAddr); ok {
					if ir := ia.Referrers(); ir != nil {
						for _, u := range *ir {
							if st, ok := u.(*ssa.Store); ok && st.Addr == ia {
								if traceBack(st.Val, visit, seen, depth+1) {
									return true
								}
							}
						}
					}
				}
			}
		}
	}
	return false
}

// DependsOn: v is data-dependent (through copies, phis, loads of local cells, field selections and call
// arguments) on a value satisfying pred.
func DependsOn(v ssa.Value, pred func(ssa.Value) bool) bool {
	return traceBack(v, pred, map[ssa.Value]bool{}, 0)
}

// freeVarBinding maps a closure's free variable to the value bound at its (unique) MakeClosure site.
func freeVarBinding(fv *ssa.FreeVar) ssa.Value {
	fn := fv.Parent()
	par := fn.Parent()
	if par == nil {
		return nil
	}
	idx := -1
	for i, x := range fn.FreeVars {
		if x == fv {
			idx = i
		}
	}
	if idx < 0 {
		return nil
	}
	var out ssa.Value
	EachInstr(par, false, func(in ssa.Instruction) {
		if mc, ok := in.(*ssa.MakeClosure); ok && mc.Fn == fn && idx < len(mc.Bindings) {
			out = mc.Bindings[idx]
		}
	})
	return out
}

// rootAddr resolves an address through free-variable bindings to the defining value (Alloc, FieldAddr, Global...).
func rootAddr(a ssa.Value) ssa.Value {
	for i := 0; i < 10; i++ {
		if fv, ok := a.(*ssa.FreeVar); ok {
			if b := freeVarBinding(fv); b != nil {
				a = b
				continue
			}
		}
		break
	}
	return a
}

// storesInto finds every Store whose address is the same local cell as addr (an Alloc, possibly seen through
// closure free variables), searching the outermost function and all nested literals.
func storesInto(addr ssa.Value) []*ssa.Store {
	root := rootAddr(addr)
	al, ok := root.(*ssa.Alloc)
	if !ok {
		return nil
	}
	var out []*ssa.Store
	top := TopLevel(al.Parent())
	EachInstr(top, true, func(in ssa.Instruction) {
		if st, ok := in.(*ssa.Store); ok {
			if rootAddr(st.Addr) == al {
				out = append(out, st)
			}
		}
	})
	return out
}

// IsCallTo: v is the result (or an extracted component) of a call whose callee name matches.
func (c *Ctx) IsCallTo(v ssa.Value, match func(string) bool) bool {
	if e, ok := v.(*ssa.Extract); ok {
		v = e.Tuple
	}
	call, ok := v.(*ssa.Call)
	return ok && match(c.CalleeName(call))
}

// ResultOf returns pred matching "component idx of call to one of names" (idx<0: any component / whole).
func (c *Ctx) ResultOf(idx int, match func(string) bool) func(ssa.Value) bool {
	return func(v ssa.Value) bool {
		if e, ok := v.(*ssa.Extract); ok {
			if call, ok := e.Tuple.(*ssa.Call); ok && match(c.CalleeName(call)) {
				return idx < 0 || e.Index == idx
			}
			return false
		}
		if call, ok := v.(*ssa.Call); ok && match(c.CalleeName(call)) {
			return idx <= 0
		}
		return false
	}
}

// FieldOf: v addresses / reads field named f of a struct whose named type is T (short "db.X").
func (c *Ctx) isFieldAccess(v ssa.Value, fld *types.Var) bool {
	switch x := v.(type) {
	case *ssa.FieldAddr:
		return structField(x.X.Type(), x.Field) == fld
	case *ssa.Field:
		return structField(x.X.Type(), x.Field) == fld
	}
	return false
}

func structField(t types.Type, idx int) *types.Var {
	if p, ok := t.Underlying().(*types.Pointer); ok {
		t = p.Elem()
	}
	st, ok := t.Underlying().(*types.Struct)
	if !ok || idx >= st.NumFields() {
		return nil
	}
	return st.Field(idx)
}

// ---------- field access index ----------

type FieldAccess struct {
	Fn    *ssa.Function
	Instr ssa.Instruction // the Store / load / call using the address
	Addr  *ssa.FieldAddr
	Write bool
}

// FieldAccesses lists all reads and writes of the field across scope functions.
// A FieldAddr whose referrers include a Store to it is a write; a load (UnOp MUL) is a read;
// any other use of the address (passed to a call, e.g. atomic or method with pointer receiver) is reported as write (escape).
func (c *Ctx) FieldAccesses(fld *types.Var) []*FieldAccess {
	var out []*FieldAccess
	for _, fn := range c.SrcFuncs {
		for _, b := range fn.Blocks {
			for _, in := range b.Instrs {
				switch x := in.(type) {
				case *ssa.FieldAddr:
					if structField(x.X.Type(), x.Field) != fld {
						continue
					}
					refs := x.Referrers()
					if refs == nil {
						continue
					}
					for _, r := range *refs {
						switch rr := r.(type) {
						case *ssa.Store:
							if rr.Addr == x {
								out = append(out, &FieldAccess{fn, rr, x, true})
							} else {
								out = append(out, &FieldAccess{fn, rr, x, true}) // address stored elsewhere: escape
							}
						case *ssa.UnOp:
							out = append(out, &FieldAccess{fn, rr, x, false})
						case *ssa.DebugRef:
						default:
							// address used by another instruction: map update through IndexAddr/FieldAddr chains, calls...
							w := addrUseWrites(r, x)
							out = append(out, &FieldAccess{fn, r, x, w})
						}
					}
				case *ssa.Field:
					if structField(x.X.Type(), x.Field) == fld {
						out = append(out, &FieldAccess{fn, x, nil, false})
					}
				}
			}
		}
	}
	return out
}

// addrUseWrites classifies a non-store, non-load use of a field address.
func addrUseWrites(user ssa.Instruction, addr ssa.Value) bool {
	switch u := user.(type) {
	case *ssa.FieldAddr, *ssa.IndexAddr:
		// nested address: written iff any referrer of the nested address writes
		v := u.(ssa.Value)
		if refs := v.Referrers(); refs != nil {
			for _, r := range *refs {
				switch rr := r.(type) {
				case *ssa.Store:
					if rr.Addr == v {
						return true
					}
				case *ssa.UnOp:
				default:
					if addrUseWrites(r, v) {
						return true
					}
				}
			}
		}
		return false
	case ssa.CallInstruction:
		return true // address passed to a call (pointer-receiver method, atomic op): treated as write
	case *ssa.MapUpdate:
		return true
	}
	return true
}

// CorrelatedInfeasibleEdges: SSA values are immutable, so two branches on the same condition value are correlated. If `site`
// is dominated by the true (false) edge of a branch on value V, then after `site` the false (true) edge of any other branch on V
// cannot be taken.
func CorrelatedInfeasibleEdges(fn *ssa.Function, site ssa.Instruction) []Edge {
	var out []Edge
	ifs := Ifs(fn)
	for _, i := range ifs {
		v, pos := BoolTest(i.Cond)
		for _, succ := range []int{0, 1} {
			if !DominatedBy(fn, site, NewAvoid().AddEdge(Edge{i.Block(), succ})) {
				continue
			}
			// on this path v's truth is known
			truth := (succ == 0) == pos
			for _, j := range ifs {
				if j == i {
					continue
				}
				v2, pos2 := BoolTest(j.Cond)
				if v2 != v {
					continue
				}
				// edge of j on which v would have the opposite truth
				if truth == pos2 {
					out = append(out, Edge{j.Block(), 1})
				} else {
					out = append(out, Edge{j.Block(), 0})
				}
			}
		}
	}
	return out
}

// FeasiblePhiEdges walks fn's CFG from its entry, deciding each If whose condition evalCond can evaluate (known=true) and exploring
// both successors otherwise, and returns the incoming values of phi that can be selected under that (partial) valuation.
func FeasiblePhiEdges(fn *ssa.Function, phi *ssa.Phi, evalCond func(cond ssa.Value) (val bool, known bool)) []ssa.Value {
	type edge struct{ from, to *ssa.BasicBlock }
	seen := map[edge]bool{}
	var out []ssa.Value
	have := map[ssa.Value]bool{}
	var work []edge
	push := func(e edge) {
		if !seen[e] {
			seen[e] = true
			work = append(work, e)
		}
	}
	if len(fn.Blocks) == 0 {
		return nil
	}
	push(edge{nil, fn.Blocks[0]})
	for len(work) > 0 {
		e := work[0]
		work = work[1:]
		b := e.to
		if b == phi.Block() && e.from != nil {
			for i, p := range b.Preds {
				if p == e.from && !have[phi.Edges[i]] {
					have[phi.Edges[i]] = true
					out = append(out, phi.Edges[i])
				}
			}
		}
		if len(b.Instrs) == 0 {
			continue
		}
		if i, ok := b.Instrs[len(b.Instrs)-1].(*ssa.If); ok {
			if v, known := evalCond(i.Cond); known {
				if v {
					push(edge{b, b.Succs[0]})
				} else {
					push(edge{b, b.Succs[1]})
				}
				continue
			}
		}
		for _, s := range b.Succs {
			push(edge{b, s})
		}
	}
	return out
}

// EffectSites returns the instructions of fn that have the effect `direct` — either because direct(instruction) holds or because
// the instruction is a static call of an in-scope named function (not a literal) whose body has the effect, followed to `depth`
// levels. It lets the path rules keep seeing an effect when a block of code is extracted into a helper.
func (c *Ctx) EffectSites(fn *ssa.Function, direct func(ssa.Instruction) bool, depth int) []ssa.Instruction {
	memo := map[*ssa.Function]int{} // 0 unknown, 1 in progress/no, 2 yes
	var has func(f *ssa.Function, d int) bool
	has = func(f *ssa.Function, d int) bool {
		if memo[f] == 2 {
			return true
		}
		if memo[f] == 1 || d < 0 {
			return false
		}
		memo[f] = 1
		found := false
		EachInstr(f, false, func(in ssa.Instruction) {
			if found {
				return
			}
			if direct(in) {
				found = true
				return
			}
			if ci, ok := in.(ssa.CallInstruction); ok {
				if cal := ci.Common().StaticCallee(); cal != nil && cal.Parent() == nil && len(cal.Blocks) > 0 && c.InScope(cal) && has(cal, d-1) {
					found = true
				}
			}
		})
		if found {
			memo[f] = 2
		} else {
			memo[f] = 0
		}
		return found
	}
	var out []ssa.Instruction
	EachInstr(fn, false, func(in ssa.Instruction) {
		if direct(in) {
			out = append(out, in)
			return
		}
		if ci, ok := in.(ssa.CallInstruction); ok {
			if cal := ci.Common().StaticCallee(); cal != nil && cal != fn && cal.Parent() == nil && len(cal.Blocks) > 0 && c.InScope(cal) && has(cal, depth-1) {
				out = append(out, in)
			}
		}
	})
	return out
}

// CallsThroughHelpers lists the calls matching `match` made by fn, by its function literals, and by in-scope named functions
// fn calls statically (helpers), followed to `depth` levels.
func (c *Ctx) CallsThroughHelpers(fn *ssa.Function, depth int, match func(name string) bool) []ssa.CallInstruction {
	seen := map[*ssa.Function]bool{}
	var out []ssa.CallInstruction
	var walk func(f *ssa.Function, d int)
	walk = func(f *ssa.Function, d int) {
		if f == nil || seen[f] || len(f.Blocks) == 0 {
			return
		}
		seen[f] = true
		out = append(out, c.Calls(f, true, match)...)
		if d <= 0 {
			return
		}
		EachInstr(f, true, func(in ssa.Instruction) {
			if ci, ok := in.(ssa.CallInstruction); ok {
				if cal := ci.Common().StaticCallee(); cal != nil && cal.Parent() == nil && c.InScope(cal) {
					walk(cal, d-1)
				}
			}
		})
	}
	walk(fn, depth)
	return out
}

// PrivateHelpers returns the in-scope named functions that fn calls statically and that no other function calls (the shape an
// "extract method" refactoring produces), followed to `depth` levels, fn itself first.
func (c *Ctx) PrivateHelpers(fn *ssa.Function, depth int) []*ssa.Function {
	if c.callerCount == nil {
		c.callerCount = map[*ssa.Function]map[*ssa.Function]bool{}
		for _, g := range c.ScopeFuncs() {
			EachInstr(g, false, func(in ssa.Instruction) {
				if ci, ok := in.(ssa.CallInstruction); ok {
					if cal := ci.Common().StaticCallee(); cal != nil {
						if c.callerCount[cal] == nil {
							c.callerCount[cal] = map[*ssa.Function]bool{}
						}
						c.callerCount[cal][TopLevel(g)] = true
					}
				}
			})
		}
	}
	out := []*ssa.Function{fn}
	seen := map[*ssa.Function]bool{fn: true}
	frontier := []*ssa.Function{fn}
	for d := 0; d < depth; d++ {
		var next []*ssa.Function
		for _, f := range frontier {
			for _, g := range append([]*ssa.Function{f}, c15Lits(f)...) {
				EachInstr(g, false, func(in ssa.Instruction) {
					if ci, ok := in.(ssa.CallInstruction); ok {
						cal := ci.Common().StaticCallee()
						if cal == nil || cal.Parent() != nil || seen[cal] || !c.InScope(cal) || len(cal.Blocks) == 0 {
							return
						}
						if len(c.callerCount[cal]) == 1 {
							seen[cal] = true
							out = append(out, cal)
							next = append(next, cal)
						}
					}
				})
			}
		}
		frontier = next
	}
	return out
}
