package main

import (
	"fmt"

	"golang.org/x/tools/go/ssa"
)

// C09-R7: an import records the external write as a new revision; whether that revision is a tombstone is a fact about the
// document found in the bucket (no body / a deletion event), not about the request that happened to trigger the import. A
// delete-marker derived from the triggering request (a gateway DELETE arriving over an un-imported SDK update) imports the SDK
// update as a tombstone and removes its body. So every value stored into importDocOptions.isDelete must be free of the enclosing
// function's boolean parameters.
func c09R7(c *Ctx, r *Report) {
	r.Rule("C09-R7", "E3 def-use", "the delete marker handed to an import (importDocOptions.isDelete) derives from the document found in the bucket (no body, deletion event), never from a boolean parameter describing the request that triggered the import", 3)
	fld := c.Field("db.importDocOptions", "isDelete")
	if fld == nil {
		r.Fail("C09-R7", "anchor db.importDocOptions.isDelete", "-", "field not found")
		return
	}
	n := map[string]int{}
	total := 0
	for _, st := range c.storesToField(fld) {
		fn := st.Parent()
		name := c.FuncName(TopLevel(fn))
		n[name]++
		total++
		var from ssa.Value
		DependsOn(st.Val, func(v ssa.Value) bool {
			if p, ok := v.(*ssa.Parameter); ok && isBoolType(p.Type()) {
				from = p
				return true
			}
			return false
		})
		detail := ""
		if from != nil {
			detail = "the delete marker depends on the boolean parameter '" + from.Name() + "' of " + name + " (a property of the triggering request): an un-imported external update is imported as a tombstone — its body is removed and the revision recorded as deleted — when the request that triggers the import is a delete"
		}
		r.Check("C09-R7", fmt.Sprintf("fn=%s importDocOptions.isDelete #%d from=bucket-document-state", name, n[name]), c.Pos(st.Pos()), from == nil, "derives from the bucket document / feed event only", detail)
	}
	if total == 0 {
		r.Fail("C09-R7", "stores to importDocOptions.isDelete", "-", "none found")
	}
}

// C09-R8: stamping _mou.cas by macro expansion tells the import machinery and XDCR "the mutation at this CAS is a metadata-only
// rewrite of a document whose version vector is already up to date". Doing that on top of an external write that has not been
// imported yet marks the external body as accounted for: the later import creates a revision without a new current version
// (version-vector clients never pull it; a stale-CV update is accepted over it). So a function that stamps _mou.cas must be the
// commit of a write/import itself, a re-stamp of the writer's own commit, or must have established that the loaded document is the
// gateway's own write (own-write predicate evaluated in the function, or every caller calls it only on the own-write edge).
var c09MouStampOwners = map[string]string{
	"(*db.DatabaseCollectionWithUser).updateAndReturnDoc": "the commit of a gateway write or of an import itself: the body written is the one the version vector describes",
	"(*db.DatabaseCollectionWithUser).restampVersionCAS":  "re-stamp issued only against the CAS of the writer's own commit (C05-R4)",
}

func c09R8(c *Ctx, r *Report) {
	r.Rule("C09-R8", "E3 whomay + E2 pathrules", "_mou.cas is stamped only by the commit of a write/import, by the re-stamp of the writer's own commit, or by a metadata-only rewrite that has established (itself, or at every call site) that the loaded document is the gateway's own write", 4)
	hosts := map[*ssa.Function][]ssa.CallInstruction{}
	for _, fn := range c.ScopeFuncs() {
		for _, call := range c.Calls(fn, false, nameIs("db.XattrMouCasPath")) {
			hosts[TopLevel(fn)] = append(hosts[TopLevel(fn)], call)
		}
	}
	if len(hosts) == 0 {
		r.Fail("C09-R8", "stampers of _mou.cas", "-", "no use of XattrMouCasPath found")
		return
	}
	consults := func(top *ssa.Function) bool {
		for _, f := range append([]*ssa.Function{top}, top.AnonFuncs...) {
			if len(c.Calls(f, false, sgWriteFns)) > 0 {
				return true
			}
		}
		return false
	}
	for top, calls := range hosts {
		name := c.FuncName(top)
		if name == "db.XattrMouCasPath" {
			continue
		}
		construct := fmt.Sprintf("fn=%s stamps=_mou.cas only-on=own-write", name)
		pos := c.Pos(calls[0].Pos())
		if why, ok := c09MouStampOwners[name]; ok {
			r.Pass("C09-R8", construct, pos, "listed: "+why)
			continue
		}
		if consults(top) {
			r.Pass("C09-R8", construct, pos, "the own-write predicate is evaluated on the loaded document in this function")
			continue
		}
		// every caller on the own-write edge
		var unguarded []string
		ncallers := 0
		for _, caller := range c.ScopeFuncs() {
			for _, call := range c.Calls(caller, false, nameIs(name)) {
				ncallers++
				isOwn, _ := ownWriteEdges(c, caller)
				// documents without valid sync metadata are never imported: nothing can be pending for them
				noMeta := EdgesWhere(caller, func(cond ssa.Value) (bool, bool) {
					v, pos := BoolTest(cond)
					if c.IsCallTo(v, nameHasSuffix(".HasValidSyncData")) {
						return true, !pos
					}
					return false, false
				})
				if len(isOwn) == 0 || !DominatedBy(caller, call, NewAvoid().AddEdge(isOwn...).AddEdge(noMeta...)) {
					unguarded = append(unguarded, c.FuncName(TopLevel(caller))+"@"+c.Pos(call.Pos()))
				}
			}
		}
		ok := ncallers > 0 && len(unguarded) == 0
		detail := "a metadata-only rewrite stamps _mou.cas without having established that the loaded document is the gateway's own write: over an un-imported external update the stamp marks that update as already reflected in the version vector, so its import creates a revision without a new current version (version-vector clients never pull it)"
		if len(unguarded) > 0 {
			detail += fmt.Sprintf("; unguarded call site(s): %v", unguarded)
		}
		r.Check("C09-R8", construct, pos, ok, "every call site is on the own-write edge of an IsSGWrite-family check", detail)
	}
}
