package main

import (
	"fmt"

	"golang.org/x/tools/go/ssa"
)

// C03-R8: principals are invalidated AFTER the change that alters their access has been committed (document write, purge, resync),
// and nothing else recomputes a principal for that change. An invalidation that fails and is merely logged leaves the principal with
// the access it had before — a revoked channel stays readable, a granted one unreachable — until some unrelated later invalidation.
// So every call of the authenticator's invalidation entry points from package db must hand its error to its caller, or be retried
// (issued from a worker passed to base.RetryLoop).
func c03R8(c *Ctx, r *Report) {
	r.Rule("C03-R8", "E5 failedge", "a failed principal invalidation after a committed change is returned to the caller or retried, never only logged", 4)
	fe := newFailEdge(c)
	isInval := nameIs("(*auth.Authenticator).InvalidateChannels", "(*auth.Authenticator).InvalidateRoles", "(*auth.Authenticator).InvalidateRolesAndChannels", "(*auth.Authenticator).InvalidateDefaultChannels")
	callsRetryLoop := func(f *ssa.Function) bool {
		return f != nil && len(c.Calls(f, true, nameIs("base.RetryLoop"))) > 0
	}
	retried := func(host *ssa.Function) bool {
		for f := host; f != nil && f.Parent() != nil; f = f.Parent() {
			parent := f.Parent()
			found := false
			EachInstr(parent, false, func(in ssa.Instruction) {
				mc, ok := in.(*ssa.MakeClosure)
				if !ok || mc.Fn != ssa.Value(f) || mc.Referrers() == nil {
					return
				}
				for _, u := range *mc.Referrers() {
					if call, isCall := u.(ssa.CallInstruction); isCall {
						if c.CalleeName(call) == "base.RetryLoop" || callsRetryLoop(call.Common().StaticCallee()) {
							found = true
						}
					}
				}
			})
			if found {
				return true
			}
		}
		return false
	}
	n := 0
	for _, fn := range c.ScopeFuncs() {
		if fn.Pkg == nil || fn.Pkg.Pkg.Name() != "db" {
			continue
		}
		for _, call := range c.Calls(fn, false, isInval) {
			cv, ok := call.(*ssa.Call)
			if !ok {
				continue
			}
			n++
			construct := fmt.Sprintf("fn=%s call=%s failure returned-or-retried", c.FuncName(fn), CalleeIdent(call))
			s := fe.classifyStrict(fn, cv)
			if s.Verdict == "propagating" {
				r.Pass("C03-R8", construct, c.Pos(call.Pos()), "the error reaches the caller")
				continue
			}
			r.Check("C03-R8", construct, c.Pos(call.Pos()), retried(fn), "issued from a base.RetryLoop worker", "the invalidation's error is only logged: after a single transient storage failure the change that triggered it stays committed (the write answers 2xx) while the principal keeps the access it had before — a revoked channel stays readable, a grant never arrives — until an unrelated later invalidation ("+s.Detail+")")
		}
	}
	if n == 0 {
		r.Fail("C03-R8", "invalidation call sites in package db", "-", "none found")
	}
}
