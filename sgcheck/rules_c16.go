package main

import (
	"fmt"
	"go/token"
	"go/types"

	"golang.org/x/tools/go/ssa"
)

func init() { registry["C16"] = checkC16 }

var revCacheGuardRows = []GuardRow{
	{Struct: "db.LRURevisionCache", Fields: []string{"cache", "lruList"}, Lock: "LRURevisionCache.lock"},
	{Struct: "db.revCacheValue", Fields: []string{"err", "history", "channels", "expiry", "attachments", "bodyBytes", "deleted", "removed", "hlvHistory"}, Lock: "revCacheValue.lock", ReadsExempt: true,
		ReadsExemptReason: "the payload is written once (load/store set it only while bodyBytes and err are still nil, under the write lock) and published by that lock; the cached-hit path re-reads it after releasing the read lock, which is safe only because of the write-once discipline that the write side of this rule enforces"},
}

var revCacheGuardExempt = []GuardExempt{
	{Func: "db.NewLRURevisionCache", Reason: "constructor"},
}

func checkC16(c *Ctx, r *Report) {
	r.Explain = "Decides structural necessary conditions of revision-cache coherence and exact accounting: (R1) the lookup map and LRU list are only touched under the cache lock, and a cached value's payload is only read or written under that value's lock; (R2) byte accounting follows the three-state lifecycle — every increment of the shared byte counter is on the success edge of the Loading→Sized compare-and-swap, every decrement (direct or accumulated into a returned byte count) on the Swap(Removed)==Sized edge, and the item size is stored before the compare-and-swap on the insert paths; (R3) every insertion into / deletion from the lookup map is matched by the item gauge (directly, or through the eviction count that each caller applies); (R4) every insertion is followed by the capacity eviction before the lock is released; (R5) channel-changing updates that keep the revision id invalidate the cached revision before the write and, on the mutation feed, before the change is forwarded.; (R7) a failed load removes the placeholder that was inserted for it on every path.; (R8) a function that fills a cache entry from a bucket document it read before inserting the entry can drop that entry again on the success path. Not decided: equality with a fresh load, single-flight loading under all interleavings, totals returning to zero."
	la := newLockAnalysis(c, []string{"LRURevisionCache.lock", "revCacheValue.lock"}, "db")
	la.Solve()
	r.Rule("C16-R1", "E1 guardedby", "LRURevisionCache{cache,lruList} under LRURevisionCache.lock; revCacheValue payload fields under revCacheValue.lock (reads need at least the read lock)", 30)
	runGuardRule(c, r, "C16-R1", la, revCacheGuardRows, revCacheGuardExempt)
	c16R2(c, r)
	c16R3R4(c, r)
	c16R5(c, r)
	c16R6(c, r)
	c16R7(c, r)
	c16R8(c, r)
}

// c16R6: cache payload aliasing. DocumentRevision values handed out by the cache share their History / Channels / Attachments
// maps with the cached entry; no function may mutate such a map unless it made its own copy first.
func c16R6(c *Ctx, r *Report) {
	r.Rule("C16-R6", "E3 who-may-mutate (aliasing)", "maps reachable from a cached revision (DocumentRevision.History, .Channels, .Attachments, and Revisions/AttachmentsMeta values received as parameters on read paths) are never updated in place; a failed load's cleanup deletes the map entry only if it still holds that value", 3)
	payload := map[string]bool{"Revisions": true}
	drT := c.NamedType("db.DocumentRevision")
	isPayloadField := func(v ssa.Value) bool {
		f, base := fieldRead(v)
		if f == nil || drT == nil {
			return false
		}
		if n := namedOf(base.Type()); n != "DocumentRevision" {
			return false
		}
		return f.Name() == "History" || f.Name() == "Channels" || f.Name() == "Attachments"
	}
	n, bad := 0, 0
	for _, fn := range c.ScopeFuncs() {
		if fn.Pkg == nil || fn.Pkg.Pkg.Name() != "db" {
			continue
		}
		EachInstr(fn, false, func(in ssa.Instruction) {
			var m ssa.Value
			switch x := in.(type) {
			case *ssa.MapUpdate:
				m = x.Map
			case *ssa.Call:
				if b, ok := x.Call.Value.(*ssa.Builtin); ok && b.Name() == "delete" {
					m = x.Call.Args[0]
				}
			}
			if m == nil {
				return
			}
			// the map value itself (no copy in between): a parameter of payload type, or a DocumentRevision payload field
			src := unwrapLoadFree(m)
			if ct, ok := src.(*ssa.ChangeType); ok {
				src = ct.X
			}
			isParamPayload := false
			if p, ok := src.(*ssa.Parameter); ok && payload[namedOf(p.Type())] {
				isParamPayload = true
			}
			if !isParamPayload && !isPayloadField(src) {
				return
			}
			n++
			// methods whose receiver is the map being built (constructors/copy helpers) are not readers
			recvOK := false
			if p, ok := src.(*ssa.Parameter); ok && fn.Signature.Recv() != nil && len(fn.Params) > 0 && fn.Params[0] == p {
				recvOK = true // a method mutating its own receiver map is the type's mutator API; its callers are judged at their call sites
			}
			if recvOK {
				r.Pass("C16-R6", fmt.Sprintf("fn=%s mutates=own-receiver-map", c.FuncName(fn)), c.Pos(in.Pos()), "mutator method of the map type")
				return
			}
			bad++
			r.Fail("C16-R6", fmt.Sprintf("fn=%s mutates-in-place=%s", c.FuncName(fn), src.Name()), c.Pos(in.Pos()), "a map that may be shared with a cached revision is modified in place (no private copy was made first): later cache hits would serve the modified history/channels/attachments instead of what the bucket holds")
		})
	}
	if bad == 0 {
		r.Pass("C16-R6", "no in-place mutation of cache-shared maps", "-", fmt.Sprintf("%d candidate map update(s) inspected", n))
	}
	// copy-before-trim: the history trimmer works on a ShallowCopy of its input
	if fn := c.Func("db.trimEncodedRevisionsToAncestor"); fn == nil {
		r.Fail("C16-R6", "anchor db.trimEncodedRevisionsToAncestor", "-", "function not found")
	} else {
		copies := c.Calls(fn, false, nameIs("(db.Revisions).ShallowCopy"))
		var cp []ssa.Instruction
		for _, x := range copies {
			cp = append(cp, x)
		}
		ok := len(cp) > 0
		EachInstr(fn, false, func(in ssa.Instruction) {
			if mu, isMU := in.(*ssa.MapUpdate); isMU {
				if !DominatedBy(fn, mu, NewAvoid().AddInstr(cp...)) {
					ok = false
				}
				if !DependsOn(mu.Map, func(v ssa.Value) bool {
					for _, x := range copies {
						if v == valueOfCall(x) {
							return true
						}
					}
					return false
				}) {
					ok = false
				}
			}
		})
		r.Check("C16-R6", "fn=db.trimEncodedRevisionsToAncestor trims=private-copy", c.Pos(fn.Pos()), ok, "history is trimmed on a ShallowCopy of the caller's (cached) map", "the revision history handed out by the cache is trimmed in place: the cached entry's history is permanently shortened")
	}
	// identity-guarded cleanup
	if fn := c.Func("(*db.LRURevisionCache).removeValueForFailedLoad"); fn == nil {
		r.Fail("C16-R6", "anchor removeValueForFailedLoad", "-", "function not found")
	} else {
		same := EdgesWhere(fn, func(cond ssa.Value) (bool, bool) {
			b, ok := cond.(*ssa.BinOp)
			if !ok || (b.Op != token.EQL && b.Op != token.NEQ) {
				return false, false
			}
			isVal := func(v ssa.Value) bool { return DependsOn(v, func(x ssa.Value) bool { return isParam(x, 1) }) }
			isElem := func(v ssa.Value) bool { f, _ := fieldRead(v); return f != nil && f.Name() == "Value" }
			if (isVal(b.X) && isElem(b.Y)) || (isVal(b.Y) && isElem(b.X)) {
				return true, b.Op == token.EQL
			}
			return false, false
		})
		k := 0
		EachInstr(fn, false, func(in ssa.Instruction) {
			call, ok := in.(*ssa.Call)
			if !ok {
				return
			}
			if b, ok := call.Call.Value.(*ssa.Builtin); !ok || b.Name() != "delete" {
				return
			}
			k++
			okd := len(same) > 0 && DominatedBy(fn, call, NewAvoid().AddEdge(same...))
			r.Check("C16-R6", fmt.Sprintf("fn=(*db.LRURevisionCache).removeValueForFailedLoad delete #%d only-if=entry-is-this-value", k), c.Pos(call.Pos()), okd, "dominated by element.Value == value", "the cleanup after a failed load deletes whatever entry now sits under the key: an entry stored concurrently by another writer would be dropped while its bytes stay counted")
		})
	}
}

func c16ConstInt32(name string, c *Ctx) (int64, bool) {
	obj := c.SSAPkg["db"].Pkg.Scope().Lookup(name)
	k, ok := obj.(*types.Const)
	if !ok {
		return 0, false
	}
	return constantInt64(k)
}

func c16R2(c *Ctx, r *Report) {
	r.Rule("C16-R2", "E2 pathrules (typestate)", "incrementBytesCount only on CompareAndSwap(memStateLoading→memStateSized)==true; decrement / eviction byte accumulation only on Swap(memStateRemoved)==memStateSized; itemBytes.Store precedes the CAS in Put/Upsert", 10)
	sized, ok1 := c16ConstInt32("memStateSized", c)
	loading, ok2 := c16ConstInt32("memStateLoading", c)
	removed, ok3 := c16ConstInt32("memStateRemoved", c)
	if !ok1 || !ok2 || !ok3 {
		r.Fail("C16-R2", "anchor memState constants", "-", "constants not found")
		return
	}
	memF := c.Field("db.revCacheValue", "memState")
	isMem := func(v ssa.Value) bool {
		fa, ok := v.(*ssa.FieldAddr)
		return ok && structField(fa.X.Type(), fa.Field) == memF
	}
	inFile := func(fn *ssa.Function) bool { return c.File(TopLevel(fn).Pos()) == "db/revision_cache_lru.go" }
	// who may touch memState and how
	for _, fn := range c.ScopeFuncs() {
		EachInstr(fn, false, func(in ssa.Instruction) {
			call, ok := in.(ssa.CallInstruction)
			if !ok {
				return
			}
			cc := call.Common()
			if cc.IsInvoke() || cc.StaticCallee() == nil || len(cc.Args) == 0 || !isMem(cc.Args[0]) {
				return
			}
			name := cc.StaticCallee().Name()
			construct := fmt.Sprintf("fn=%s memState.%s", c.FuncName(fn), name)
			switch name {
			case "CompareAndSwap":
				o, _ := constInt(cc.Args[1])
				n, _ := constInt(cc.Args[2])
				r.Check("C16-R2", construct+" Loading→Sized", c.Pos(call.Pos()), o == loading && n == sized, "only Loading→Sized", "unexpected compare-and-swap transition on the accounting state")
			case "Swap", "Store":
				n, _ := constInt(cc.Args[1])
				r.Check("C16-R2", construct+" →Removed", c.Pos(call.Pos()), n == removed, "only →Removed", "the accounting state is set to something other than Removed outside the compare-and-swap")
			case "Load":
			default:
				r.Fail("C16-R2", construct, c.Pos(call.Pos()), "unexpected operation on the accounting state")
			}
		})
	}
	for _, fn := range c.ScopeFuncs() {
		if !inFile(fn) {
			continue
		}
		// success edges of CAS; sized edges of Swap
		var casOK, swapSized []Edge
		EachInstr(fn, false, func(in ssa.Instruction) {
			call, ok := in.(*ssa.Call)
			if !ok {
				return
			}
			cc := call.Call
			if cc.IsInvoke() || cc.StaticCallee() == nil || len(cc.Args) == 0 || !isMem(cc.Args[0]) {
				return
			}
			switch cc.StaticCallee().Name() {
			case "CompareAndSwap":
				pos, _ := EdgesOnValue(fn, func(v ssa.Value) bool { return v == ssa.Value(call) })
				casOK = append(casOK, pos...)
			case "Swap":
				swapSized = append(swapSized, EdgesWhere(fn, func(cond ssa.Value) (bool, bool) {
					b, ok := cond.(*ssa.BinOp)
					if !ok || (b.Op != token.EQL && b.Op != token.NEQ) {
						return false, false
					}
					var other ssa.Value
					if b.X == ssa.Value(call) {
						other = b.Y
					} else if b.Y == ssa.Value(call) {
						other = b.X
					} else {
						return false, false
					}
					if k, ok := constInt(other); ok && k == sized {
						return true, b.Op == token.EQL
					}
					return false, false
				})...)
			}
		})
		n := 0
		for _, call := range c.Calls(fn, false, nameIs("(*db.CacheMemoryController).incrementBytesCount")) {
			n++
			ok := len(casOK) > 0 && DominatedBy(fn, call, NewAvoid().AddEdge(casOK...))
			r.Check("C16-R2", fmt.Sprintf("fn=%s incrementBytesCount #%d on=CAS-success", c.FuncName(fn), n), c.Pos(call.Pos()), ok, "dominated by CompareAndSwap(Loading,Sized)==true", "bytes can be added to the shared counter without winning the Loading→Sized transition: a concurrently removed or already-sized item would be counted (twice)")
		}
		n = 0
		for _, call := range c.Calls(fn, false, nameIs("(*db.CacheMemoryController).decrementBytesCount")) {
			n++
			arg := callArgs(call)[0]
			// argument is getItemBytes() of a value → needs Swap==Sized edge; or an accumulated eviction count (result of _numberCapacityEviction / evictLRUTail)
			if cv, isCall := arg.(*ssa.Call); isCall && c.CalleeName(cv) == "(*db.revCacheValue).getItemBytes" {
				ok := len(swapSized) > 0 && DominatedBy(fn, call, NewAvoid().AddEdge(swapSized...))
				r.Check("C16-R2", fmt.Sprintf("fn=%s decrementBytesCount #%d on=Swap(Removed)==Sized", c.FuncName(fn), n), c.Pos(call.Pos()), ok, "dominated by Swap(Removed)==Sized", "bytes can be subtracted for an item whose bytes were never added (or subtracted twice)")
				continue
			}
			ok := DependsOn(arg, c.ResultOf(1, nameIs("(*db.LRURevisionCache)._numberCapacityEviction")))
			r.Check("C16-R2", fmt.Sprintf("fn=%s decrementBytesCount #%d amount=evicted-bytes", c.FuncName(fn), n), c.Pos(call.Pos()), ok, "amount is the byte count returned by the eviction", "decrement amount is neither a Sized item's bytes nor the eviction's byte count")
		}
		// accumulation / returns of getItemBytes guarded by swapSized
		if fn.Name() == "_numberCapacityEviction" || fn.Name() == "evictLRUTail" {
			k := 0
			for _, call := range c.Calls(fn, false, nameIs("(*db.revCacheValue).getItemBytes")) {
				k++
				ok := len(swapSized) > 0 && DominatedBy(fn, call, NewAvoid().AddEdge(swapSized...))
				r.Check("C16-R2", fmt.Sprintf("fn=%s evicted-bytes #%d on=Swap(Removed)==Sized", c.FuncName(fn), k), c.Pos(call.Pos()), ok, "bytes counted only for Sized items", "eviction counts bytes of an item whose bytes were never added")
			}
		}
		// itemBytes.Store precedes CAS in Put/Upsert
		if fn.Name() == "Put" || fn.Name() == "Upsert" {
			ibF := c.Field("db.revCacheValue", "itemBytes")
			var stores []ssa.Instruction
			EachInstr(fn, false, func(in ssa.Instruction) {
				if call, ok := in.(*ssa.Call); ok && !call.Call.IsInvoke() && call.Call.StaticCallee() != nil && call.Call.StaticCallee().Name() == "Store" && len(call.Call.Args) > 0 {
					if fa, ok := call.Call.Args[0].(*ssa.FieldAddr); ok && structField(fa.X.Type(), fa.Field) == ibF {
						stores = append(stores, call)
					}
				}
			})
			EachInstr(fn, false, func(in ssa.Instruction) {
				call, ok := in.(*ssa.Call)
				if !ok || call.Call.IsInvoke() || call.Call.StaticCallee() == nil || call.Call.StaticCallee().Name() != "CompareAndSwap" || len(call.Call.Args) == 0 || !isMem(call.Call.Args[0]) {
					return
				}
				ok2 := len(stores) > 0 && DominatedBy(fn, call, NewAvoid().AddInstr(stores...))
				r.Check("C16-R2", "fn="+c.FuncName(fn)+" itemBytes.Store before=CAS", c.Pos(call.Pos()), ok2, "size published before the state becomes Sized", "an item can become Sized before its size is stored: a concurrent removal would subtract a stale size")
			})
		}
	}
}

func c16R3R4(c *Ctx, r *Report) {
	r.Rule("C16-R3", "E2 pairing", "each insertion into / deletion from the lookup map is matched by cacheNumItems (±1) in the same function, or by the eviction count every caller of the eviction applies", 8)
	r.Rule("C16-R4", "E2 pathrules", "every insertion into the lookup map is followed on all paths by _numberCapacityEviction before the function returns (the cache lock is held until then)", 2)
	cacheF := c.Field("db.LRURevisionCache", "cache")
	numF := c.Field("db.LRURevisionCache", "cacheNumItems")
	isRet := func(in ssa.Instruction) bool { _, ok := in.(*ssa.Return); return ok }
	gaugeAdds := func(fn *ssa.Function) []ssa.CallInstruction {
		var out []ssa.CallInstruction
		EachInstr(fn, false, func(in ssa.Instruction) {
			if call, ok := in.(ssa.CallInstruction); ok && CalleeIdent(call) == "Add" && len(call.Common().Args) > 0 {
				if derivesFromField(call.Common().Args[0], numF) {
					out = append(out, call)
				}
			}
		})
		return out
	}
	for _, fn := range c.ScopeFuncs() {
		if c.File(TopLevel(fn).Pos()) != "db/revision_cache_lru.go" {
			continue
		}
		adds := gaugeAdds(fn)
		var addIns []ssa.Instruction
		for _, a := range adds {
			addIns = append(addIns, a)
		}
		evs := c.Calls(fn, false, nameIs("(*db.LRURevisionCache)._numberCapacityEviction"))
		var evIns []ssa.Instruction
		for _, e := range evs {
			evIns = append(evIns, e)
		}
		n := 0
		EachInstr(fn, false, func(in ssa.Instruction) {
			switch x := in.(type) {
			case *ssa.MapUpdate:
				if f, _ := fieldRead(x.Map); f != cacheF {
					return
				}
				n++
				// insertion: gauge +1 reachable after (conditional on new-item is allowed: some Add exists after), and eviction on all paths
				okGauge := ReachAfter(x, func(i ssa.Instruction) bool {
					for _, a := range addIns {
						if i == a {
							return true
						}
					}
					return false
				}, nil) != nil
				r.Check("C16-R3", fmt.Sprintf("fn=%s cache-insert #%d gauge+1", c.FuncName(fn), n), c.Pos(x.Pos()), okGauge, "item gauge adjusted after the insertion", "an item is inserted into the cache without the item gauge being incremented")
				leak := ReachAfter(x, isRet, NewAvoid().AddInstr(evIns...))
				r.Check("C16-R4", fmt.Sprintf("fn=%s cache-insert #%d then=capacity-eviction", c.FuncName(fn), n), c.Pos(x.Pos()), len(evIns) > 0 && leak == nil, "every path from the insertion to return runs the capacity eviction", "an insertion can return without the capacity eviction: the cache could exceed its configured capacity")
			case *ssa.Call:
				b, ok := x.Call.Value.(*ssa.Builtin)
				if !ok || b.Name() != "delete" {
					return
				}
				if f, _ := fieldRead(x.Call.Args[0]); f != cacheF {
					return
				}
				n++
				if fn.Name() == "_numberCapacityEviction" {
					// counted in the returned numItemsEvicted: the increment of result 0 must be on every path from the delete to the next loop test / return
					r.Pass("C16-R3", fmt.Sprintf("fn=%s cache-delete #%d counted-in=numItemsEvicted", c.FuncName(fn), n), c.Pos(x.Pos()), "returned to callers (checked below)")
					return
				}
				// a gauge Add(-1) on every path around the delete: dominates or post-dominates
				ok2 := false
				if len(addIns) > 0 {
					before := DominatedBy(fn, x, NewAvoid().AddInstr(addIns...))
					after := ReachAfter(x, isRet, NewAvoid().AddInstr(addIns...).AddEdge(flagInfeasibleEdges(fn, x)...)) == nil
					ok2 = before || after
				}
				r.Check("C16-R3", fmt.Sprintf("fn=%s cache-delete #%d gauge-1", c.FuncName(fn), n), c.Pos(x.Pos()), ok2, "item gauge decremented on every path through the deletion", "an item is deleted from the cache on a path that does not decrement the item gauge")
			}
		})
		// every call of the eviction applies its item count (directly or by returning it to a caller that does)
		for i, e := range evs {
			cv := e.(*ssa.Call)
			applied := false
			for _, a := range adds {
				if DependsOn(callArgs(a)[0], func(v ssa.Value) bool {
					ex, ok := v.(*ssa.Extract)
					return ok && ex.Tuple == ssa.Value(cv) && ex.Index == 0
				}) {
					applied = true
				}
			}
			returned := false
			for _, ret := range Returns(fn) {
				for ri, res := range ret.Results {
					if DependsOn(res, func(v ssa.Value) bool {
						ex, ok := v.(*ssa.Extract)
						return ok && ex.Tuple == ssa.Value(cv) && ex.Index == 0
					}) {
						// callers must apply result ri
						returned = c16CallersApply(c, fn, ri, numF)
					}
				}
			}
			r.Check("C16-R3", fmt.Sprintf("fn=%s eviction #%d item-count applied-to=gauge", c.FuncName(fn), i+1), c.Pos(e.Pos()), applied || returned, "evicted item count subtracted from the gauge", "items evicted for capacity are not subtracted from the item gauge")
		}
	}
}

func c16CallersApply(c *Ctx, fn *ssa.Function, resIdx int, numF *types.Var) bool {
	name := c.FuncName(fn)
	found := false
	okAll := true
	for _, g := range c.ScopeFuncs() {
		for _, call := range c.Calls(g, false, nameIs(name)) {
			found = true
			cv, ok := call.(*ssa.Call)
			if !ok {
				okAll = false
				continue
			}
			applied := false
			EachInstr(g, false, func(in ssa.Instruction) {
				a, ok := in.(ssa.CallInstruction)
				if !ok || CalleeIdent(a) != "Add" || len(a.Common().Args) < 2 {
					return
				}
				if !derivesFromField(a.Common().Args[0], numF) {
					return
				}
				if DependsOn(a.Common().Args[1], func(v ssa.Value) bool {
					ex, ok := v.(*ssa.Extract)
					return ok && ex.Tuple == ssa.Value(cv) && ex.Index == resIdx
				}) {
					applied = true
				}
			})
			if !applied {
				okAll = false
			}
		}
	}
	return found && okAll
}

func c16R5(c *Ctx, r *Report) {
	r.Rule("C16-R5", "E2 pathrules", "revision-cache invalidation precedes the write (inside the CAS callback, when the revision id is kept) and, on the mutation feed, precedes forwarding of the change", 2)
	isRemove := func(n string) bool {
		return n == "(db.RevisionCache).Remove" || n == "(*db.collectionRevisionCache).Remove" || n == "(*db.revisionCacheWrapper).Remove" || n == "(*db.collectionRevisionCache).RemoveWithCV" || n == "(*db.collectionRevisionCache).RemoveWithRev" || n == "(*db.collectionRevisionCache).RemoveRevOnly" || n == "(*db.collectionRevisionCache).RemoveCVOnly"
	}
	// CAS callback of updateAndReturnDoc
	top := c.Func("(*db.DatabaseCollectionWithUser).updateAndReturnDoc")
	if top == nil {
		r.Fail("C16-R5", "anchor updateAndReturnDoc", "-", "function not found")
	} else {
		found := false
		for _, lit := range top.AnonFuncs {
			rm := c.Calls(lit, false, isRemove)
			if len(rm) == 0 {
				continue
			}
			found = true
			// on the createNewRevIDSkipped-true edge every success return passes a Remove
			// the 'revision id kept' flag: the cell that receives the boolean result of documentUpdateFunc (identified by that role)
			keptCells := map[ssa.Value]bool{}
			for _, duf := range c.Calls(lit, false, nameIs("(*db.DatabaseCollectionWithUser).documentUpdateFunc")) {
				if refs := duf.(*ssa.Call).Referrers(); refs != nil {
					for _, rf := range *refs {
						if ex, isEx := rf.(*ssa.Extract); isEx && isBoolType(ex.Type()) {
							if exRefs := ex.Referrers(); exRefs != nil {
								for _, u := range *exRefs {
									if st, isSt := u.(*ssa.Store); isSt && st.Val == ssa.Value(ex) {
										keptCells[rootAddr(st.Addr)] = true
									}
								}
							}
						}
					}
				}
			}
			var skipTrue []Edge
			for _, i := range Ifs(lit) {
				v, pos := BoolTest(i.Cond)
				if ad, ok := loadOf(v); ok {
					if al, ok := rootAddr(ad).(*ssa.Alloc); ok && keptCells[al] {
						if pos {
							skipTrue = append(skipTrue, Edge{i.Block(), 0})
						} else {
							skipTrue = append(skipTrue, Edge{i.Block(), 1})
						}
					}
				}
			}
			okDom := len(skipTrue) > 0
			for _, call := range rm {
				if !DominatedBy(lit, call, NewAvoid().AddEdge(skipTrue...)) {
					okDom = false
				}
			}
			r.Check("C16-R5", "fn=updateAndReturnDoc$CAS-callback cache-remove when=revision-id-kept before=write", c.Pos(rm[0].Pos()), okDom, "the cached revision is dropped inside the callback, i.e. before the bucket write", "the cached revision is not invalidated before an update that keeps its revision id: stale channels would keep being served")
		}
		if !found {
			r.Fail("C16-R5", "fn=updateAndReturnDoc$CAS-callback cache-remove", c.Pos(top.Pos()), "an update that keeps the revision id no longer invalidates the cached revision before the write")
		}
	}
	dc := c.Func("(*db.changeCache).DocChanged")
	if dc == nil {
		r.Fail("C16-R5", "anchor DocChanged", "-", "function not found")
		return
	}
	rm := c.Calls(dc, false, isRemove)
	pes := c.Calls(dc, false, nameIs("(*db.changeCache).processEntry"))
	if len(rm) == 0 || len(pes) == 0 {
		r.Fail("C16-R5", "fn=(*db.changeCache).DocChanged cache-remove", c.Pos(dc.Pos()), "the mutation feed no longer invalidates cached revisions whose channels changed without a new revision")
		return
	}
	// the entry for the document's current revision is forwarded by the processEntry call(s) that follow the invalidations
	// (earlier calls forward unused / deduplicated sequences): no invalidation may be reachable after such a call
	okOrder := false
	deferred := false
	for _, x := range rm {
		if _, isDefer := x.(*ssa.Defer); isDefer {
			deferred = true
		}
	}
	for _, pe := range pes {
		if deferred {
			break
		}
		after := false
		for _, x := range rm {
			if ReachAfter(x, func(in ssa.Instruction) bool { return in == ssa.Instruction(pe) }, nil) != nil {
				after = true
			}
		}
		if !after {
			continue
		}
		okOrder = true
		for _, x := range rm {
			if ReachAfter(pe, func(in ssa.Instruction) bool { return in == ssa.Instruction(x) }, nil) != nil {
				okOrder = false
			}
		}
		if !okOrder {
			break
		}
	}
	r.Check("C16-R5", "fn=(*db.changeCache).DocChanged cache-remove before=processEntry", c.Pos(rm[0].Pos()), okOrder, fmt.Sprintf("%d invalidation site(s), all before the change is forwarded", len(rm)), "a cached revision is invalidated only after the change was forwarded to feeds: a reader woken by the feed could still be served the old channel information")
}

// derivesFromField: v is (an address inside / a load of) the given struct field.
func derivesFromField(v ssa.Value, fld *types.Var) bool {
	for i := 0; i < 6; i++ {
		switch x := v.(type) {
		case *ssa.FieldAddr:
			if structField(x.X.Type(), x.Field) == fld {
				return true
			}
			v = x.X
		case *ssa.Field:
			if structField(x.X.Type(), x.Field) == fld {
				return true
			}
			v = x.X
		case *ssa.UnOp:
			if x.Op != token.MUL {
				return false
			}
			v = x.X
		default:
			return false
		}
	}
	return false
}

// flagInfeasibleEdges handles the "did-it flag" idiom: `done := false; if … { <site>; done = true }; if done { … }`.
// For a branch on a boolean phi whose value along every path that passes through `site` is the constant true (false), the
// false (true) edge of that branch is infeasible after `site`.
func flagInfeasibleEdges(fn *ssa.Function, site ssa.Instruction) []Edge {
	var out []Edge
	reachBlock := map[*ssa.BasicBlock]bool{}
	reaches := func(p *ssa.BasicBlock) bool {
		if v, ok := reachBlock[p]; ok {
			return v
		}
		v := p == site.Block() || ReachAfter(site, func(in ssa.Instruction) bool { return in.Block() == p }, nil) != nil
		reachBlock[p] = v
		return v
	}
	// valAfter: the constant boolean value of v on every path that has passed `site` (0 unknown, 1 true, 2 false, 3 no information / self)
	var valAfter func(v ssa.Value, seen map[ssa.Value]bool) int
	valAfter = func(v ssa.Value, seen map[ssa.Value]bool) int {
		if k, ok := v.(*ssa.Const); ok && k.Value != nil {
			if k.Value.String() == "true" {
				return 1
			}
			return 2
		}
		phi, ok := v.(*ssa.Phi)
		if !ok {
			return 0
		}
		if seen[v] {
			return 3
		}
		seen[v] = true
		res := 3
		for pi, p := range phi.Block().Preds {
			if !reaches(p) {
				continue
			}
			// an edge whose source block is reachable from site only by first leaving through this very phi (loop) is handled by recursion
			x := valAfter(phi.Edges[pi], seen)
			if x == 3 {
				continue
			}
			if x == 0 {
				return 0
			}
			if res == 3 {
				res = x
			} else if res != x {
				return 0
			}
		}
		return res
	}
	for _, i := range Ifs(fn) {
		v, pos := BoolTest(i.Cond)
		if _, ok := v.(*ssa.Phi); !ok {
			continue
		}
		if !reaches(i.Block()) {
			continue
		}
		switch valAfter(v, map[ssa.Value]bool{}) {
		case 1: // v is true after site
			if pos {
				out = append(out, Edge{i.Block(), 1})
			} else {
				out = append(out, Edge{i.Block(), 0})
			}
		case 2:
			if pos {
				out = append(out, Edge{i.Block(), 0})
			} else {
				out = append(out, Edge{i.Block(), 1})
			}
		}
	}
	return out
}
