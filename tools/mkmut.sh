#!/bin/bash
# usage: mkmut.sh Cnn name "expect-rules" file sed-expr   — makes a mutant diff from a sed edit of one /repo file (repo untouched)
set -e
prop=$1; name=$2; expect=$3; file=$4; expr=$5
tmp=$(mktemp -d); mkdir -p $tmp/a/$(dirname $file) $tmp/b/$(dirname $file)
cp /repo/$file $tmp/a/$file; sed -E "$expr" /repo/$file > $tmp/b/$file
if cmp -s $tmp/a/$file $tmp/b/$file; then echo "NO CHANGE for $name"; rm -rf $tmp; exit 1; fi
mkdir -p /verif/mutants/$prop
{ echo "# expect: $expect"; (cd $tmp && diff -u a/$file b/$file || true); } > /verif/mutants/$prop/$name.diff
rm -rf $tmp; echo "wrote mutants/$prop/$name.diff"
