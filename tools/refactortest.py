#!/usr/bin/env python3
"""Behaviour-preserving variants of /repo (refactors/<Cnn>/*.diff: renamed locals, reordered independent statements, if/else inverted,
helper extracted …) are overlaid on /repo's current files and analysed with the property's rules: none may produce a violation that
the unchanged tree does not produce. usage: refactortest.py [Cnn ...] [-j N]; exit 1 if a refactor is reported."""
import sys,os,glob,re
sys.path.insert(0,os.path.dirname(__file__))
import selftest
from concurrent.futures import ThreadPoolExecutor
ROOT='/verif'
ALLPROPS=['C%02d'%i for i in range(1,21)]
def one(job):
    path,prop=job
    _,status,info=selftest.run_mutant(path,prop)
    return path+' @'+prop,status,info
def main():
    args=[a for a in sys.argv[1:] if not a.startswith('-')]
    j=4
    if '-j' in sys.argv: j=int(sys.argv[sys.argv.index('-j')+1]); args=[a for a in args if a!=str(j)]
    paths=[]
    for d in sorted(glob.glob(f'{ROOT}/refactors/C*')):
        if args and os.path.basename(d) not in args: continue
        paths+=[(p,os.path.basename(d)) for p in sorted(glob.glob(d+'/*.diff'))]
    # refactors/_all/*.diff are analysed with every property's rules (or the ones named on the command line)
    for p in sorted(glob.glob(f'{ROOT}/refactors/_all/*.diff')):
        for prop in (args or ALLPROPS):
            paths.append((p,prop))
    bad=0
    with ThreadPoolExecutor(j) as ex:
        for path,status,info in ex.map(one,paths):
            # 'MISSED' from selftest's point of view = no new violation = what we want here
            verdict={'MISSED':'silent (ok)','caught':'FALSE ALARM '+info,'stale':'stale patch','does-not-compile':'DOES NOT COMPILE'}[status]
            if status in('caught','does-not-compile'): bad+=1
            if status!='MISSED' or '-v' in sys.argv: print(f'{verdict:40s} {os.path.relpath(path,ROOT)}' + ('' if status!='does-not-compile' else '\n'+info))
    print(f'{len(paths)} behaviour-preserving variants, {bad} reported')
    sys.exit(1 if bad else 0)
if __name__=='__main__': main()
