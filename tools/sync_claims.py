#!/usr/bin/env python3
"""Keeps tools/claims.json 'text' equal to the explanation the check itself writes into evidence/<Cnn>.json (coverage.explanation),
then regenerates MANIFEST.json. Run after adding or changing rules and re-running the checks. usage: sync_claims.py [Cnn ...]"""
import json,sys,subprocess
claims=json.load(open('/verif/tools/claims.json'))
sel=set(sys.argv[1:])
n=0
for c in claims:
    pid=c['property_id']
    if sel and pid not in sel: continue
    try: ex=json.load(open(f'/verif/evidence/{pid}.json'))['coverage']['explanation']
    except Exception as e: print('skip',pid,e); continue
    if ex and ex!=c['text']:
        c['text']=ex; n+=1; print('updated',pid)
json.dump(claims,open('/verif/tools/claims.json','w'),indent=1)
subprocess.check_call(['python3','/verif/tools/gen_manifest.py'])
print(n,'claim text(s) updated')
