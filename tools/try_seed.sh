#!/bin/bash
# usage: try_seed.sh <patch.diff> <Cnn> [Cnn...]  — applies a seeded change to /repo, runs the named checks, restores /repo.
set -u
export PATH=/opt/veriftools/go1.26.8/bin:$PATH GOFLAGS=-mod=mod GOPROXY=off GOSUMDB=off GOTOOLCHAIN=local; unset GOWORK
patch=$1; shift
cd /repo && git apply "$patch" || { echo "patch does not apply"; exit 2; }
for p in "$@"; do
  echo "== $p with $(basename $(dirname $patch))"
  (cd /verif && bin/sgcheck -repo /repo -property $p -tier quick -no-evidence -verif /verif 2>&1 | grep -E "violated|^property|KNOWN" | cut -c1-330)
done
cd /repo && git checkout -- . && git status --short | head -3
