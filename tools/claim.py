#!/usr/bin/env python3
"""usage: claim.py Cnn 'technique' 'text' 'note' [level]   — registers/updates a claim and regenerates MANIFEST.json"""
import json,sys,subprocess
pid,tech,text,note=sys.argv[1:5]; level=sys.argv[5] if len(sys.argv)>5 else 'other'
claims=[c for c in json.load(open('/verif/tools/claims.json')) if c['property_id']!=pid]
claims.append({"property_id":pid,"level":level,"text":text,"note":note,"technique":tech})
json.dump(claims,open('/verif/tools/claims.json','w'),indent=1)
na=[n for n in json.load(open('/verif/tools/not_applicable.json')) if n['property_id']!=pid]
json.dump(na,open('/verif/tools/not_applicable.json','w'),indent=1)
subprocess.check_call(['python3','/verif/tools/gen_manifest.py'])
