#!/usr/bin/env python3
"""Runs every confirmed seeded change (seeded/<Cnn-X>/patch.diff, produced by independent sub-agents that saw only the property text)
through the checks, as an in-memory overlay of /repo's files (/repo is not touched), and records which rules report it.
usage: seedtest.py [Cnn-X ...] [-j N]   -> seeded/RESULTS.json + table on stdout; exit 1 if a seed is not reported by its own property's check."""
import sys,os,json,glob,re
sys.path.insert(0,os.path.dirname(__file__))
import selftest
from concurrent.futures import ThreadPoolExecutor
ROOT='/verif'
extra={'C06-B':['C17'],'C01-B':['C08'],'C20-B':['C17'],'C18-B':['C03'],'C02-A':[],'C07-B':['C11']}
def one(d):
    sid=os.path.basename(d); prop=sid.split('-')[0]
    out={}
    for p in [prop]+extra.get(sid,[]):
        path,status,info=selftest.run_mutant(os.path.join(d,'patch.diff'),p)
        out[p]={'status':status,'rules':info if status=='caught' else '', 'info':'' if status=='caught' else info[-300:]}
    return sid,out
def main():
    args=[a for a in sys.argv[1:] if not a.startswith('-')]
    j=4
    if '-j' in sys.argv: j=int(sys.argv[sys.argv.index('-j')+1]); args=[a for a in args if a!=str(j)]
    dirs=[d for d in sorted(glob.glob(f'{ROOT}/seeded/C*')) if os.path.exists(d+'/patch.diff') and not os.path.exists(d+'/superseded.json') and (not args or os.path.basename(d) in args)]
    res={}; bad=0
    with ThreadPoolExecutor(j) as ex:
        for sid,out in ex.map(one,dirs):
            res[sid]=out
            own=out[sid.split('-')[0]]
            if own['status']!='caught': bad+=1
            print(f"{sid:7s} "+'; '.join(f"{p}: {o['status']} {o['rules']}" for p,o in out.items()))
    if not args:
        json.dump(res,open(f'{ROOT}/seeded/RESULTS.json','w'),indent=1)
    print(f'{len(dirs)} seeded changes, {bad} not reported by their property\'s check')
    sys.exit(1 if bad else 0)
if __name__=='__main__': main()
