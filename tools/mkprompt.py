#!/usr/bin/env python3
# Builds the prompt given to an independent sub-agent that seeds a property-breaking change.
# The agent sees only the property text and its own scratch worktree.
import json,sys
pid=sys.argv[1]
p=[json.loads(l) for l in open('/verif/properties.jsonl') if json.loads(l)['id']==pid][0]
wt=sys.argv[2] if len(sys.argv)>2 else f"/tmp/wt/{pid}"
print(f"""You are working on a scratch git worktree of the Go project couchbase/sync_gateway at {wt} (Couchbase Sync Gateway: syncs JSON documents between Couchbase Lite and Couchbase Server; revision trees, channel access control, change feeds, replication). Work ONLY inside {wt} and your output directory {wt}-out. Never read or write /repo or /verif.

NEVER use `git stash` (the stash is shared between all worktrees of this repository and other people are working in sibling worktrees): to set a change aside use `git diff > /some/file; git checkout -- .` and later `git apply /some/file`.

Shell environment for every command (no network; nothing can be downloaded):
  export PATH=/opt/veriftools/go1.26.8/bin:$PATH GOFLAGS=-mod=mod GOPROXY=off GOSUMDB=off GOTOOLCHAIN=local; unset GOWORK
Tests run offline against the in-memory rosmar/walrus bucket, e.g. `go test -vet=off -count=1 -timeout 25m ./db/...` (the db and rest packages take several minutes each; use -run to iterate, then a full package run to confirm). The machine is shared with other jobs, so timing-sensitive tests (TestActiveReplicatorMultiCollection, TestChangesFeedOnInheritedChannelsFromRoles*, TestLateSequenceErrorRecovery, TestPostChangesAdminChannelGrantRemovalWithLimit) can fail on the clean tree too, and auth TestInitOIDCClient / TestConcurrentSetConfig and base TestLogFilePathWritable always fail in this sandbox (no network / running as root); re-run a suspicious failure in isolation and on the clean tree before drawing a conclusion.

PROPERTY ({pid}: {p['title']}):
{p['statement']}
(It must hold for all: {', '.join(p['quantifier']['over'])} — {p['quantifier']['text']})

TASK: produce TWO independent changes, A and B, to the NON-TEST source of sync_gateway, each of which breaks this property, using different mechanisms / different places in the code. Each change must:
 1. still compile (`go build ./...`) ;
 2. leave the existing test suite passing, unedited — at minimum run the complete test suites of every package you touched (and of `rest` if you touched `db` code used by it) with the change applied and confirm they pass (if something fails, check on a clean tree whether it is flaky/pre-existing; a change that makes an existing test fail is not acceptable — choose another change);
 3. be realistic and small: the kind of slip a maintainer makes in a refactor, optimisation or feature patch (a dropped check, a reordered step, a lock released early, an error logged instead of returned, a wrong variable, an off-by-one, a missed case) — a few lines, not sabotage, no new flags or env switches;
 4. need something specific to manifest — a particular interleaving, a fault or crash at a particular point, a multi-step sequence of operations, an unusual input, or two cooperating sites that each look fine alone — rather than something ordinary use would expose at once.
For each change write a demonstration: a NEW Go test file (new *_test.go in the right package, may use the package's existing test helpers, LeakyDataStore/leaky bucket fault injection, RestTester, etc.) that FAILS with the change applied and PASSES on the unchanged tree. Verify both directions yourself by running it.

DELIVERABLES, for X in A, B, in {wt}-out/X/ :
  patch.diff   — `git diff` of the source change ONLY (not the demo test); must apply with `git apply` to a clean checkout
  the demo test file(s), plus a line in meta.json saying at which repo-relative path each belongs
  meta.json    — {{"property":"{pid}","summary":...,"mechanism":...,"needs_to_manifest":...,"files_touched":[...],"demo":{{"path":...,"run":"go test ..."}},"commands_run":[...],"results":{{"demo_with_change":"FAIL","demo_without_change":"PASS","packages_tested_with_change":[...],"all_passed":true}}}}
When finished, restore the worktree to a clean state (`git checkout -- . && git clean -fd`) and reply with a short summary of A and B (what, where, why the suite misses it). Separately, mention anything you noticed in the UNCHANGED code that already looks like a violation of this property (file:line and scenario), if any. If after serious effort you can only produce one, deliver one and say so.""")
