#!/usr/bin/env python3
"""usage: explain.py <diff> <Cnn>  — overlays the diff on /repo's files and prints the violations the property's check reports (with details)."""
import sys,os,re,subprocess,tempfile,shutil
ROOT='/verif'; REPO=os.environ.get('VERIF_REPO','/repo')
path,prop=sys.argv[1],sys.argv[2]
txt=open(path).read()
files=re.findall(r'^\+\+\+ b/(\S+)',txt,re.M)
tmp=tempfile.mkdtemp(prefix='sgexp')
try:
    work=os.path.join(tmp,'w'); os.makedirs(work)
    for f in files:
        os.makedirs(os.path.dirname(os.path.join(work,f)),exist_ok=True)
        if os.path.exists(os.path.join(REPO,f)): shutil.copy(os.path.join(REPO,f),os.path.join(work,f))
    p=subprocess.run(['patch','-p1','-s','--no-backup-if-mismatch','-d',work],input=txt,text=True,capture_output=True)
    if p.returncode!=0: print('patch failed',p.stdout,p.stderr); sys.exit(2)
    ov=','.join(f"{os.path.join(REPO,f)}={os.path.join(work,f)}" for f in files)
    env=dict(os.environ,PATH='/opt/veriftools/go1.26.8/bin:'+os.environ['PATH'],GOFLAGS='-mod=mod',GOPROXY='off',GOSUMDB='off',GOTOOLCHAIN='local'); env.pop('GOWORK',None)
    p=subprocess.run([f'{ROOT}/bin/sgcheck','-repo',REPO,'-property',prop,'-tier','quick','-no-evidence','-verif',ROOT,'-overlay',ov],capture_output=True,text=True,env=env)
    out=p.stdout+p.stderr
    lines=out.split('\n')
    for i,l in enumerate(lines):
        if ' violated at ' in l or l.startswith('property') or 'type/load' in l: print(l); 
        if ' violated at ' in l and i+1<len(lines): print(lines[i+1][:600])
finally:
    shutil.rmtree(tmp,ignore_errors=True)
