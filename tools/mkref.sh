#!/bin/bash
# usage: mkref.sh Cnn name file sed-expr   — makes a behaviour-preserving variant diff (refactors/Cnn/name.diff) from a sed edit of one /repo file
set -e
prop=$1; name=$2; file=$3; expr=$4
tmp=$(mktemp -d); mkdir -p $tmp/a/$(dirname $file) $tmp/b/$(dirname $file)
cp /repo/$file $tmp/a/$file; sed -E "$expr" /repo/$file > $tmp/b/$file
if cmp -s $tmp/a/$file $tmp/b/$file; then echo "NO CHANGE for $name"; rm -rf $tmp; exit 1; fi
mkdir -p /verif/refactors/$prop
{ echo "# behaviour-preserving: must not be reported"; (cd $tmp && diff -u a/$file b/$file || true); } > /verif/refactors/$prop/$name.diff
rm -rf $tmp; echo "wrote refactors/$prop/$name.diff"
