#!/usr/bin/env python3
# Prompt for an independent sub-agent that produces behaviour-preserving refactorings of the code a property is anchored in.
import json,sys
wt=sys.argv[1]; pids=sys.argv[2:]
props=[json.loads(l) for l in open('/verif/properties.jsonl')]
sel=[p for p in props if p['id'] in pids]
print(f"""You are working on a scratch git worktree of the Go project couchbase/sync_gateway at {wt}. Work ONLY inside {wt} and your output directory {wt}-out. Never read or write /repo or /verif or other /tmp/wt directories.

NEVER use `git stash` (the stash is shared between all worktrees of this repository and other people are working in sibling worktrees): to set a change aside use `git diff > /some/file; git checkout -- .` and later `git apply /some/file`.

Shell environment for every command (no network; nothing can be downloaded):
  export PATH=/opt/veriftools/go1.26.8/bin:$PATH GOFLAGS=-mod=mod GOPROXY=off GOSUMDB=off GOTOOLCHAIN=local; unset GOWORK

TASK: act as a maintainer doing routine clean-up. For each property below produce THREE independent, *behaviour-preserving* refactorings of NON-TEST code in the functions the property's mechanism lives in (listed under 'where'). Each refactoring must keep the observable behaviour of sync_gateway exactly the same (same results, same errors, same ordering of side effects, same locking) — it must NOT weaken or break the property — while changing the shape of the code in a way a reviewer would accept. Use a different kind of refactoring for each of the three, chosen from:
  (a) rename local variables / parameters / named results / closure variables (not exported API, not struct fields);
  (b) extract a block of a function into a new helper function or method (or inline a small helper into its only caller);
  (c) restructure control flow without changing it: invert an if/else, replace if-chains by switch, turn `if err != nil {{ return err }}` ladders into early returns or the reverse, merge/split conditions (`a && b` into nested ifs), hoist a common sub-expression into a local, replace a closure by a method value or the reverse;
  (d) reorder statements that are provably independent, add or remove a debug log line, add a comment, change a `defer` into explicit calls on every exit only where that is exactly equivalent.
Keep each refactoring focused (10–60 changed lines), make sure it compiles (`go build ./...`) and that the tests that exercise the touched functions still pass (run the relevant tests with `go test -vet=off -count=1 -run '<pattern>' ./<pkg>/`; a full package run is not required, but do run enough to be confident — e.g. all tests whose name mentions the function/feature). Timing-sensitive tests may be flaky on this shared machine; auth TestInitOIDCClient/TestConcurrentSetConfig and base TestLogFilePathWritable always fail here.

PROPERTIES AND WHERE THEIR MECHANISM LIVES:
""")
for p in sel:
    print(f"- {p['id']}: {p['title']}\n  statement: {p['statement']}\n  where: files {', '.join(p['anchors']['files'])}; mechanisms: "+'; '.join(f"{m['name']} ({m['where']})" for m in p['anchors'].get('mechanism',[]))+"\n")
print(f"""DELIVERABLES: for each property Cnn and k in 1..3 write {wt}-out/Cnn-k.diff (output of `git diff` for that refactoring alone, applying with `git apply` to a clean checkout; restore the tree with `git checkout -- . && git clean -fd` between refactorings) and a line in {wt}-out/INDEX.md: `Cnn-k | kind (a/b/c/d) | functions touched | one-sentence description | tests run`. When finished restore the worktree to a clean state and reply with the INDEX.md content.""")
