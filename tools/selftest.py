#!/usr/bin/env python3
"""Checker self-test: each mutants/<Cnn>/<name>.diff is a one-instance-broken variant of /repo that still type-checks.
It is applied in memory (files patched into a temp dir and passed as a go/packages overlay — /repo is never touched) and
the property's check must report a VIOLATION naming the expected rule (first line of the diff: `# expect: <rule-id> [<rule-id>...]`).
usage: selftest.py [Cnn ...] [-j N]
Exit 0 iff every applicable mutant was caught. Mutants whose patch no longer applies are counted as 'stale', not failures."""
import sys,os,subprocess,tempfile,re,shutil,glob,json
from concurrent.futures import ThreadPoolExecutor
ROOT='/verif'; REPO=os.environ.get('VERIF_REPO','/repo')
_base={}
import threading
_lock=threading.Lock()
def baseline(prop):
    """violations (rule, construct) already reported on the unchanged tree (known findings under triage): a mutant only counts as
    caught if it produces a violation that is not in this set."""
    with _lock:
        if prop not in _base:
            env=dict(os.environ,PATH='/opt/veriftools/go1.26.8/bin:'+os.environ['PATH'],GOFLAGS='-mod=mod',GOPROXY='off',GOSUMDB='off',GOTOOLCHAIN='local')
            env.pop('GOWORK',None)
            p=subprocess.run([f'{ROOT}/bin/sgcheck','-repo',REPO,'-property',prop,'-tier','quick','-no-evidence','-verif',ROOT],capture_output=True,text=True,env=env)
            _base[prop]=set(re.findall(r'rule (\S+) violated at \S+ (.*)',p.stdout))
        return _base[prop]
def run_mutant(path,prop=None):
    prop=prop or os.path.basename(os.path.dirname(path))
    txt=open(path).read()
    m=re.match(r'# expect: (.*)\n',txt)
    expect=m.group(1).split() if m else []
    files=re.findall(r'^\+\+\+ b/(\S+)',txt,re.M)
    tmp=tempfile.mkdtemp(prefix='sgmut')
    try:
        ov=[]
        for f in files:
            dst=os.path.join(tmp,f.replace('/','__'))
            shutil.copy(os.path.join(REPO,f),dst)
            ov.append(f"{os.path.join(REPO,f)}={dst}")
        # apply the patch onto the copies
        work=os.path.join(tmp,'w'); os.makedirs(work)
        for f in files:
            os.makedirs(os.path.dirname(os.path.join(work,f)),exist_ok=True)
            shutil.copy(os.path.join(REPO,f),os.path.join(work,f))
        p=subprocess.run(['patch','-p1','-s','--no-backup-if-mismatch','-d',work],input=txt,text=True,capture_output=True)
        if p.returncode!=0:
            return (path,'stale',p.stdout+p.stderr)
        for f in files:
            shutil.copy(os.path.join(work,f),os.path.join(tmp,f.replace('/','__')))
        env=dict(os.environ,PATH='/opt/veriftools/go1.26.8/bin:'+os.environ['PATH'],GOFLAGS='-mod=mod',GOPROXY='off',GOSUMDB='off',GOTOOLCHAIN='local')
        env.pop('GOWORK',None)
        p=subprocess.run([f'{ROOT}/bin/sgcheck','-repo',REPO,'-property',prop,'-tier','quick','-no-evidence','-verif',ROOT,'-overlay',','.join(ov)],capture_output=True,text=True,env=env)
        out=p.stdout+p.stderr
        if 'type/load errors' in out:
            return (path,'does-not-compile',out[-600:])
        allv=set(re.findall(r'rule (\S+) violated at \S+ (.*)',out))
        new=allv-baseline(prop)
        fired={r for r,_ in new}
        if fired and (not expect or fired&set(expect)):
            return (path,'caught',' '.join(sorted(fired)))
        return (path,'MISSED',f'exit={p.returncode} fired={sorted(fired)} expected={expect}\n'+out[-400:])
    finally:
        shutil.rmtree(tmp,ignore_errors=True)
def main():
    summary=None
    if '--summary' in sys.argv:
        i=sys.argv.index('--summary'); summary=sys.argv[i+1]; del sys.argv[i:i+2]
    args=[a for a in sys.argv[1:] if not a.startswith('-')]
    j=4
    if '-j' in sys.argv: j=int(sys.argv[sys.argv.index('-j')+1]); args=[a for a in args if a!=str(j)]
    paths=[]
    for d in sorted(glob.glob(f'{ROOT}/mutants/C*')):
        if args and os.path.basename(d) not in args: continue
        paths+=sorted(glob.glob(d+'/*.diff'))
    bad=0; res=[]
    with ThreadPoolExecutor(j) as ex:
        for path,status,info in ex.map(run_mutant,paths):
            print(f'{status:16s} {os.path.relpath(path,ROOT)}  {info if status!="caught" else "-> "+info}')
            if status in('MISSED','does-not-compile'): bad+=1
            res.append({"mutant":os.path.relpath(path,ROOT),"status":status,"rules_fired":info if status=="caught" else ""})
    print(f'{len(paths)} mutants, {bad} not caught')
    if summary:
        json.dump({"mutants":len(res),"detected":sum(1 for r in res if r["status"]=="caught"),"stale_patch":sum(1 for r in res if r["status"]=="stale"),
                   "not_detected":[r["mutant"] for r in res if r["status"] in("MISSED","does-not-compile")],"results":res},open(summary,'w'),indent=1)
    sys.exit(1 if bad else 0)
if __name__=='__main__': main()
