#!/bin/bash
# runs every property's quick check on /repo; prints the failing ones; exit 1 if any fails. Use before every commit of /verif.
cd /verif; fail=0
for p in C01 C02 C03 C04 C05 C06 C07 C08 C09 C10 C11 C12 C13 C14 C15 C16 C17 C18 C19 C20; do
  ./run_check.sh $p quick > out/$p.log 2>&1 || { echo "FAIL $p: $(grep -c VIOLATION out/$p.log) violation(s)"; grep -A1 "violated" out/$p.log | cut -c1-220; fail=1; }
done
[ $fail = 0 ] && echo "all 20 quick checks pass on /repo $(git -C /repo log --format=%h -1)"
exit $fail
