#!/bin/bash
# usage: confirm_seed.sh <src-dir with patch.diff, meta.json, *_test.go> <seed-id e.g. C07-A> [full]
# Confirms independently, in a scratch worktree (removed afterwards): patch applies, tree builds, the demonstration fails with the
# change and passes without it, and (with "full") the complete test suites of the touched packages still pass with the change.
# On success copies the artefacts to /verif/seeded/<seed-id>/ and records what was run in confirm.json.
set -u
export PATH=/opt/veriftools/go1.26.8/bin:$PATH GOFLAGS=-mod=mod GOPROXY=off GOSUMDB=off GOTOOLCHAIN=local; unset GOWORK
src=$1; id=$2; full=${3:-}
wt=/tmp/wt/confirm-$id
git -C /repo worktree remove --force $wt >/dev/null 2>&1
git -C /repo worktree add --detach $wt HEAD >/dev/null 2>&1 || { echo "cannot create worktree"; exit 2; }
trap 'git -C /repo worktree remove --force $wt >/dev/null 2>&1' EXIT
cd $wt
demo_path=$(python3 -c "import json;m=json.load(open('$src/meta.json'));d=m['demo'];print(d['path'] if isinstance(d,dict) else d[0]['path'])")
demo_run=$(python3 -c "import json;m=json.load(open('$src/meta.json'));d=m['demo'];print(d['run'] if isinstance(d,dict) else d[0]['run'])")
demo_file=$(ls $src/*_test.go | head -1)
mkdir -p $(dirname $demo_path); cp $demo_file $demo_path
echo "[1] demo WITHOUT change: $demo_run"
( eval "$demo_run" ) > /tmp/wt/confirm-$id.without.log 2>&1; rc_without=$?
git apply $src/patch.diff || { echo "patch does not apply"; exit 2; }
echo "[2] build with change"; go build ./... || { echo "does not build"; exit 2; }
echo "[3] demo WITH change"
( eval "$demo_run" ) > /tmp/wt/confirm-$id.with.log 2>&1; rc_with=$?
echo "    demo without change rc=$rc_without (want 0), with change rc=$rc_with (want !=0)"
suite="not run"
if [ "$full" = full ]; then
  rm -f $demo_path
  pkgs=$(git diff --name-only | xargs -n1 dirname | sort -u | sed 's|^|./|; s|$|/...|' | tr '\n' ' ')
  echo "[4] existing suites of touched packages with change: $pkgs"
  go test -vet=off -count=1 -timeout 40m $pkgs > /tmp/wt/confirm-$id.suite.log 2>&1; rc_suite=$?
  suite="rc=$rc_suite: $(grep -E '^(ok|FAIL|---)' /tmp/wt/confirm-$id.suite.log | grep -v '^ok' | head -5 | tr '\n' ';')"
  echo "    suite $suite"
fi
if [ $rc_without -eq 0 ] && [ $rc_with -ne 0 ]; then
  mkdir -p /verif/seeded/$id; cp $src/patch.diff $src/meta.json $demo_file /verif/seeded/$id/
  python3 - <<PY
import json
json.dump({"seed":"$id","confirmed_by":"tools/confirm_seed.sh in scratch worktree $wt (removed)","demo_path":"$demo_path","demo_run":"$demo_run","demo_without_change_rc":$rc_without,"demo_with_change_rc":$rc_with,"builds_with_change":True,"existing_suites_with_change":"$suite"},open("/verif/seeded/$id/confirm.json","w"),indent=1)
PY
  echo "CONFIRMED $id -> /verif/seeded/$id"
else
  echo "NOT CONFIRMED $id"; tail -20 /tmp/wt/confirm-$id.without.log /tmp/wt/confirm-$id.with.log
fi
