#!/bin/bash
# usage: queue_confirm.sh Cnn-X [Cnn-X ...]  — waits for running confirmations to end, then confirms each seed (full suites) sequentially
for s in "$@"; do
  while pgrep -f confirm_seed.sh >/dev/null; do sleep 20; done
  p=${s%-*}; x=${s#*-}
  /verif/tools/confirm_seed.sh /tmp/wt/$p-out/$x $s full > /tmp/wt/confirm-$s.log 2>&1
done
