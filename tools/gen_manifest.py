#!/usr/bin/env python3
"""Regenerates MANIFEST.json from tools/claims.json (one entry per claimed property) and
tools/not_applicable.json. Keeps the manifest valid against /root/.vp/MANIFEST.schema.json."""
import json,os,sys
root='/verif'
claims=json.load(open(f'{root}/tools/claims.json'))
na=json.load(open(f'{root}/tools/not_applicable.json'))
props=[json.loads(l)['id'] for l in open(f'{root}/properties.jsonl')]
claimed={c['property_id'] for c in claims}
nap={n['property_id'] for n in na}
assert claimed.isdisjoint(nap), claimed&nap
assert claimed|nap==set(props), set(props)-(claimed|nap)
checks=[]
for c in sorted(claims,key=lambda c:c['property_id']):
    pid=c['property_id']
    checks.append({
        "property_id":pid,
        "quick_cmd":f"./run_check.sh {pid} quick",
        "thorough_cmd":f"./run_check.sh {pid} thorough",
        "evidence_file":f"/verif/evidence/{pid}.json",
        "replay_cmd_template":f"./run_check.sh {pid} quick --replay {{path}}",
        "engine":"sgcheck",
        "level_claimed":{"category":c.get('level','other'),"text":c['text'],"design_ref":c.get('design_ref',f"DESIGN.md §3 {pid}")},
        "level_note":c['note'],
        "technique":c['technique'],
    })
m={
 "version":1,
 "setup_cmd":"./setup.sh",
 "hooks":{"guard":"verif","enable":"none: nothing in /repo is instrumented; checks analyse the working tree's source as the default build sees it","baseline_off_cmd":"cd /repo && GOFLAGS=-mod=mod go test -vet=off -count=1 -timeout 25m ./... && (cd ruleguard && GOFLAGS=-mod=mod go test -vet=off -count=1 ./...)","source_commits":[],"add_only":True},
 "engines":[{"name":"sgcheck","path":"/verif/sgcheck","serves_properties":sorted(claimed),"kind_free_text":"repository-specific static analyser over go/packages + go/ssa (x/tools v0.50.0, vendored): dominance/control-dependence path rules, lockset analysis, who-may-write/call ownership rules, storage-error propagation analysis, gate-containment analysis, writer/reader table agreement, order-type abstract interpretation of comparison-only code"}],
 "checks":checks,
 "notes":"All verdicts are computed from the type-checked source of /repo's working tree on every run; nothing from sync_gateway is executed. See DESIGN.md.",
 "not_applicable":sorted(na,key=lambda n:n['property_id']),
}
json.dump(m,open(f'{root}/MANIFEST.json','w'),indent=1)
print("claimed",len(claimed),"not_applicable",len(nap))
